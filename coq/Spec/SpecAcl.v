(** The declarative policies of C06 and C11, as the property statements put them.

    C06: "when the server requires authentication, a connection can execute a command only if it is
    authenticated as an enabled user whose rules allow every category of the command, the command or
    subcommand itself, every key the command reads under the user's read patterns, every key it
    writes under the write patterns, and every pub/sub channel it names.  Only the handshake
    commands (AUTH, HELLO, PING, ECHO) are exempt."

    C11: "AUTH succeeds exactly when the named user exists, is enabled, and either is password-less
    or the supplied password equals one of the user's plaintext passwords or hashes to one of its
    SHA-256 entries." *)
From stdpp Require Import gmap strings.
From EV Require Import Base.Str Model.TableTypes Model.KeyFuncs Model.Acl.
Local Open Scope string_scope.
Local Open Scope list_scope.

(** What a command invocation asks for: the name compared with the command rules ("cmd" or
    "cmd|sub"), its categories, and the channels / read keys / write keys its key-extraction
    function reports. *)
Record request := Request {
  rq_comm : string; rq_cats : list string;
  rq_channels : list string; rq_reads : list string; rq_writes : list string;
}.

(** [None]: the key-extraction function refuses the argument vector (wrong arity): no request. *)
Definition request_of (parent : cmd_row) (sub : option cmd_row) (argv : list string) : option request :=
  match key_extract (cr_name parent) "" argv with
  | KxOk ch rd wr =>
      match sub with
      | None => Some (Request (cr_name parent) (cr_cats parent) ch rd wr)
      | Some s => match key_extract (cr_name s) (cr_sub s) argv with
                  | KxOk ch' rd' wr' => Some (Request (comm_of s) (cr_cats parent ++ cr_cats s) ch' rd' wr')
                  | _ => None
                  end
      end
  | _ => None
  end.

Definition handshake (comm : string) : Prop := lower comm ∈ ["auth"; "hello"; "ping"; "echo"; "ack"].

Section Policy.
  Variable glob_match : string -> string -> bool.
  Variable sha256 : string -> string.

  Definition matches (pats : list string) (s : string) : Prop := exists g, In g pats /\ glob_match g s = true.

  (** the user's rules allow the request *)
  Definition rules_allow (u : user) (rq : request) : Prop :=
    u_enabled u = true
    /\ (forall c, In c (rq_cats rq) -> In "*" (u_icat u) \/ In c (u_icat u))
    /\ (forall c, In c (rq_cats rq) -> ~ In "*" (u_xcat u) /\ ~ In c (u_xcat u))
    /\ (In "*" (u_icmd u) \/ In (rq_comm rq) (u_icmd u))
    /\ ~ (In "*" (u_xcmd u) \/ In (rq_comm rq) (u_xcmd u))
    /\ (In "pubsub" (rq_cats rq) ->
        forall ch, In ch (rq_channels rq) -> matches (u_ichan u) ch /\ ~ matches (u_xchan u) ch)
    /\ (~ In "pubsub" (rq_cats rq) -> rq_reads rq ++ rq_writes rq <> [] ->
        u_nokeys u = false
        /\ (forall k, In k (rq_reads rq) -> matches (u_rkeys u) k)
        /\ (forall k, In k (rq_writes rq) -> matches (u_wkeys u) k)).

  (** C06: the command may run on connection [c] *)
  Definition allowed (a : acl) (c : Z) (parent : cmd_row) (sub : option cmd_row) (argv : list string) : Prop :=
    exists rq, request_of parent sub argv = Some rq /\
      (handshake (rq_comm rq)
       \/ a_require a = false
       \/ exists r, a_conns a !! c = Some r /\ c_auth r = true /\ rules_allow (deref a (c_user r)) rq).

  (** C11: the credentials are good for the user table *)
  Definition auth_ok (a : acl) (name pw : string) : Prop :=
    exists p, find_user a name = Some p /\
      let u := deref a p in
      u_enabled u = true
      /\ (u_nopass u = true \/ In (Pw pw_plain pw) (u_pws u) \/ In (Pw pw_sha (sha256 pw)) (u_pws u)).

  (** * The same policy as a boolean, for the reference run *)
  Definition matches_b (pats : list string) (s : string) : bool := existsb (fun g => glob_match g s) pats.

  Definition rules_allow_b (u : user) (rq : request) : bool :=
    u_enabled u
    && forallb (fun c => mem "*" (u_icat u) || mem c (u_icat u)) (rq_cats rq)
    && forallb (fun c => negb (mem "*" (u_xcat u)) && negb (mem c (u_xcat u))) (rq_cats rq)
    && (mem "*" (u_icmd u) || mem (rq_comm rq) (u_icmd u))
    && negb (mem "*" (u_xcmd u) || mem (rq_comm rq) (u_xcmd u))
    && (if mem "pubsub" (rq_cats rq)
        then forallb (fun ch => matches_b (u_ichan u) ch && negb (matches_b (u_xchan u) ch)) (rq_channels rq)
        else match rq_reads rq ++ rq_writes rq with
             | [] => true
             | _ => negb (u_nokeys u) && forallb (matches_b (u_rkeys u)) (rq_reads rq)
                    && forallb (matches_b (u_wkeys u)) (rq_writes rq)
             end).

  Definition handshake_b (comm : string) : bool := mem (lower comm) ["auth"; "hello"; "ping"; "echo"; "ack"].

  Definition allowed_b (a : acl) (c : Z) (parent : cmd_row) (sub : option cmd_row) (argv : list string) : bool :=
    match request_of parent sub argv with
    | None => false
    | Some rq =>
        handshake_b (rq_comm rq) || negb (a_require a)
        || match a_conns a !! c with
           | Some r => c_auth r && rules_allow_b (deref a (c_user r)) rq
           | None => false
           end
    end.
End Policy.
