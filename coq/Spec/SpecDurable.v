(** Reference for C02 / C09: what a data directory may restore to.

    A history is the list of write commands the server executed and acknowledged, each with the
    database of its caller.  [dataset_after s0 h n] is the dataset after the first [n] of them.  The
    properties say, of every image of the data directory that a crash can leave:

      the restored dataset is [dataset_after s0 h j] for some [j], and [j] is at least the number of
      writes acknowledged before the crash whenever those are guaranteed to be on disk (process death
      under any policy; power loss under "always");

    and, for a clean restart or after a completed rewrite, [j = length h].  Datasets are compared as a
    client sees them ([same_view]: keys, types, values, deadlines, database placement). *)
From stdpp Require Import gmap strings.
From EV Require Import Base.Str Model.Value Model.Keyspace Model.Reply Model.Prog Model.Dispatch Model.Aof.
From EV Require Import Proofs.KeyspaceLemmas.
Local Open Scope Z_scope.

Definition wr := (Z * list string)%type.
Definition run_write (s : state) (w : wr) : state := fst (exec_db s (fst w) (snd w)).
Definition run_writes (s : state) (h : list wr) : state := fold_left run_write h s.
Definition dataset_after (s0 : state) (h : list wr) (n : nat) : state := run_writes s0 (firstn n h).

(** The acceptance predicate: [restored] is the dataset of a prefix that contains the first [acked]. *)
Definition durable (s0 : state) (h : list wr) (acked : nat) (restored : state) : Prop :=
  exists j, (acked <= j <= length h)%nat /\ same_view (dataset_after s0 h j) restored.

(** * Executable form used on implementation traces: datasets rendered as the harness renders them
    (keys, values, deadlines per database; no memory figure, no volatile-key index, empty databases
    dropped). *)
Definition show_db_view (s : state) (d : Z) : string :=
  let db := get_db s d in
  "db" +:+ show_Z d +:+ "{" +:+
  join " " (map (fun k => match db !! k with
                          | Some e => hexs k +:+ "=" +:+ show_value (e_val e) +:+ "@" +:+ show_dl (e_dl e)
                          | None => "" end) (sorted_keys db)) +:+ "}".
Definition view_dbs (s : state) : list Z :=
  Z_leb_sort (List.filter (fun d => negb (bool_decide (get_db s d = ∅))) (map fst (map_to_list (st_dbs s)))).
Definition show_view (s : state) : string := join " " ("mem=*" :: map (show_db_view s) (view_dbs s)).

(** Index of the newest prefix at or above [acked] whose view is [obs]; [states] holds the prefix
    datasets, oldest first. *)
Fixpoint find_prefix (states : list state) (i : nat) (acked : nat) (obs : string) : option nat :=
  match states with
  | [] => None
  | s :: r =>
      match find_prefix r (S i) acked obs with
      | Some j => Some j
      | None => if (acked <=? i)%nat && String.eqb (show_view s) obs then Some i else None
      end
  end.

(** Index of the oldest such prefix.  When several prefixes at or above [acked] show the observed view (a
    logged write that changed nothing, such as ZPOPMIN of an absent key), the observation does not say how
    many records the log still holds: anything between the oldest and the newest match. *)
Fixpoint find_prefix_oldest (states : list state) (i : nat) (acked : nat) (obs : string) : option nat :=
  match states with
  | [] => None
  | s :: r =>
      if (acked <=? i)%nat && String.eqb (show_view s) obs then Some i
      else find_prefix_oldest r (S i) acked obs
  end.
