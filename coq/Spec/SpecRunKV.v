(** Executable front end of the C01 reference (mode [spec01] of the runner), in the line protocol of
    [Spec/SpecRun.v].  The header "S <id> now=<ms>" gives the clock.  Initial view: one
    "V <hexkey> <canonical value> <deadline-ms>" line per live key of database 0 in the
    implementation's own digest.  "C <conn> <hex argv...>" is answered with the reference's reply,
    "G" with the reference's dataset in the digest format of [Keyspace.show_db]. *)
From stdpp Require Import gmap strings.
From RecordUpdate Require Import RecordSet.
Import RecordSetNotations.
From EV Require Import Base.Str Model.Value Model.Keyspace Model.Reply Model.Script Spec.SpecKV.
Local Open Scope Z_scope.

Definition parse_kview_line (m : kvspec) (line : string) : kvspec :=
  match split_words line with
  | ["V"; hk; v; dl] =>
      match unhex_arg hk, parse_value v, parse_int dl with
      | Some k, Some v', Some t => <[k := Entry v' (if t =? 0 then None else Some t)]> m
      | _, _, _ => m
      end
  | _ => m
  end.

Definition show_kv (now : Z) (m : kvspec) : string :=
  show_db ((init_state now) <| st_dbs := {[0 := m]} |>) 0.

Fixpoint spec01_events (now : Z) (m : kvspec) (lines : list string) : list string :=
  match lines with
  | [] => []
  | l :: r =>
      match split_words l with
      | "V" :: _ => spec01_events now (parse_kview_line m l) r
      | "C" :: _ :: args =>
          match unhex_all args with
          | Some argv => let '(m', x) := spec_kv now m argv in ("R " +:+ show_reply x) :: spec01_events now m' r
          | None => ("BAD " +:+ l) :: spec01_events now m r
          end
      | ["G"] => ("G " +:+ show_kv now m) :: spec01_events now m r
      | _ => spec01_events now m r
      end
  end.

Definition now_of_cfg (cfg : list string) : Z :=
  fold_left (fun acc kv => match cfg_value kv with
                           | Some ("now", v) => match parse_int v with Some z => z | None => acc end
                           | _ => acc end) cfg default_now.

Definition run_spec01 (lines : list string) : list string :=
  match lines with
  | [] => []
  | hdr :: body =>
      match split_words hdr with
      | "S" :: id :: cfg => ("S " +:+ id) :: spec01_events (now_of_cfg cfg) ∅ body ++ ["E"]
      | _ => ["BAD " +:+ hdr]
      end
  end.
