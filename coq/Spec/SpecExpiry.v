(** Reference semantics of expiry (C04), written from the property statement and
    [docs/docs/commands/generic/*.mdx]; it does not mention the model.

    A keyspace is, per database, a finite map from key to (opaque value token, optional deadline in
    unix milliseconds).  [expired now e] is *strict*: an entry whose deadline equals the clock is still
    served ("unobservable from the moment the server clock passes it").  What a client can see is
    [visible now s d k]; [purge now s] physically removes what cannot be seen, and the two always
    agree ([Proofs/ExpiryProofs.v]: [visible_purge]).

    The deadline commands are defined per key, as a function of the *visible* entry — which is the
    statement "treat it as missing whether or not background expiry has run" — without any table:
    - EXPIRE / PEXPIRE / EXPIREAT / PEXPIREAT key n [NX|XX|GT|LT]: the target is now+1000n, now+n,
      1000n, n; reply 0 for a missing key; NX: only if there is no deadline; XX: only if there is
      one; GT: only if the new one is greater than the current one (no deadline counts as infinite:
      never); LT: only if it is less (no deadline counts as infinite: always); reply 1 and the
      deadline is the target, else reply 0 and nothing changes;
    - PERSIST: 1 and no deadline if there was one, else 0;
    - PTTL / TTL: -2 missing, -1 no deadline, else deadline - now in milliseconds / the difference
      of the two unix-second stamps; PEXPIRETIME / EXPIRETIME: -2, -1, the deadline in ms / in s;
    - SET key v [NX|XX] [GET] [EX s|PX ms|EXAT s|PXAT ms]: refused under NX for a visible key, under
      XX for a missing one, under GET for a visible value that is not a string or number; the new
      entry has the given deadline, or — the documentation is silent, behaviour of the code adopted —
      keeps the deadline of the visible entry it replaces; a key that was missing (never there, or
      its deadline passed) gets *no* deadline: nothing is inherited;
    - GETEX key [PERSIST | EX s | PX ms | EXAT s | PXAT ms]: missing: nil; not a string or number:
      refused; else the value, and the deadline is removed / set to the target / left alone. *)
From stdpp Require Import gmap strings.
From EV Require Import Base.Str.
Local Open Scope Z_scope.

Section Spec.
Context {T : Type}.

Record sentry := SEntry { se_tok : T; se_dl : option Z }.

Definition expired (now : Z) (e : sentry) : bool :=
  match se_dl e with Some d => d <? now | None => false end.

Definition sdb := gmap string sentry.
Definition sks := gmap Z sdb.

Definition purge_db (now : Z) (db : sdb) : sdb :=
  base.filter (fun kv : string * sentry => expired now (snd kv) = false) db.
Definition purge (now : Z) (s : sks) : sks := purge_db now <$> s.

Definition sget (s : sks) (d : Z) : sdb := default ∅ (s !! d).
Definition visible (now : Z) (s : sks) (d : Z) (k : string) : option sentry :=
  match sget s d !! k with
  | Some e => if expired now e then None else Some e
  | None => None
  end.

(** * Times *)
Inductive tunit := Sec | Msec.
Definition to_ms (u : tunit) (n : Z) : Z := match u with Sec => n * 1000 | Msec => n end.
Definition of_ms (u : tunit) (t : Z) : Z := match u with Sec => t / 1000 | Msec => t end.
Inductive tspec := In (u : tunit) (n : Z) | At (u : tunit) (n : Z).
Definition deadline_of (now : Z) (t : tspec) : Z :=
  match t with In u n => now + to_ms u n | At u n => to_ms u n end.

(** * Conditions of EXPIRE & co. *)
Inductive cond := CAlways | CNX | CXX | CGT | CLT | CUnknown.
Definition cond_holds (c : cond) (cur : option Z) (t : Z) : bool :=
  match c, cur with
  | CAlways, _ => true
  | CNX, None => true | CNX, Some _ => false
  | CXX, None => false | CXX, Some _ => true
  | CGT, None => false | CGT, Some c => c <? t
  | CLT, None => true | CLT, Some c => t <? c
  | CUnknown, _ => false
  end.

Inductive sreply := SInt (z : Z) | SOk | SNil | SErr | SVal (t : T).

Inductive excond := ENone | ENX | EXX.
Inductive getex_opt := GxNone | GxPersist | GxSet (t : tspec) | GxBad.

Inductive dcmd :=
| DExpire (t : tspec) (c : cond)
| DPersist
| DTtl (u : tunit)
| DExpireTime (u : tunit)
| DSet (v : T) (ex : excond) (get : bool) (t : option tspec)
| DGetex (o : getex_opt).

Definition remaining (u : tunit) (now d : Z) : Z := of_ms u d - of_ms u now.

(** What a deadline command does to one key, given the entry a client can see there (so never an
    expired one), and what it replies.  [scalar] tells strings and numbers from the other types. *)
Definition spec_key (scalar : T -> bool) (now : Z) (cur : option sentry) (c : dcmd) : option sentry * sreply :=
  match c with
  | DExpire t cnd =>
      match cur with
      | None => (None, SInt 0)
      | Some e =>
          match cnd with
          | CUnknown => (cur, SErr)
          | _ => let d := deadline_of now t in
                 if cond_holds cnd (se_dl e) d then (Some (SEntry (se_tok e) (Some d)), SInt 1) else (cur, SInt 0)
          end
      end
  | DPersist =>
      match cur with
      | None => (None, SInt 0)
      | Some e => match se_dl e with
                  | None => (cur, SInt 0)
                  | Some _ => (Some (SEntry (se_tok e) None), SInt 1)
                  end
      end
  | DTtl u =>
      (cur, SInt match cur with
                 | None => -2
                 | Some e => match se_dl e with None => -1 | Some d => remaining u now d end
                 end)
  | DExpireTime u =>
      (cur, SInt match cur with
                 | None => -2
                 | Some e => match se_dl e with None => -1 | Some d => of_ms u d end
                 end)
  | DSet v ex get t =>
      let refused :=
        match ex, cur with
        | ENX, Some _ => true
        | EXX, None => true
        | _, _ => get && match cur with Some e => negb (scalar (se_tok e)) | None => false end
        end in
      if refused then (cur, SErr) else
      let dl := match t with
                | Some t => Some (deadline_of now t)
                | None => match cur with Some e => se_dl e | None => None end
                end in
      (Some (SEntry v dl),
       if get then match cur with Some e => SVal (se_tok e) | None => SNil end else SOk)
  | DGetex o =>
      match cur with
      | None => (None, SNil)
      | Some e =>
          if negb (scalar (se_tok e)) then (cur, SErr) else
          match o with
          | GxNone => (cur, SVal (se_tok e))
          | GxPersist => (Some (SEntry (se_tok e) None), SVal (se_tok e))
          | GxSet t => (Some (SEntry (se_tok e) (Some (deadline_of now t))), SVal (se_tok e))
          | GxBad => (cur, SErr)
          end
      end
  end.

(** On keyspaces. *)
Definition sput (s : sks) (d : Z) (k : string) (o : option sentry) : sks :=
  <[d := match o with Some e => <[k := e]> (sget s d) | None => delete k (sget s d) end]> s.
Definition spec_apply (scalar : T -> bool) (now : Z) (s : sks) (d : Z) (k : string) (c : dcmd) : sks * sreply :=
  let '(o, r) := spec_key scalar now (visible now s d k) c in (sput s d k o, r).

(** * Concrete syntax
    [None]: not a well-formed command of the family (arity, a number that is not an integer, an
    unknown SET option, two time options …): answered with an error, nothing changes.
    Adopted where the documentation is silent: names and option words are case-insensitive; an
    unknown fourth word of EXPIRE & co. is only diagnosed for a key that is there ([CUnknown]);
    GETEX with an option word but no number does nothing more than GET; GETEX PERSIST ignores a
    number; any other malformed GETEX option is diagnosed after the key has been read ([GxBad]). *)
Definition parse_cond (w : string) : cond :=
  let o := lower w in
  if String.eqb o "nx" then CNX else if String.eqb o "xx" then CXX
  else if String.eqb o "gt" then CGT else if String.eqb o "lt" then CLT else CUnknown.

Definition time_word (w : string) (n : Z) : option tspec :=
  let o := lower w in
  if String.eqb o "ex" then Some (In Sec n) else if String.eqb o "px" then Some (In Msec n)
  else if String.eqb o "exat" then Some (At Sec n) else if String.eqb o "pxat" then Some (At Msec n)
  else None.

Record set_spec := SetSpec { ss_ex : excond; ss_get : bool; ss_time : option tspec }.

Fixpoint parse_set_words (ws : list string) (o : set_spec) : option set_spec :=
  match ws with
  | [] => Some o
  | w :: rest =>
      let lw := lower w in
      if String.eqb lw "get" then parse_set_words rest (SetSpec (ss_ex o) true (ss_time o))
      else if String.eqb lw "nx" then
        match ss_ex o with ENone => parse_set_words rest (SetSpec ENX (ss_get o) (ss_time o)) | _ => None end
      else if String.eqb lw "xx" then
        match ss_ex o with ENone => parse_set_words rest (SetSpec EXX (ss_get o) (ss_time o)) | _ => None end
      else
        match rest with
        | [] => None
        | v :: rest' =>
            match ss_time o, parse_int v with
            | None, Some n =>
                match time_word w n with
                | Some t => parse_set_words rest' (SetSpec (ss_ex o) (ss_get o) (Some t))
                | None => None
                end
            | _, _ => None
            end
        end
  end.

Definition parse_dcmd (mk : string -> T) (argv : list string) : option (string * dcmd) :=
  match argv with
  | name :: key :: rest =>
      let nm := lower name in
      let expire (mkt : Z -> tspec) :=
        match rest with
        | [n] => (fun n => (key, DExpire (mkt n) CAlways)) <$> parse_int n
        | [n; c] => (fun n => (key, DExpire (mkt n) (parse_cond c))) <$> parse_int n
        | _ => None
        end in
      if String.eqb nm "expire" then expire (In Sec)
      else if String.eqb nm "pexpire" then expire (In Msec)
      else if String.eqb nm "expireat" then expire (At Sec)
      else if String.eqb nm "pexpireat" then expire (At Msec)
      else if String.eqb nm "persist" then match rest with [] => Some (key, DPersist) | _ => None end
      else if String.eqb nm "ttl" then match rest with [] => Some (key, DTtl Sec) | _ => None end
      else if String.eqb nm "pttl" then match rest with [] => Some (key, DTtl Msec) | _ => None end
      else if String.eqb nm "expiretime" then match rest with [] => Some (key, DExpireTime Sec) | _ => None end
      else if String.eqb nm "pexpiretime" then match rest with [] => Some (key, DExpireTime Msec) | _ => None end
      else if String.eqb nm "set" then
        match rest with
        | v :: ws =>
            if (4 <? length ws)%nat then None else
            (fun o => (key, DSet (mk v) (ss_ex o) (ss_get o) (ss_time o))) <$> parse_set_words ws (SetSpec ENone false None)
        | [] => None
        end
      else if String.eqb nm "getex" then
        match rest with
        | [] => Some (key, DGetex GxNone)
        | [w] => Some (key, DGetex (if String.eqb (upper w) "PERSIST" then GxPersist else GxNone))
        | [w; n] =>
            if String.eqb (upper w) "PERSIST" then Some (key, DGetex GxPersist) else
            Some (key, DGetex match parse_int n with
                              | Some n => match time_word w n with Some t => GxSet t | None => GxBad end
                              | None => GxBad
                              end)
        | _ => None
        end
      else None
  | _ => None
  end.

Definition deadline_family (name : string) : bool :=
  bool_decide (lower name ∈ ["expire"; "pexpire"; "expireat"; "pexpireat"; "persist"; "ttl"; "pttl";
                             "expiretime"; "pexpiretime"; "set"; "getex"]).

End Spec.
Arguments sentry : clear implicits.
Arguments sdb : clear implicits.
Arguments sks : clear implicits.
Arguments sreply : clear implicits.
Arguments dcmd : clear implicits.
