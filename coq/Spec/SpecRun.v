(** Executable front-ends for the reference specifications, in the same line protocol as the
    model runner.  They are the acceptance oracles applied to implementation traces: the initial
    view comes from the implementation's own digest ("V" lines), the commands are the script's. *)
From stdpp Require Import gmap strings.
From EV Require Import Base.Str Model.Value Model.Reply Model.Script Spec.SpecList.
Local Open Scope Z_scope.

(** "V <hexkey> l <hex>,<hex>,..."  |  "V <hexkey> l"  (empty list)  |  "V <hexkey> o" *)
Definition parse_lview_line (m : lspec) (line : string) : lspec :=
  match split_words line with
  | ["V"; hk; "o"] => match unhex_arg hk with Some k => <[k := LOther]> m | None => m end
  | ["V"; hk; "l"] => match unhex_arg hk with Some k => <[k := LList []]> m | None => m end
  | ["V"; hk; "l"; elems] =>
      match unhex_arg hk, unhex_all (split_on ","%char "" elems) with
      | Some k, Some l => <[k := LList l]> m
      | _, _ => m
      end
  | _ => m
  end.

Fixpoint spec15_events (m : lspec) (lines : list string) : list string :=
  match lines with
  | [] => []
  | l :: r =>
      match split_words l with
      | "V" :: _ => spec15_events (parse_lview_line m l) r
      | "C" :: _ :: args =>
          match unhex_all args with
          | Some argv => let '(m', x) := spec_list m argv in ("R " +:+ show_reply x) :: spec15_events m' r
          | None => ("BAD " +:+ l) :: spec15_events m r
          end
      | _ => spec15_events m r
      end
  end.

Definition run_spec15 (lines : list string) : list string :=
  match lines with
  | [] => []
  | hdr :: body =>
      match split_words hdr with
      | "S" :: id :: _ => ("S " +:+ id) :: spec15_events ∅ body ++ ["E"]
      | _ => ["BAD " +:+ hdr]
      end
  end.
