(** Line-protocol front end of the C17 reference (the acceptance oracle applied to implementation
    traces): the initial view comes from the implementation's own digest ("V" lines), the commands are
    the script's.  Modes: [run_spec17] (the statement and the documentation), [run_spec17p] (with the two
    pinned behaviours adopted; a trace accepted here but not there is inside a known finding). *)
From stdpp Require Import gmap strings.
From EV Require Import Base.Str Model.Value Model.Reply Model.Script Model.ZSetOps Spec.SpecZSet Spec.SpecZSetExt.
Local Open Scope Z_scope.

(** "V <hexkey> z <hexmember>:<score>,..."  |  "V <hexkey> z"  (empty set)  |  "V <hexkey> o" *)
Definition parse_zview_line (m : zspec) (line : string) : zspec :=
  match split_words line with
  | ["V"; hk; "o"] => match unhex_arg hk with Some k => <[k := ZOther]> m | None => m end
  | ["V"; hk; "z"] => match unhex_arg hk with Some k => <[k := ZSet ∅]> m | None => m end
  | ["V"; hk; "z"; elems] =>
      match unhex_arg hk, sequence_opt (map (parse_pair parse_fl) (split_commas elems)) with
      | Some k, Some l => <[k := ZSet (list_to_map l)]> m
      | _, _ => m
      end
  | _ => m
  end.

Fixpoint spec17_events (strict : bool) (m : zspec) (lines : list string) : list string :=
  match lines with
  | [] => []
  | l :: r =>
      match split_words l with
      | "V" :: _ => spec17_events strict (parse_zview_line m l) r
      | "C" :: _ :: args =>
          match unhex_all args with
          | Some argv => let '(m', x) := spec_zset_ext strict m argv in
                         ("R " +:+ show_reply x) :: spec17_events strict m' r
          | None => ("BAD " +:+ l) :: spec17_events strict m r
          end
      | _ => spec17_events strict m r
      end
  end.

Definition run_spec17_gen (strict : bool) (lines : list string) : list string :=
  match lines with
  | [] => []
  | hdr :: body =>
      match split_words hdr with
      | "S" :: id :: _ => ("S " +:+ id) :: spec17_events strict ∅ body ++ ["E"]
      | _ => ["BAD " +:+ hdr]
      end
  end.
Definition run_spec17 := run_spec17_gen true.
Definition run_spec17p := run_spec17_gen false.
