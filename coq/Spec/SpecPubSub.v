(** C18 — reference semantics of Pub/Sub.

    The subscription table is a finite set of pairs (connection, target), a target being a channel
    name or a glob pattern.  Next to it the reference remembers in which order targets were first
    subscribed to on the server ([ord]): only the *order* of the confirmations inside an
    UNSUBSCRIBE reply and of the names in PUBSUB CHANNELS follows it (adopted: pinned by
    Test_HandleUnsubscribe; both are compared as sets by the check).

    - (P)SUBSCRIBE: one confirmation per argument, carrying the number of subscriptions (channels
      and patterns) of the connection after that argument — the running count.
    - (P)UNSUBSCRIBE: drops exactly the named channels (resp. patterns) of that kind the connection
      has, all of that kind when none is named; one confirmation per subscription dropped, numbered
      1, 2, … (adopted: Test_HandleUnsubscribe pins this numbering); nothing for a name the
      connection is not subscribed to (adopted, same test).
    - PUBLISH ch m: exactly one frame for every connection that has [Chan ch] or a [Pat g] with g
      matching ch *at that instant*, none for anybody else.  The frame names the channel when the
      connection has [Chan ch], otherwise the first matching pattern in [ord] (adopted: a pattern
      subscriber is told the pattern, api_pubsub_test).
    - every connection receives its frames in the order the commands were executed (which implies
      FIFO per publisher and channel).
    - CHANNELS / NUMSUB / NUMPAT are functions of the table.
    - a connection that goes away is subscribed to nothing. *)
From stdpp Require Import gmap.
From EV Require Import Base.Str Model.Reply Model.PubSub.
Local Open Scope string_scope.
Local Open Scope list_scope.

Inductive target := Chan (n : string) | Pat (g : string).
Global Instance target_eq_dec : EqDecision target.
Proof. solve_decision. Defined.
Global Instance target_countable : Countable target.
Proof.
  refine (inj_countable' (fun t => match t with Chan n => (false, n) | Pat g => (true, g) end)
                         (fun p => if p.1 then Pat p.2 else Chan p.2) _).
  by intros [].
Defined.

Definition tname (t : target) : string := match t with Chan n => n | Pat g => g end.
Definition is_pat (t : target) : bool := match t with Chan _ => false | Pat _ => true end.
Definition mk_target (pat : bool) (n : string) : target := if pat then Pat n else Chan n.

Record sst := MkS { subs : gset (conn * target); ord : list target }.
Definition sst_init : sst := MkS ∅ [].

Section WithGlob.
Variable glob_ok : string -> bool.
Variable glob_match : string -> string -> bool.

(** number of subscriptions of a connection; number of subscribers of a target *)
Definition count_of (S : gset (conn * target)) (c : conn) : nat :=
  size (base.filter (fun p => p.1 = c) S).
Definition subscribers_of (S : gset (conn * target)) (t : target) : nat :=
  size (base.filter (fun p => p.2 = t) S).
Definition has_sub (S : gset (conn * target)) (t : target) : bool :=
  bool_decide (base.filter (fun p => p.2 = t) S ≠ ∅).

Definition note (ord : list target) (t : target) : list target :=
  if bool_decide (t ∈ ord) then ord else ord ++ [t].

Fixpoint s_subscribe (pat : bool) (c : conn) (names : list string) (s : sst) : sst * list frame :=
  match names with
  | [] => (s, [])
  | n :: rest =>
      let t := mk_target pat n in
      let S1 := {[ (c, t) ]} ∪ subs s in
      let f := FConfirm (sub_action pat) n (count_of S1 c) in
      let '(s2, fs) := s_subscribe pat c rest (MkS S1 (note (ord s) t)) in
      (s2, f :: fs)
  end.

(** the subscriptions an (P)UNSUBSCRIBE concerns *)
Definition concerned (pat : bool) (c : conn) (names : list string) (p : conn * target) : Prop :=
  p.1 = c ∧ is_pat p.2 = pat ∧ (names = [] ∨ tname p.2 ∈ names).
Global Instance concerned_dec pat c names p : Decision (concerned pat c names p).
Proof. unfold concerned. apply _. Defined.

Definition s_unsub_subs (pat : bool) (c : conn) (names : list string) (S : gset (conn * target)) :=
  base.filter (fun p => ¬ concerned pat c names p) S.
Definition s_unsub_dropped (pat : bool) (c : conn) (names : list string) (s : sst) : list target :=
  base.filter (fun t => concerned pat c names (c, t) ∧ (c, t) ∈ subs s) (ord s).

(** does a subscription to [t] receive what is published to [chn]? *)
Definition tmatch (chn : string) (t : target) : bool :=
  match t with Chan n => String.eqb n chn | Pat g => glob_match g chn end.

(** the recipients of a publish: the property's "subscribed to that channel or to a pattern
    matching it" *)
Definition recipient (S : gset (conn * target)) (chn : string) (c : conn) : Prop :=
  ∃ t, (c, t) ∈ S ∧ tmatch chn t = true.

(** under which name the connection is told: the channel first, then the patterns, in [ord] *)
Definition via (s : sst) (chn : string) (c : conn) : option target :=
  List.find (fun t => bool_decide ((c, t) ∈ subs s) && tmatch chn t)
            (List.filter (fun t => negb (is_pat t)) (ord s) ++ List.filter is_pat (ord s)).

Definition s_publish_out (s : sst) (chn msg : string) (c : conn) : list frame :=
  match via s chn c with
  | Some t => [FMsg (tname t) msg]
  | None => []
  end.

Definition active_targets (s : sst) : list target := List.filter (has_sub (subs s)) (ord s).

Definition s_channels (arg : option string) (s : sst) : reply :=
  let all := RArr (map (fun t => RBulk (tname t)) (active_targets s)) in
  match arg with
  | None => all
  | Some "" => all
  | Some p =>
      if glob_ok p then
        RArr (map (fun t => RBulk (tname t))
                (List.filter (fun t => (is_pat t && String.eqb (tname t) p) || glob_match p (tname t))
                   (active_targets s)))
      else RErr
  end.

Definition s_numpat (s : sst) : reply :=
  RInt (Z.of_nat (length (List.filter is_pat (active_targets s)))).

Definition s_numsub (names : list string) (s : sst) : reply :=
  RArr (map (fun n => RArr [RBulk n;
            RInt (Z.of_nat (subscribers_of (subs s) (Chan n) + subscribers_of (subs s) (Pat n)))]) names).

(** One event: new table, the reply, the frames each connection is owed because of it. *)
Definition s_step (s : sst) (e : event) : sst * reply * (conn -> list frame) :=
  match e with
  | ESub pat c names =>
      if is_nil names then (s, RErr, fun _ => [])
      else if pat && negb (forallb glob_ok names) then (s, RErr, fun _ => [])
      else let '(s', fs) := s_subscribe pat c names s in
           (s', REmpty, fun c' => if Nat.eqb c' c then fs else [])
  | EUnsub pat c names =>
      (MkS (s_unsub_subs pat c names (subs s)) (ord s),
       unsub_reply pat (map tname (s_unsub_dropped pat c names s)), fun _ => [])
  | EPublish _ chn msg => (s, ROk, s_publish_out s chn msg)
  | EChannels arg => (s, s_channels arg s, fun _ => [])
  | ENumPat => (s, s_numpat s, fun _ => [])
  | ENumSub names => (s, s_numsub names s, fun _ => [])
  | EWrite _ => (s, REmpty, fun _ => [])
  | EClose c => (MkS (base.filter (fun p => p.1 ≠ c) (subs s)) (ord s), REmpty, fun _ => [])
  end.

(** A history: replies, and for every connection the frames it is owed, in order. *)
Fixpoint s_run (s : sst) (evs : list event) : sst * list reply * (conn -> list frame) :=
  match evs with
  | [] => (s, [], fun _ => [])
  | e :: rest =>
      let '(s1, r, out) := s_step s e in
      let '(s2, rs, outs) := s_run s1 rest in
      (s2, r :: rs, fun c => out c ++ outs c)
  end.

End WithGlob.
