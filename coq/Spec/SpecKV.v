(** C01 reference: the keyspace of one database is a finite map from key to (typed value, deadline);
    every command of the C01 alphabet is one clause on that map.  A read returns what was last
    written, an absent key reads as nil, counters are computed in [Z] (resp. on exact rationals),
    a command on a value of the wrong type or with invalid arguments answers [RErr] and returns the
    map it was given, string values are the bytes that were written.

    The type of a written scalar is a function of its bytes ([typed], i.e. [AdaptValue]: "SET ...
    considering the value's type", docs/commands/generic/set.mdx; TYPE names string / integer /
    float): the canonical decimal numeral of an int64 is an integer, a canonical plain decimal is
    a float, every other byte string is a string.  A counter is an integer.

    Only live keys are in the map: storing an entry whose deadline has already passed leaves the
    key absent ([put]).  [now] is the server clock (constant inside a C01 script; time is C04). *)
From stdpp Require Import gmap strings.
From Coq Require Import QArith.
From EV Require Import Base.Str Model.Value Model.Adapt Model.Keyspace Model.Reply.
Local Open Scope Z_scope.

Notation kvspec := (gmap string entry).   (* key -> (typed value, optional deadline in unix ms) *)

Definition typed (bytes : string) : value := VScal (adapt_value bytes).
Definition dl_at (m : kvspec) (k : string) : option Z :=
  match m !! k with Some e => e_dl e | None => None end.

(** A string or a number is replied as a bulk string of its bytes / its decimal text; values of the
    other five types are not readable by the string commands. *)
Definition bulk_of (v : value) : option reply :=
  match v with
  | VScal (SStr s) => Some (RBulk s)
  | VScal (SInt z) => Some (RBulk (show_Z z))
  | VScal (SFloat f) => Some (match fl_text f with Some t => RBulk t | None => RFloat f end)
  | _ => None
  end.

(** Binding [k] to a value with a deadline: an entry whose deadline has passed is not there. *)
Definition put (now : Z) (m : kvspec) (k : string) (v : value) (dl : option Z) : kvspec :=
  match dl with
  | Some t => if t <? now then delete k m else <[k := Entry v dl]> m
  | None => <[k := Entry v None]> m
  end.
(** Overwriting the value keeps the deadline of the live entry (adopted: plain SET, MSET, APPEND,
    SETRANGE, INCR... do not touch the time to live). *)
Definition overwrite_val (m : kvspec) (k : string) (v : value) : kvspec :=
  <[k := Entry v (dl_at m k)]> m.

(** * SET options: [NX | XX] [GET] [EX s | PX ms | EXAT s | PXAT ms], any order, any letter case,
    at most one of NX/XX, at most one expiry, numbers are int64 decimals. *)
Inductive cond := CAlways | CNX | CXX.
Record sopts := SOpts { o_cond : cond; o_get : bool; o_dl : option Z }.

Fixpoint set_options (now : Z) (ws : list string) (o : sopts) : option sopts :=
  match ws with
  | [] => Some o
  | w :: rest =>
      let lw := lower w in
      if String.eqb lw "get" then set_options now rest (SOpts (o_cond o) true (o_dl o))
      else if String.eqb lw "nx" then
        match o_cond o with CAlways => set_options now rest (SOpts CNX (o_get o) (o_dl o)) | _ => None end
      else if String.eqb lw "xx" then
        match o_cond o with CAlways => set_options now rest (SOpts CXX (o_get o) (o_dl o)) | _ => None end
      else if String.eqb lw "ex" || String.eqb lw "px" || String.eqb lw "exat" || String.eqb lw "pxat" then
        let mk (n : Z) := if String.eqb lw "ex" then now + n * 1000 else if String.eqb lw "px" then now + n
                          else if String.eqb lw "exat" then n * 1000 else n in
        match rest, o_dl o with
        | v :: rest', None =>
            match parse_int v with
            | Some n => set_options now rest' (SOpts (o_cond o) (o_get o) (Some (mk n)))
            | None => None
            end
        | _, _ => None
        end
      else None
  end.

(** * Counters *)
(** The integer a value stands for: an integer, or a string that reads as an int64 decimal. *)
Definition int_of (v : value) : option Z :=
  match v with
  | VScal (SInt z) => Some z
  | VScal (SStr s) => parse_int s
  | _ => None
  end.
Definition counter (m : kvspec) (k : string) (delta : Z) : kvspec * reply :=
  let store (n : Z) := if in_int64 n then (overwrite_val m k (VInt n), RInt n) else (m, RErr) in
  match m !! k with
  | None => store delta
  | Some e => match int_of (e_val e) with Some c => store (c + delta) | None => (m, RErr) end
  end.

(** The number a value stands for, as an extended rational. *)
Definition float_of (v : value) : option fl :=
  match v with
  | VScal (SInt z) => Some (FFin (inject_Z z))
  | VScal (SFloat f) => Some f
  | VScal (SStr s) => match parse_float_arg s with Some q => Some (FFin q) | None => None end
  | _ => None
  end.

(** * Byte ranges *)
Definition bytes_sub (s : string) (lo hi : Z) : string := of_chars (slice (chars s) lo hi).
Definition bytes_rev (s : string) : string := of_chars (rev (chars s)).
(** SETRANGE on an existing string (adopted where the docs are silent: an offset at or past the end
    appends without padding, a negative offset prepends). *)
Definition set_range (str new : string) (offset : Z) : string :=
  if slen str <=? offset then str +:+ new
  else if offset <? 0 then new +:+ str
  else of_chars (zfirstn offset (chars str) ++ chars new ++ zskipn (offset + zlen (chars new)) (chars str)).
(** GETRANGE / SUBSTR: negative indices count from the end, the end index is inclusive, both are
    clamped to the string; a start behind the end yields the bytes in between reversed (adopted). *)
Definition get_range (value : string) (start0 end0 : Z) : string :=
  let len := slen value in
  let s1 := if start0 <? 0 then len - Z.abs start0 else start0 in
  let e1 := if end0 <? 0 then len - Z.abs end0 else end0 in
  let e2 := if (0 <=? e1) && (s1 <=? e1) then e1 + 1 else e1 in
  let e3 := if len <? e2 then len else e2 in
  let s2 := if s1 <? 0 then 0 else s1 in
  let s3 := if len <? s2 then len else s2 in
  let e4 := if e3 <? 0 then 0 else e3 in
  if e4 <? s3 then bytes_rev (bytes_sub value e4 s3) else bytes_sub value s3 e4.

Definition type_reply (v : value) : reply :=
  match v with
  | VNil => RPanic
  | VScal (SStr _) => RSimple "string"
  | VScal (SInt _) => RSimple "integer"
  | VScal (SFloat _) => RSimple "float"
  | VList _ => RSimple "list"
  | VHash _ => RSimple "hash"
  | VSet _ => RSimple "set"
  | VZSet _ => RSimple "zset"
  end.

Fixpoint mset_all (m : kvspec) (args : list string) : kvspec :=
  match args with
  | k :: v :: rest => mset_all (overwrite_val m k (typed v)) rest
  | _ => m
  end.

(** Reading a string/number for GET-like commands. *)
Inductive rd := RdAbsent | RdBulk (e : entry) (r : reply) | RdWrong.
Definition read_bulk (m : kvspec) (k : string) : rd :=
  match m !! k with
  | None => RdAbsent
  | Some e => match bulk_of (e_val e) with Some r => RdBulk e r | None => RdWrong end
  end.

(** * One command *)
Definition spec_kv (now : Z) (m : kvspec) (argv : list string) : kvspec * reply :=
  match argv with
  | [] => (m, RErr)
  | cmd :: args =>
    let c := lower cmd in
    if String.eqb c "set" then
      match args with
      | k :: v :: opts =>
          if (4 <? length opts)%nat then (m, RErr) else
          match set_options now opts (SOpts CAlways false None) with
          | None => (m, RErr)
          | Some o =>
              let write (res : reply) :=
                match o_cond o, m !! k with
                | CXX, None => (m, RErr)
                | CNX, Some _ => (m, RErr)
                | _, _ => (match o_dl o with
                           | Some t => put now m k (typed v) (Some t)
                           | None => overwrite_val m k (typed v)
                           end, res)
                end in
              if o_get o then
                match read_bulk m k with
                | RdAbsent => write RNil
                | RdBulk _ r => write r
                | RdWrong => (m, RErr)
                end
              else write ROk
          end
      | _ => (m, RErr)
      end
    else if String.eqb c "mset" then
      if Nat.even (length args) then (mset_all m args, ROk) else (m, RErr)
    else if String.eqb c "get" then
      match args with
      | [k] => match read_bulk m k with RdAbsent => (m, RNil) | RdBulk _ r => (m, r) | RdWrong => (m, RErr) end
      | _ => (m, RErr)
      end
    else if String.eqb c "mget" then
      match args with
      | [] => (m, RErr)
      | _ => (m, RArr (map (fun k => match read_bulk m k with RdBulk _ r => r | _ => RNil end) args))
      end
    else if String.eqb c "del" then
      match args with
      | [] => (m, RErr)
      | _ => (foldr delete m args,
              RInt (zlen (List.filter (fun k => bool_decide (is_Some (m !! k))) (remove_dups args))))
      end
    else if String.eqb c "incr" then
      match args with [k] => counter m k 1 | _ => (m, RErr) end
    else if String.eqb c "decr" then
      match args with [k] => counter m k (-1) | _ => (m, RErr) end
    else if String.eqb c "incrby" then
      match args with
      | [k; n] => match parse_int n with Some i => counter m k i | None => (m, RErr) end
      | _ => (m, RErr)
      end
    else if String.eqb c "decrby" then
      match args with
      | [k; n] => match parse_int n with Some i => counter m k (- i) | None => (m, RErr) end
      | _ => (m, RErr)
      end
    else if String.eqb c "incrbyfloat" then
      match args with
      | [k; n] =>
          match parse_float_arg n with
          | None => (m, RErr)
          | Some inc =>
              let store (f : fl) :=
                match fl_text f with
                | Some t => (overwrite_val m k (typed t), RBulk t)
                | None => (m, RPanic)   (* more decimals than the modelled float text has: unspecified *)
                end in
              match m !! k with
              | None => store (FFin inc)
              | Some e => match float_of (e_val e) with
                          | Some c => store (fl_add c (FFin inc))
                          | None => (m, RErr)
                          end
              end
          end
      | _ => (m, RErr)
      end
    else if String.eqb c "append" then
      match args with
      | [k; v] =>
          match m !! k with
          | None => (overwrite_val m k (typed v), RInt (slen v))
          | Some e => match e_val e with
                      | VScal (SStr cur) => (overwrite_val m k (typed (cur +:+ v)), RInt (slen (cur +:+ v)))
                      | _ => (m, RErr)
                      end
          end
      | _ => (m, RErr)
      end
    else if String.eqb c "setrange" then
      match args with
      | [k; off; v] =>
          match parse_int off with
          | None => (m, RErr)
          | Some offset =>
              match m !! k with
              | None => (overwrite_val m k (typed v), RInt (slen v))
              | Some e => match e_val e with
                          | VScal (SStr cur) =>
                              let r := set_range cur v offset in (overwrite_val m k (typed r), RInt (slen r))
                          | _ => (m, RErr)
                          end
              end
          end
      | _ => (m, RErr)
      end
    else if String.eqb c "getrange" || String.eqb c "substr" then
      match args with
      | [k; s; e] =>
          match parse_int s, parse_int e, m !! k with
          | Some s', Some e', Some ent =>
              match e_val ent with
              | VScal (SStr cur) => (m, RBulk (get_range cur s' e'))
              | _ => (m, RErr)
              end
          | _, _, _ => (m, RErr)
          end
      | _ => (m, RErr)
      end
    else if String.eqb c "strlen" then
      match args with
      | [k] => match m !! k with
               | None => (m, RInt 0)
               | Some e => match e_val e with VScal (SStr cur) => (m, RInt (slen cur)) | _ => (m, RErr) end
               end
      | _ => (m, RErr)
      end
    else if String.eqb c "rename" then
      match args with
      | [old; new] =>
          match m !! old with
          | None => (m, RErr)
          | Some e => if String.eqb old new then (m, ROk) else (<[new := e]> (delete old m), ROk)
          end
      | _ => (m, RErr)
      end
    else if String.eqb c "getdel" then
      match args with
      | [k] => match read_bulk m k with
               | RdAbsent => (m, RNil)
               | RdBulk _ r => (delete k m, r)
               | RdWrong => (m, RErr)
               end
      | _ => (m, RErr)
      end
    else if String.eqb c "getex" then
      match args with
      | k :: opts =>
          if (2 <? length opts)%nat then (m, RErr) else
          match read_bulk m k with
          | RdAbsent => (m, RNil)
          | RdWrong => (m, RErr)
          | RdBulk e r =>
              match opts with
              | [] => (m, r)
              | o :: rest =>
                  let uo := upper o in
                  if String.eqb uo "PERSIST" then (<[k := Entry (e_val e) None]> m, r) else
                  match rest with
                  | [] => (m, r)                 (* an option word without its time: nothing to set *)
                  | n :: _ =>
                      match parse_int n with
                      | None => (m, RErr)
                      | Some t =>
                          let go (dl : Z) := (put now m k (e_val e) (Some dl), r) in
                          if String.eqb uo "EX" then go (now + t * 1000)
                          else if String.eqb uo "PX" then go (now + t)
                          else if String.eqb uo "EXAT" then go (t * 1000)
                          else if String.eqb uo "PXAT" then go t
                          else (m, RErr)
                      end
                  end
              end
          end
      | _ => (m, RErr)
      end
    else if String.eqb c "type" then
      match args with
      | [k] => match m !! k with Some e => (m, type_reply (e_val e)) | None => (m, RErr) end
      | _ => (m, RErr)
      end
    else if String.eqb c "flushdb" then
      match args with [] => (∅, ROk) | _ => (m, RErr) end
    else (m, RErr)
  end.

(** * Whole scripts *)
Fixpoint spec_kv_run (now : Z) (m : kvspec) (cmds : list (list string)) : kvspec * list reply :=
  match cmds with
  | [] => (m, [])
  | c :: r => let '(m1, x) := spec_kv now m c in let '(m2, xs) := spec_kv_run now m1 r in (m2, x :: xs)
  end.
