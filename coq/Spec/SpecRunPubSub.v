(** Line-protocol front ends for the Pub/Sub model ([run_model18]) and the C18 reference
    ([run_spec18]), with the executable glob fragment of Model/PubSub.v.

      S <id> ...          new script
      N <conn> <kind>     register a connection (kind: how the harness realises it; ignored here)
      C <conn> <hex>...   command
      K <conn>            the client of the connection goes away
      T                   quiescence: every queued frame is written; then one line per registered
                          connection, "T <conn> <frame> <frame> ...", with what it received since
                          the previous T
      E

    Output: "R <reply>" per C line, the T lines, "E". *)
From stdpp Require Import gmap strings.
From EV Require Import Base.Str Model.Reply Model.Script Model.PubSub Spec.SpecPubSub.
Local Open Scope string_scope.
Local Open Scope list_scope.

Definition show_frame (f : frame) : string :=
  match f with
  | FConfirm a n k => show_reply (RArr [RBulk a; RBulk n; RInt (Z.of_nat k)])
  | FMsg n p => show_reply (RArr [RBulk "message"; RBulk n; RBulk p])
  end.

Definition t_line (c : conn) (fs : list frame) : string :=
  join " " (("T " +:+ show_Z (Z.of_nat c)) :: map show_frame fs).

Definition parse_conn (w : string) : option conn :=
  match parse_nat w with Some z => Some (Z.to_nat z) | None => None end.

(** argv -> event (None: the command layer answers with an error before the module is reached) *)
Definition parse_event (c : conn) (argv : list string) : option event :=
  match argv with
  | [] => None
  | cmd :: args =>
      if eq_fold cmd "subscribe" then (if Nat.eqb c 0 then None else Some (ESub false c args))
      else if eq_fold cmd "psubscribe" then (if Nat.eqb c 0 then None else Some (ESub true c args))
      else if eq_fold cmd "unsubscribe" then Some (EUnsub false c args)
      else if eq_fold cmd "punsubscribe" then Some (EUnsub true c args)
      else if eq_fold cmd "publish" then
        match args with [chn; msg] => Some (EPublish c chn msg) | _ => None end
      else if eq_fold cmd "pubsub" then
        match args with
        | [] => None
        | sub :: rest =>
            if eq_fold sub "channels" then
              match rest with [] => Some (EChannels None) | [p] => Some (EChannels (Some p)) | _ => None end
            else if eq_fold sub "numpat" then Some ENumPat
            else if eq_fold sub "numsub" then Some (ENumSub rest)
            else None
        end
      else None
  end.

Definition reg (c : conn) (conns : list conn) : list conn :=
  if Nat.eqb c 0 || mem c conns then conns else conns ++ [c].

Definition parse_c_line (l : string) : option (conn * list string) :=
  match split_words l with
  | "C" :: w :: args =>
      match parse_conn w, unhex_all args with
      | Some c, Some argv => Some (c, argv)
      | _, _ => None
      end
  | _ => None
  end.

Definition gstep := m_step glob_ok_frag glob_match_frag.
Definition sstep := s_step glob_ok_frag glob_match_frag.

(** * model *)
Fixpoint drain (fuel : nat) (c : conn) (s : ps) : ps :=
  match fuel with
  | O => s
  | S k => match outbox s c with [] => s | _ => drain k c (fst (gstep s (EWrite c))) end
  end.

Definition drain_all (conns : list conn) (s : ps) : ps :=
  fold_left (fun s c => drain (length (outbox s c)) c s) conns s.

(** taken: how many frames of each connection were already reported *)
Fixpoint model18_events (s : ps) (conns : list conn) (taken : conn -> nat) (lines : list string)
  : list string :=
  match lines with
  | [] => []
  | l :: r =>
      match split_words l with
      | ["N"; w; _] | ["N"; w] =>
          match parse_conn w with
          | Some c => model18_events s (reg c conns) taken r
          | None => ("BAD " +:+ l) :: model18_events s conns taken r
          end
      | "C" :: _ =>
          match parse_c_line l with
          | Some (c, argv) =>
              match parse_event c argv with
              | Some e => let '(s', x) := gstep s e in ("R " +:+ show_reply x) :: model18_events s' (reg c conns) taken r
              | None => "R -" :: model18_events s (reg c conns) taken r
              end
          | None => ("BAD " +:+ l) :: model18_events s conns taken r
          end
      | ["K"; w] =>
          match parse_conn w with
          | Some c => model18_events (fst (gstep s (EClose c))) conns taken r
          | None => ("BAD " +:+ l) :: model18_events s conns taken r
          end
      | ["T"] =>
          let s' := drain_all conns s in
          map (fun c => t_line c (skipn (taken c) (received s' c))) conns ++
          model18_events s' conns (fun c => length (received s' c)) r
      | _ => model18_events s conns taken r
      end
  end.

(** * reference *)
Fixpoint spec18_events (s : sst) (conns : list conn) (owed : conn -> list frame) (lines : list string)
  : list string :=
  match lines with
  | [] => []
  | l :: r =>
      match split_words l with
      | ["N"; w; _] | ["N"; w] =>
          match parse_conn w with
          | Some c => spec18_events s (reg c conns) owed r
          | None => ("BAD " +:+ l) :: spec18_events s conns owed r
          end
      | "C" :: _ =>
          match parse_c_line l with
          | Some (c, argv) =>
              match parse_event c argv with
              | Some e =>
                  let '(s', x, out) := sstep s e in
                  ("R " +:+ show_reply x) :: spec18_events s' (reg c conns) (fun c => owed c ++ out c) r
              | None => "R -" :: spec18_events s (reg c conns) owed r
              end
          | None => ("BAD " +:+ l) :: spec18_events s conns owed r
          end
      | ["K"; w] =>
          match parse_conn w with
          | Some c => spec18_events (fst (fst (sstep s (EClose c)))) conns owed r
          | None => ("BAD " +:+ l) :: spec18_events s conns owed r
          end
      | ["T"] =>
          map (fun c => t_line c (owed c)) conns ++ spec18_events s conns (fun _ => []) r
      | _ => spec18_events s conns owed r
      end
  end.

Definition run_with (f : list string -> list string) (lines : list string) : list string :=
  match lines with
  | [] => []
  | hdr :: body =>
      match split_words hdr with
      | "S" :: id :: _ => ("S " +:+ id) :: f (List.filter (fun l => negb (String.eqb l "E")) body) ++ ["E"]
      | _ => ["BAD " +:+ hdr]
      end
  end.

Definition run_model18 := run_with (model18_events ps_init [] (fun _ => 0)).
Definition run_spec18 := run_with (spec18_events sst_init [] (fun _ => [])).
