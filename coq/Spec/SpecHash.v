(** C14 reference: every hash key is a finite map from field to value ([gmap string scalar]);
    commands are defined directly on maps (insert / union / delete / lookup).  Keys holding
    another type are opaque ([HOther]); an absent key is absent from the map. *)
From stdpp Require Import gmap strings.
From EV Require Import Base.Str Model.Value Model.Adapt Model.Reply Model.HashVal.
Local Open Scope Z_scope.

Inductive hval := HHash (h : hmap) | HOther.
Notation hspec := (gmap string hval).

(** Removing fields, one after the other. *)
Definition remove_fields (fields : list string) (h : hmap) : hmap :=
  fold_left (fun h f => delete f h) fields h.

(** A read of one key: absent keys answer [absent], other types fail, hashes answer [f h]. *)
Definition read_hash (m : hspec) (k : string) (absent : reply) (f : hmap -> reply) : hspec * reply :=
  match m !! k with
  | None => (m, absent)
  | Some HOther => (m, RErr)
  | Some (HHash h) => (m, f h)
  end.

(** * One command *)
Definition spec_hash (m : hspec) (argv : list string) : hspec * reply :=
  match argv with
  | [] => (m, RErr)
  | cmd :: args =>
    let c := lower cmd in
    if String.eqb c "hset" || String.eqb c "hsetnx" then
      match args with
      | k :: f :: v :: rest =>
          if Nat.odd (length rest) then (m, RErr) else
          let new := entries_of (f :: v :: rest) in
          match m !! k with
          | Some (HHash h) =>
              if String.eqb c "hsetnx"
              then (* only absent fields are set; the reply counts them *)
                   (<[k := HHash (h ∪ new)]> m, RInt (hsize (new ∖ h)))
              else (* given fields are set; the reply is the size of the hash (adopted) *)
                   (<[k := HHash (new ∪ h)]> m, RInt (hsize (new ∪ h)))
          | _ => (* absent, or another type that is replaced (adopted) *)
              (<[k := HHash new]> m, RInt (hsize new))
          end
      | _ => (m, RErr)
      end
    else if String.eqb c "hget" || String.eqb c "hmget" then
      match args with
      | k :: f :: fs => read_hash m k RNil (fun h => RArr (map (fun x => field_reply (h !! x)) (f :: fs)))
      | _ => (m, RErr)
      end
    else if String.eqb c "hstrlen" then
      match args with
      | k :: f :: fs => read_hash m k RNil (fun h => RArr (map (fun x => strlen_reply (h !! x)) (f :: fs)))
      | _ => (m, RErr)
      end
    else if String.eqb c "hvals" then
      match args with [k] => read_hash m k (RArr []) hvals_reply | _ => (m, RErr) end
    else if String.eqb c "hrandfield" then
      (* the canonical selection; what the implementation may answer instead: [hrand_allowed] *)
      let go (k : string) (count : option Z) (wv : bool) :=
        match count with
        | None => (m, RErr)
        | Some n => read_hash m k (RArr []) (fun h => RArr (with_vals h wv (hrand_pick h n)))
        end in
      match args with
      | [k] => go k (Some 1) false
      | [k; n] => go k (parse_int n) false
      | [k; n; w] => match parse_int n with
                     | None => (m, RErr)
                     | Some n' => if eq_fold w "withvalues" then go k (Some n') true else (m, RErr)
                     end
      | _ => (m, RErr)
      end
    else if String.eqb c "hlen" then
      match args with [k] => read_hash m k (RInt 0) (fun h => RInt (hsize h)) | _ => (m, RErr) end
    else if String.eqb c "hkeys" then
      match args with [k] => read_hash m k (RArr []) hkeys_reply | _ => (m, RErr) end
    else if String.eqb c "hincrby" || String.eqb c "hincrbyfloat" then
      match args with
      | [k; f; n] =>
          match parse_incr (String.eqb c "hincrbyfloat") n with
          | None => (m, RErr)
          | Some inc =>
              match m !! k with
              | None => (<[k := HHash {[ f := incr_scalar inc ]}]> m, val_reply (incr_scalar inc))
              | Some HOther => (m, RErr)
              | Some (HHash h) =>
                  match hincr (default (SInt 0) (h !! f)) inc with
                  | None => (m, RErr)
                  | Some x => (<[k := HHash (<[f := x]> h)]> m, val_reply x)
                  end
              end
          end
      | _ => (m, RErr)
      end
    else if String.eqb c "hgetall" then
      match args with [k] => read_hash m k (RArr []) hgetall_reply | _ => (m, RErr) end
    else if String.eqb c "hexists" then
      match args with
      | [k; f] => read_hash m k (RInt 0) (fun h => RInt (if bool_decide (is_Some (h !! f)) then 1 else 0))
      | _ => (m, RErr)
      end
    else if String.eqb c "hdel" then
      match args with
      | k :: f :: fs =>
          match m !! k with
          | None => (m, RInt 0)
          | Some HOther => (m, RErr)
          | Some (HHash h) =>
              let h' := remove_fields (f :: fs) h in
              (<[k := HHash h']> m, RInt (hsize h - hsize h'))
          end
      | _ => (m, RErr)
      end
    else (m, RErr)
  end.

(** * Whole scripts *)
Fixpoint spec_hash_run (m : hspec) (cmds : list (list string)) : hspec * list reply :=
  match cmds with
  | [] => (m, [])
  | c :: r => let '(m1, x) := spec_hash m c in let '(m2, xs) := spec_hash_run m1 r in (m2, x :: xs)
  end.

(** * HRANDFIELD: the allowed outcomes.
    A reply is allowed for [count] on hash [h] when it is an array of fields of [h] (each followed
    by that field's value with WITHVALUES) holding
    - for [count >= 0]: exactly [min count |h|] fields, pairwise distinct;
    - for [count < 0]: exactly [|count|] fields, repetitions allowed (none when [h] is empty). *)
Fixpoint split_items (wv : bool) (items : list reply) : option (list (string * option reply)) :=
  match items with
  | [] => Some []
  | RBulk f :: r =>
      if wv then
        match r with
        | v :: r' => match split_items wv r' with Some l => Some ((f, Some v) :: l) | None => None end
        | [] => None
        end
      else match split_items wv r with Some l => Some ((f, None) :: l) | None => None end
  | _ => None
  end.

(** A value as the server may print it: a float's text is read back as a number. *)
Definition reply_matches (x : scalar) (r : reply) : bool :=
  match x, r with
  | SStr s, RBulk t => String.eqb s t
  | SInt z, RInt z' => z =? z'
  | SFloat f, RFloat g => fl_eqb f g
  | SFloat f, RBulk t => match parse_float_arg t with Some g => fl_eqb f g | None => false end
  | _, _ => false
  end.

Definition item_ok (h : hmap) (it : string * option reply) : bool :=
  match h !! it.1 with
  | None => false
  | Some x => match it.2 with None => true | Some v => reply_matches x v end
  end.

Definition hrand_allowed (h : hmap) (count : Z) (wv : bool) (r : reply) : bool :=
  match r with
  | RArr items =>
      match split_items wv items with
      | None => false
      | Some picked =>
          forallb (item_ok h) picked &&
          (if 0 <=? count
           then (zlen picked =? Z.min count (hsize h)) && bool_decide (base.NoDup (map fst picked))
           else (zlen picked =? (if hsize h =? 0 then 0 else - count)))
      end
  | _ => false
  end.

(** The judgement used on an implementation's reply to HRANDFIELD in view [m]: where the
    reference's answer does not depend on chance (errors, absent key, other type) the reply must
    be that answer; on a hash it must be an allowed selection. *)
Definition hrand_judge (m : hspec) (argv : list string) (r : reply) : bool :=
  match spec_hash m argv with
  | (_, RArr _) =>
      match argv with
      | _ :: k :: rest =>
          match m !! k with
          | Some (HHash h) =>
              let count := match rest with n :: _ => default 1 (parse_int n) | [] => 1 end in
              hrand_allowed h count (length rest =? 2)%nat r
          | _ => match r with RArr [] => true | _ => false end
          end
      | _ => false
      end
  | (_, _) => is_err r
  end.
