(** Executable front end of the wire model (runner mode [spec12]), in the line protocol of the runner:

      S <id>
      T <conn> <hex>            one read() of these bytes on connection <conn>   -> the model [serve]
      K <conn> <hex argv> ...   one complete command on connection <conn>        -> the reference [replies_of]
      E

    Output: "S id"; for every connection that received T lines "R <conn> <open|closed> <hex of everything
    written to it>"; for every connection with K lines "Q <conn> <hex of the replies, one per command, in
    order>"; "E".  The T world and the K world are separate and both start from the empty dataset. *)
From stdpp Require Import gmap strings.
From EV Require Import Base.Str Model.Value Model.Keyspace Model.Reply Model.Dispatch Model.Script Model.RespWire.
Local Open Scope Z_scope.

(** [Str.split_words] appends to its accumulator (quadratic in the length of a token); hex tokens here
    are tens of thousands of characters long, so split with a reversed accumulator. *)
Fixpoint split_fast (cur : list ascii) (s : string) : list string :=
  match s with
  | EmptyString => [string_of_list_ascii (rev_append cur [])]
  | String c s' =>
      if Ascii.eqb c " " then string_of_list_ascii (rev_append cur []) :: split_fast [] s'
      else split_fast (c :: cur) s'
  end.
Definition words_fast (s : string) : list string :=
  filter (fun w => negb (String.eqb w "")) (split_fast [] s).

Definition hex_or_dash (s : string) : string := if String.eqb s "" then "-" else hex_of_string s.
Definition concat_str (l : list string) : string := fold_right (fun x acc => x +:+ acc) "" l.

Record wrun := WRun {
  wr_model : world;
  wr_conns : gmap Z conn;
  wr_out : gmap Z string;         (* connection -> bytes written so far (model) *)
  wr_spec : world;
  wr_sclosed : gmap Z bool;
  wr_sout : gmap Z string;        (* connection -> reference replies so far *)
}.

Definition step_T (st : wrun) (c : Z) (chunk : string) : wrun :=
  let cn := default conn0 (wr_conns st !! c) in
  let '(w', out, cn') := on_read (wr_model st) c cn chunk in
  {| wr_model := w'; wr_conns := <[c := cn']> (wr_conns st);
     wr_out := <[c := default "" (wr_out st !! c) +:+ concat_str out]> (wr_out st);
     wr_spec := wr_spec st; wr_sclosed := wr_sclosed st; wr_sout := wr_sout st |}.

Definition step_K (st : wrun) (c : Z) (argv : list string) : wrun :=
  if default false (wr_sclosed st !! c) then st
  else
    let '(w', o) := wire_exec (wr_spec st) c argv in
    let '(bytes, closed) := match o with OQuit => (reply_bytes ROk, true) | OReply r => (reply_bytes r, false) end in
    {| wr_model := wr_model st; wr_conns := wr_conns st; wr_out := wr_out st;
       wr_spec := w'; wr_sclosed := <[c := closed]> (wr_sclosed st);
       wr_sout := <[c := default "" (wr_sout st !! c) +:+ bytes]> (wr_sout st) |}.

Definition step_wire_line (st : wrun) (line : string) : wrun :=
  match words_fast line with
  | ["T"; c; h] =>
      match parse_int c, unhex_arg h with
      | Some c', Some b => step_T st c' b
      | _, _ => st
      end
  | "K" :: c :: args =>
      match parse_int c, unhex_all args with
      | Some c', Some argv => step_K st c' argv
      | _, _ => st
      end
  | _ => st
  end.

Definition sorted_Z_keys {A} (m : gmap Z A) : list Z :=
  sort_by Z.leb (map fst (map_to_list m)).

Definition run_spec12 (lines : list string) : list string :=
  match lines with
  | [] => []
  | hdr :: body =>
      match split_words hdr with
      | "S" :: id :: _ =>
          let w0 := init_world default_now in
          let st := fold_left step_wire_line body
                      {| wr_model := w0; wr_conns := ∅; wr_out := ∅; wr_spec := w0; wr_sclosed := ∅; wr_sout := ∅ |} in
          ("S " +:+ id)
          :: map (fun c => "R " +:+ show_Z c +:+ " "
                           +:+ (if c_closed (default conn0 (wr_conns st !! c)) then "closed" else "open") +:+ " "
                           +:+ hex_or_dash (default "" (wr_out st !! c))) (sorted_Z_keys (wr_out st))
          ++ map (fun c => "Q " +:+ show_Z c +:+ " " +:+ hex_or_dash (default "" (wr_sout st !! c)))
                 (sorted_Z_keys (wr_sout st))
          ++ ["E"]
      | _ => ["BAD " +:+ hdr]
      end
  end.
