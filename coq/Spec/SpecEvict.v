(** C08, the property.  With a memory limit configured:

    - noeviction: no key is ever removed by the max-memory machinery, and every [setValues] is refused
      while [limit <= usage] ([noeviction_never_evicts], [noeviction_refuses]);
    - an eviction policy: every eviction step starts from a state with [limit <= usage]
      ([only_over_limit]); its victim, when it is a stored key, is in the policy's candidate set —
      under volatile-* it has a deadline ([victim_is_candidate]); it is first in the policy's order —
      no tracked key has been used less often (LFU: [lfu_first]) / less recently (LRU: [lru_first]);
      no step follows one that ended under the limit and a successful pass ends under it ([chain_ok]);
      the victim leaves store and volatile index, every other key of every database keeps value and
      deadline, usage drops by exactly the victim's size ([removed_cleanly]); no step panics (the
      functions are total, the [None] / error outcomes are the code's error returns).

    What is adopted from the code where statement and docs are silent: "used" means an access that
    goes through [getValues] / [setValues] / [setExpiry(touch)] / TOUCH (EXISTS, TTL, TYPE do not
    count); a key enters the order of a volatile policy at its first access *while it has a deadline*;
    LFU ties are broken towards the entry added last; writes other than [setValues] (DEL, EXPIRE,
    PERSIST, FLUSHALL) are not refused under noeviction (they cannot raise the usage); eviction runs
    after the command that crossed the limit, in the bookkeeping pass of the next access — the
    property promises nothing about *when*, only about the states from which it happens.

    The reference that judges implementation traces is the same machine with the order the property
    asks for ([es_newest_first = false]: the least recently used entry is the heap's minimum); the
    implementation's choices where the property leaves freedom (random draws, ties, the order of
    databases) are taken as hints and validated ([pick], [c_pop], [db_order] only follow a hint that
    names a legitimate candidate). *)
From stdpp Require Import gmap strings.
From EV Require Import Base.Str Model.Value Model.Keyspace Model.Evict Model.ScriptEvict.

Definition run_spec08 := run_script08_gen false.
