(** Line-protocol front end of [Spec/SpecExpiry.v] (runner mode [spec04]): the acceptance oracle of
    C04, applied to *implementation* traces.

    The oracle keeps, per database, key -> (opaque value token, deadline); the token is the value
    text of the implementation's digest and is never interpreted beyond its first letter (string /
    integer / float versus the other types).  The check feeds it, for every event of a history,
    the event, the implementation's reply, and the implementation's keyspace afterwards:

      S <id> now=<ms>
      K <db> <hexkey> <token> <deadline-ms|0>     the keyspace after the previous event …
      Z                                           … end of it: judge the event, print OK / REJECT
      I                                           a value was stored directly (preset): accepted as is
      D <db>                                      the caller selects a database
      A <ms>                                      the clock advances
      W <db>                                      a pass of the background sampler
      C <conn> <hex argv …>   then   R <reply>    a command and the implementation's reply

    Judgement of an event, with [b] the keyspace before, [a] after, both seen through [visible]
    at the time after the event (so an entry whose deadline has passed is ignored wherever it still
    sits — that is the property):
    - first block: accepted as the start;
    - A, D: the view is unchanged: everything with deadline >= now (or none) is served unchanged;
    - W: the view is unchanged, and physically: nothing appears, nothing changes, and what
      disappeared had a deadline < now, in every database;
    - a command of the deadline family (EXPIRE PEXPIRE EXPIREAT PEXPIREAT PERSIST TTL PTTL EXPIRETIME
      PEXPIRETIME SET GETEX): reply and resulting view are exactly [spec_apply] (for SET the new value
      token is taken from [a]); malformed: error, view unchanged;
    - any other command (all modules): (M) if none of its arguments names a visible key of the
      selected database, its reply is the reply it gives on an empty keyspace ("treats it as
      missing") — computed with the model's handler on the empty state, the only use of the model
      here; (F) keys it does not name and other databases keep their view (FLUSHDB / FLUSHALL
      excepted); (D1) a key visible before and after keeps its deadline; (D2) a key not visible
      before and visible after has no deadline ("does not inherit the old deadline"); RENAME old new
      of a visible key: the new name has the deadline the old name had (and D1/D2 for every other key). *)
From stdpp Require Import gmap strings.
From EV Require Import Base.Str Model.Value Model.Keyspace Model.Reply Model.Prog Model.Dispatch Model.Script.
From EV Require Import Spec.SpecExpiry.
Local Open Scope Z_scope.

Notation oks := (sks string).
Notation oentry := (sentry string).

Global Instance sentry_eq_dec : EqDecision oentry.
Proof. solve_decision. Defined.

Definition tok_scalar (t : string) : bool :=
  match t with
  | String c _ => Ascii.eqb c "s" || Ascii.eqb c "i" || Ascii.eqb c "f"
  | EmptyString => false
  end.

Inductive pending :=
| PInit | PNone | PAdvance | PSelect | PSweep (d : Z)
| PCmd (argv : list string) (reply : option string).

Record ostate := OState {
  o_now : Z; o_cur : Z; o_raw : oks; o_block : oks; o_pend : pending;
}.

Definition all_keys (s : oks) : list (Z * string) :=
  concat (map (fun '(d, db) => map (fun '(k, _) => (d, k)) (map_to_list db)) (map_to_list s)).

Definition raw_get (s : oks) (d : Z) (k : string) : option oentry := sget s d !! k.

Definition show_key (dk : Z * string) : string := "db" +:+ show_Z (fst dk) +:+ ":" +:+ hex_of_string (snd dk).

(** First key (of either keyspace) at which [ok before after] fails. *)
Definition first_bad (b a : oks) (ok : Z -> string -> bool) : option (Z * string) :=
  list_find (fun '(d, k) => negb (ok d k)) (all_keys b ++ all_keys a) ≫= fun x => Some (snd x).

Definition same_view_at (now : Z) (b a : oks) (d : Z) (k : string) : bool :=
  bool_decide (visible now a d k = visible now b d k).

Definition verdict (what : string) (bad : option (Z * string)) : option string :=
  match bad with Some dk => Some (what +:+ " " +:+ show_key dk) | None => None end.

Definition first_some_s (l : list (option string)) : option string :=
  fold_right (fun o acc => match o with Some x => Some x | None => acc end) None l.

(** W: physically, only expired entries go. *)
Definition sweep_ok (now : Z) (b a : oks) (d : Z) (k : string) : bool :=
  match raw_get b d k, raw_get a d k with
  | Some e, Some e' => bool_decide (e = e')
  | Some e, None => expired now e
  | None, Some _ => false
  | None, None => true
  end.

Definition render_ok (r : sreply string) (text : string) : bool :=
  match r with
  | SInt z => String.eqb text (":" +:+ show_Z z)
  | SOk => String.eqb text "+4f4b"
  | SNil => String.eqb text "_"
  | SErr => String.eqb text "-"
  | SVal tok =>
      match tok with
      | String "s" h => String.eqb text ("$" +:+ (if String.eqb h "-" then "" else h))
      | String "i" n => String.eqb text ("$" +:+ hex_of_string n)
      | _ => match text with String "$" _ => true | _ => false end
      end
  end.

Definition retok (e : option oentry) : option oentry :=
  match e with Some e => Some (SEntry "" (se_dl e)) | None => None end.

Definition is_flush (argv : list string) : bool :=
  match argv with [c] => String.eqb (lower c) "flushdb" || String.eqb (lower c) "flushall" | _ => false end.
Definition is_flushall (argv : list string) : bool :=
  match argv with [c] => String.eqb (lower c) "flushall" | _ => false end.

(** A float is printed as text by the server and as an exact rational by the model: only its shape
    (a bulk or simple string) is compared here; the model-vs-implementation comparison compares it as
    a number. *)
Definition reply_matches (r : reply) (text : string) : bool :=
  match r with
  | RFloat _ => match text with String "$" _ => true | String "+" _ => true | _ => false end
  | _ => String.eqb (show_reply r) text
  end.

Definition judge_cmd (now cur : Z) (b a : oks) (argv : list string) (reply : string) : option string :=
  match argv with
  | [] => None
  | name :: args =>
      if deadline_family name then
        match parse_dcmd (fun _ => "") argv with
        | None =>
            first_some_s [ (if String.eqb reply "-" then None else Some "malformed-not-refused");
                           verdict "malformed-changed" (first_bad b a (same_view_at now b a)) ]
        | Some (k, c) =>
            let '(exp, rep) := spec_apply tok_scalar now b cur k c in
            let is_set := match c with DSet _ _ _ _ => true | _ => false end in
            first_some_s [ (if render_ok rep reply then None else Some ("reply-not-as-specified"));
                           verdict "deadline-or-existence-not-as-specified"
                             (first_bad exp a (fun d' k' =>
                                let x := visible now exp d' k' in let y := visible now a d' k' in
                                if is_set && bool_decide (d' = cur) && String.eqb k' k
                                then bool_decide (retok x = retok y) else bool_decide (x = y))) ]
        end
      else
        let named (k : string) := bool_decide (k ∈ args) in
        (* RENAME old new of a visible key moves the deadline with the value: for the new name the
           expected deadline is the one the old name had (D1/D2 are stated for all other keys). *)
        let moved : option (string * option Z) :=
          if String.eqb (lower name) "rename" then
            match args with
            | [old; new] => match visible now b cur old with
                            | Some e => if String.eqb old new then None else Some (new, se_dl e)
                            | None => None
                            end
            | _ => None
            end
          else None in
        let is_moved (d : Z) (k : string) : bool :=
          match moved with Some (nk, _) => bool_decide (d = cur) && String.eqb k nk | None => false end in
        first_some_s [
          verdict "rename-did-not-move-the-deadline"
            (match moved with
             | Some (nk, dl) =>
                 match visible now a cur nk with
                 | Some e' => if bool_decide (se_dl e' = dl) then None else Some (cur, nk)
                 | None => if String.eqb reply "-" then None else Some (cur, nk)
                 end
             | None => None
             end);
          (* M *)
          (if forallb (fun k => match visible now b cur k with None => true | Some _ => false end) args
           then match handler_of (lower name) with
                | Some h => let r := snd (run_seq cur (h argv) (init_state now)) in
                            if reply_matches r reply then None else Some "missing-key-reply"
                | None => None
                end
           else None);
          (* F *)
          verdict "frame"
            (first_bad b a (fun d k =>
               if is_flushall argv then true
               else if bool_decide (d = cur) && (named k || is_flush argv) then true
               else same_view_at now b a d k));
          (* D1, D2 *)
          verdict "deadline-changed-by-non-deadline-command"
            (first_bad b a (fun d k =>
               if is_moved d k then true else
               match visible now b d k, visible now a d k with
               | Some e, Some e' => bool_decide (se_dl e' = se_dl e)
               | _, _ => true
               end));
          verdict "new-value-inherited-a-deadline"
            (first_bad b a (fun d k =>
               if is_moved d k then true else
               match visible now b d k, visible now a d k with
               | None, Some e' => bool_decide (se_dl e' = None)
               | _, _ => true
               end)) ]
  end.

Definition judge (st : ostate) : option string :=
  let now := o_now st in let b := o_raw st in let a := o_block st in
  match o_pend st with
  | PInit => None
  | PNone => verdict "changed-without-event" (first_bad b a (same_view_at now b a))
  | PAdvance => verdict "advance-changed-a-live-key" (first_bad b a (same_view_at now b a))
  | PSelect => verdict "select-changed-a-key" (first_bad b a (same_view_at now b a))
  | PSweep _ =>
      first_some_s [ verdict "sweep-observable" (first_bad b a (same_view_at now b a));
                     verdict "sweep-removed-or-changed-unexpired" (first_bad b a (sweep_ok now b a)) ]
  | PCmd argv (Some r) => judge_cmd now (o_cur st) b a argv r
  | PCmd argv None => Some "no-reply"
  end.

Definition put_raw (s : oks) (d : Z) (k : string) (e : oentry) : oks := <[d := <[k := e]> (sget s d)]> s.

Definition ostep (st : ostate) (line : string) : ostate * list string :=
  match split_words line with
  | ["K"; db; hk; tok; dl] =>
      match parse_int db, unhex_arg hk, parse_int dl with
      | Some d, Some k, Some t =>
          (OState (o_now st) (o_cur st) (o_raw st)
                  (put_raw (o_block st) d k (SEntry tok (if t =? 0 then None else Some t))) (o_pend st), [])
      | _, _, _ => (st, ["BAD " +:+ line])
      end
  | ["Z"] =>
      (OState (o_now st) (o_cur st) (o_block st) ∅ PNone,
       [match judge st with None => "OK" | Some why => "REJECT " +:+ why end])
  | ["I"] => (OState (o_now st) (o_cur st) (o_raw st) ∅ PInit, [])
  | ["A"; ms] =>
      match parse_int ms with
      | Some z => (OState (o_now st + z) (o_cur st) (o_raw st) ∅ PAdvance, [])
      | None => (st, ["BAD " +:+ line])
      end
  | ["D"; db] =>
      match parse_int db with
      | Some d => (OState (o_now st) d (o_raw st) ∅ PSelect, [])
      | None => (st, ["BAD " +:+ line])
      end
  | "W" :: db :: _ =>
      match parse_int db with
      | Some d => (OState (o_now st) (o_cur st) (o_raw st) ∅ (PSweep d), [])
      | None => (st, ["BAD " +:+ line])
      end
  | "C" :: _ :: args =>
      match unhex_all args with
      | Some argv => (OState (o_now st) (o_cur st) (o_raw st) ∅ (PCmd argv None), [])
      | None => (st, ["BAD " +:+ line])
      end
  | "R" :: ws =>
      let text := join " " ws in
      match o_pend st with
      | PCmd argv _ => (OState (o_now st) (o_cur st) (o_raw st) ∅ (PCmd argv (Some text)), [])
      | _ => (st, ["BAD " +:+ line])
      end
  | _ => (st, [])
  end.

Fixpoint orun (st : ostate) (lines : list string) : list string :=
  match lines with
  | [] => []
  | l :: r => let '(st', out) := ostep st l in out ++ orun st' r
  end.

Definition run_spec04 (lines : list string) : list string :=
  match lines with
  | [] => []
  | hdr :: body =>
      match split_words hdr with
      | "S" :: id :: cfg =>
          let now := default default_now (list_find (fun kv => String.eqb (fst kv) "now") (omap cfg_value cfg)
                                          ≫= fun x => parse_int (snd (snd x))) in
          ("S " +:+ id) :: orun (OState now 0 ∅ ∅ PInit) (filter (fun l => negb (String.eqb l "E")) body) ++ ["E"]
      | _ => ["BAD " +:+ hdr]
      end
  end.
