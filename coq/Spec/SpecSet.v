(** C16 reference: every set key is a finite set of strings ([gset string]); the commands are
    [∪ ∩ ∖ ∈ size] on those sets.  Keys holding another type are opaque ([SOther]); an absent key is
    absent from the map and counts as the empty set wherever a set is read.

    [spec_set lenient pick]:
    - [pick] resolves the two randomised commands (any function; see [allowed_sel] and [spec_check]);
    - [lenient = false] is the property.  [lenient = true] differs only for SDIFF / SDIFFSTORE, where
      it describes what the code does and its test-suite pins (known findings): a missing base key
      is an error instead of the empty set, and keys after the base that hold another type are
      skipped instead of failing the command.  [kf_sdiff] is exactly the set of (view, argv) on
      which the two differ. *)
From stdpp Require Import gmap strings.
From EV Require Import Base.Str Model.Value Model.Adapt Model.Reply Model.CmdSet.
Local Open Scope Z_scope.

Inductive sval := SSet (s : gset string) | SOther.
Notation sspec := (gmap string sval).

Definition is_other (m : sspec) (k : string) : bool :=
  match m !! k with Some SOther => true | _ => false end.
Definition is_absent (m : sspec) (k : string) : bool :=
  match m !! k with None => true | _ => false end.
Definition set_at (m : sspec) (k : string) : option (gset string) :=
  match m !! k with Some (SSet x) => Some x | _ => None end.

Definition any_other (m : sspec) (ks : list string) : bool := existsb (is_other m) ks.
Definition any_absent (m : sspec) (ks : list string) : bool := existsb (is_absent m) ks.
(** The sets found at [ks] (absent keys and other types contribute nothing). *)
Definition sets_at (m : sspec) (ks : list string) : list (gset string) := omap (set_at m) ks.

Definition union_at (m : sspec) (ks : list string) : gset string := ⋃ (sets_at m ks).
Definition inter_at (m : sspec) (ks : list string) : gset string :=
  if any_absent m ks then ∅ else inter_all (sets_at m ks).
Definition diff_at (m : sspec) (base : string) (ks : list string) : gset string :=
  default ∅ (set_at m base) ∖ union_at m ks.

Definition b2z (b : bool) : Z := if b then 1 else 0.
Definition cap (limit n : Z) : Z := if (0 <? limit) && (limit <? n) then limit else n.

(** What SDIFF / SDIFFSTORE compute: [Some] set, or [None] for a failure. *)
Definition sdiff_result (lenient : bool) (m : sspec) (base : string) (ks : list string) : option (gset string) :=
  if lenient then
    match set_at m base with Some b => Some (b ∖ union_at m ks) | None => None end
  else
    if any_other m (base :: ks) then None else Some (diff_at m base ks).

(** * One command *)
Definition spec_set (lenient : bool) (pick : picker) (m : sspec) (argv : list string) : sspec * reply :=
  match argv with
  | [] => (m, RErr)
  | cmd :: args =>
    let c := lower cmd in
    if String.eqb c "sadd" then
      match args with
      | k :: x :: xs =>
          let new := list_to_set (x :: xs) : gset string in
          match m !! k with
          | None => (<[k := SSet new]> m, RInt (zsize new))
          | Some (SSet s) => (<[k := SSet (s ∪ new)]> m, RInt (zsize (new ∖ s)))
          | Some SOther => (m, RErr)
          end
      | _ => (m, RErr)
      end
    else if String.eqb c "scard" then
      match args with
      | [k] => match m !! k with
               | None => (m, RInt 0)
               | Some (SSet s) => (m, RInt (zsize s))
               | Some SOther => (m, RErr)
               end
      | _ => (m, RErr)
      end
    else if String.eqb c "sdiff" then
      match args with
      | base :: ks => match sdiff_result lenient m base ks with
                      | Some r => (m, members_reply r)
                      | None => (m, RErr)
                      end
      | _ => (m, RErr)
      end
    else if String.eqb c "sdiffstore" then
      match args with
      | dst :: base :: ks => match sdiff_result lenient m base ks with
                             | Some r => (<[dst := SSet r]> m, RInt (zsize r))
                             | None => (m, RErr)
                             end
      | _ => (m, RErr)
      end
    else if String.eqb c "sinter" then
      match args with
      | k :: ks => if any_other m (k :: ks) then (m, RErr)
                   else if any_absent m (k :: ks) then (m, RArr [])
                   else (m, members_reply (inter_at m (k :: ks)))
      | _ => (m, RErr)
      end
    else if String.eqb c "sintercard" then
      match args with
      | _ :: _ =>
          match sintercard_args args with
          | None => (m, RErr)
          | Some (ks, limit) =>
              if any_other m ks then (m, RErr)
              else (m, RInt (cap limit (zsize (inter_at m ks))))
          end
      | _ => (m, RErr)
      end
    else if String.eqb c "sinterstore" then
      match args with
      | dst :: k :: ks =>
          if any_other m (k :: ks) then (m, RErr)
          else let r := inter_at m (k :: ks) in (<[dst := SSet r]> m, RInt (zsize r))
      | _ => (m, RErr)
      end
    else if String.eqb c "sismember" then
      match args with
      | [k; x] => match m !! k with
                  | None => (m, RInt 0)
                  | Some (SSet s) => (m, RInt (b2z (mem_set x s)))
                  | Some SOther => (m, RErr)
                  end
      | _ => (m, RErr)
      end
    else if String.eqb c "smembers" then
      match args with
      | [k] => match m !! k with
               | None => (m, RArr [])
               | Some (SSet s) => (m, members_reply s)
               | Some SOther => (m, RErr)
               end
      | _ => (m, RErr)
      end
    else if String.eqb c "smismember" then
      match args with
      | k :: x :: xs =>
          match m !! k with
          | None => (m, RArr (map (fun _ => RInt 0) (x :: xs)))
          | Some (SSet s) => (m, RArr (map (fun y => RInt (b2z (mem_set y s))) (x :: xs)))
          | Some SOther => (m, RErr)
          end
      | _ => (m, RErr)
      end
    else if String.eqb c "smove" then
      match args with
      | [src; dst; x] =>
          match m !! src with
          | None => (m, RInt 0)
          | Some SOther => (m, RErr)
          | Some (SSet ss) =>
              match m !! dst with
              | Some SOther => (m, RErr)
              | o =>
                  let ds := match o with Some (SSet d) => d | _ => ∅ end in
                  if mem_set x ss
                  then (<[dst := SSet (ds ∪ {[x]})]> (<[src := SSet (ss ∖ {[x]})]> m), RInt 1)
                  else (m, RInt 0)
              end
          end
      | _ => (m, RErr)
      end
    else if String.eqb c "spop" || String.eqb c "srandmember" then
      let remove := String.eqb c "spop" in
      let go (k : string) (count : option Z) :=
        match count with
        | None => (m, RErr)
        | Some n =>
            match m !! k with
            | None => (m, RNilArr)
            | Some SOther => (m, RErr)
            | Some (SSet s) =>
                let sel := pick s n in
                (if remove then <[k := SSet (s ∖ list_to_set sel)]> m else m, bulks sel)
            end
        end in
      match args with
      | [k] => go k (Some 1)
      | [k; cs] => go k (adapt_int cs)
      | _ => (m, RErr)
      end
    else if String.eqb c "srem" then
      match args with
      | k :: x :: xs =>
          let gone := list_to_set (x :: xs) : gset string in
          match m !! k with
          | None => (m, RInt 0)
          | Some (SSet s) => (<[k := SSet (s ∖ gone)]> m, RInt (zsize (s ∩ gone)))
          | Some SOther => (m, RErr)
          end
      | _ => (m, RErr)
      end
    else if String.eqb c "sunion" then
      match args with
      | k :: ks => if any_other m (k :: ks) then (m, RErr)
                   else (m, members_reply (union_at m (k :: ks)))
      | _ => (m, RErr)
      end
    else if String.eqb c "sunionstore" then
      match args with
      | dst :: k :: ks =>
          if any_other m (k :: ks) then (m, RErr)
          else let r := union_at m (k :: ks) in (<[dst := SSet r]> m, RInt (zsize r))
      | _ => (m, RErr)
      end
    else (m, RErr)
  end.

(** The (view, argv) on which the code departs from the property (SDIFF / SDIFFSTORE only):
    the base is absent and no key holds another type, or the base is a set and a later key holds
    another type. *)
Definition kf_sdiff (m : sspec) (argv : list string) : bool :=
  match argv with
  | [] => false
  | cmd :: args =>
      let c := lower cmd in
      let trig (base : string) (ks : list string) :=
        match m !! base with
        | None => negb (any_other m ks)
        | Some (SSet _) => any_other m ks
        | Some SOther => false
        end in
      if String.eqb c "sdiff" then match args with base :: ks => trig base ks | _ => false end
      else if String.eqb c "sdiffstore" then match args with _ :: base :: ks => trig base ks | _ => false end
      else false
  end.

(** * Whole scripts *)
Fixpoint spec_set_run (lenient : bool) (pick : picker) (m : sspec) (cmds : list (list string)) : sspec * list reply :=
  match cmds with
  | [] => (m, [])
  | c :: r => let '(m1, x) := spec_set lenient pick m c in
              let '(m2, xs) := spec_set_run lenient pick m1 r in (m2, x :: xs)
  end.

(** No command of the script falls into the known-finding class, along the reference run. *)
Fixpoint kf_free_run (pick : picker) (m : sspec) (cmds : list (list string)) : bool :=
  match cmds with
  | [] => true
  | c :: r => negb (kf_sdiff m c) && kf_free_run pick (fst (spec_set false pick m c)) r
  end.

(** * The acceptance oracle for implementation traces.
    Deterministic commands: the reply must be the reference's.  SPOP and SRANDMEMBER: the selection
    the implementation reported is taken as the hint [sel]; it must be an allowed outcome of
    [GetRandom] for the set and count at hand ([sel_ok]), and the next state is computed from it. *)
Definition rand_request (m : sspec) (argv : list string) : option (gset string * Z) :=
  match argv with
  | cmd :: k :: rest =>
      let c := lower cmd in
      if String.eqb c "spop" || String.eqb c "srandmember" then
        match set_at m k, (match rest with [] => Some 1 | [cs] => adapt_int cs | _ => None end) with
        | Some s, Some n => Some (s, n)
        | _, _ => None
        end
      else None
  | _ => None
  end.

Definition sel_ok (m : sspec) (argv : list string) (sel : list string) : bool :=
  match rand_request m argv with Some (s, n) => allowed_sel s n sel | None => true end.

Definition spec_step_hint (m : sspec) (argv : list string) (sel : list string) : sspec * reply * bool :=
  let '(m', r) := spec_set false (fun _ _ => sel) m argv in (m', r, sel_ok m argv sel).

(** A selection function is valid when every selection it makes is an allowed one. *)
Definition valid_pick (pick : picker) : Prop := forall s n, allowed_sel s n (pick s n) = true.
