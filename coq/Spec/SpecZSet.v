(** C17 reference: every sorted-set key is a finite map from member to score ([gmap string fl]); the
    order in which members are listed, ranked and popped is [zsorted]: by score, then by the bytes of
    the member.  A key holding another type is opaque ([ZOther]); an absent key is absent from the map.

    A command is decoded ([Model/ZSetOps.v]: argument grammar and the operation on ONE sorted set, pure
    functions of the argument vector and that set) and applied to the view: an absent key takes the
    command's "absent" action, a key of another type is an error, and an error changes nothing.
    [strict = true] is the reading of the property statement and the documentation; [strict = false]
    adopts the four behaviours the suite pins against the documentation (known findings: the number ZADD
    replies without CH; LIMIT in ZRANGE/ZRANGESTORE; ZMPOP skipping keys of another type; ZUNIONSTORE
    dropping every argument equal to its destination). *)
From stdpp Require Import gmap strings.
From EV Require Import Base.Str Model.Value Model.Reply Model.ZSetOps Model.ZSetMulti.
Local Open Scope Z_scope.

Notation zspec := (gmap string zval).

Definition apply_act (m : zspec) (wkey : string) (a : zact) : zspec * reply :=
  match a with
  | ZRet r => (m, r)
  | ZPut z r => if is_err r then (m, RErr) else (<[wkey := ZSet z]> m, r)
  end.

(** * One command *)
(** A command on one key: an absent key takes the command's "absent" action, a key of another type is an
    error. *)
Definition spec_single (m : zspec) (d : zdecoded) : zspec * reply :=
  match zd_body d with
  | None => (m, RErr)                              (* an argument is refused *)
  | Some (absent, present) =>
      match m !! zd_rkey d with
      | None => apply_act m (zd_wkey d) absent
      | Some ZOther => (m, RErr)
      | Some (ZSet z) => apply_act m (zd_wkey d) (present z)
      end
  end.

(** A command on several keys: a function of what the view holds at those keys, in argument order. *)
Definition spec_multi (m : zspec) (d : zmdecoded) : zspec * reply :=
  match zm_body d with
  | None => (m, RErr)
  | Some f => let res := act_of (f (map (fun k => m !! k) (zm_keys d))) in apply_act m (fst res) (snd res)
  end.

Definition spec_zset (strict : bool) (m : zspec) (argv : list string) : zspec * reply :=
  match argv with
  | [] => (m, RErr)
  | _ =>
    match decode_any strict argv with
    | None => (m, RErr)                                  (* not a sorted-set command, or wrong arity *)
    | Some (DSingle d) => spec_single m d
    | Some (DMulti d) => spec_multi m d
    end
  end.

(** * Whole scripts *)
Fixpoint spec_zset_run (strict : bool) (m : zspec) (cmds : list (list string)) : zspec * list reply :=
  match cmds with
  | [] => (m, [])
  | c :: r => let '(m1, x) := spec_zset strict m c in
              let '(m2, xs) := spec_zset_run strict m1 r in (m2, x :: xs)
  end.

(** * Where the two readings part: the trigger classes of the known findings *)
Global Instance Q_eq_dec : EqDecision QArith_base.Q.
Proof. solve_decision. Defined.
Global Instance fl_eq_dec : EqDecision fl.
Proof. solve_decision. Defined.
Global Instance zval_eq_dec : EqDecision zval.
Proof. solve_decision. Defined.
Global Instance reply_eq_dec : EqDecision reply.
Proof.
  refine (fix go (x y : reply) : Decision (x = y) :=
    match x, y with
    | RSimple a, RSimple b => cast_if (decide (a = b))
    | RErr, RErr => left _
    | RInt a, RInt b => cast_if (decide (a = b))
    | RBulk a, RBulk b => cast_if (decide (a = b))
    | RNil, RNil => left _
    | RNilArr, RNilArr => left _
    | RArr a, RArr b => cast_if (@list_eq_dec _ go a b)
    | RFloat a, RFloat b => cast_if (decide (a = b))
    | RRaw a, RRaw b => cast_if (decide (a = b))
    | REmpty, REmpty => left _
    | RPanic, RPanic => left _
    | _, _ => right _
    end); clear go; abstract congruence.
Defined.

(** The script never takes a step on which the documented and the pinned behaviour differ. *)
Fixpoint kf_free (m : zspec) (cmds : list (list string)) : bool :=
  match cmds with
  | [] => true
  | c :: r => bool_decide (spec_zset true m c = spec_zset false m c) && kf_free (fst (spec_zset true m c)) r
  end.
