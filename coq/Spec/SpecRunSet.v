(** Line-protocol front end of the C16 reference (mode [spec16] of the runner): the acceptance oracle
    applied to implementation traces.  The initial view comes from the implementation's own digest
    ("V" lines); commands are the script's; for SPOP / SRANDMEMBER the selection the implementation
    reported is passed as a hint ("H" line) and validated. *)
From stdpp Require Import gmap strings.
From EV Require Import Base.Str Model.Value Model.Reply Model.Script Model.CmdSet Spec.SpecSet.
Local Open Scope Z_scope.

(** "V <hexkey> S <hex>,<hex>,..."  |  "V <hexkey> S"  (empty set)  |  "V <hexkey> o" *)
Definition parse_sview_line (m : sspec) (line : string) : sspec :=
  match split_words line with
  | ["V"; hk; "o"] => match unhex_arg hk with Some k => <[k := SOther]> m | None => m end
  | ["V"; hk; "S"] => match unhex_arg hk with Some k => <[k := SSet ∅]> m | None => m end
  | ["V"; hk; "S"; elems] =>
      match unhex_arg hk, unhex_all (split_on ","%char "" elems) with
      | Some k, Some l => <[k := SSet (list_to_set l)]> m
      | _, _ => m
      end
  | _ => m
  end.

Fixpoint split_bar (l : list string) (acc : list string) : list string * list string :=
  match l with
  | [] => (rev acc, [])
  | x :: r => if String.eqb x "|" then (rev acc, r) else split_bar r (x :: acc)
  end.

Definition spec16_cmd (m : sspec) (args sel : list string) (line : string) : sspec * string :=
  match unhex_all args, unhex_all sel with
  | Some argv, Some sel' =>
      let '(m', r, ok) := spec_step_hint m argv sel' in
      (* "K": the command is in the known-finding class of SDIFF / SDIFFSTORE (see [kf_sdiff]) *)
      if ok then (m', (if kf_sdiff m argv then "K " else "R ") +:+ show_reply r)
      else (m, "R !selection-not-allowed")
  | _, _ => (m, "BAD " +:+ line)
  end.

Fixpoint spec16_events (m : sspec) (lines : list string) : list string :=
  match lines with
  | [] => []
  | l :: r =>
      match split_words l with
      | "V" :: _ => spec16_events (parse_sview_line m l) r
      | "C" :: _ :: args => let '(m', out) := spec16_cmd m args [] l in out :: spec16_events m' r
      | "H" :: _ :: rest =>
          let '(args, sel) := split_bar rest [] in
          let '(m', out) := spec16_cmd m args sel l in out :: spec16_events m' r
      | _ => spec16_events m r
      end
  end.

Definition run_spec16 (lines : list string) : list string :=
  match lines with
  | [] => []
  | hdr :: body =>
      match split_words hdr with
      | "S" :: id :: _ => ("S " +:+ id) :: spec16_events ∅ body ++ ["E"]
      | _ => ["BAD " +:+ hdr]
      end
  end.
