(** Line-protocol front end of the durability reference (runner mode [spec02], also used by C09).
    Input: the script's D / C / A lines, and the implementation's observations to judge:
      V <req> <hex of the normalised restored digest>      an image taken at this position
      O <req> <hex of the normalised digest after restart>  a restart: the history continues from the
                                                            prefix the implementation recovered
    where <req> says which writes must be in the restored prefix: "a" those acknowledged before the
    last command (an image taken while it ran), "b" all so far, "c" all but the last (its record was
    cut), or a number.
    Output: "V <j>" / "O <j>" (the prefix recognised) or "V REJECT ..." / "O REJECT ...". *)
From stdpp Require Import gmap strings.
From RecordUpdate Require Import RecordSet.
Import RecordSetNotations.
From EV Require Import Base.Str Model.Value Model.Keyspace Model.Reply Model.Prog Model.Dispatch Model.Script Model.Aof.
From EV Require Import Spec.SpecDurable.
Local Open Scope Z_scope.

Record dspec := DSpec { ds_states : list state; (* prefix datasets, oldest first; never empty *)
                        ds_conns : gmap Z Z;
                        ds_prev : nat; (* number of acknowledged writes before the last command *)
                        ds_slack : nat (* records the log may hold fewer than [ds_states] says: after a restart
                                          recognised as prefix [j] while an older prefix [j0] shows the same view,
                                          the log holds between [j0] and [j] records; the history continues from
                                          [j] (same view) and every later requirement is lowered by [j - j0] *) }.
Global Instance eta_dspec : Settable _ := settable! DSpec <ds_states; ds_conns; ds_prev; ds_slack>.
Definition ds_count (d : dspec) : nat := (length (ds_states d) - 1)%nat.

Definition ds_cur (d : dspec) (now : Z) : state := List.last (ds_states d) (init_state now).

Definition requirement (d : dspec) (acked : string) : option Z :=
  let req := if String.eqb acked "a" then Some (Z.of_nat (ds_prev d))
             else if String.eqb acked "b" then Some (Z.of_nat (ds_count d))
             else if String.eqb acked "c" then Some (Z.of_nat (ds_count d - 1))
             else parse_int acked in
  match req with
  | Some a => Some (Z.max 0 (a - Z.of_nat (ds_slack d)))
  | None => None
  end.

Definition judge (tag : string) (d : dspec) (acked : string) (obs : string) : option nat * string :=
  match requirement d acked, unhex_arg obs with
  | Some a, Some o =>
      match find_prefix (ds_states d) 0 (Z.to_nat a) o with
      | Some j => (Some j, tag +:+ " " +:+ show_Z (Z.of_nat j))
      | None => (None, tag +:+ " REJECT restored=" +:+ o +:+ " acked=" +:+ show_Z a +:+ " newest=" +:+
                       show_view (ds_cur d 0) +:+ " prefixes=" +:+ show_Z (zlen (ds_states d) - 1))
      end
  | _, _ => (None, tag +:+ " BAD")
  end.

Fixpoint spec02_events (d : dspec) (lines : list string) : list string :=
  match lines with
  | [] => []
  | l :: r =>
      match split_words l with
      | ["D"; c; db] =>
          match parse_int c, parse_int db with
          | Some c', Some db' => spec02_events (d <| ds_conns := <[c' := db']> (ds_conns d) |>) r
          | _, _ => ("BAD " +:+ l) :: spec02_events d r
          end
      | "C" :: c :: args =>
          match parse_int c, unhex_all args with
          | Some c', Some argv =>
              let s := ds_cur d 0 in
              let '(s', x) := exec_db s (default 0 (ds_conns d !! c')) argv in
              let d0 := d <| ds_prev := ds_count d |> in
              if logged argv x then spec02_events (d0 <| ds_states := ds_states d ++ [s'] |>) r
              else spec02_events d0 r
          | _, _ => ("BAD " +:+ l) :: spec02_events d r
          end
      | ["A"; ms] =>
          match parse_int ms with
          | Some z => spec02_events (d <| ds_states := map (fun s => s <| st_now := st_now s + z |>) (ds_states d) |>) r
          | None => ("BAD " +:+ l) :: spec02_events d r
          end
      | ["V"; acked; obs] => snd (judge "V" d acked obs) :: spec02_events d r
      | ["O"; acked; obs] =>
          let '(j, out) := judge "O" d acked obs in
          match j with
          | Some j' =>
              let j0 := match requirement d acked, unhex_arg obs with
                        | Some a, Some o => default j' (find_prefix_oldest (ds_states d) 0 (Z.to_nat a) o)
                        | _, _ => j'
                        end in
              out :: spec02_events (d <| ds_states := firstn (S j') (ds_states d) |> <| ds_conns := ∅ |> <| ds_prev := j' |>
                                      <| ds_slack := (j' - j0)%nat |>) r
          | None => out :: spec02_events d r
          end
      | _ => spec02_events d r
      end
  end.

Definition run_spec02 (lines : list string) : list string :=
  match lines with
  | [] => []
  | hdr :: body =>
      match split_words hdr with
      | "S" :: id :: cfg =>
          let w := fold_left apply_cfg cfg (init_world default_now) in
          ("S " +:+ id) :: spec02_events (DSpec [w_st w] ∅ 0 0) body ++ ["E"]
      | _ => ["BAD " +:+ hdr]
      end
  end.
