(** The reference run of C06: the line-protocol runner of [Model/AclWorld.v] with the gate's
    decision taken by the declarative policy [allowed_b] instead of the model of
    [AuthorizeConnection]. *)
From stdpp Require Import gmap strings.
From EV Require Import Base.Str Model.TableTypes Model.Acl Model.AclWorld Spec.SpecAcl.

Definition run_spec06 := run_acl_with (allowed_b glob_simple).
