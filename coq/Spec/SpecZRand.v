(** C17 reference for ZRANDMEMBER with the draw resolved by a selection function, and the judgement of
    a drawn reply against the descriptor that the acceptance oracle [Spec/SpecZSetExt.v spec_zrandmember]
    (runner modes spec17 / spec17p) answers.

    [spec_zset_r pick strict] is the reference for all 25 sorted-set command words: ZRANDMEMBER applied to
    the view like every single-key command (absent key: nil; other type: error; bad count / last word:
    error before the key is looked at; otherwise the whole set when [|count| >= |set|], else the
    selection), every other word as [spec_zset strict].

    [zrand_ok z c l]: the selections [GetRandom] can make when it does not return the whole set — [|c|]
    members, each with the score it has in the set, distinct when [c > 0].  [zrand_judge ref r] is the
    test that [checks/C17.py _rand_ok] applies to an implementation reply [r] given the oracle's answer
    [ref]: equal, or, when [ref] is the descriptor [rand c items], an array of [|c|] of those items,
    distinct when [c > 0]. *)
From stdpp Require Import gmap strings.
From EV Require Import Base.Str Model.Value Model.Reply Model.ZSetOps Model.ZSetMulti Model.CmdZRand.
From EV Require Import Spec.SpecZSet Spec.SpecZSetExt.
Local Open Scope Z_scope.

Definition zrand_ok (z : zmap) (c : Z) (l : list zitem) : Prop :=
  (forall p, p ∈ l -> z !! fst p = Some (snd p)) /\ zlen l = Z.abs c /\ (0 < c -> base.NoDup (map fst l)).

(** A selection function is a resolution of the random choice when it selects like that whenever
    [GetRandom] selects at all. *)
Definition valid_zpick (pick : zpicker) : Prop :=
  forall z c, Z.abs c < zcard z -> zrand_ok z c (pick z c).

Definition zrand_judge (ref r : reply) : Prop :=
  r = ref \/
  exists c all got, ref = RArr [RSimple "rand"; RInt c; RArr all] /\ r = RArr got /\
    (forall g, g ∈ got -> g ∈ all) /\ zlen got = Z.abs c /\ (0 < c -> base.NoDup got).

Definition spec_zrand (pick : zpicker) (m : zspec) (argv : list string) : zspec * reply :=
  match decode_zrandmember pick argv with
  | None => (m, RErr)
  | Some d => spec_single m d
  end.

Definition is_zrandmember (argv : list string) : bool := String.eqb (lower (arg argv 0)) "zrandmember".

Definition spec_zset_r (pick : zpicker) (strict : bool) (m : zspec) (argv : list string) : zspec * reply :=
  if is_zrandmember argv then spec_zrand pick m argv else spec_zset strict m argv.

Fixpoint spec_zset_r_run (pick : zpicker) (strict : bool) (m : zspec) (cmds : list (list string)) : zspec * list reply :=
  match cmds with
  | [] => (m, [])
  | c :: r => let '(m1, x) := spec_zset_r pick strict m c in
              let '(m2, xs) := spec_zset_r_run pick strict m1 r in (m2, x :: xs)
  end.

(** The script never takes a step on which the documented and the pinned behaviour differ (ZRANDMEMBER
    is not such a step). *)
Fixpoint kf_free_r (pick : zpicker) (m : zspec) (cmds : list (list string)) : bool :=
  match cmds with
  | [] => true
  | c :: r => (is_zrandmember c || bool_decide (spec_zset true m c = spec_zset false m c))
              && kf_free_r pick (fst (spec_zset_r pick true m c)) r
  end.
