(** C15 reference: every list key is a finite sequence; commands are defined directly on sequences
    ([firstn]/[skipn]/[nth_error]/[rev]) with Redis-style index normalisation and clamping.
    Keys holding another type are opaque ([LOther]); an absent key is absent from the map. *)
From stdpp Require Import gmap strings.
From EV Require Import Base.Str Model.Value Model.Reply.
Local Open Scope Z_scope.

Inductive lval := LList (l : list string) | LOther.
Notation lspec := (gmap string lval).

(** * The reference sequence operations *)
Definition norm_idx (len i : Z) : Z := if i <? 0 then len + i else i.

Definition ref_index (l : list string) (i : Z) : option string :=
  let j := norm_idx (zlen l) i in
  if (0 <=? j) && (j <? zlen l) then nth_error l (Z.to_nat j) else None.

(** Inclusive range with negative indices counted from the tail and out-of-range indices clamped. *)
Definition ref_range (l : list string) (s e : Z) : list string :=
  let len := zlen l in
  let s' := Z.max 0 (norm_idx len s) in
  let e' := Z.min (len - 1) (norm_idx len e) in
  if e' <? s' then [] else firstn (Z.to_nat (e' - s' + 1)) (skipn (Z.to_nat s') l).

Definition ref_set (l : list string) (i : Z) (x : string) : option (list string) :=
  let j := norm_idx (zlen l) i in
  if (0 <=? j) && (j <? zlen l)
  then Some (firstn (Z.to_nat j) l ++ x :: skipn (S (Z.to_nat j)) l) else None.

Fixpoint remove_first (n : nat) (x : string) (l : list string) : list string :=
  match n, l with
  | O, _ => l
  | _, [] => []
  | S n', y :: l' => if String.eqb y x then remove_first n' x l' else y :: remove_first n x l'
  end.
(** [count > 0]: the first [count] matches from the head; [count < 0]: the last [|count|] from the
    tail; [0]: all of them. *)
Definition ref_rem (count : Z) (x : string) (l : list string) : list string :=
  if 0 <? count then remove_first (Z.to_nat count) x l
  else if count <? 0 then rev (remove_first (Z.to_nat (- count)) x (rev l))
  else filter (fun y => negb (String.eqb y x)) l.

Definition side_of (s : string) : option bool (* true = left *) :=
  let t := lower s in
  if String.eqb t "left" then Some true else if String.eqb t "right" then Some false else None.

Definition take_side (left : bool) (l : list string) : option (string * list string) :=
  match l with
  | [] => None
  | x :: r => if left then Some (x, r) else Some (last l "", removelast l)
  end.
Definition put_side (left : bool) (x : string) (l : list string) : list string :=
  if left then x :: l else l ++ [x].

(** * One command *)
Definition spec_list (m : lspec) (argv : list string) : lspec * reply :=
  match argv with
  | [] => (m, RErr)
  | cmd :: args =>
    let c := lower cmd in
    if String.eqb c "llen" then
      match args with
      | [k] => match m !! k with
               | None => (m, RInt 0)
               | Some (LList l) => (m, RInt (zlen l))
               | Some LOther => (m, RErr)
               end
      | _ => (m, RErr)
      end
    else if String.eqb c "lindex" then
      match args with
      | [k; i] => match m !! k with
                  | None => (m, RNil)
                  | Some LOther => (m, RErr)
                  | Some (LList l) =>
                      match parse_int i with
                      | None => (m, RErr)
                      | Some i' => (m, match ref_index l i' with Some x => RBulk x | None => RNil end)
                      end
                  end
      | _ => (m, RErr)
      end
    else if String.eqb c "lrange" then
      match args with
      | [k; s; e] => match m !! k with
                     | None => (m, RArr [])
                     | Some LOther => (m, RErr)
                     | Some (LList l) =>
                         match parse_int s, parse_int e with
                         | Some s', Some e' => (m, bulks (ref_range l s' e'))
                         | _, _ => (m, RErr)
                         end
                     end
      | _ => (m, RErr)
      end
    else if String.eqb c "lset" then
      match args with
      | [k; i; x] => match m !! k, parse_int i with
                     | Some (LList l), Some i' =>
                         match ref_set l i' x with
                         | Some l' => (<[k := LList l']> m, ROk)
                         | None => (m, RErr)
                         end
                     | _, _ => (m, RErr)
                     end
      | _ => (m, RErr)
      end
    else if String.eqb c "ltrim" then
      match args with
      | [k; s; e] => match m !! k with
                     | None => (m, ROk)
                     | Some v =>
                         match parse_int s, parse_int e, v with
                         | Some s', Some e', LList l =>
                             match ref_range l s' e' with
                             | [] => (delete k m, ROk)       (* nothing kept: the key goes away *)
                             | r => (<[k := LList r]> m, ROk)
                             end
                         | _, _, _ => (m, RErr)
                         end
                     end
      | _ => (m, RErr)
      end
    else if String.eqb c "lrem" then
      match args with
      | [k; n; x] => match parse_int n with
                     | None => (m, RErr)
                     | Some n' =>
                         match m !! k with
                         | None => (m, RInt 0)
                         | Some LOther => (m, RErr)
                         | Some (LList l) =>
                             let l' := ref_rem n' x l in
                             (<[k := LList l']> m, RInt (zlen l - zlen l'))
                         end
                     end
      | _ => (m, RErr)
      end
    else if String.eqb c "lmove" then
      match args with
      | [src; dst; wf; wt] =>
          match side_of wf, side_of wt, m !! src, m !! dst with
          | Some f, Some t, Some (LList sl), Some (LList dl) =>
              match take_side f sl with
              | None => (m, RErr)
              | Some (x, rest) =>
                  let dl' := if String.eqb src dst then rest else dl in
                  (<[dst := LList (put_side t x dl')]> (<[src := LList rest]> m), ROk)
              end
          | _, _, _, _ => (m, RErr)
          end
      | _ => (m, RErr)
      end
    else if String.eqb c "lpush" || String.eqb c "lpushx" || String.eqb c "rpush" || String.eqb c "rpushx" then
      let left := String.eqb c "lpush" || String.eqb c "lpushx" in
      let onlyx := String.eqb c "lpushx" || String.eqb c "rpushx" in
      match args with
      | k :: x :: xs =>
          let new := x :: xs in
          match m !! k with
          | Some LOther => (m, RErr)
          | None => if onlyx then (m, RErr)
                    else (<[k := LList new]> m, RInt (zlen new))
          | Some (LList l) =>
              (<[k := LList (if left then new ++ l else l ++ new)]> m, RInt (zlen l + zlen new))
          end
      | _ => (m, RErr)
      end
    else if String.eqb c "lpop" || String.eqb c "rpop" then
      let left := String.eqb c "lpop" in
      let go (k : string) (count : option string) :=
        match m !! k with
        | None => (m, RNil)
        | Some LOther => (m, RErr)
        | Some (LList l) =>
            match count with
            | None =>
                match take_side left l with
                | None => (m, RNil)
                | Some (x, rest) => (<[k := LList rest]> m, RBulk x)
                end
            | Some cs =>
                match parse_int cs with
                | None => (m, RErr)
                | Some c0 =>
                    match l with
                    | [] => (m, RNil)
                    | _ =>
                        let n := Z.to_nat (Z.min (Z.abs c0) (zlen l)) in
                        if left then (<[k := LList (skipn n l)]> m, bulks (firstn n l))
                        else (<[k := LList (firstn (length l - n) l)]> m,
                              bulks (rev (skipn (length l - n) l)))
                    end
                end
            end
        end in
      match args with
      | [k] => go k None
      | [k; cs] => go k (Some cs)
      | _ => (m, RErr)
      end
    else (m, RErr)
  end.

(** * Whole scripts *)
Fixpoint spec_list_run (m : lspec) (cmds : list (list string)) : lspec * list reply :=
  match cmds with
  | [] => (m, [])
  | c :: r => let '(m1, x) := spec_list m c in let '(m2, xs) := spec_list_run m1 r in (m2, x :: xs)
  end.
