(** Executable front end of the C14 reference (mode [spec14] of the runner), in the line protocol
    of [Spec/SpecRun.v].  Initial view: one "V <hexkey> <canonical value>" line per live key of the
    implementation's own digest (a hash becomes [HHash], anything else [HOther]).  Commands:
    "C <conn> <hex argv...>" is answered with the reference's reply; for HRANDFIELD the check sends
    "H <conn> <hex argv...> | <hint>" where the hint is the implementation's reply
    ("E" = error, "A tok ..." = flat array of [$hex], [:int], [_]; "X" = anything else) and the answer
    is "R =" when that reply is an allowed outcome, else the canonical reply. *)
From stdpp Require Import gmap strings.
From EV Require Import Base.Str Model.Value Model.Reply Model.Script Model.HashVal Spec.SpecHash.
Local Open Scope Z_scope.

Definition parse_hview_line (m : hspec) (line : string) : hspec :=
  match split_words line with
  | ["V"; hk; v] =>
      match unhex_arg hk, parse_value v with
      | Some k, Some (VHash h) => <[k := HHash h]> m
      | Some k, Some _ => <[k := HOther]> m
      | _, _ => m
      end
  | _ => m
  end.

Fixpoint split_at_bar (l : list string) : list string * list string :=
  match l with
  | [] => ([], [])
  | x :: r => if String.eqb x "|" then ([], r) else let '(a, b) := split_at_bar r in (x :: a, b)
  end.

Definition parse_hint_item (t : string) : option reply :=
  match t with
  | String "$"%char h => RBulk <$> string_of_hex h
  | String ":"%char n => RInt <$> parse_int n
  | "_" => Some RNil
  | _ => None
  end.

Definition parse_hint (toks : list string) : reply :=
  match toks with
  | ["E"] => RErr
  | "A" :: items =>
      match sequence_opt (map parse_hint_item items) with
      | Some l => RArr l
      | None => RRaw ""
      end
  | _ => RRaw ""
  end.

Fixpoint spec14_events (m : hspec) (lines : list string) : list string :=
  match lines with
  | [] => []
  | l :: r =>
      match split_words l with
      | "V" :: _ => spec14_events (parse_hview_line m l) r
      | "C" :: _ :: args =>
          match unhex_all args with
          | Some argv => let '(m', x) := spec_hash m argv in ("R " +:+ show_reply x) :: spec14_events m' r
          | None => ("BAD " +:+ l) :: spec14_events m r
          end
      | "H" :: _ :: rest =>
          let '(args, hint) := split_at_bar rest in
          match unhex_all args with
          | Some argv =>
              let '(m', x) := spec_hash m argv in
              (if hrand_judge m argv (parse_hint hint) then "R =" else "R " +:+ show_reply x)
                :: spec14_events m' r
          | None => ("BAD " +:+ l) :: spec14_events m r
          end
      | _ => spec14_events m r
      end
  end.

Definition run_spec14 (lines : list string) : list string :=
  match lines with
  | [] => []
  | hdr :: body =>
      match split_words hdr with
      | "S" :: id :: _ => ("S " +:+ id) :: spec14_events ∅ body ++ ["E"]
      | _ => ["BAD " +:+ hdr]
      end
  end.
