(** ZRANDMEMBER draws at random: it is NOT in the Coq model, so no refinement theorem covers it; this
    executable reference judges the implementation's replies ("reference-only").  Everything else goes to
    [spec_zset]. *)
From stdpp Require Import gmap strings.
From EV Require Import Base.Str Model.Value Model.Reply Model.ZSetOps Model.ZSetMulti Spec.SpecZSet.
Local Open Scope Z_scope.

(** ZRANDMEMBER key [count [WITHSCORES]]: when the whole set is returned the reply is determined (up to
    order); otherwise the reference replies a descriptor [rand count members] and the check validates the
    implementation's reply against it: |count| entries drawn from the members with their scores,
    distinct when count > 0. *)
Definition spec_zrandmember (m : zspec) (argv : list string) : zspec * reply :=
  if (length argv <? 2)%nat || (4 <? length argv)%nat then (m, RErr) else
  let count := if (3 <=? length argv)%nat
               then match parse_int (arg argv 2) with Some c => Some (if c =? 0 then 1 else c) | None => None end
               else Some 1 in
  match count with
  | None => (m, RErr)
  | Some c =>
      if (length argv =? 4)%nat && negb (eq_fold (arg argv 3) "withscores") then (m, RErr) else
      let withscores := (length argv =? 4)%nat in
      match m !! arg argv 1 with
      | None => (m, RNil)
      | Some ZOther => (m, RErr)
      | Some (ZSet z) =>
          if zcard z <=? Z.abs c then (m, items_reply withscores (zsorted z))
          else (m, RArr [RSimple "rand"; RInt c; items_reply withscores (zsorted z)])
      end
  end.

Definition spec_zset_ext (strict : bool) (m : zspec) (argv : list string) : zspec * reply :=
  if String.eqb (lower (arg argv 0)) "zrandmember" then spec_zrandmember m argv
  else spec_zset strict m argv.
