(** Extraction of the executable model.  Only [ExtrOcamlBasic] and [ExtrOcamlString] are used:
    numbers stay the Coq inductive types. *)
From Coq Require Import ExtrOcamlBasic ExtrOcamlString.
From EV Require Import Model.Script Spec.SpecRun Spec.SpecRunHash Spec.SpecRunSet Spec.SpecRunZSet Model.AclWorld Spec.SpecRunAcl Model.ScriptEvict Spec.SpecEvict Spec.SpecRunPubSub Model.AofRun Spec.SpecRunDurable Model.SnapServer Spec.SpecRunWire Model.ScriptExpiry Spec.SpecRunExpiry Model.ConcRun Model.RaftRun Spec.SpecRunKV.
Extraction Language OCaml.
Extraction "model.ml" run_script run_spec15 run_spec14 run_spec16 run_spec17 run_spec17p run_acl_script run_spec06 run_model08 run_spec08 run_model18 run_spec18 run_aof run_spec02 run_snap run_spec12 run_model04 run_spec04 run_conc_script run_raft run_spec01.
