(** C13 — Read-only commands are pure. *)
From stdpp Require Import gmap strings.
From EV Require Import Base.Str Model.Value Model.Keyspace Model.Reply Model.Prog Model.Dispatch.
From EV Require Import Model.CmdList Model.CmdGeneric Model.CmdString Model.CmdHash Model.CmdSet Model.CmdZSet.
From EV Require Import Proofs.KeyspaceLemmas Proofs.ProgLemmas Proofs.DispatchLemmas Proofs.HandlerClasses.
From EV Require Import Proofs.ListProofs Proofs.HashProofs Proofs.SetProofs Proofs.ZSetProofs.
From EV Require Import Model.CmdZRand Model.CmdKeyspace Model.TableTypes Model.Acl Proofs.ZRandProofs Proofs.KeyspaceCmds Proofs.TableObligations Gen.CmdTable.
Local Open Scope Z_scope.

(** [same_view s s']: every key of every database shows the same value, type and deadline to every
    client, before and after (entries whose deadline had already passed may have been removed). *)

(** A program that calls no writing primitive leaves the observable keyspace as it was — whatever it
    reads, whatever its arguments. *)
Theorem C13_readonly_programs_pure : forall {R} (p : prog R), readonly p -> forall d s, same_view s (fst (run_seq d p s)).
Proof. intros R. exact (@readonly_pure R). Qed.
Print Assumptions C13_readonly_programs_pure.

(** The handler of every read-only command word of the list, generic, string, hash, set and
    sorted-set modules is such a program, for all argument vectors (malformed ones and keys of the wrong
    type included). *)
Theorem C13_read_only_commands_pure : forall name h argv d s,
  In name all_readonly_words -> handler_of name = Some h ->
  same_view s (fst (run_seq d (h argv) s)).
Proof.
  intros name h argv d s Hin Hh. apply readonly_pure. by eapply all_readonly_words_sound.
Qed.
Print Assumptions C13_read_only_commands_pure.

(** Through the dispatcher: the whole server state a later command can observe is unchanged. *)
Theorem C13_read_only_dispatch : forall w c argv cmd,
  argv = cmd :: tl argv -> In (lower cmd) all_readonly_words ->
  same_view (w_st w) (w_st (fst (exec_cmd w c argv))) /\ w_conns (fst (exec_cmd w c argv)) = w_conns w.
Proof.
  intros w c argv cmd Hargv Hin.
  destruct (handler_of (lower cmd)) as [h|] eqn:Hh.
  - rewrite (exec_cmd_runs_handler w c argv cmd h Hargv Hh).
    pose proof (readonly_pure _ (all_readonly_words_sound _ h argv Hin Hh) (conn_db w c) (w_st w)) as H.
    destruct (run_seq _ _ _). simpl in *. done.
  - exfalso. revert Hh. unfold all_readonly_words, readonly_words in Hin. simpl in Hin.
    repeat (destruct Hin as [<-|Hin]; [intros Hh; hnf in Hh; discriminate|]). destruct Hin.
Qed.
Print Assumptions C13_read_only_dispatch.

(** Failing invocations of *any* command change nothing: generic and string commands by the
    error-before-write discipline of their handlers, list / hash / set / sorted-set commands by the
    refinement theorems of C15, C14, C16, C17. *)
Theorem C13_error_pure_generic : forall name h argv d s,
  generic_handler name = Some h -> snd (run_seq d (h argv) s) = RErr -> same_view s (fst (run_seq d (h argv) s)).
Proof. intros. eapply err_before_write_pure; eauto. by eapply eb_generic. Qed.
Print Assumptions C13_error_pure_generic.

Theorem C13_error_pure_string : forall name h argv d s,
  string_handler name = Some h -> snd (run_seq d (h argv) s) = RErr -> same_view s (fst (run_seq d (h argv) s)).
Proof. intros. eapply err_before_write_pure; eauto. by eapply eb_string. Qed.
Print Assumptions C13_error_pure_string.

Theorem C13_error_pure_list : forall argv s d,
  st_maxmem s = 0 -> snd (exec_list d argv s) = RErr -> same_view s (fst (exec_list d argv s)).
Proof. exact list_error_changes_nothing. Qed.
Print Assumptions C13_error_pure_list.

Theorem C13_error_pure_hash : forall argv s d,
  st_maxmem s = 0 -> snd (exec_hash d argv s) = RErr -> same_view s (fst (exec_hash d argv s)).
Proof. exact hash_error_changes_nothing. Qed.
Print Assumptions C13_error_pure_hash.

Theorem C13_error_pure_set : forall pick argv s d,
  st_maxmem s = 0 -> snd (exec_set pick d argv s) = RErr -> same_view s (fst (exec_set pick d argv s)).
Proof. exact set_error_changes_nothing. Qed.
Print Assumptions C13_error_pure_set.

Theorem C13_error_pure_zset : forall argv s d,
  st_maxmem s = 0 -> snd (exec_zset d argv s) = RErr -> same_view s (fst (exec_zset d argv s)).
Proof. exact zset_error_changes_nothing. Qed.
Print Assumptions C13_error_pure_zset.

Theorem C13_error_pure_zset_all : forall pick argv s d,
  st_maxmem s = 0 -> snd (exec_zset_r pick d argv s) = RErr -> same_view s (fst (exec_zset_r pick d argv s)).
Proof. exact zset_r_error_changes_nothing. Qed.
Print Assumptions C13_error_pure_zset_all.

Theorem C13_error_pure_keyspace : forall cands name h argv d s,
  keyspace_handler cands name = Some h ->
  snd (run_seq d (h argv) s) = RErr -> same_view s (fst (run_seq d (h argv) s)).
Proof. intros. eapply err_before_write_pure; eauto. by eapply eb_keyspace. Qed.
Print Assumptions C13_error_pure_keyspace.

(** The randomised readers are pure for EVERY resolution of their random choice (selection functions of
    SRANDMEMBER and ZRANDMEMBER, random source of RANDOMKEY), not only for the one [handler_of] runs. *)
Theorem C13_randomised_readers_pure : forall pick zpick cands argv d s,
  same_view s (fst (run_seq d (handle_srandmember pick argv) s)) /\
  same_view s (fst (run_seq d (handle_zrandmember zpick argv) s)) /\
  fst (run_seq d (handle_randomkey cands argv) s) = s.
Proof.
  intros. split; [apply readonly_pure, ro_srandmember|]. split; [apply readonly_pure, ro_zrandmember|apply randomkey_state].
Qed.
Print Assumptions C13_randomised_readers_pure.

(** TOUCH, OBJECTFREQ, OBJECTIDLETIME on a server without a memory limit: nothing is read, nothing
    changes, not even physically; the reply is fixed by the arity. *)
Theorem C13_keyspace_function_commands_exact : forall argv d s,
  run_seq d (handle_touch argv) s = (s, if (length argv <? 2)%nat then RErr else RSimple "0") /\
  run_seq d (handle_objfreq argv) s = (s, RErr) /\ run_seq d (handle_objidletime argv) s = (s, RErr).
Proof. intros. split; [apply touch_exact|]. split; [apply objfreq_exact|apply objidletime_exact]. Qed.
Print Assumptions C13_keyspace_function_commands_exact.

(** Table obligations (regenerated command table): every read-category row is one of the 47 read-only
    words; every row of the six data modules has a model handler. *)
Theorem C13_read_rows_classified :
  forallb (fun r => negb (is_read_row r) || mem (cr_name r) all_readonly_words
                    || (mem (cr_name r) ro_not_modelled && negb (modelled (cr_name r)))) top_rows = true
  /\ length (filter is_read_row top_rows) = 47%nat.
Proof. exact read_rows_classified. Qed.
Theorem C13_data_rows_modelled :
  forallb (fun r => negb (mem (cr_module r) data_modules) || modelled (cr_name r)) top_rows = true.
Proof. exact data_rows_modelled. Qed.

(** "Never share structure": in the model values are immutable, so a STORE destination cannot alias a
    source; what that means observably is the frame part of C16_frame / C17_frame (a later write to the
    destination changes no other key) — checked against the implementation by the alias-probe streams. *)

(** Non-vacuity: SUNION of a set with itself and a missing key, on a state with an expired key. *)
Example C13_example :
  let s0 := fst (set_values (init_state 100) 0 [("s"%string, VSet {["a"%string; "b"%string]})]) in
  same_view s0 (fst (run_seq 0 (handle_sunion ["SUNION"; "s"; "s"; "nope"]%string) s0)) /\
  snd (run_seq 0 (handle_sunion ["SUNION"; "s"; "s"; "nope"]%string) s0) <> RErr.
Proof. split; [apply readonly_pure, ro_sunion|vm_compute; discriminate]. Qed.
