(** C02 — Append-only log: acknowledged writes survive restart and crash.

    Histories are lists of acknowledged write commands with the database of their caller
    ([Spec.SpecDurable.wr]); [wr_ok] only asks what the log reader itself demands (argument <= 512 MiB,
    <= 1 Mi arguments, database index < 2^29) and that the command is not SELECT (never a write command).
    In the first group of theorems the history is the list of *logged* commands and the restoring process
    shows the clock of the writing one.  What is logged for a client's command is its absolute form
    ([Model/AbsForm.v], [internal.AbsoluteExpiryForm]: a relative expiry becomes the absolute time it
    denotes at the clock the handler saw); the last group ([C02_logged_form_same_effect],
    [C02_clean_restart_relative]) is about the client's commands themselves, with a clock that moves
    between the writes and before the restart.  Randomised commands (SPOP-like) are re-evaluated at replay
    and are excluded ([entry_det_b]); so is a deadline that falls due between a write and its replay
    (horizon [T]).  File-system behaviour is the one stated in [Model/Disk.v]. *)
From stdpp Require Import gmap strings.
From EV Require Import Base.Str Model.Value Model.Keyspace Model.Reply Model.Prog Model.Dispatch.
From EV Require Import Model.Resp Model.Disk Model.Aof Spec.SpecDurable Proofs.RespProofs Proofs.AofProofs.
From EV Require Import Proofs.KeyspaceLemmas.
From EV Require Import Model.AbsForm Model.Raft Proofs.RaftLemmas Proofs.RaftDet Proofs.RaftProofs.
From EV Require Import Proofs.AbsFormProofs Proofs.AbsFormReplay.
Local Open Scope Z_scope.

(** Codec, unbounded sizes. *)
Theorem C02_decode_encode_cmd argv rest : cmd_ok argv ->
  read_top (encode_cmd argv ++ rest) = Ok (value_of_cmd argv) rest /\ cmd_of_value (value_of_cmd argv) = argv.
Proof. exact (decode_encode_cmd argv rest). Qed.
Theorem C02_decode_stream_concat cs : Forall cmd_ok cs -> decode_all (encode_all cs) = (map value_of_cmd cs, TClean).
Proof. exact (decode_stream_concat cs). Qed.
Theorem C02_decode_stream_torn cs c p s : Forall cmd_ok cs -> cmd_ok c -> s <> [] -> p <> [] -> p ++ s = encode_cmd c ->
  decode_all (encode_all cs ++ p) = (map value_of_cmd cs, TTorn p).
Proof. exact (decode_stream_torn cs c p s). Qed.

(** Clean restart, every policy: the restored dataset IS the dataset the writes built. *)
Theorem C02_clean_restart now pol h : Forall wr_ok h ->
  restore now PreEmpty (f_all (a_log (aof_run pol aof_fresh h))) = dataset_after (init_state now) h (length h).
Proof. intros H. unfold dataset_after. rewrite firstn_all. by apply restore_full. Qed.

(** Crash at any instant of the write that follows [h1] (between its file operations, inside a write
    at any byte), process death or power loss, any policy: the restored dataset is that of a prefix of
    the history; it contains all of [h1] — the acknowledged writes — when the process died, or under
    the "always" policy whatever the kind of crash. *)
Theorem C02_crash_prefix now pol h1 d c f img :
  Forall wr_ok (h1 ++ [(d, c)]) ->
  In f (op_instants (a_log (aof_run pol aof_fresh h1)) (write_ops pol (a_cur (aof_run pol aof_fresh h1)) d c)) ->
  In img (power_images f) ->
  exists j, (j <= length (h1 ++ [(d, c)]))%nat /\
    restore now PreEmpty img = dataset_after (init_state now) (h1 ++ [(d, c)]) j /\
    ((img = death_image f \/ pol = Always) -> (length h1 <= j)%nat).
Proof.
  intros Hok Hf Himg. destruct (instant_image pol h1 d c f img Hf Himg) as [[suf Hsuf] Hacked].
  destruct (restore_prefix now pol _ img suf Hok Hsuf) as (j & Hj & Hr & Hge & _).
  exists j. split; [done|]. split; [done|]. intros Hk. destruct (Hacked Hk) as [t Ht].
  apply (Hge (length h1) t); [rewrite app_length; simpl; lia|]. by rewrite firstn_app, firstn_all, Nat.sub_diag, app_nil_r.
Qed.
Corollary C02_always_keeps_acked now h1 d c f img :
  Forall wr_ok (h1 ++ [(d, c)]) ->
  In f (op_instants (a_log (aof_run Always aof_fresh h1)) (write_ops Always (a_cur (aof_run Always aof_fresh h1)) d c)) ->
  In img (power_images f) ->
  exists j, (length h1 <= j <= length (h1 ++ [(d, c)]))%nat /\
    restore now PreEmpty img = dataset_after (init_state now) (h1 ++ [(d, c)]) j.
Proof.
  intros Hok Hf Himg. destruct (C02_crash_prefix now Always h1 d c f img Hok Hf Himg) as (j & Hj & Hr & Hk).
  exists j. split; [split; [apply Hk; by right|done]|done].
Qed.

(** Any byte prefix of the log (whatever produced it) restores to a prefix dataset; the restore drops
    the torn record; writes [h'] made after the recovery are found by the next restore. *)
Theorem C02_redurable now pol h img suf h' : Forall wr_ok h -> Forall wr_ok h' ->
  img ++ suf = f_all (a_log (aof_run pol aof_fresh h)) ->
  exists j, (j <= length h)%nat /\ restore now PreEmpty img = dataset_after (init_state now) h j /\
    restore now PreEmpty (f_all (a_log (aof_run pol (Aof (f_of_bytes (recovered_log img)) (-1)) h'))) =
    run_writes (dataset_after (init_state now) h j) h'.
Proof. exact (redurable now pol h img suf h'). Qed.

(** What is logged does, at the clock the handler saw, exactly what the client's command does: same
    reply, same state — every state, every argument vector. *)
Theorem C02_logged_form_same_effect s d argv :
  exec_db s d (absolute_form (st_now s) argv) = exec_db s d argv.
Proof. exact (absolute_form_same_effect s d argv). Qed.

(** Clean restart for histories with relative expiries and a moving clock: the writer starts at [now0], its
    clock shows [t] at the write [(t, d, argv)], the log receives [absolute_form t argv]; a process
    started when the clock shows [now'] restores the dataset the writes built (everything but the clock
    itself: values, deadlines, volatile index, memory figure) — for every sync policy, provided every
    logged command passes the decidable check [entry_det_b T] (no randomised command; deadlines at or
    after [T]) and no clock reading exceeds [T] (no deadline falls due between write and replay). *)
Theorem C02_clean_restart_relative T pol th now0 now' :
  Forall wr_ok (logged_form th) ->
  Forall (fun w : wr => entry_det_b T (ReqCommand (fst w) (snd w)) = true) (logged_form th) ->
  Forall (fun x : tcmd => fst (fst x) <= T) th -> now0 <= T -> now' <= T ->
  dataset (restore now' PreEmpty (f_all (a_log (aof_run pol aof_fresh (logged_form th))))) =
  dataset (run_timed (init_state now0) th).
Proof. exact (clean_restart_abs T pol th now0 now'). Qed.

(** The check is passed by the absolute form of every command with a relative expiry whose deadline is
    at or after [T] — and never by EXPIRE / PEXPIRE as given. *)
Theorem C02_logged_form_replay_stable T now d argv :
  absolute_form now argv <> argv -> abs_horizon T now argv = true ->
  entry_det_b T (ReqCommand d (absolute_form now argv)) = true.
Proof. exact (absolute_form_replay_stable T now d argv). Qed.

Print Assumptions C02_decode_encode_cmd.
Print Assumptions C02_decode_stream_concat.
Print Assumptions C02_decode_stream_torn.
Print Assumptions C02_clean_restart.
Print Assumptions C02_crash_prefix.
Print Assumptions C02_always_keeps_acked.
Print Assumptions C02_redurable.
Print Assumptions C02_logged_form_same_effect.
Print Assumptions C02_clean_restart_relative.
Print Assumptions C02_logged_form_replay_stable.

(** Non-vacuity: a history over three databases, an embedded and two other callers' databases, five
    value types; it satisfies [wr_ok], its log restores to a dataset with all of it. *)
Definition ex_h : list wr :=
  [(12, ["SET"; "k"; "v1"]); (2, ["RPUSH"; "l"; "a"; "b"]); (2, ["INCR"; "n"]); (0, ["SADD"; "s"; "x"]);
   (12, ["HSET"; "h"; "f"; "1"]); (0, ["ZADD"; "z"; "1.5"; "m"])].
Example ex_h_ok : Forall wr_ok ex_h.
Proof.
  repeat constructor; simpl; try (unfold max_bulk; lia); try (unfold arg_ok, slen, max_bulk; simpl; lia);
    try (unfold zlen, max_array; simpl; lia); reflexivity.
Qed.
Example ex_restore :
  show_view (restore 1700000000000 PreEmpty (f_all (a_log (aof_run EverySec aof_fresh ex_h)))) =
  "mem=* db0{73=S{78}@0 7a=z{6d:3/2}@0} db2{6c=l[61,62]@0 6e=i1@0} db12{68=h{66:i1}@0 6b=s7631@0}".
Proof. vm_compute. reflexivity. Qed.

(** Non-vacuity of the relative-expiry theorems, and the regression witness of the repaired defect: a key
    set with EX 100 at clock 1 700 000 000 000, a second one given 100 s eight seconds later, restart twenty
    seconds after that.  The log holds PXAT / PEXPIREAT and restores the deadlines the client asked for; the
    log as it was written before the repair (the commands as given) re-bases them on the restarting clock. *)
Definition ex_th : list tcmd :=
  [(1700000000000, 0, ["SET"; "k"; "v"; "EX"; "100"]); (1700000008000, 3, ["SET"; "j"; "w"]);
   (1700000008000, 3, ["EXPIRE"; "j"; "100"; "NX"]); (1700000009000, 0, ["GETEX"; "k"; "PX"; "60000"])].
Example ex_logged_form :
  logged_form ex_th =
  [(0, ["SET"; "k"; "v"; "PXAT"; "1700000100000"]); (3, ["SET"; "j"; "w"]);
   (3, ["PEXPIREAT"; "j"; "1700000108000"; "NX"]); (0, ["GETEX"; "k"; "PXAT"; "1700000069000"])].
Proof. vm_compute. reflexivity. Qed.
Example ex_th_hyps :
  Forall (fun w : wr => entry_det_b 1700000060000 (ReqCommand (fst w) (snd w)) = true) (logged_form ex_th) /\
  Forall (fun x : tcmd => fst (fst x) <= 1700000060000) ex_th.
Proof.
  split.
  - rewrite ex_logged_form. repeat (constructor; [vm_compute; reflexivity|]). constructor.
  - unfold ex_th. repeat (constructor; [vm_compute; congruence|]). constructor.
Qed.
Example ex_relative_restore :
  show_view (restore 1700000029000 PreEmpty (f_all (a_log (aof_run Always aof_fresh (logged_form ex_th))))) =
  show_view (run_timed (init_state 1700000000000) ex_th) /\
  show_view (run_timed (init_state 1700000000000) ex_th) = "mem=* db0{6b=s76@1700000069000} db3{6a=s77@1700000108000}".
Proof. vm_compute. split; reflexivity. Qed.
Example C02_verbatim_log_refuted :
  show_view (restore 1700000029000 PreEmpty
               (f_all (a_log (aof_run Always aof_fresh (map (fun '(_, d, c) => (d, c)) ex_th))))) =
  "mem=* db0{6b=s76@1700000089000} db3{6a=s77@1700000129000}".
Proof. vm_compute. reflexivity. Qed.
