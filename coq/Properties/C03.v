(** C03 - Snapshot round trip: restore reproduces the dataset at the snapshot.

    Model: Model/SnapCodec.v (the typed JSON encoding of values and key names), Model/Snapshot.v
    (TakeSnapshot, Restore, the ticker's body), Model/SnapServer.v (SAVE / LASTSAVE / restart).
    Assumptions: [codec_ok] (base64 / strconv round trips, as hypotheses), the file-system assumptions
    of Model/SnapFs.v, no memory limit ([init_state] has none; limits are C08), [st_now s <> 0].
    A snapshot taken while writers are active: [C03_concurrent_snapshot] (the state copy of the snapshot
    engine takes the command lock of [handleCommand]; with C05's serializability the published dataset is
    the store between two commands of the serial order).  The check itself exercises sequential
    histories; concurrent copies are exercised by C05's schedule enumeration. *)
From stdpp Require Import gmap strings.
From RecordUpdate Require Import RecordSet.
Import RecordSetNotations.
From EV Require Import Base.Str Model.Value Model.Keyspace Model.Reply Model.Prog Model.Dispatch Model.SnapCodec Model.SnapFs Model.Snapshot Model.SnapServer.
From EV Require Import Model.Conc.
From EV Require Import Proofs.KeyspaceLemmas Proofs.SnapCodecProofs Proofs.SnapProofs Proofs.SnapRoundTrip.
From EV Require Import Proofs.ConcLemmas Proofs.ConcSerial Proofs.ConcTheorems Proofs.SnapConc Proofs.SnapCount.
Local Open Scope Z_scope.

Section C03.
Variable c : codec.
Hypothesis Hc : codec_ok c.
Context {H : Type} `{EqDecision H}.
Variable hash : snapobj -> H.
Notation sfs := (sfs (H:=H)).

(** The value codec: every value of every type, every byte string, comes back as it was. *)
Theorem C03_codec_roundtrip v : dec_value c (enc_value c v).1 (enc_value c v).2 = Some v.
Proof. by apply dec_enc_value. Qed.
Theorem C03_state_codec_roundtrip dbs : dec_state c (enc_state c dbs) = Some dbs.
Proof. by apply dec_enc_state. Qed.

(** restore (snapshot_at t) at t' = purge t' (dataset_at t): for every directory content [x], every
    dataset [s] (all databases, all value types, all deadlines), every restore time [t'], every database
    [d] and key [k]: the entry a client sees after a fresh start is the entry the store held at the
    snapshot unless its deadline had passed then or has passed now; and LASTSAVE is the snapshot's time. *)
Theorem C03_roundtrip (x x' : sfs) s ls s' ls' t' :
  st_now s <> 0 ->
  take_snapshot c hash x s ls None = (x', s', ls', SnapOk) ->
  exists sr, startup c x' t' = (sr, st_now s) /\
    st_now sr = t' /\
    forall d k, lentry sr d k = purge1 t' (purge1 (st_now s) (flookup (st_dbs s) d k)).
Proof.
  intros Hnow Ht.
  destruct (snapshot_roundtrip c Hc hash x s ls x' s' ls' t' 0 "" Hnow Ht) as (sr & Hr & _ & Hn).
  exists sr. unfold startup. rewrite Hr. split; [done|]. split; [done|].
  intros d k. destruct (snapshot_roundtrip c Hc hash x s ls x' s' ls' t' d k Hnow Ht) as (sr' & Hr' & Hl & _).
  rewrite Hr in Hr'. by injection Hr' as <-.
Qed.

(** The same in terms of what clients saw at the snapshot: a key that was visible then is served after
    the restart iff its deadline has not passed at [t']; a key that was not visible is not served. *)
Corollary C03_roundtrip_view (x x' : sfs) s ls s' ls' t' :
  st_now s <> 0 ->
  take_snapshot c hash x s ls None = (x', s', ls', SnapOk) ->
  exists sr, startup c x' t' = (sr, st_now s) /\ forall d k, lentry sr d k = purge1 t' (lentry s d k).
Proof.
  intros Hnow Ht. destruct (C03_roundtrip x x' s ls s' ls' t' Hnow Ht) as (sr & Hs & _ & Hl).
  exists sr. split; [done|]. intros d k. by rewrite Hl, lentry_flookup.
Qed.

(** LASTSAVE: a completed snapshot sets it to the snapshot's time (and resets the change counter);
    any other outcome leaves it alone; after a restart it is the time of the restored snapshot, or
    "no snapshot" when nothing could be restored. *)
Theorem C03_lastsave (x : sfs) s ls fail x' s' ls' r :
  take_snapshot c hash x s ls fail = (x', s', ls', r) ->
  (r = SnapOk /\ ls' = st_now s /\ st_changes s' = 0) \/ (r <> SnapOk /\ ls' = ls /\ s' = s).
Proof. apply lastsave_after_take. Qed.

Theorem C03_lastsave_restart (x : sfs) now :
  (startup c x now).2 = match restore c x (init_state now) with Some (_, ls) => ls | None => 0 end.
Proof. unfold startup. by destruct (restore c x (init_state now)) as [[? ?]|]. Qed.

(** The automatic trigger.  Once the number of changes has reached the threshold it stays reached
    whatever commands run next (only a completed snapshot resets the counter), so the first tick after
    that - at most one interval later - attempts a snapshot of the dataset of that instant; the
    attempt publishes it, unless the manifest already carries the hash of exactly this dataset. *)
Theorem C03_auto_trigger {R} thr (x : sfs) s ls d (p : prog R) :
  thr <= st_changes s ->
  let s1 := (run_seq d p s).1 in
  tick c hash thr x s1 ls =
    let '(x', s', ls', r) := take_snapshot c hash x s1 ls None in (x', s', ls', Some r).
Proof.
  intros Hthr s1. apply tick_attempts. etrans; [exact Hthr|]. apply changes_monotone.
Qed.

Theorem C03_auto_trigger_outcome (x : sfs) s ls :
  st_now s <> 0 ->
  match read_manifest x with MBad => False | _ => True end ->
  let '(x', s', ls', r) := take_snapshot c hash x s ls None in
  (r = SnapOk /\ restore_read x' = Some (snapshot_object c s (st_now s))) \/
  (r = SnapSkip /\ exists m, read_manifest x = MOk m /\ m_hash m = hash (snapshot_object c s ls)).
Proof. by apply attempt_outcome. Qed.

Theorem C03_no_early_snapshot thr (x : sfs) s ls :
  st_changes s < thr -> tick c hash thr x s ls = (x, s, ls, None).
Proof. apply tick_below. Qed.

(** The trigger and the writes served while a snapshot is being written.  [take_snapshot_during x s0 s1]: the
    state is copied when the store is [s0], the files are written from the copy, the store is [s1] when the
    attempt ends.  The files, the outcome and LASTSAVE are those of a snapshot of [s0]
    ([C03_snapshot_during_is_of_the_copy]); the writes served meanwhile — any program [p] — are not in the
    snapshot and are all still counted when it ends ([C03_changes_during_snapshot_counted]); when they and the
    writes after the attempt ([q]) together reach the threshold, the next tick attempts a snapshot
    ([C03_trigger_after_snapshot]): "no later than one interval after the configured number of writes has
    accumulated" also when some of those writes arrived while the previous snapshot was written.  The code
    before the repair reset the counter and forgot them: [C03_counter_reset_refuted]. *)
Theorem C03_snapshot_during_quiet (x : sfs) s ls fail :
  take_snapshot_during c hash x s s ls fail = take_snapshot c hash x s ls fail.
Proof. apply take_snapshot_during_quiet. Qed.

Theorem C03_snapshot_during_is_of_the_copy (x : sfs) s0 s1 ls fail :
  let '(x', _, ls', r) := take_snapshot_during c hash x s0 s1 ls fail in
  let '(x'', _, ls'', r') := take_snapshot c hash x s0 ls fail in
  x' = x'' /\ ls' = ls'' /\ r = r'.
Proof. apply take_snapshot_during_files. Qed.

Theorem C03_changes_during_snapshot_counted {R} (x : sfs) s0 ls d (p : prog R) :
  let s1 := (run_seq d p s0).1 in
  let '(_, s', _, r) := take_snapshot_during c hash x s0 s1 ls None in
  r = SnapOk -> st_changes s' = st_changes s1 - st_changes s0 /\ 0 <= st_changes s'.
Proof. apply changes_during_snapshot_counted. Qed.

Theorem C03_trigger_after_snapshot {R R'} thr (x : sfs) s0 ls d (p : prog R) d' (q : prog R') :
  let s1 := (run_seq d p s0).1 in
  let '(x', s', ls', r) := take_snapshot_during c hash x s0 s1 ls None in
  r = SnapOk ->
  let s2 := (run_seq d' q s').1 in
  thr <= (st_changes s1 - st_changes s0) + (st_changes s2 - st_changes s') ->
  tick c hash thr x' s2 ls' =
    let '(x'', s'', ls'', r') := take_snapshot c hash x' s2 ls' None in (x'', s'', ls'', Some r').
Proof. apply trigger_after_snapshot. Qed.

(** A snapshot taken while writers are active.  For every pool of concurrently running commands (any
    programs over the keyspace primitives, hence every handler with any arguments) and state copies,
    every initial store and every schedule that completes: the lock-acquisition order [perm] is the serial
    order of [C05_serializable] (every thread once; final store and every outcome equal the serial run),
    the snapshot actor [t] sits at one position of it, the state its [TakeSnapshot] works on
    ([snapshot_by]: [take_snapshot] applied to the copy) is the store after the commands before that
    position, and when the attempt completes the state file holds exactly that dataset and a restart at
    any time [t'] serves, for every database and key, the entry clients saw at that position unless its
    deadline has passed at [t'].  A snapshot never contains half a command. *)
Theorem C03_concurrent_snapshot (acts : gmap nat act) s0 sched (t : nat) :
  all_lock acts -> acts !! t = Some ACopy -> st_now s0 <> 0 ->
  let P := run_conc (fixed_pool acts s0) sched in
  all_done P ->
  let perm := acq_order P in
  (base.NoDup perm /\ forall u, In u perm <-> is_Some (acts !! u)) /\
  p_store P = (run_serial acts perm s0).1 /\
  (forall u, is_Some (acts !! u) -> outcome_of P u = (run_serial acts perm s0).2 !! u) /\
  exists pre post, perm = pre ++ t :: post /\
    let sc := (run_serial acts pre s0).1 in
    outcome_of P t = Some (OSnap sc) /\
    forall (x x' : sfs) ls sx ls' t',
      snapshot_by c hash P t x ls = Some (x', sx, ls', SnapOk) ->
      ls' = st_now s0 /\
      restore_read x' = Some (snapshot_object c sc (st_now s0)) /\
      exists sr, startup c x' t' = (sr, st_now s0) /\ st_now sr = t' /\
        forall d k, lentry sr d k = purge1 t' (lentry sc d k).
Proof. exact (concurrent_snapshot c Hc hash acts s0 sched t). Qed.

(** The same with the expiry sampler running at arbitrary points (it takes no command lock): the copy
    shows every client the same keyspace as the serial prefix, and the restart serves the same entries
    (no memory limit; functional extensionality through [C05_serializable_with_expiry]). *)
Theorem C03_concurrent_snapshot_with_expiry (acts : gmap nat act) s0 sched (t : nat) :
  acts !! t = Some ACopy -> st_now s0 <> 0 -> st_maxmem s0 = 0 ->
  let P := run_conc (fixed_pool acts s0) sched in
  all_done P ->
  let perm := acq_order P in
  exists pre post sc, perm = pre ++ t :: post /\
    outcome_of P t = Some (OSnap sc) /\
    same_view sc (run_serial acts pre s0).1 /\
    forall (x x' : sfs) ls sx ls' t',
      snapshot_by c hash P t x ls = Some (x', sx, ls', SnapOk) ->
      ls' = st_now s0 /\
      exists sr, startup c x' t' = (sr, st_now s0) /\ st_now sr = t' /\
        forall d k, lentry sr d k = purge1 t' (lentry (run_serial acts pre s0).1 d k).
Proof. exact (concurrent_snapshot_with_expiry c Hc hash acts s0 sched t). Qed.

End C03.

(** The change counter as it was handled before the repair (set to zero when the attempt ends): one write served
    while the snapshot is written, threshold 1.  The attempt completes, the write is not in the published snapshot,
    one change has accumulated — and the next tick does nothing.  On the repaired model the same tick takes the
    snapshot ([C03_counter_discount_example]). *)
Theorem C03_counter_reset_refuted :
  let s0 := init_state 100 in
  let s1 := (run_seq 0 wit_prog s0).1 in
  let '(x', s', ls', r) := take_snapshot_during_legacy wit_codec (H:=snapobj) (fun o => o) fs_empty s0 s1 0 None in
  r = SnapOk /\ 1 <= st_changes s1 - st_changes s0 /\
  restore_read x' = Some (snapshot_object wit_codec s0 100) /\
  tick wit_codec (H:=snapobj) (fun o => o) 1 x' s' ls' = (x', s', ls', None).
Proof. exact counter_reset_forgets_writes. Qed.
Example C03_counter_discount_example :
  let s0 := init_state 100 in
  let s1 := (run_seq 0 wit_prog s0).1 in
  let '(x', s', ls', r) := take_snapshot_during wit_codec (H:=snapobj) (fun o => o) fs_empty s0 s1 0 None in
  r = SnapOk /\ (tick wit_codec (H:=snapobj) (fun o => o) 1 x' s' ls').2 = Some SnapOk.
Proof. exact counter_discount_keeps_writes. Qed.

(** The trigger as it was written before the fix ([changeCount == threshold]) misses the snapshot as soon
    as one more write than the threshold falls between two ticks. *)
Theorem C03_equality_trigger_refuted :
  exists (thr : Z) (s : state), thr <= st_changes s /\ (st_changes s =? thr) = false.
Proof. exists 2, ((init_state 1) <| st_changes := 3 |>). vm_compute. split; [discriminate|done]. Qed.

(** Key names written as JSON member names without an injective encoding (before the fix: bytes that are
    not valid UTF-8 all became U+FFFD) cannot all come back. *)
Theorem C03_keyname_collision_refuted (kn : string -> string) (dec : list (string * entry) -> option dbmap) k1 k2 (e : entry) :
  k1 <> k2 -> kn k1 = kn k2 ->
  ~ (forall db : dbmap, dec (map (fun p => (kn p.1, p.2)) (map_to_list db)) = Some db).
Proof. exact (keyname_collision_loses_a_key kn dec k1 k2 e). Qed.

(** Non-vacuity: a dataset with a string, a list with a deadline, an expired key and a second database;
    snapshot at 10, restore at 20 (the list's deadline 15 has passed by then). *)
Definition ex_state : state :=
  let s := (set_values (init_state 10) 0 [("s", VStr "v"); ("l", VList ["a"; "b"]); ("gone", VInt 1)]).1 in
  let s := set_expiry s 0 "l" (Some 15) in
  let s := (set_values s 3 [("h", VHash {["f" := SInt 7]})]).1 in
  s.
Example C03_example :
  let '(x', _, ls', r) := take_snapshot run_codec (fun o => o) fs_empty ex_state 0 None in
  r = SnapOk /\ ls' = 10 /\
  show_state (startup run_codec x' 12).1 = "mem=259 db0{676f6e65=i1@0 6c=l[61,62]@15 73=s76@0}v[6c] db3{68=h{66:i7}@0}v[]"%string /\
  show_state (startup run_codec x' 20).1 = "mem=184 db0{676f6e65=i1@0 73=s76@0}v[] db3{68=h{66:i7}@0}v[]"%string /\
  (startup run_codec x' 20).2 = 10.
Proof. vm_compute. repeat split; done. Qed.

(** Non-vacuity of [C03_concurrent_snapshot]: three threads - MSET, LMOVE, and the snapshot's state copy -
    on a store with two lists; the schedule lets MSET start, then offers every thread a step in turn.
    The copy gets the lock second: the snapshot holds MSET's two keys and the lists as they were before
    LMOVE, and that is what the restart serves; the final store has the element moved. *)
Definition conc_s0 : state :=
  (set_values (init_state 10) 0 [("src", VList ["a"; "b"]); ("dst", VList ["z"])]).1.
Definition conc_acts : gmap nat act :=
  {[ 0%nat := cmd_act 0 ["MSET"; "k"; "1"; "m"; "x"];
     1%nat := cmd_act 0 ["LMOVE"; "src"; "dst"; "LEFT"; "RIGHT"];
     2%nat := ACopy ]}.
Definition conc_sched : list nat := concat (replicate 8 [0; 2; 1]%nat).

Lemma conc_acts_all_lock : all_lock conc_acts.
Proof.
  intros t a Ht. unfold conc_acts in Ht.
  repeat (apply lookup_insert_Some in Ht; destruct Ht as [[_ <-]|[_ Ht]]; [done|]).
  apply lookup_singleton_Some in Ht. by destruct Ht as [_ <-].
Qed.

Example C03_concurrent_example :
  all_lock conc_acts /\ conc_acts !! 2%nat = Some ACopy /\ st_now conc_s0 <> 0 /\
  let P := run_conc (fixed_pool conc_acts conc_s0) conc_sched in
  all_doneb P = true /\ acq_order P = [0; 2; 1]%nat /\
  show_state (p_store P) = "mem=244 db0{647374=l[7a,61]@0 6b=i1@0 6d=s78@0 737263=l[62]@0}v[]"%string /\
  match snapshot_by run_codec (fun o => o) P 2%nat fs_empty 0 with
  | Some (x', _, ls', r) =>
      r = SnapOk /\ ls' = 10 /\
      show_state (startup run_codec x' 12).1 = "mem=244 db0{647374=l[7a]@0 6b=i1@0 6d=s78@0 737263=l[61,62]@0}v[]"%string
  | None => False
  end.
Proof.
  split; [exact conc_acts_all_lock|]. split; [vm_compute; reflexivity|]. split; [vm_compute; discriminate|].
  vm_compute. repeat split; reflexivity.
Qed.

(** Regression witness: with the state copy NOT under the command lock (the code before the C05 repair:
    [free_pool]) a snapshot can contain half a command - RENAME has written the new key and not yet
    deleted the old one, so the restart serves the value under both names. *)
Definition half_s0 : state := (set_values (init_state 10) 0 [("old", VStr "v")]).1.
Definition half_acts : gmap nat act := {[ 0%nat := cmd_act 0 ["RENAME"; "old"; "new"]; 1%nat := ACopy ]}.
Theorem C03_unlocked_copy_half_command_refuted :
  exists (acts : gmap nat act) s0 sched,
    let P := run_conc (free_pool acts s0) sched in
    all_doneb P = true /\
    match snapshot_by run_codec (fun o => o) P 1%nat fs_empty 0 with
    | Some (x', _, _, r) =>
        r = SnapOk /\
        show_state (startup run_codec x' 12).1 = "mem=120 db0{6e6577=s76@0 6f6c64=s76@0}v[]"%string
    | None => False
    end /\
    (* in either serial order the copy holds exactly one of the two names *)
    forall perm, Permutation perm [0; 1]%nat ->
      match (run_serial acts perm s0).2 !! 1%nat with
      | Some (OSnap sc) => bool_decide (is_Some (lentry sc 0 "old")) = negb (bool_decide (is_Some (lentry sc 0 "new")))
      | _ => False
      end.
Proof.
  exists half_acts, half_s0, [0; 0; 0; 0; 1; 1; 0; 0; 0]%nat. cbv zeta.
  split; [vm_compute; reflexivity|]. split; [vm_compute; split; reflexivity|].
  intros perm Hp. apply Permutation_sym, Permutation_length_2_inv in Hp. destruct Hp as [-> | ->]; vm_compute; reflexivity.
Qed.

Print Assumptions C03_codec_roundtrip.
Print Assumptions C03_state_codec_roundtrip.
Print Assumptions C03_roundtrip.
Print Assumptions C03_roundtrip_view.
Print Assumptions C03_lastsave.
Print Assumptions C03_lastsave_restart.
Print Assumptions C03_auto_trigger.
Print Assumptions C03_auto_trigger_outcome.
Print Assumptions C03_no_early_snapshot.
Print Assumptions C03_snapshot_during_quiet.
Print Assumptions C03_snapshot_during_is_of_the_copy.
Print Assumptions C03_changes_during_snapshot_counted.
Print Assumptions C03_trigger_after_snapshot.
Print Assumptions C03_counter_reset_refuted.
Print Assumptions C03_equality_trigger_refuted.
Print Assumptions C03_keyname_collision_refuted.
Print Assumptions C03_concurrent_snapshot.
Print Assumptions C03_concurrent_snapshot_with_expiry.
Print Assumptions C03_unlocked_copy_half_command_refuted.
