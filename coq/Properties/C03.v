(** C03 - Snapshot round trip: restore reproduces the dataset at the snapshot.

    Model: Model/SnapCodec.v (the typed JSON encoding of values and key names), Model/Snapshot.v
    (TakeSnapshot, Restore, the ticker's body), Model/SnapServer.v (SAVE / LASTSAVE / restart).
    Assumptions: [codec_ok] (base64 / strconv round trips, as hypotheses), the file-system assumptions
    of Model/SnapFs.v, no memory limit ([init_state] has none; limits are C08), [st_now s <> 0].
    Not covered by a theorem: a snapshot taken while writers are active (the state copy of [getState] is
    not taken under the store lock; that is C05's subject) - the check exercises sequential histories. *)
From stdpp Require Import gmap strings.
From RecordUpdate Require Import RecordSet.
Import RecordSetNotations.
From EV Require Import Base.Str Model.Value Model.Keyspace Model.Prog Model.SnapCodec Model.SnapFs Model.Snapshot Model.SnapServer.
From EV Require Import Proofs.KeyspaceLemmas Proofs.SnapCodecProofs Proofs.SnapProofs Proofs.SnapRoundTrip.
Local Open Scope Z_scope.

Section C03.
Variable c : codec.
Hypothesis Hc : codec_ok c.
Context {H : Type} `{EqDecision H}.
Variable hash : snapobj -> H.
Notation sfs := (sfs (H:=H)).

(** The value codec: every value of every type, every byte string, comes back as it was. *)
Theorem C03_codec_roundtrip v : dec_value c (enc_value c v).1 (enc_value c v).2 = Some v.
Proof. by apply dec_enc_value. Qed.
Theorem C03_state_codec_roundtrip dbs : dec_state c (enc_state c dbs) = Some dbs.
Proof. by apply dec_enc_state. Qed.

(** restore (snapshot_at t) at t' = purge t' (dataset_at t): for every directory content [x], every
    dataset [s] (all databases, all value types, all deadlines), every restore time [t'], every database
    [d] and key [k]: the entry a client sees after a fresh start is the entry the store held at the
    snapshot unless its deadline had passed then or has passed now; and LASTSAVE is the snapshot's time. *)
Theorem C03_roundtrip (x x' : sfs) s ls s' ls' t' :
  st_now s <> 0 ->
  take_snapshot c hash x s ls None = (x', s', ls', SnapOk) ->
  exists sr, startup c x' t' = (sr, st_now s) /\
    st_now sr = t' /\
    forall d k, lentry sr d k = purge1 t' (purge1 (st_now s) (flookup (st_dbs s) d k)).
Proof.
  intros Hnow Ht.
  destruct (snapshot_roundtrip c Hc hash x s ls x' s' ls' t' 0 "" Hnow Ht) as (sr & Hr & _ & Hn).
  exists sr. unfold startup. rewrite Hr. split; [done|]. split; [done|].
  intros d k. destruct (snapshot_roundtrip c Hc hash x s ls x' s' ls' t' d k Hnow Ht) as (sr' & Hr' & Hl & _).
  rewrite Hr in Hr'. by injection Hr' as <-.
Qed.

(** The same in terms of what clients saw at the snapshot: a key that was visible then is served after
    the restart iff its deadline has not passed at [t']; a key that was not visible is not served. *)
Corollary C03_roundtrip_view (x x' : sfs) s ls s' ls' t' :
  st_now s <> 0 ->
  take_snapshot c hash x s ls None = (x', s', ls', SnapOk) ->
  exists sr, startup c x' t' = (sr, st_now s) /\ forall d k, lentry sr d k = purge1 t' (lentry s d k).
Proof.
  intros Hnow Ht. destruct (C03_roundtrip x x' s ls s' ls' t' Hnow Ht) as (sr & Hs & _ & Hl).
  exists sr. split; [done|]. intros d k. by rewrite Hl, lentry_flookup.
Qed.

(** LASTSAVE: a completed snapshot sets it to the snapshot's time (and resets the change counter);
    any other outcome leaves it alone; after a restart it is the time of the restored snapshot, or
    "no snapshot" when nothing could be restored. *)
Theorem C03_lastsave (x : sfs) s ls fail x' s' ls' r :
  take_snapshot c hash x s ls fail = (x', s', ls', r) ->
  (r = SnapOk /\ ls' = st_now s /\ st_changes s' = 0) \/ (r <> SnapOk /\ ls' = ls /\ s' = s).
Proof. apply lastsave_after_take. Qed.

Theorem C03_lastsave_restart (x : sfs) now :
  (startup c x now).2 = match restore c x (init_state now) with Some (_, ls) => ls | None => 0 end.
Proof. unfold startup. by destruct (restore c x (init_state now)) as [[? ?]|]. Qed.

(** The automatic trigger.  Once the number of changes has reached the threshold it stays reached
    whatever commands run next (only a completed snapshot resets the counter), so the first tick after
    that - at most one interval later - attempts a snapshot of the dataset of that instant; the
    attempt publishes it, unless the manifest already carries the hash of exactly this dataset. *)
Theorem C03_auto_trigger {R} thr (x : sfs) s ls d (p : prog R) :
  thr <= st_changes s ->
  let s1 := (run_seq d p s).1 in
  tick c hash thr x s1 ls =
    let '(x', s', ls', r) := take_snapshot c hash x s1 ls None in (x', s', ls', Some r).
Proof.
  intros Hthr s1. apply tick_attempts. etrans; [exact Hthr|]. apply changes_monotone.
Qed.

Theorem C03_auto_trigger_outcome (x : sfs) s ls :
  st_now s <> 0 ->
  match read_manifest x with MBad => False | _ => True end ->
  let '(x', s', ls', r) := take_snapshot c hash x s ls None in
  (r = SnapOk /\ restore_read x' = Some (snapshot_object c s (st_now s))) \/
  (r = SnapSkip /\ exists m, read_manifest x = MOk m /\ m_hash m = hash (snapshot_object c s ls)).
Proof. by apply attempt_outcome. Qed.

Theorem C03_no_early_snapshot thr (x : sfs) s ls :
  st_changes s < thr -> tick c hash thr x s ls = (x, s, ls, None).
Proof. apply tick_below. Qed.

End C03.

(** The trigger as it was written before the fix ([changeCount == threshold]) misses the snapshot as soon
    as one more write than the threshold falls between two ticks. *)
Theorem C03_equality_trigger_refuted :
  exists (thr : Z) (s : state), thr <= st_changes s /\ (st_changes s =? thr) = false.
Proof. exists 2, ((init_state 1) <| st_changes := 3 |>). vm_compute. split; [discriminate|done]. Qed.

(** Key names written as JSON member names without an injective encoding (before the fix: bytes that are
    not valid UTF-8 all became U+FFFD) cannot all come back. *)
Theorem C03_keyname_collision_refuted (kn : string -> string) (dec : list (string * entry) -> option dbmap) k1 k2 (e : entry) :
  k1 <> k2 -> kn k1 = kn k2 ->
  ~ (forall db : dbmap, dec (map (fun p => (kn p.1, p.2)) (map_to_list db)) = Some db).
Proof. exact (keyname_collision_loses_a_key kn dec k1 k2 e). Qed.

(** Non-vacuity: a dataset with a string, a list with a deadline, an expired key and a second database;
    snapshot at 10, restore at 20 (the list's deadline 15 has passed by then). *)
Definition ex_state : state :=
  let s := (set_values (init_state 10) 0 [("s", VStr "v"); ("l", VList ["a"; "b"]); ("gone", VInt 1)]).1 in
  let s := set_expiry s 0 "l" (Some 15) in
  let s := (set_values s 3 [("h", VHash {["f" := SInt 7]})]).1 in
  s.
Example C03_example :
  let '(x', _, ls', r) := take_snapshot run_codec (fun o => o) fs_empty ex_state 0 None in
  r = SnapOk /\ ls' = 10 /\
  show_state (startup run_codec x' 12).1 = "mem=259 db0{676f6e65=i1@0 6c=l[61,62]@15 73=s76@0}v[6c] db3{68=h{66:i7}@0}v[]"%string /\
  show_state (startup run_codec x' 20).1 = "mem=184 db0{676f6e65=i1@0 73=s76@0}v[] db3{68=h{66:i7}@0}v[]"%string /\
  (startup run_codec x' 20).2 = 10.
Proof. vm_compute. repeat split; done. Qed.

Print Assumptions C03_codec_roundtrip.
Print Assumptions C03_state_codec_roundtrip.
Print Assumptions C03_roundtrip.
Print Assumptions C03_roundtrip_view.
Print Assumptions C03_lastsave.
Print Assumptions C03_lastsave_restart.
Print Assumptions C03_auto_trigger.
Print Assumptions C03_auto_trigger_outcome.
Print Assumptions C03_no_early_snapshot.
Print Assumptions C03_equality_trigger_refuted.
Print Assumptions C03_keyname_collision_refuted.
