(** C17 — Sorted-set commands implement a scored, ordered member map. *)
From stdpp Require Import gmap strings sorting.
From Coq Require Import QArith.
From EV Require Import Base.Str Model.Value Model.Keyspace Model.Reply Model.Prog Model.ZSetOps Model.ZSetMulti Model.CmdZSet Model.Dispatch.
From EV Require Import Spec.SpecZSet Proofs.KeyspaceLemmas Proofs.ZSetPure Proofs.ZSetProofs Proofs.DispatchLemmas.
From EV Require Import Model.CmdZRand Spec.SpecZSetExt Spec.SpecZRand Proofs.ZRandProofs.
Local Open Scope Z_scope.

(** Commands covered: ZADD ZCARD ZSCORE ZMSCORE ZREM ZINCRBY ZCOUNT ZRANK ZREVRANK ZPOPMIN ZPOPMAX ZRANGE
    ZRANGESTORE ZLEXCOUNT ZREMRANGEBYSCORE ZREMRANGEBYLEX ZREMRANGEBYRANK ZINTER ZINTERSTORE ZUNION
    ZUNIONSTORE ZDIFF ZDIFFSTORE ZMPOP by the theorems over [run_zset_cmds] / [spec_zset]; all 25 with
    ZRANDMEMBER, for every resolution of its random choice, by the [..._all] theorems over
    [run_zset_r_cmds pick] / [spec_zset_r pick] further down ([run_zset_cmds] answers an error for every
    other command word, and so does [spec_zset]).

    The full statement: for every finite sequence of argument vectors (any command word, arity, bytes),
    from every state of the keyspace (any pre-existing types, deadlines, databases) without a memory
    limit, the replies of the handlers and the resulting sorted sets of the selected database are those
    of the reference [spec_zset true] (member -> score maps ordered by score then member).

    That statement is REFUTED by the code as it is, in four places that the suite pins against the
    documentation (the [..._refuted] theorems below, one per known finding).  It is proved
    - for all scripts against the reference that adopts exactly those four behaviours
      ([C17_refines_as_pinned], no guard);
    - against the documented reference for all scripts that never take a step on which the two readings
      differ ([C17_refines], guard [kf_free], decidable, evaluated along the reference run), in
      particular all scripts without a plain ZADD (no NX/XX/CH/INCR), without LIMIT, without ZMPOP and
      without ZUNIONSTORE ([C17_refines_static]). *)
Theorem C17_refines_as_pinned : forall cmds s d,
  st_maxmem s = 0 ->
  let '(s', rs) := run_zset_cmds d cmds s in
  let '(m', rs') := spec_zset_run false (zview s d) cmds in
  rs = rs' /\ zview s' d = m' /\ st_maxmem s' = 0.
Proof. exact zset_script_refines_pinned. Qed.
Print Assumptions C17_refines_as_pinned.

Theorem C17_refines : forall cmds s d,
  st_maxmem s = 0 -> kf_free (zview s d) cmds = true ->
  let '(s', rs) := run_zset_cmds d cmds s in
  let '(m', rs') := spec_zset_run true (zview s d) cmds in
  rs = rs' /\ zview s' d = m' /\ st_maxmem s' = 0.
Proof. exact zset_script_refines. Qed.
Print Assumptions C17_refines.

Theorem C17_refines_static : forall cmds s d,
  st_maxmem s = 0 -> forallb static_free cmds = true ->
  let '(s', rs) := run_zset_cmds d cmds s in
  let '(m', rs') := spec_zset_run true (zview s d) cmds in
  rs = rs' /\ zview s' d = m' /\ st_maxmem s' = 0.
Proof. intros cmds s d Hm Hs. apply zset_script_refines; [done|]. by apply static_free_kf_free. Qed.
Print Assumptions C17_refines_static.

(** * All 25 handlers: ZRANDMEMBER included, for every resolution of the random choice.

    [pick] stands for [SortedSet.GetRandom]'s draw: any function from the set and the count to a list of
    members.  The same [pick] resolves the choice in the model handler and in the reference, so the
    statements hold for every resolution; [C17_zrandmember_accepted] says that every resolution that is a
    possible draw ([valid_zpick]: |count| members of the set with their scores, distinct for a positive
    count) gives a reply that the acceptance oracle (runner modes spec17 / spec17p, which judge the
    implementation's ZRANDMEMBER replies) accepts; [C17_every_draw_is_a_resolution] that every possible draw
    is the reply under some valid resolution; [C17_default_pick_valid] that the executable model's is one. *)
Theorem C17_refines_all_as_pinned : forall pick cmds s d,
  st_maxmem s = 0 ->
  let '(s', rs) := run_zset_r_cmds pick d cmds s in
  let '(m', rs') := spec_zset_r_run pick false (zview s d) cmds in
  rs = rs' /\ zview s' d = m' /\ st_maxmem s' = 0.
Proof. exact zset_r_script_refines_pinned. Qed.
Print Assumptions C17_refines_all_as_pinned.

Theorem C17_refines_all : forall pick cmds s d,
  st_maxmem s = 0 -> kf_free_r pick (zview s d) cmds = true ->
  let '(s', rs) := run_zset_r_cmds pick d cmds s in
  let '(m', rs') := spec_zset_r_run pick true (zview s d) cmds in
  rs = rs' /\ zview s' d = m' /\ st_maxmem s' = 0.
Proof. exact zset_r_script_refines. Qed.
Print Assumptions C17_refines_all.

Theorem C17_zrandmember_accepted : forall pick m argv,
  valid_zpick pick ->
  fst (spec_zrandmember m argv) = m /\ fst (spec_zrand pick m argv) = m /\
  zrand_judge (snd (spec_zrandmember m argv)) (snd (spec_zrand pick m argv)).
Proof. exact zrand_reference_agrees. Qed.
Print Assumptions C17_zrandmember_accepted.

Theorem C17_every_draw_is_a_resolution : forall z c l,
  Z.abs c < zcard z -> zrand_ok z c l -> exists pick, valid_zpick pick /\ zrand_select pick z c = l.
Proof. exact every_selection_is_a_resolution. Qed.
Print Assumptions C17_every_draw_is_a_resolution.

Theorem C17_default_pick_valid : valid_zpick default_zpick.
Proof. exact default_zpick_valid. Qed.
Print Assumptions C17_default_pick_valid.

Theorem C17_zrandmember_pure : forall pick c rest s d,
  st_maxmem s = 0 -> lower c = "zrandmember"%string ->
  zview (fst (exec_zset_r pick d (c :: rest) s)) d = zview s d.
Proof. exact zrandmember_pure. Qed.
Print Assumptions C17_zrandmember_pure.

Theorem C17_error_changes_nothing_all : forall pick argv s d,
  st_maxmem s = 0 -> snd (exec_zset_r pick d argv s) = RErr -> same_view s (fst (exec_zset_r pick d argv s)).
Proof. exact zset_r_error_changes_nothing. Qed.
Print Assumptions C17_error_changes_nothing_all.

Theorem C17_frame_all : forall pick argv s d,
  st_maxmem s = 0 -> zset_frame s (fst (exec_zset_r pick d argv s)) d.
Proof. exact zset_r_step_frame. Qed.
Print Assumptions C17_frame_all.

Definition one_zset (k : string) (z : zmap) : state :=
  fst (run_seq 0 (SetValues [(k, VZSet z)] (fun _ => Ret tt)) (init_state 5)).

(** Known finding C17-zadd-count: a plain ZADD that changes the score of an existing member replies 1;
    the documentation counts only new members (0). *)
Theorem C17_zadd_count_refuted : exists s cmds,
  st_maxmem s = 0 /\
  snd (run_zset_cmds 0 cmds s) <> snd (spec_zset_run true (zview s 0) cmds).
Proof.
  exists (one_zset "a" {[ "x"%string := FFin 1 ]}), [["ZADD"; "a"; "2"; "x"]]%string.
  split; [done|]. vm_compute. discriminate.
Qed.
Print Assumptions C17_zadd_count_refuted.

(** Known finding C17-zrange-limit: LIMIT indexes the whole ordered set (count as an inclusive end
    index) before the bounds are applied. *)
Theorem C17_zrange_limit_refuted : exists s cmds,
  st_maxmem s = 0 /\
  snd (run_zset_cmds 0 cmds s) <> snd (spec_zset_run true (zview s 0) cmds).
Proof.
  exists (one_zset "a" (list_to_map [("x", FFin 1); ("y", FFin 2); ("b", FFin 3); ("ab", FFin 4)]%string)),
         [["ZRANGE"; "a"; "3"; "4"; "LIMIT"; "0"; "1"]]%string.
  split; [done|]. vm_compute. discriminate.
Qed.
Print Assumptions C17_zrange_limit_refuted.

(** Known finding C17-zmpop-wrongtype: ZMPOP skips a key of another type instead of failing. *)
Theorem C17_zmpop_wrongtype_refuted : exists s cmds,
  st_maxmem s = 0 /\
  snd (run_zset_cmds 0 cmds s) <> snd (spec_zset_run true (zview s 0) cmds).
Proof.
  exists (fst (run_seq 0 (SetValues [("a"%string, VStr "v"); ("b"%string, VZSet {[ "x"%string := FFin 1 ]})]
                                    (fun _ => Ret tt)) (init_state 5))),
         [["ZMPOP"; "a"; "b"; "MIN"]]%string.
  split; [done|]. vm_compute. discriminate.
Qed.
Print Assumptions C17_zmpop_wrongtype_refuted.

(** Known finding C17-zunionstore-dest: ZUNIONSTORE drops every argument equal to its destination, so a
    source named like the destination does not take part in the union. *)
Theorem C17_zunionstore_dest_refuted : exists s cmds,
  st_maxmem s = 0 /\
  snd (run_zset_cmds 0 cmds s) <> snd (spec_zset_run true (zview s 0) cmds).
Proof.
  exists (fst (run_seq 0 (SetValues [("d"%string, VZSet {[ "x"%string := FFin 1 ]}); ("b"%string, VZSet {[ "y"%string := FFin 2 ]})]
                                    (fun _ => Ret tt)) (init_state 5))),
         [["ZUNIONSTORE"; "d"; "d"; "b"]]%string.
  split; [done|]. vm_compute. discriminate.
Qed.
Print Assumptions C17_zunionstore_dest_refuted.

(** A sorted-set command that fails (wrong type, bad arity, bad number, bad option, rank out of range,
    increment of an infinite score) changes nothing a client can observe: no value, no deadline, in no
    database. *)
Theorem C17_error_changes_nothing : forall argv s d,
  st_maxmem s = 0 -> snd (exec_zset d argv s) = RErr -> same_view s (fst (exec_zset d argv s)).
Proof. exact zset_error_changes_nothing. Qed.
Print Assumptions C17_error_changes_nothing.

(** Frame: other databases are untouched; in the selected one every entry is untouched or is a sorted
    set that kept the deadline its key had (no sorted-set command removes a key). *)
Theorem C17_frame : forall argv s d,
  st_maxmem s = 0 -> zset_frame s (fst (exec_zset d argv s)) d.
Proof. exact zset_step_frame. Qed.
Print Assumptions C17_frame.

(** "Ordered by score then member" is a strict total order on entries: irreflexive, transitive, and any
    two entries are comparable unless they are the same member with numerically equal scores (which
    cannot occur twice in one map). *)
Theorem C17_order_total :
  (forall a, zlt a a = false) /\
  (forall a b c, zlt a b = true -> zlt b c = true -> zlt a c = true) /\
  (forall a b, zlt a b = true \/ zlt b a = true \/ (fst a = fst b /\ fl_eqb (snd a) (snd b) = true)) /\
  (forall a b, zle a b = negb (zlt b a)).
Proof. repeat split; [apply zlt_irrefl|apply zlt_trans|apply zlt_total|apply zle_not_zlt]. Qed.
Print Assumptions C17_order_total.

(** The sequence every range, rank and pop is taken from lists exactly the entries of the map, each
    once, in non-decreasing order. *)
Theorem C17_sorted_is_the_ordered_listing : forall z : zmap,
  Sorted (fun a b => zle a b = true) (zsorted z) /\
  Permutation (zsorted z) (map_to_list z) /\
  (forall m f, (m, f) ∈ zsorted z <-> z !! m = Some f).
Proof. intros z. split; [apply zsorted_Sorted|]. split; [apply zsorted_perm|apply zsorted_lookup]. Qed.
Print Assumptions C17_sorted_is_the_ordered_listing.

(** ZADD's decision table, per score/member pair: NX leaves existing members alone, XX adds nothing,
    a new member is added otherwise, GT never lowers and LT never raises a score, no other member is
    touched. *)
Theorem C17_zadd_flags :
  (forall o z a u m sc old, o_pol o = PNX -> z !! m = Some old -> zadd1 o (z, a, u) (m, sc) = Some (z, a, u)) /\
  (forall o z a u m sc, o_pol o = PXX -> z !! m = None -> zadd1 o (z, a, u) (m, sc) = Some (z, a, u)) /\
  (forall o z a u m sc, o_pol o <> PXX -> z !! m = None ->
     zadd1 o (z, a, u) (m, sc) = Some (<[m := sc]> z, a + 1, u)) /\
  (forall o z a u m sc z' a' u' old, o_cmp o = CGT -> z !! m = Some old ->
     zadd1 o (z, a, u) (m, sc) = Some (z', a', u') -> exists new, z' !! m = Some new /\ fl_ltb new old = false) /\
  (forall o z a u m sc z' a' u' old, o_cmp o = CLT -> z !! m = Some old ->
     zadd1 o (z, a, u) (m, sc) = Some (z', a', u') -> exists new, z' !! m = Some new /\ fl_ltb old new = false) /\
  (forall o z a u m sc z' a' u' m', zadd1 o (z, a, u) (m, sc) = Some (z', a', u') -> m' <> m -> z' !! m' = z !! m').
Proof.
  repeat split.
  - apply zadd1_nx. - apply zadd1_xx. - apply zadd1_new. - apply zadd1_gt. - apply zadd1_lt. - apply zadd1_frame.
Qed.
Print Assumptions C17_zadd_flags.

(** ZPOPMIN / ZPOPMAX remove exactly the members they reply: the first [count] of the (reversed) order. *)
Theorem C17_pop_removes_exactly : forall maxp count (z : zmap),
  let '(popped, z') := zpop maxp count z in
  popped = zfirstn count (zsorted_dir maxp z) /\
  forall m, z' !! m = if bool_decide (m ∈ map fst popped) then None else z !! m.
Proof. exact zpop_spec. Qed.
Print Assumptions C17_pop_removes_exactly.

(** Without LIMIT, the selection loop of ZRANGE / ZRANGESTORE returns exactly the members inside the
    bounds, in order. *)
Theorem C17_range_without_limit : forall a lo hi (z : zmap),
  ra_limit a = None -> zrange_select true a lo hi z = zrange_select false a lo hi z.
Proof. exact zrange_select_no_limit. Qed.
Print Assumptions C17_range_without_limit.

(** ZINTER / ZUNION / ZDIFF combine operands member by member: a member of the intersection is in both
    operands and carries the aggregate of the two (weighted) scores; a member of the union is in either;
    a member of the difference is in the first and not in the second; weighting multiplies every score. *)
Theorem C17_algebra : forall (a : agg) (x y : zmap) (w : fl) (m : string),
  zinter2 a x y !! m = match x !! m, y !! m with Some u, Some v => Some (aggf a u v) | _, _ => None end /\
  zunion2 a x y !! m = match x !! m, y !! m with
                       | Some u, Some v => Some (aggf a u v)
                       | Some u, None => Some u
                       | None, q => q
                       end /\
  zdiff2 x y !! m = match y !! m with Some _ => None | None => x !! m end /\
  weighted (x, w) !! m = (fun s => fl_mul s w) <$> x !! m.
Proof.
  intros. split; [apply zinter2_lookup|]. split; [apply zunion2_lookup|]. split; [apply zdiff2_lookup|apply weighted_lookup].
Qed.
Print Assumptions C17_algebra.

(** The dispatcher runs exactly these handlers for the sorted-set command words. *)
Theorem C17_dispatch : forall w c argv h,
  argv = c :: tl argv -> CmdList.list_handler (lower c) = None -> CmdHash.hash_handler (lower c) = None ->
  CmdSet.set_handler CmdSet.default_pick (lower c) = None -> zset_handler (lower c) = Some h ->
  exec_cmd w 0 argv =
  (let '(s', r) := exec_zset (conn_db w 0) argv (w_st w) in (World s' (w_conns w), r)).
Proof.
  intros w c argv h Hargv Hl Hha Hse Hh.
  assert (Hho : handler_of (lower c) = Some h) by (rewrite handler_of_unfold, Hl, Hha, Hse, Hh; done).
  destruct argv as [|c0 rest]; [discriminate|]. injection Hargv as ->.
  rewrite (exec_cmd_runs_handler w 0 (c :: rest) c h eq_refl Hho). unfold exec_zset. by rewrite Hh.
Qed.
Print Assumptions C17_dispatch.

(** Non-vacuity: a concrete state and script meet the hypotheses of [C17_refines_static] and the script
    does something: ties ordered by member, flags, an increment, pops, a reversed range, a store, a
    wrong-typed key. *)
Example C17_example :
  let s0 := fst (run_seq 0 (SetValues [("s"%string, VStr "v")] (fun _ => Ret tt)) (init_state 5)) in
  let cmds := [["ZADD"; "a"; "CH"; "1"; "y"; "1"; "x"; "1.5"; "w"; "-inf"; "v"]; ["ZADD"; "a"; "XX"; "GT"; "CH"; "0"; "x"; "2"; "y"; "9"; "n"];
               ["ZADD"; "a"; "INCR"; "0.5"; "w"]; ["ZRANK"; "a"; "y"]; ["ZPOPMIN"; "a"];
               ["ZRANGE"; "a"; "0"; "+inf"; "REV"; "WITHSCORES"]; ["ZRANGESTORE"; "b"; "a"; "2"; "2"]; ["ZCARD"; "b"];
               ["ZSCORE"; "s"; "x"]; ["ZUNION"; "a"; "b"; "WEIGHTS"; "2"; "0.5"; "AGGREGATE"; "MAX"; "WITHSCORES"];
               ["ZINTERSTORE"; "c"; "a"; "b"]; ["ZDIFF"; "a"; "b"]]%string in
  st_maxmem s0 = 0 /\ forallb static_free cmds = true /\
  snd (run_zset_cmds 0 cmds s0) =
    [RInt 4; RInt 1; RFloat (FFin 2); RArr [RInt 3]; RArr [RArr [RBulk "v"; RFloat FNInf]];
     RArr [RArr [RBulk "y"; RFloat (FFin 2)]; RArr [RBulk "w"; RFloat (FFin 2)]; RArr [RBulk "x"; RFloat (FFin 1)]];
     RInt 2; RInt 2; RErr;
     RArr [RArr [RBulk "x"; RFloat (FFin 2)]; RArr [RBulk "w"; RFloat (FFin 4)]; RArr [RBulk "y"; RFloat (FFin 4)]];
     RInt 2; RArr [RArr [RBulk "x"]]]%string.
Proof. vm_compute. done. Qed.

(** The dispatcher runs [handle_zrandmember] with the executable model's selection for ZRANDMEMBER. *)
Theorem C17_dispatch_zrandmember : forall w c rest,
  lower c = "zrandmember"%string ->
  exec_cmd w 0 (c :: rest) =
  (let '(s', r) := exec_zset_r default_zpick (conn_db w 0) (c :: rest) (w_st w) in (World s' (w_conns w), r)).
Proof.
  intros w c rest Hc.
  rewrite (exec_cmd_runs_handler w 0 (c :: rest) c (handle_zrandmember default_zpick) eq_refl); [|by rewrite Hc].
  unfold exec_zset_r. rewrite Hc. reflexivity.
Qed.
Print Assumptions C17_dispatch_zrandmember.

(** Non-vacuity for ZRANDMEMBER: whole set for |count| >= 3, a selection otherwise, nil, errors. *)
Example C17_example_zrandmember :
  let s0 := one_zset "a" (list_to_map [("x", FFin 1); ("y", FFin 2); ("w", FFin 1)]%string) in
  snd (run_zset_r_cmds default_zpick 0
         [["ZRANDMEMBER"; "a"]; ["ZRANDMEMBER"; "a"; "-2"; "withscores"]; ["ZRANDMEMBER"; "a"; "-7"];
          ["ZRANDMEMBER"; "nokey"; "2"]; ["ZRANDMEMBER"; "nokey"; "x"]; ["ZRANDMEMBER"; "a"; "1"; "nope"]]%string s0) =
    [RArr [RArr [RBulk "w"]]; RArr [RArr [RBulk "w"; RFloat (FFin 1)]; RArr [RBulk "w"; RFloat (FFin 1)]];
     RArr [RArr [RBulk "w"]; RArr [RBulk "x"]; RArr [RBulk "y"]]; RNil; RErr; RErr]%string.
Proof. vm_compute. done. Qed.
