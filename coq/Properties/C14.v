(** C14 — Hash commands implement a field-to-value map. *)
From stdpp Require Import gmap strings.
From EV Require Import Base.Str Model.Value Model.Adapt Model.Keyspace Model.Reply Model.Prog Model.HashVal
  Model.CmdList Model.CmdHash Model.Dispatch.
From EV Require Import Spec.SpecHash Proofs.KeyspaceLemmas Proofs.HashPure Proofs.HashProofs Proofs.HashRand Proofs.DispatchLemmas.
Local Open Scope Z_scope.

(** For every finite sequence of argument vectors (any command word, any arity, any bytes), from
    every state of the keyspace (any pre-existing types, deadlines, databases) without a memory
    limit, the replies of the hash handlers and the resulting hashes of the selected database are
    those of the reference field-to-value maps.  (HRANDFIELD answers with the canonical selection
    [hrand_pick] on both sides; [C14_hrandfield_allowed] relates it to the allowed outcomes.) *)
Theorem C14_refines : forall cmds s d,
  st_maxmem s = 0 ->
  let '(s', rs) := run_hash_cmds d cmds s in
  let '(m', rs') := spec_hash_run (hview s d) cmds in
  rs = rs' /\ hview s' d = m' /\ st_maxmem s' = 0.
Proof. exact hash_script_refines. Qed.
Print Assumptions C14_refines.

(** A hash command that fails (wrong type, bad arity, not a number, overflow, unknown modifier)
    changes nothing a client can observe: no value, no deadline, in no database. *)
Theorem C14_error_changes_nothing : forall argv s d,
  st_maxmem s = 0 -> snd (exec_hash d argv s) = RErr -> same_view s (fst (exec_hash d argv s)).
Proof. exact hash_error_changes_nothing. Qed.
Print Assumptions C14_error_changes_nothing.

(** Reading a key of another type with a hash command fails without changing it: every hash
    command other than HSET / HSETNX (which replace the key — adopted, pinned by the suite), with
    any arguments, on a live key holding anything but a hash. *)
Theorem C14_wrongtype_fails : forall c k rest s d v,
  st_maxmem s = 0 -> live s d k = Some v -> as_hash (Some v) = None ->
  lower c <> "hset" -> lower c <> "hsetnx" ->
  snd (exec_hash d (c :: k :: rest) s) = RErr /\ same_view s (fst (exec_hash d (c :: k :: rest) s)).
Proof. exact hash_wrongtype_fails. Qed.
Print Assumptions C14_wrongtype_fails.

(** Frame: other databases are untouched; in the selected one every entry is untouched or is a
    hash that kept its deadline (no hash command removes a key). *)
Theorem C14_frame : forall argv s d,
  st_maxmem s = 0 -> hash_frame s (fst (exec_hash d argv s)) d.
Proof. exact hash_step_frame. Qed.
Print Assumptions C14_frame.

(** Field values are preserved byte for byte: in the reference (hence, by [C14_refines], in the
    model) HSET followed by HGET gives back exactly the bytes written, for every token that
    [AdaptValue] does not store as a float64 — "", CR LF, NUL, 007, +5, 1.50, 12 …  (A token stored
    as float64 is by construction of [AdaptValue] one that [FormatFloat] prints back unchanged; that
    text is produced by Go's strconv and is compared as a number by the harness.) *)
Theorem C14_bytes : forall (m : hspec) k f v,
  (forall q, adapt_value v <> SFloat q) ->
  exists r, snd (spec_hash (fst (spec_hash m ["HSET"; k; f; v])) ["HGET"; k; f]) = RArr [r]
            /\ reply_text r = Some v.
Proof. exact hset_then_hget_bytes. Qed.
Print Assumptions C14_bytes.

(** The HDEL loop of the handler removes exactly the named fields and counts the removed ones. *)
Theorem C14_hdel_loop : forall fields (h : hmap) c,
  hdel_loop fields h c = (remove_fields fields h, c + hsize h - hsize (remove_fields fields h)).
Proof. exact hdel_loop_spec. Qed.
Print Assumptions C14_hdel_loop.

(** HRANDFIELD: the canonical selection is an allowed outcome (right size, fields of the hash,
    distinct for a non-negative count, each value the field's value), for all hashes, counts and
    both forms; and the judgement applied to implementation replies accepts it. *)
Theorem C14_hrandfield_allowed : forall (h : hmap) count wv,
  hrand_allowed h count wv (RArr (with_vals h wv (hrand_pick h count))) = true.
Proof. exact hrand_pick_allowed. Qed.
Print Assumptions C14_hrandfield_allowed.

Theorem C14_hrandfield_oracle : forall (m : hspec) c args,
  lower c = "hrandfield" -> hrand_judge m (c :: args) (snd (spec_hash m (c :: args))) = true.
Proof. exact hrand_judge_canonical. Qed.
Print Assumptions C14_hrandfield_oracle.

(** The dispatcher runs exactly these handlers for the fourteen hash command words. *)
Lemma hash_names_not_list name h : hash_handler name = Some h -> list_handler name = None.
Proof.
  unfold hash_handler.
  repeat match goal with
  | |- context [String.eqb name ?n] =>
      let E := fresh "E" in destruct (String.eqb name n) eqn:E;
      [apply String.eqb_eq in E; subst; intros _; reflexivity|]
  end.
  simpl. discriminate.
Qed.

Theorem C14_dispatch : forall w c argv h,
  argv = c :: tl argv -> hash_handler (lower c) = Some h ->
  exec_cmd w 0 argv =
  (let '(s', r) := exec_hash (conn_db w 0) argv (w_st w) in (World s' (w_conns w), r)).
Proof.
  intros w c argv h Hargv Hh.
  assert (Hho : handler_of (lower c) = Some h)
    by (rewrite DispatchLemmas.handler_of_unfold, (hash_names_not_list _ _ Hh), Hh; done).
  destruct argv as [|c0 rest]; [discriminate|]. injection Hargv as ->.
  rewrite (DispatchLemmas.exec_cmd_runs_handler w 0 (c :: rest) c h eq_refl Hho). unfold exec_hash. by rewrite Hh.
Qed.
Print Assumptions C14_dispatch.

(** Non-vacuity: a concrete non-trivial state and script meet the hypotheses, and the script does
    something (sets with a repeated field, numeric-looking and binary values, HSETNX on present and
    absent fields, increments of both kinds, an overflow that is refused, a deletion, a wrong-typed key). *)
Example C14_example :
  let s0 := fst (run_seq 0 (SetValues [("s"%string, VStr "v")] (fun _ => Ret tt)) (init_state 5)) in
  let cmds := [["HSET"; "h"; "a"; "12"; "b"; "007"; "c"; "x"; "c"; String "013" (String "010" "")];
               ["HSETNX"; "h"; "a"; "9"; "d"; "1.5"]; ["HGET"; "h"; "a"; "b"; "c"; "nope"];
               ["HINCRBY"; "h"; "a"; "9223372036854775807"]; ["HINCRBY"; "h"; "a"; "-2"];
               ["HINCRBYFLOAT"; "h"; "d"; "0.25"]; ["HINCRBY"; "h"; "b"; "1"]; ["HSTRLEN"; "h"; "d"; "b"];
               ["HDEL"; "h"; "b"; "b"; "zz"]; ["HLEN"; "h"]; ["HKEYS"; "h"]; ["HRANDFIELD"; "h"; "-2"];
               ["HLEN"; "s"]; ["HSET"; "s"; "f"; "v"]]%string in
  st_maxmem s0 = 0 /\
  snd (run_hash_cmds 0 cmds s0) =
    [RInt 3; RInt 1; RArr [RInt 12; RBulk "007"; RBulk (String "013" (String "010" "")); RNil];
     RErr; RInt 10; RFloat (FFin (QArith_base.Qmake 7 4)); RErr; RArr [RInt 4; RInt 3];
     RInt 1; RInt 3; bulks ["a"; "c"; "d"]; bulks ["a"; "a"]; RErr; RInt 1]%string.
Proof. vm_compute. done. Qed.
