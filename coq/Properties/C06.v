(** C06 — ACL authorization: no command runs outside the user's rules.
    Statements only; proofs are in [Proofs/AclProofs.v] and [Proofs/TableObligations.v]. *)
From stdpp Require Import gmap strings.
From EV Require Import Base.Str Model.Reply Model.Dispatch Model.TableTypes Model.KeyFuncs Model.Acl Model.AclWorld.
From EV Require Import Spec.SpecAcl Proofs.AclProofs Proofs.TableObligations Gen.CmdTable Gen.KeyExtract.
Local Open Scope string_scope.

(** For every ACL state (users, rule lists, connections, require-pass or not), every connection,
    every command row / sub-command row and every argument vector, for every glob matcher: the model
    of the gate ([AuthorizeConnection] behind [conn != nil && acl != nil && !embedded]) lets the
    command through exactly when the declarative policy of [Spec/SpecAcl.v] allows it. *)
Theorem C06_authorize_iff_allowed :
  forall glob_match a c p s argv,
    authorize glob_match a c p s argv = true <-> allowed glob_match a c p s argv.
Proof. exact authorize_iff_allowed. Qed.

(** A command that is not allowed (denied by the gate, unknown, or naming an unknown sub-command) is
    answered with an error and leaves the whole world unchanged: dataset, deadlines, memory figure,
    selected database / protocol / name of every connection, users, connection records, ACL file.
    (The pub/sub table is not part of the model; the harness compares it before and after.) *)
Theorem C06_denied_no_effect :
  forall glob_match sha256 aw c argv,
    gate (authorize glob_match) aw c argv <> DAllow ->
    acl_handle sha256 (authorize glob_match) aw c argv = (aw, RErr).
Proof. exact denied_no_effect. Qed.

Theorem C06_not_allowed_no_effect :
  forall glob_match sha256 aw c argv p s,
    lookup_cmd argv = LCmd p s -> ~ allowed glob_match (aw_acl aw) c p s argv ->
    acl_handle sha256 (authorize glob_match) aw c argv = (aw, RErr).
Proof. exact not_allowed_no_effect. Qed.

(** an allowed data command is the dispatcher's [exec_cmd] and nothing else *)
Theorem C06_allowed_runs_exec :
  forall glob_match sha256 aw c argv p s,
    lookup_cmd argv = LCmd p s -> authorize glob_match (aw_acl aw) c p s argv = true ->
    conn_acl_handler sha256 aw c p s argv = None ->
    acl_handle sha256 (authorize glob_match) aw c argv =
      (let '(w', r) := exec_cmd (aw_w aw) c argv in (RecordSet.set aw_w (fun _ => w') aw, r)).
Proof. exact allowed_runs_exec. Qed.

(** Only the handshake commands are exempt: with authentication required and the connection not
    authenticated, a request passes iff its name is a handshake name; and in the command table of the
    repository as it is now the rows with such a name are exactly AUTH, PING, ECHO, HELLO. *)
Theorem C06_exempt_exact :
  (forall glob_match a c p s argv rq,
      a_require a = true -> (forall r, a_conns a !! c = Some r -> c_auth r = false) ->
      request_of p s argv = Some rq ->
      (authorize glob_match a c p s argv = true <-> handshake (rq_comm rq)))
  /\ map comm_of (filter (fun r => handshake_b (comm_of r)) cmd_table) = ["auth"; "ping"; "echo"; "hello"]
  /\ length cmd_table = cmd_table_len.
Proof. split; [exact unauthenticated_only_handshake|]. split; [exact exempt_rows_exact | exact cmd_table_length]. Qed.

(** The model's key extraction is the code's on the whole enumerated universe (regenerated table). *)
Theorem C06_key_extract_agrees :
  forall g r, In g kx_rows -> In r g -> key_extract (kr_name r) (kr_sub r) (kr_argv r) = kr_res r.
Proof. exact key_extract_agrees. Qed.

Print Assumptions C06_authorize_iff_allowed.
Print Assumptions C06_denied_no_effect.
Print Assumptions C06_not_allowed_no_effect.
Print Assumptions C06_allowed_runs_exec.
Print Assumptions C06_exempt_exact.
Print Assumptions C06_key_extract_agrees.

(** Non-vacuity: a user with read keys a* and all commands; MGET with one permitted and one forbidden
    key is denied in both orders, with two permitted keys it is allowed. *)
Definition ex_acl : acl :=
  let a := new_acl true "root" None in
  let a := register_conn (register_conn a 1) 2 in
  let a := set_user a ["bob"; "on"; ">pw"; "%R~a*"; "+@all"] in
  default a (authenticate (fun _ => "") a 2 ["AUTH"; "bob"; "pw"]).
Example ex_multi_key :
  map (fun argv => gate (authorize glob_simple) (AWorld (init_world 0) ex_acl ∅ false) 2 argv)
      [["MGET"; "a1"; "b1"]; ["MGET"; "b1"; "a1"]; ["MGET"; "a1"; "a2"]; ["SET"; "a1"; "v"]; ["PING"]; ["NOPE"]]
  = [DDeny; DDeny; DAllow; DAllow; DAllow; DNoCmd].
Proof. vm_compute. reflexivity. Qed.
Example ex_unauthenticated :
  map (fun argv => gate (authorize glob_simple) (AWorld (init_world 0) ex_acl ∅ false) 1 argv)
      [["GET"; "a1"]; ["AUTH"; "x"]; ["HELLO"]; ["ECHO"; "x"]; ["ACL"; "WHOAMI"]]
  = [DDeny; DAllow; DAllow; DAllow; DDeny].
Proof. vm_compute. reflexivity. Qed.
