(** C06 — ACL authorization: no command runs outside the user's rules.
    Statements only; proofs are in [Proofs/AclProofs.v] and [Proofs/TableObligations.v]. *)
From stdpp Require Import gmap strings.
From EV Require Import Base.Str Model.Reply Model.Dispatch Model.TableTypes Model.KeyFuncs Model.Acl Model.AclWorld.
From EV Require Import Spec.SpecAcl Proofs.AclProofs Proofs.TableObligations Gen.CmdTable Gen.KeyExtract.
From EV Require Import Model.Value Model.Keyspace Model.Prog Model.CmdGeneric.
From EV Require Model.CmdKeyspace.
From EV Require Import Proofs.KeyspaceLemmas Proofs.KeyCover Proofs.KeyCoverCmds Proofs.KeyCoverTheorems.
Local Open Scope string_scope.
Local Open Scope list_scope.

(** For every ACL state (users, rule lists, connections, require-pass or not), every connection,
    every command row / sub-command row and every argument vector, for every glob matcher: the model
    of the gate ([AuthorizeConnection] behind [conn != nil && acl != nil && !embedded]) lets the
    command through exactly when the declarative policy of [Spec/SpecAcl.v] allows it. *)
Theorem C06_authorize_iff_allowed :
  forall glob_match a c p s argv,
    authorize glob_match a c p s argv = true <-> allowed glob_match a c p s argv.
Proof. exact authorize_iff_allowed. Qed.

(** A command that is not allowed (denied by the gate, unknown, or naming an unknown sub-command) is
    answered with an error and leaves the whole world unchanged: dataset, deadlines, memory figure,
    selected database / protocol / name of every connection, users, connection records, ACL file.
    (The pub/sub table is not part of the model; the harness compares it before and after.) *)
Theorem C06_denied_no_effect :
  forall glob_match sha256 aw c argv,
    gate (authorize glob_match) aw c argv <> DAllow ->
    acl_handle sha256 (authorize glob_match) aw c argv = (aw, RErr).
Proof. exact denied_no_effect. Qed.

Theorem C06_not_allowed_no_effect :
  forall glob_match sha256 aw c argv p s,
    lookup_cmd argv = LCmd p s -> ~ allowed glob_match (aw_acl aw) c p s argv ->
    acl_handle sha256 (authorize glob_match) aw c argv = (aw, RErr).
Proof. exact not_allowed_no_effect. Qed.

(** an allowed data command is the dispatcher's [exec_cmd] and nothing else *)
Theorem C06_allowed_runs_exec :
  forall glob_match sha256 aw c argv p s,
    lookup_cmd argv = LCmd p s -> authorize glob_match (aw_acl aw) c p s argv = true ->
    conn_acl_handler sha256 aw c p s argv = None ->
    acl_handle sha256 (authorize glob_match) aw c argv =
      (let '(w', r) := exec_cmd (aw_w aw) c argv in (RecordSet.set aw_w (fun _ => w') aw, r)).
Proof. exact allowed_runs_exec. Qed.

(** Only the handshake commands are exempt: with authentication required and the connection not
    authenticated, a request passes iff its name is a handshake name; and in the command table of the
    repository as it is now the rows with such a name are exactly AUTH, PING, ECHO, HELLO. *)
Theorem C06_exempt_exact :
  (forall glob_match a c p s argv rq,
      a_require a = true -> (forall r, a_conns a !! c = Some r -> c_auth r = false) ->
      request_of p s argv = Some rq ->
      (authorize glob_match a c p s argv = true <-> handshake (rq_comm rq)))
  /\ map comm_of (filter (fun r => handshake_b (comm_of r)) cmd_table) = ["auth"; "ping"; "echo"; "hello"]
  /\ length cmd_table = cmd_table_len.
Proof. split; [exact unauthenticated_only_handshake|]. split; [exact exempt_rows_exact | exact cmd_table_length]. Qed.

(** The model's key extraction is the code's on the whole enumerated universe (regenerated table). *)
Theorem C06_key_extract_agrees :
  forall g r, In g kx_rows -> In r g -> key_extract (kr_name r) (kr_sub r) (kr_argv r) = kr_res r.
Proof. exact key_extract_agrees. Qed.

(** * Key coverage: the keys the gate checks are the keys the command touches.

    [within R W p] ([Proofs/KeyCover.v]): every key the program [p] passes to a reading primitive
    ([KeysExist], [GetExpiry], [GetValues]) satisfies [R], every key it passes to a writing primitive
    ([SetValues], [SetExpiry], [DeleteKey]) satisfies [W], whatever the primitives answer; a program
    that flushes is within nothing.  For every handler of [handler_of] (list, hash, set, sorted set,
    generic, string — all data commands) except FLUSHDB / FLUSHALL / RANDOMKEY, and every argument vector
    whose first word is the command's name: when the key function ([key_extract], equal to the Go
    [KeyExtractionFunc]s on the regenerated rows by [C06_key_extract_agrees]) reports channels / read
    keys / write keys, the handler reads only read or write keys and writes only write keys ... *)
Theorem C06_keys_cover :
  forall name h argv ch rd wr,
    handler_of name = Some h -> lower (arg argv 0) = name -> keyless_scan name = false ->
    key_extract name "" argv = KxOk ch rd wr ->
    within_l (rd ++ wr) wr (h argv).
Proof. exact keys_cover. Qed.

(** ... when it reports an error (wrong arity) the handler touches no key at all ... *)
Theorem C06_keys_cover_error :
  forall name h argv,
    handler_of name = Some h -> lower (arg argv 0) = name -> keyless_scan name = false ->
    key_extract name "" argv = KxErr ->
    within (fun _ => False) (fun _ => False) (h argv).
Proof. exact keys_cover_error. Qed.

(** ... and it does one or the other (no panic, no missing function). *)
Theorem C06_keys_cover_total :
  forall name h argv,
    handler_of name = Some h -> lower (arg argv 0) = name -> keyless_scan name = false ->
    (exists ch rd wr, key_extract name "" argv = KxOk ch rd wr) \/ key_extract name "" argv = KxErr.
Proof. exact keys_cover_total. Qed.

(** What [within] means for the keyspace (no memory limit: eviction is C08's subject).  Write half:
    entries of other databases and of keys not satisfying [W] are the same before and after. *)
Theorem C06_within_writes_only :
  forall A (R W : string -> Prop) (p : prog A), within R W p -> forall d s,
    st_maxmem s = 0%Z ->
    (forall d' k, d' <> d \/ ~ W k -> lentry (fst (run_seq d p s)) d' k = lentry s d' k) /\
    st_now (fst (run_seq d p s)) = st_now s /\ st_maxmem (fst (run_seq d p s)) = 0%Z.
Proof. exact @within_writes_only. Qed.

(** Read half: reply and effect are a function of the keys satisfying [R] in the selected database. *)
Theorem C06_within_frame :
  forall A (R W : string -> Prop) (p : prog A),
    within R W p -> (forall k, W k -> R k) -> forall d s1 s2,
    keys_agree R d s1 s2 -> st_maxmem s1 = 0%Z ->
    snd (run_seq d p s1) = snd (run_seq d p s2) /\
    keys_agree R d (fst (run_seq d p s1)) (fst (run_seq d p s2)) /\
    st_maxmem (fst (run_seq d p s1)) = 0%Z.
Proof. exact @within_frame. Qed.

(** Both, for the handlers: only reported write keys of the selected database change. *)
Theorem C06_keys_cover_effect :
  forall name h argv d s,
    handler_of name = Some h -> lower (arg argv 0) = name -> keyless_scan name = false ->
    st_maxmem s = 0%Z ->
    forall d' k, lentry (fst (run_seq d (h argv) s)) d' k <> lentry s d' k ->
      d' = d /\ exists ch rd wr, key_extract name "" argv = KxOk ch rd wr /\ k ∈ wr.
Proof. exact keys_cover_effect. Qed.

(** The gate: a data command allowed on a connection (authentication required) reads only keys
    matched by a read or write pattern of the connection's user and writes only keys matched by a write
    pattern; so only such keys of the connection's database change, and the reply does not depend on
    any key the user may not read. *)
Theorem C06_gate_keys_cover :
  forall glob_match a c argv p h,
    lookup_cmd argv = LCmd p None -> handler_of (cr_name p) = Some h -> keyless_scan (cr_name p) = false ->
    a_require a = true -> authorize glob_match a c p None argv = true ->
    exists r, a_conns a !! c = Some r /\ c_auth r = true /\
      within (may_read glob_match (deref a (c_user r))) (may_write glob_match (deref a (c_user r))) (h argv).
Proof. exact gate_keys_cover. Qed.

Theorem C06_gate_effect_permitted :
  forall glob_match a c argv p h d s,
    lookup_cmd argv = LCmd p None -> handler_of (cr_name p) = Some h -> keyless_scan (cr_name p) = false ->
    a_require a = true -> authorize glob_match a c p None argv = true -> st_maxmem s = 0%Z ->
    exists r, a_conns a !! c = Some r /\ c_auth r = true /\
      (forall d' k, lentry (fst (run_seq d (h argv) s)) d' k <> lentry s d' k ->
         d' = d /\ may_write glob_match (deref a (c_user r)) k) /\
      (forall s2, keys_agree (may_read glob_match (deref a (c_user r))) d s s2 ->
         snd (run_seq d (h argv) s) = snd (run_seq d (h argv) s2)).
Proof. exact gate_effect_permitted. Qed.

(** Finding KF-C06-flush-keyless: FLUSHDB and FLUSHALL report no key and are within no key set — a
    user whose key patterns match nothing but whose command rules include them empties the dataset. *)
Theorem C06_flush_keys_cover_refuted :
  forall name, name = "flushdb" \/ name = "flushall" ->
  exists h argv, handler_of name = Some h /\ lower (arg argv 0) = name /\
    key_extract name "" argv = KxOk [] [] [] /\ ~ within_l ([] ++ []) [] (h argv).
Proof. exact flush_keys_cover_refuted. Qed.

Theorem C06_flush_effect_refuted :
  is_Some (lentry flush_witness_state 0 "k") /\
  lentry (fst (run_seq 0 (handle_flush ["flushdb"]) flush_witness_state)) 0 "k" = None /\
  lentry (fst (run_seq 1 (handle_flush ["flushall"]) flush_witness_state)) 0 "k" = None.
Proof. exact flush_effect_refuted. Qed.

(** Finding KF-C06-randomkey-keyless: RANDOMKEY reports no key; whatever its random source proposes it
    looks up ([KeysExist]), and its reply names a key of the database: a user whose key patterns match
    nothing but whose command rules include RANDOMKEY learns the names of keys he may not read. *)
Theorem C06_randomkey_keys_cover_refuted :
  forall k cands, exists argv,
    lower (arg argv 0) = "randomkey" /\ key_extract "randomkey" "" argv = KxOk [] [] [] /\
    ~ within_l ([] ++ []) [] (CmdKeyspace.handle_randomkey (k :: cands) argv).
Proof. exact randomkey_keys_cover_refuted. Qed.

Theorem C06_randomkey_effect_refuted :
  snd (run_seq 0 (CmdKeyspace.handle_randomkey ["k"] ["randomkey"]) flush_witness_state) = RBulk "k" /\
  snd (run_seq 0 (CmdKeyspace.handle_randomkey ["k"] ["randomkey"]) (init_state 0)) = RBulk "".
Proof. exact randomkey_effect_refuted. Qed.

Print Assumptions C06_authorize_iff_allowed.
Print Assumptions C06_denied_no_effect.
Print Assumptions C06_not_allowed_no_effect.
Print Assumptions C06_allowed_runs_exec.
Print Assumptions C06_exempt_exact.
Print Assumptions C06_key_extract_agrees.
Print Assumptions C06_keys_cover.
Print Assumptions C06_keys_cover_error.
Print Assumptions C06_keys_cover_total.
Print Assumptions C06_within_writes_only.
Print Assumptions C06_within_frame.
Print Assumptions C06_keys_cover_effect.
Print Assumptions C06_gate_keys_cover.
Print Assumptions C06_gate_effect_permitted.
Print Assumptions C06_flush_keys_cover_refuted.
Print Assumptions C06_flush_effect_refuted.
Print Assumptions C06_randomkey_keys_cover_refuted.
Print Assumptions C06_randomkey_effect_refuted.

(** Non-vacuity: a user with read keys a* and all commands; MGET with one permitted and one forbidden
    key is denied in both orders, with two permitted keys it is allowed. *)
Definition ex_acl : acl :=
  let a := new_acl true "root" None in
  let a := register_conn (register_conn a 1) 2 in
  let a := set_user a ["bob"; "on"; ">pw"; "%R~a*"; "+@all"] in
  default a (authenticate (fun _ => "") a 2 ["AUTH"; "bob"; "pw"]).
Example ex_multi_key :
  map (fun argv => gate (authorize glob_simple) (AWorld (init_world 0) ex_acl ∅ false) 2 argv)
      [["MGET"; "a1"; "b1"]; ["MGET"; "b1"; "a1"]; ["MGET"; "a1"; "a2"]; ["SET"; "a1"; "v"]; ["PING"]; ["NOPE"]]
  = [DDeny; DDeny; DAllow; DAllow; DAllow; DNoCmd].
Proof. vm_compute. reflexivity. Qed.
Example ex_unauthenticated :
  map (fun argv => gate (authorize glob_simple) (AWorld (init_world 0) ex_acl ∅ false) 1 argv)
      [["GET"; "a1"]; ["AUTH"; "x"]; ["HELLO"]; ["ECHO"; "x"]; ["ACL"; "WHOAMI"]]
  = [DDeny; DAllow; DAllow; DAllow; DDeny].
Proof. vm_compute. reflexivity. Qed.

(** Non-vacuity of key coverage: what the key functions report for three vectors (keys, keys before
    the first modifier, arity error). *)
Example ex_keys_cover :
  key_extract "sdiffstore" "" ["SDIFFSTORE"; "a9"; "a1"; "a2"] = KxOk [] ["a1"; "a2"] ["a9"]
  /\ key_extract "zunionstore" "" ["zunionstore"; "d"; "x"; "y"; "WEIGHTS"; "1"; "2"] = KxOk [] ["x"; "y"] ["d"]
  /\ key_extract "lpop" "" ["lpop"] = KxErr.
Proof. vm_compute. auto. Qed.
