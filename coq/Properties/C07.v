(** C07 — Replication: replicas apply the leader's writes identically, in order.

    Relative to the assumption on hashicorp/raft that every node's state machine is fed a prefix of
    ONE common log, in order (here: the same list [L] is given to [apply_all] on every node; a node
    that has applied a prefix is [apply_all] of [firstn i L]).  A node has its own clock ([clk i] is
    what it shows when it applies entry [i]) and its own random source ([pk i]).

    The horizon [T]: the statement holds for logs whose entries pass the decidable check
    [entry_det_b T] (no relative expiry, no random pop, absolute deadlines at or after [T]) on nodes
    whose clocks have not passed [T] — "no deadline falls due while the log is being replicated".
    Without that guard the statement is false in the code as it is: see the [_refuted] theorems. *)
From stdpp Require Import gmap strings.
From EV Require Import Model.RaftRun Proofs.GossipQueue.
From EV Require Import Base.Str Model.Value Model.Keyspace Model.Reply Model.Prog Model.CmdSet Model.AbsForm Model.Raft.
From EV Require Import Proofs.RaftLemmas Proofs.RaftDet Proofs.RaftClasses Proofs.RaftProofs Proofs.ProgLemmas.
From EV Require Import Model.TableTypes Gen.CmdTable Proofs.TableObligations Proofs.HandlerClasses.
From EV Require Import Proofs.AbsFormProofs Proofs.AbsFormReplay.
From EV Require Import Proofs.KeyspaceLemmas Proofs.SnapRoundTrip Proofs.RaftSnapshot.
From RecordUpdate Require Import RecordSet.
Local Open Scope Z_scope.

Definition det_log (T : Z) (L : list request) : Prop := Forall (fun e => entry_det_b T e = true) L.

Lemma det_log_replica_det T L : det_log T L -> Forall (replica_det T) L.
Proof. apply Forall_impl. intros e. apply entry_det_b_sound. Qed.

(** All nodes that have applied the same log hold identical datasets, in every logical database. *)
Theorem C07_agree T L clk1 clk2 pk1 pk2 s :
  det_log T L -> dl_ge T s -> st_now s <= T -> (forall j, clk1 j <= T) -> (forall j, clk2 j <= T) ->
  dataset (apply_all clk1 pk1 s L) = dataset (apply_all clk2 pk2 s L)
  /\ forall d, get_db (apply_all clk1 pk1 s L) d = get_db (apply_all clk2 pk2 s L) d.
Proof.
  intros HL H Hs H1 H2.
  assert (E := replicas_agree T L clk1 clk2 pk1 pk2 s (det_log_replica_det T L HL) H Hs H1 H2).
  split; [exact E|]. intros d. by apply dataset_get_db.
Qed.
Print Assumptions C07_agree.

(** Replaying the log on a fresh node — whenever it starts, whatever its clock shows at each entry,
    whatever its random source — reproduces the reference replay. *)
Theorem C07_replay_deterministic T L clk pk now0 :
  det_log T L -> (forall j, clk j <= T) ->
  dataset (apply_all clk pk (init_state now0) L) = dataset (ref_replay (init_state T) L).
Proof.
  intros HL Hc. change (init_state now0) with (at_time (init_state T) now0).
  unfold apply_all. rewrite apply_from_at.
  apply (agree_with_reference T); [by apply det_log_replica_det|done|simpl; lia|done].
Qed.
Print Assumptions C07_replay_deterministic.

(** A restarted or late node: having applied a prefix and then the rest is having applied the log. *)
Theorem C07_prefix_then_suffix L1 L2 clk pk s :
  apply_all clk pk s (L1 ++ L2) = apply_from (length L1) clk pk (apply_all clk pk s L1) L2.
Proof. unfold apply_all. by rewrite apply_from_app. Qed.

(** The same for a node that is given another node's state after a prefix (the content of a raft
    snapshot, see [C07_snapshot_example] for Persist/Restore themselves) and then the suffix. *)
Theorem C07_snapshot_then_suffix T L1 L2 clk1 clk2 pk1 pk2 now1 now2 :
  det_log T (L1 ++ L2) -> (forall j, clk1 j <= T) -> (forall j, clk2 j <= T) ->
  let donor := apply_all clk1 pk1 (init_state now1) L1 in
  dataset (apply_from (length L1) clk2 pk2 (at_time donor now2) L2)
  = dataset (apply_all clk1 pk1 (init_state now1) (L1 ++ L2)).
Proof.
  intros HL H1 H2 donor. apply Forall_app in HL as [HL1 HL2].
  rewrite C07_prefix_then_suffix. fold donor.
  rewrite apply_from_at.
  assert (Hd : dataset donor = dataset (ref_replay (init_state T) L1)) by by apply C07_replay_deterministic.
  destruct (ref_replay_inv T L1 (init_state T) (det_log_replica_det T L1 HL1)) as (D & N); [done|simpl; lia|].
  set (r := ref_replay (init_state T) L1) in *.
  assert (Hdon : donor = at_time r (st_now donor)).
  { rewrite <- (at_time_now donor) at 1. unfold dataset in Hd.
    rewrite <- (at_time_at donor 0 (st_now donor)), Hd. by rewrite at_time_at. }
  rewrite Hdon, !apply_from_at.
  assert (R2 := det_log_replica_det T L2 HL2).
  assert (Hr : st_now r <= T) by (simpl in N; lia).
  rewrite (agree_with_reference T L2 _ clk2 pk2 r R2 D Hr H2).
  rewrite (agree_with_reference T L2 _ clk1 pk1 r R2 D Hr H1).
  done.
Qed.
Print Assumptions C07_snapshot_then_suffix.

(** A node that is not the leader never changes its own dataset for a replicated command: it rejects
    it, or hands it to the leader when forwarding is enabled. *)
Theorem C07_follower_never_applies sync pk n d cmd rest :
  n_leader n = false -> sync (lower cmd) = true ->
  let r := handle_command sync pk n d (cmd :: rest) in
  own_state_after n r = n_st n /\
  (r = HcUnknown \/ (n_forward n = true /\ r = HcForward d (cmd :: rest)) \/ (n_forward n = false /\ r = HcReject)).
Proof. exact (follower_never_applies sync pk n d cmd rest). Qed.
Print Assumptions C07_follower_never_applies.

(** The leader answers after its own state machine has applied the entry: a read on the leader after
    the acknowledgement runs on the state that contains the write. *)
Theorem C07_read_after_ack pk n e :
  n_st (fst (leader_write pk n e)) = fst (fsm_apply pk (n_st n) e)
  /\ snd (leader_write pk n e) = snd (fsm_apply pk (n_st n) e).
Proof. exact (read_after_ack pk n e). Qed.

(** The entry is applied in the database named in the request and changes no other (FLUSHALL apart);
    the leader puts the client's database into the entry, and so does the forwarding path. *)
Theorem C07_database_placement pk s d cmd rest d' :
  d' <> d -> 0 <= d -> lower cmd <> "flushall" -> eq_fold cmd "flushall" = false ->
  other_db_same s (fst (fsm_apply pk s (ReqCommand d (cmd :: rest)))) d'.
Proof. exact (database_placement pk s d cmd rest d'). Qed.
Theorem C07_entry_carries_database sync pk n d cmd rest h :
  n_leader n = true -> sync (lower cmd) = true -> handler_for pk (lower cmd) = Some h ->
  handle_command sync pk n d (cmd :: rest) = HcPropose (ReqCommand d (absolute_form (st_now (n_st n)) (cmd :: rest))).
Proof. exact (leader_proposes sync pk n d cmd rest h). Qed.
Theorem C07_forward_carries_database sync pk f l d cmd rest :
  n_leader f = false -> n_forward f = true -> n_leader l = true ->
  handle_command sync pk f d (cmd :: rest) = HcForward d (cmd :: rest) ->
  notify_mutate l d (cmd :: rest) = Some (ReqCommand d (absolute_form (st_now (n_st l)) (cmd :: rest))).
Proof. exact (forwarded_keeps_database sync pk f l d cmd rest). Qed.
Print Assumptions C07_database_placement.

(** What the source says today (regenerated table): every command that can change the dataset is
    replicated, no read-only command is, and every replicated modelled command is classified. *)
Theorem C07_every_mutator_syncs :
  forallb (fun r => negb (may_mutate (cr_name r)) || cr_sync r) top_rows = true
  /\ length (filter (fun r => may_mutate (cr_name r)) top_rows) = 55%nat.
Proof. exact every_mutator_syncs. Qed.
Theorem C07_classification T d cmd rest :
  det_always (lower cmd) = true -> replica_det T (ReqCommand d (cmd :: rest)).
Proof. exact (det_always_sound T d cmd rest). Qed.
Print Assumptions C07_classification.

(** * Relative expiries: the leader replicates their absolute form ([Model/AbsForm.v],
    fixes/fix-absolute-expiry.diff)

    The log the leader builds from the clients' commands — each through [absolute_form] at the leader's
    clock when it proposes the entry ([C07_entry_carries_database]) — replicates to identical datasets on
    all nodes as soon as its entries pass the check; an entry with a relative expiry passes it when the
    deadline it denotes on the leader is at or after the horizon ([C07_leader_entry_replay_stable]),
    where the command as given never does ([C07_relative_entry_not_det]: EXPIRE / PEXPIRE; SET / GETEX with
    EX / PX: [set_args_abs], [getex_abs]); and the entry does on the leader what the client asked for, up
    to the leader's clock reading at proposal time ([C07_leader_entry_is_what_was_asked]). *)
Theorem C07_leader_log_agree T cmds clk1 clk2 pk1 pk2 s :
  det_log T (leader_log cmds) -> dl_ge T s -> st_now s <= T -> (forall j, clk1 j <= T) -> (forall j, clk2 j <= T) ->
  dataset (apply_all clk1 pk1 s (leader_log cmds)) = dataset (apply_all clk2 pk2 s (leader_log cmds)).
Proof. exact (leader_log_agree T cmds clk1 clk2 pk1 pk2 s). Qed.
Theorem C07_leader_entry_replay_stable T now d argv :
  absolute_form now argv <> argv -> abs_horizon T now argv = true ->
  replica_det T (ReqCommand d (absolute_form now argv)).
Proof. intros H1 H2. apply entry_det_b_sound. by apply absolute_form_replay_stable. Qed.
Theorem C07_relative_entry_not_det T d cmd rest :
  String.eqb (lower cmd) "expire" || String.eqb (lower cmd) "pexpire" = true ->
  entry_det_b T (ReqCommand d (cmd :: rest)) = false.
Proof. exact (relative_entry_not_det T d cmd rest). Qed.
Theorem C07_leader_entry_is_what_was_asked pk s t d argv :
  fsm_apply pk (at_time s t) (ReqCommand d (absolute_form t argv)) = fsm_apply pk (at_time s t) (ReqCommand d argv).
Proof. exact (leader_entry_is_what_was_asked pk s t d argv). Qed.
Print Assumptions C07_leader_log_agree.
Print Assumptions C07_leader_entry_replay_stable.
Print Assumptions C07_leader_entry_is_what_was_asked.

(** * The unguarded statement is false: witnesses.  Randomised commands are replicated as commands, not
    as their effects (known finding); the relative-expiry witnesses below are about *raw* entries, which
    the leader no longer produces: they show what the rewrite is for ([C07_relative_through_leader_agrees]
    is their repaired twin) *)
Definition digest_differs (a b : state) : Prop := show_state (dataset a) <> show_state (dataset b).

Definition last_pick : picker := fun s c => zfirstn c (rev (sorted_elems s)).
Definition c (db : Z) (argv : list string) := ReqCommand db argv.

(** a random pop removes different members on different nodes *)
Theorem C07_spop_diverges_refuted :
  exists L pk1 pk2, digest_differs (apply_all (fun _ => 1000) (fun _ => pk1) (init_state 1000) L)
                                   (apply_all (fun _ => 1000) (fun _ => pk2) (init_state 1000) L).
Proof.
  exists [c 0 ["SADD"; "s"; "a"; "b"; "c"]; c 0 ["SPOP"; "s"; "1"]], default_pick, last_pick.
  unfold digest_differs. vm_compute. discriminate.
Qed.

(** a relative expiry is evaluated against each node's own clock *)
Theorem C07_relative_expiry_diverges_refuted :
  exists L, digest_differs (apply_all (fun _ => 1000) (fun _ => default_pick) (init_state 1000) L)
                           (apply_all (fun _ => 1007) (fun _ => default_pick) (init_state 1007) L).
Proof. exists [c 0 ["SET"; "k"; "v"]; c 0 ["EXPIRE"; "k"; "100"]]. unfold digest_differs. vm_compute. discriminate. Qed.
Theorem C07_set_ex_diverges_refuted :
  exists L, digest_differs (apply_all (fun _ => 1000) (fun _ => default_pick) (init_state 1000) L)
                           (apply_all (fun _ => 1007) (fun _ => default_pick) (init_state 1007) L).
Proof. exists [c 1 ["SET"; "k"; "v"; "PX"; "100"]]. unfold digest_differs. vm_compute. discriminate. Qed.
Theorem C07_getex_diverges_refuted :
  exists L, digest_differs (apply_all (fun _ => 1000) (fun _ => default_pick) (init_state 1000) L)
                           (apply_all (fun _ => 1007) (fun _ => default_pick) (init_state 1007) L).
Proof. exists [c 0 ["SET"; "k"; "v"]; c 0 ["GETEX"; "k"; "EX"; "5"]]. unfold digest_differs. vm_compute. discriminate. Qed.

(** the same three commands handed to a leader whose clock shows 1000: the entries carry absolute
    deadlines, pass the check, and nodes with clocks 1000 and 1007 agree *)
Example C07_relative_through_leader_agrees :
  let L := leader_log [(1000, 0, ["SET"; "k"; "v"]); (1000, 0, ["EXPIRE"; "k"; "100"]);
                       (1000, 1, ["SET"; "j"; "v"; "PX"; "100"]); (1000, 0, ["GETEX"; "k"; "EX"; "5"])] in
  L = [c 0 ["SET"; "k"; "v"]; c 0 ["PEXPIREAT"; "k"; "101000"]; c 1 ["SET"; "j"; "v"; "PXAT"; "1100"];
       c 0 ["GETEX"; "k"; "PXAT"; "6000"]]
  /\ forallb (entry_det_b 1007) L = true
  /\ show_state (dataset (apply_all (fun _ => 1000) (fun _ => default_pick) (init_state 1000) L))
     = show_state (dataset (apply_all (fun _ => 1007) (fun _ => default_pick) (init_state 1007) L)).
Proof. vm_compute. repeat split; reflexivity. Qed.

(** even an absolute deadline: a node applies the entry that follows it before the deadline, another
    node after it (replication lag or clock skew), and the values differ *)
Theorem C07_deadline_passes_during_replication_refuted :
  exists L, digest_differs (apply_all (fun _ => 1000) (fun _ => default_pick) (init_state 1000) L)
                           (apply_all (fun i => if (i <? 1)%nat then 1000 else 5000) (fun _ => default_pick) (init_state 1000) L).
Proof. exists [c 0 ["SET"; "k"; "5"; "PXAT"; "3000"]; c 0 ["INCR"; "k"]]. unfold digest_differs. vm_compute. discriminate. Qed.

(** * Non-vacuity *)
Example C07_log : list request :=
  [c 0 ["SET"; "a"; "1"]; c 1 ["RPUSH"; "l"; "x"; "y"]; c 2 ["SADD"; "s"; "m"; "n"]; c 10 ["ZADD"; "z"; "1"; "m"];
   c 0 ["INCR"; "a"]; c 0 ["SET"; "e"; "v"; "PXAT"; "900000"]; c 1 ["HSET"; "h"; "f"; "v"]; ReqDeleteKey 2 "s";
   c 0 ["EXPIREAT"; "a"; "1000"]; c 1 ["LPOP"; "l"]].
Example C07_log_is_det : forallb (entry_det_b 900000) C07_log = true.
Proof. vm_compute. reflexivity. Qed.
Example C07_log_not_trivial :
  show_state (dataset (apply_all (fun i => 100 + Z.of_nat i) (fun _ => default_pick) (init_state 5) C07_log))
  = show_state (dataset (apply_all (fun i => 77777 - Z.of_nat i) (fun _ => last_pick) (init_state 9) C07_log))
  /\ show_state (dataset (apply_all (fun _ => 100) (fun _ => default_pick) (init_state 5) C07_log))
     <> show_state (dataset (init_state 5)).
Proof. split; [vm_compute; reflexivity|vm_compute; discriminate]. Qed.

(** * The raft snapshot: Persist then Restore, for all datasets

    For every donor store [s], every receiving node [n0] (whatever it holds; no memory limit) and every
    wall clock [w]: after [Restore] of what [Persist] wrote, the node's store holds, in every database
    and under every key, exactly the donor's entry - value and deadline - unless that deadline had
    passed at [w]; nothing of the node's old data is left; its clock and limits are untouched. *)
Theorem C07_snapshot_roundtrip w s n0 :
  st_maxmem n0 = 0 ->
  let r := fsm_restore w (fsm_persist w s) n0 in
  (forall d k, get_db r d !! k = purge1 w (flookup (st_dbs s) d k)) /\
  st_now r = st_now n0 /\ st_maxmem r = 0 /\ st_noevict r = st_noevict n0.
Proof. exact (raft_snapshot_roundtrip w s n0). Qed.

(** Donor, wall clock and receiving node at the same instant: the clients of the restored node see, in
    every database, exactly what the donor's clients saw. *)
Theorem C07_snapshot_same_view s n0 :
  st_maxmem n0 = 0 -> st_now n0 = st_now s ->
  forall d k, lentry (fsm_restore (st_now s) (fsm_persist (st_now s) s) n0) d k = lentry s d k.
Proof. exact (raft_snapshot_same_view s n0). Qed.

(** Two nodes restored from one snapshot hold the same store, whatever each held before. *)
Theorem C07_snapshot_nodes_agree w s n1 n2 :
  st_maxmem n1 = 0 -> st_maxmem n2 = 0 ->
  forall d k, get_db (fsm_restore w (fsm_persist w s) n1) d !! k = get_db (fsm_restore w (fsm_persist w s) n2) d !! k.
Proof. exact (raft_snapshot_nodes_agree w s n1 n2). Qed.
Print Assumptions C07_snapshot_roundtrip.
Print Assumptions C07_snapshot_same_view.
Print Assumptions C07_snapshot_nodes_agree.

(** Non-vacuity: the dataset of [C07_log] restored into a node that holds other data (a stale key in
    database 0, a key in a database the donor does not have) - every database comes back entry for
    entry, and the volatile-key index as a set (its order is the order of re-insertion). *)
Definition snap_src : state := apply_all (fun _ => 100) (fun _ => default_pick) (init_state 100) C07_log.
Definition snap_junk : state :=
  apply_all (fun _ => 100) (fun _ => default_pick) (init_state 100) [c 0 ["SET"; "stale"; "1"]; c 5 ["SET"; "q"; "1"]].
Definition no_index (s : state) : state := set st_vol (fun _ => ∅) s.
Example C07_snapshot_example :
  let r := fsm_restore 100 (fsm_persist 100 snap_src) snap_junk in
  st_maxmem snap_junk = 0 /\
  map (show_db (no_index r)) [0; 1; 2; 5; 10] = map (show_db (no_index snap_src)) [0; 1; 2; 5; 10] /\
  map (fun d => sort_strings (get_vol r d)) [0; 1; 2; 5; 10] = map (fun d => sort_strings (get_vol snap_src d)) [0; 1; 2; 5; 10] /\
  show_db snap_junk 5 <> show_db snap_src 5 /\
  (* the volatile-key index comes back as a set; its order is that of the re-insertion *)
  show_db r 0 = "db0{61=i2@1000000 65=s76@900000}v[61,65]"%string /\
  show_db snap_src 0 = "db0{61=i2@1000000 65=s76@900000}v[65,61]"%string.
Proof.
  cbv zeta. split; [vm_compute; reflexivity|]. split; [vm_compute; reflexivity|]. split; [vm_compute; reflexivity|].
  split; [vm_compute; discriminate|]. split; vm_compute; reflexivity.
Qed.

(** a follower rejects, forwards; the leader proposes *)
Example C07_follower_example :
  let f := Node (init_state 0) false false in
  handle_command table_sync default_pick f 3 ["SET"; "k"; "v"] = HcReject
  /\ handle_command table_sync default_pick (Node (init_state 0) false true) 3 ["SET"; "k"; "v"] = HcForward 3 ["SET"; "k"; "v"]
  /\ handle_command table_sync default_pick (Node (init_state 0) true false) 3 ["SET"; "k"; "v"] = HcPropose (ReqCommand 3 ["SET"; "k"; "v"])
  /\ (exists s r, handle_command table_sync default_pick f 3 ["GET"; "k"] = HcLocal s r).
Proof. vm_compute. repeat split; try reflexivity. eexists _, _. reflexivity. Qed.

(** Forwarding through gossip is not exactly-once (recorded finding KF-C07-forwarding-not-exactly-once; the model
    reproduces the code: [Model/RaftRun.v] [enqueue] / [deliver]).  Three nodes, ForwardCommand on, one RPUSH l x handed
    to follower 1 and acknowledged: after the first gossip round the list holds one x on every node, after the second
    two, after the third three — the two followers queue the message again each time they receive it. *)
Theorem C07_forwarded_write_reapplied_refuted :
  let out := run_raft ["S w nodes=3 leader=0 forward=1"; "H 1 0 5250555348 6c 78"; "M"; "G"; "M"; "G"; "M"; "G"; "E"]%string in
  nth 3 out ""%string = "G0 mem=58 db0{6c=l[78]@0}v[]"%string /\
  nth 7 out ""%string = "G0 mem=75 db0{6c=l[78,78]@0}v[]"%string /\
  nth 11 out ""%string = "G0 mem=92 db0{6c=l[78,78,78]@0}v[]"%string.
Proof. vm_compute. done. Qed.
(** Two nodes: two acknowledged writes with the same bytes for the same database within one gossip round reach the
    leader as one. *)
Theorem C07_forwarded_twin_collapses_refuted :
  let out := run_raft ["S w nodes=2 leader=0 forward=1"; "H 1 0 5250555348 6c 78"; "H 1 0 5250555348 6c 78"; "M"; "G"; "E"]%string in
  out = ["S w"; "H +4f4b"; "H +4f4b"; "M 1"; "G0 mem=58 db0{6c=l[78]@0}v[]"; "G1 mem=58 db0{6c=l[78]@0}v[]"; "E"]%string.
Proof. vm_compute. done. Qed.
(** The universal form: whatever the follower's queue holds, a write handed over twice (same bytes, same database) is
    queued once — the queue never holds two copies of a message. *)
Theorem C07_forwarded_twin_collapses_every_queue : forall q m, enqueue (enqueue q m) m = enqueue q m.
Proof. exact enqueue_twice. Qed.
Theorem C07_queue_one_copy : forall q m, List.filter (fun x => msg_eqb x m) (enqueue q m) = [m].
Proof. exact enqueue_one_copy. Qed.
Print Assumptions C07_forwarded_twin_collapses_every_queue.
Print Assumptions C07_queue_one_copy.
Print Assumptions C07_forwarded_write_reapplied_refuted.
Print Assumptions C07_forwarded_twin_collapses_refuted.
