(** C01 — Keyspace is a sequential typed map: reads return the last write. *)
From stdpp Require Import gmap strings.
From Coq Require Import QArith.
From EV Require Import Base.Str Model.Value Model.Adapt Model.Keyspace Model.Reply Model.Prog.
From EV Require Import Model.CmdGeneric Model.CmdString Model.Dispatch.
From EV Require Import Spec.SpecKV Proofs.KeyspaceLemmas Proofs.ProgLemmas Proofs.KVProofs Proofs.KVCorollaries Proofs.KVTimeline.
Local Open Scope Z_scope.

(** For every finite sequence of argument vectors (any command word, any arity, any bytes, any option
    combination), from every state of the keyspace (any pre-existing types, deadlines, databases)
    without a memory limit: the replies of the handlers are those of the reference map
    [Spec/SpecKV.v], the resulting live dataset (typed values and deadlines) of the selected database
    is the reference's, and clock and configuration are untouched.  Command words outside the
    twenty of the alphabet are refused by both. *)
Theorem C01_refines : forall cmds s d,
  st_maxmem s = 0 ->
  let '(s', rs) := run_kv_cmds d cmds s in
  let '(m', rs') := spec_kv_run (st_now s) (kview s d) cmds in
  rs = rs' /\ kview s' d = m' /\ kv_keep s s'.
Proof. exact kv_script_refines. Qed.
Print Assumptions C01_refines.

(** The same over time-lines: the clock moves (by any non-negative amounts, at any positions) between the commands.
    The reference forgets the keys whose deadline has passed when the clock moves ([purge_kv]); the handlers, which
    never sweep but ignore and lazily delete what has expired, give the reference's replies and live dataset. *)
Theorem C01_refines_timeline : forall evs s d,
  st_maxmem s = 0 -> nonneg_advances evs ->
  let '(s', rs) := run_kv_timeline d evs s in
  let '(m', rs') := spec_kv_timeline (st_now s) (kview s d) evs in
  rs = rs' /\ kview s' d = m' /\ st_maxmem s' = 0.
Proof. exact kv_timeline_refines. Qed.
Print Assumptions C01_refines_timeline.

(** One command (the simulation step). *)
Theorem C01_step : forall argv s d,
  st_maxmem s = 0 ->
  let '(s', r) := exec_kv d argv s in
  let '(m', r') := spec_kv (st_now s) (kview s d) argv in
  r = r' /\ kview s' d = m' /\ kv_keep s s'.
Proof. exact kv_step_refines. Qed.
Print Assumptions C01_step.

(** A command that fails (wrong type, invalid arguments, failed NX/XX, overflow) changes nothing a
    client can observe: no value, no deadline, in no database (with or without a memory limit). *)
Theorem C01_error_changes_nothing : forall argv s d,
  snd (exec_kv d argv s) = RErr -> same_view s (fst (exec_kv d argv s)).
Proof. exact kv_error_changes_nothing. Qed.
Print Assumptions C01_error_changes_nothing.

(** Frame: every other database keeps its entries, deadlines and volatile-key index exactly.
    (Inside the selected database the reference itself is the frame: [C01_step] says the live
    dataset is the reference's, whose clauses bind or remove only the keys they name and keep the
    deadline of an overwritten key.) *)
Theorem C01_other_databases : forall argv s d d',
  d' <> d -> d <> -1 -> other_db_same s (fst (exec_kv d argv s)) d'.
Proof. exact kv_other_databases. Qed.
Print Assumptions C01_other_databases.

(** The dispatcher runs exactly these handlers for the twenty command words, case-insensitively, in
    the caller's database. *)
Theorem C01_dispatch : forall w conn c argv h,
  argv = c :: tl argv -> kv_handler (lower c) = Some h ->
  exec_cmd w conn argv =
  (let '(s', r) := exec_kv (conn_db w conn) argv (w_st w) in (World s' (w_conns w), r)).
Proof. exact kv_dispatch. Qed.
Print Assumptions C01_dispatch.

(** Bytes: SET k v; GET k returns v, for every state, key and byte string v that is not a canonical
    decimal fraction (those are stored as floats; their text is modelled, not verified). *)
Theorem C01_bytes : forall s d k v,
  st_maxmem s = 0 -> (forall f, adapt_value v <> SFloat f) ->
  snd (run_kv_cmds d [["SET"; k; v]; ["GET"; k]] s) = [ROk; RBulk v].
Proof. exact kv_set_get_bytes. Qed.
Print Assumptions C01_bytes.

(** Counters: INCRBY on a stored integer is addition in Z, refused exactly when the sum leaves int64. *)
Theorem C01_counter : forall s d k c dl ns n,
  st_maxmem s = 0 -> kview s d !! k = Some (Entry (VInt c) dl) -> parse_int ns = Some n ->
  let '(s', r) := exec_kv d ["INCRBY"; k; ns] s in
  if in_int64 (c + n)
  then r = RInt (c + n) /\ kview s' d = <[k := Entry (VInt (c + n)) dl]> (kview s d)
  else r = RErr /\ same_view s s'.
Proof. exact kv_incrby. Qed.
Print Assumptions C01_counter.

(** Non-vacuity: a concrete state with a wrong-typed key and a key under a deadline, and a script that
    composes commands (numeric-looking bytes, CR LF, options, a counter at the int64 limit, a rename
    that carries the deadline, a failing command in the middle). *)
Example C01_example :
  let s0 := fst (run_seq 0 (SetValues [("l"%string, VList ["x"%string])] (fun _ =>
                 SetValues [("t"%string, VStr "v")] (fun _ => SetExpiry "t" (Some 9000) false (Ret tt)))) (init_state 5)) in
  let cmds := [["SET"; "k"; "007"]; ["GET"; "k"]; ["TYPE"; "k"]; ["SET"; "k"; "12"; "XX"; "GET"]; ["TYPE"; "k"];
               ["INCRBY"; "k"; "9223372036854775795"]; ["INCR"; "k"]; ["GET"; "k"];
               ["APPEND"; "l"; "y"]; ["RENAME"; "t"; "u"]; ["SET"; "b"; "a" +:+ String "013" (String "010" "b"); "PX"; "100"];
               ["MGET"; "b"; "l"; "t"; "u"]; ["STRLEN"; "k"]; ["FLUSHDB"]; ["GET"; "k"]]%string in
  st_maxmem s0 = 0 /\
  snd (run_kv_cmds 0 cmds s0) =
    [ROk; RBulk "007"; RSimple "string"; RBulk "007"; RSimple "integer"; RInt 9223372036854775807; RErr;
     RBulk "9223372036854775807"; RErr; ROk; ROk;
     RArr [RBulk ("a" +:+ String "013" (String "010" "b")); RNil; RNil; RBulk "v"]; RErr; ROk; RNil]%string /\
  (kview (fst (run_kv_cmds 0 (firstn 10 cmds) s0)) 0 !! "u"%string) = Some (Entry (VStr "v") (Some 9000)).
Proof. vm_compute. done. Qed.

(** Non-vacuity of the time-line statement: a value under a deadline is served until the clock passes it, a value
    written afterwards does not inherit it, a counter restarts from nothing. *)
Example C01_timeline_example :
  let evs := [TCmd ["SET"; "k"; "5"; "PX"; "100"]; TAdvance 100; TCmd ["INCR"; "k"]; TAdvance 1; TCmd ["GET"; "k"];
              TCmd ["INCR"; "k"]; TCmd ["TYPE"; "k"]; TAdvance 1000; TCmd ["GET"; "k"]]%string in
  nonneg_advances evs /\
  snd (run_kv_timeline 0 evs (init_state 5)) = [ROk; RInt 6; RNil; RInt 1; RSimple "integer"; RBulk "1"]%string.
Proof. split; [repeat constructor; lia|]. vm_compute. done. Qed.
