(** C08 — Max-memory policy: who may be evicted, in what order, and when. *)
From stdpp Require Import gmap strings.
From EV Require Import Base.Str Model.Value Model.Keyspace Model.Evict Model.ScriptEvict Spec.SpecEvict.
From EV Require Import Proofs.EvictProofs.
Local Open Scope Z_scope.

(** Every theorem is about one [adjustMemoryUsage] pass from an ARBITRARY extended state (any
    keyspace, any cache contents, any limit, any stamps, any hints): such a pass is what every access
    history ends in, whatever the interleaving of commands and cache-update goroutines. *)

Theorem C08_noeviction :
  (forall now h d ks es, es_policy es = NoEviction -> exists n, update_keys_in_cache now h d ks es = (es, n, true, [])) /\
  (forall es d kvs, st_noevict (es_st es) = true ->
     (st_maxmem (es_st es) <> 0 /\ st_maxmem (es_st es) <= st_mem (es_st es) -> e_set_values es d kvs = (es, false)) /\
     (~ (st_maxmem (es_st es) <> 0 /\ st_maxmem (es_st es) <= st_mem (es_st es)) -> snd (e_set_values es d kvs) = true)).
Proof. split; [exact noeviction_never_evicts|exact noeviction_refuses]. Qed.

Theorem C08_only_over_limit : forall h d es es' ok tr,
  adjust_memory_usage h d es = (es', ok, tr) ->
  Forall (fun st => st_maxmem (es_st (ev_pre st)) <= st_mem (es_st (ev_pre st))) tr /\
  (st_maxmem (es_st es) = 0 -> tr = []).
Proof. exact only_over_limit. Qed.

(** Partial: proved from every state in which the bookkeeping is sound ([cands_inv]: what the policy's
    cache / the volatile index offers and is still stored has a deadline), together with: the initial
    state is sound, eviction passes and deletions keep it sound.  NOT proved here: that [setValues],
    [setExpiry] (the PERSIST case needs the caches to hold each key once), [getValues], [Flush] and the
    cache updates keep it sound — that part is covered by the differential check only. *)
Theorem C08_candidates_partial : forall h d es es' ok tr,
  cands_inv es -> adjust_memory_usage h d es = (es', ok, tr) ->
  Forall victim_is_candidate tr /\ cands_inv es'.
Proof. exact candidates. Qed.
Theorem C08_candidates_init : forall now p m nf, cands_inv (init_estate now p m nf).
Proof. exact cands_inv_init. Qed.

(** LFU as the code has it; LRU for the order the property asks for ([es_newest_first = false]). *)
Theorem C08_order :
  (forall h d es es' ok tr, is_lfu (es_policy es) = true ->
     adjust_memory_usage h d es = (es', ok, tr) -> Forall lfu_first tr) /\
  (forall h d es es' ok tr, is_lru (es_policy es) = true -> es_newest_first es = false ->
     adjust_memory_usage h d es = (es', ok, tr) -> Forall lru_first tr).
Proof. split; [exact order_lfu|exact order_lru]. Qed.

Theorem C08_stops : forall h d es es' ok tr,
  adjust_memory_usage h d es = (es', ok, tr) ->
  chain_ok tr /\ es' = final_of es tr /\ (ok = true -> tr <> [] -> under_limit es' = true).
Proof. exact stops. Qed.

Theorem C08_clean_removal : forall h d es es' ok tr,
  adjust_memory_usage h d es = (es', ok, tr) -> Forall removed_cleanly tr.
Proof. exact clean_removal. Qed.

(** The code as it is ([CacheLRU.Less] compares with [>]: [es_newest_first = true]) refutes the LRU
    half of the order: a written first, b second, limit crossed by b: b is evicted. *)
Definition lru_victim_oldest (st : evstep) : bool :=
  let ents := c_ents (get_lru (ev_pre st) (ev_db st)) in
  match c_find lru_key (ev_key st) ents with
  | Some v => forallb (fun e => lru_time v <=? lru_time e) ents
  | None => false
  end.

Definition witness (newest_first : bool) : estate :=
  let v := VScal (SStr "vvvvvvvvvv") in
  let es0 := init_estate 0 AllKeysLRU 100 newest_first in
  let es1 := fst (e_set_values es0 0 [("a", v)]) in
  let es2 := fst (fst (fst (update_keys_in_cache 1 [] 0 ["a"] es1))) in
  let es3 := fst (e_set_values es2 0 [("b", v)]) in
  set_lru es3 0 (lru_update 2 "b" (get_lru es3 0)).

Theorem C08_order_lru_refuted :
  exists es, es_policy es = AllKeysLRU /\ es_newest_first es = true /\
    map (fun st => (ev_key st, lru_victim_oldest st)) (snd (adjust_memory_usage [] 0 es)) = [("b", false)].
Proof. exists (witness true). vm_compute. done. Qed.

(** Non-vacuity: with the order the property asks for, the same history evicts a, the oldest. *)
Example C08_order_witness :
  map (fun st => (ev_key st, lru_victim_oldest st)) (snd (adjust_memory_usage [] 0 (witness false))) = [("a", true)].
Proof. vm_compute. done. Qed.

Print Assumptions C08_noeviction.
Print Assumptions C08_only_over_limit.
Print Assumptions C08_candidates_partial.
Print Assumptions C08_order.
Print Assumptions C08_stops.
Print Assumptions C08_clean_removal.
Print Assumptions C08_order_lru_refuted.
