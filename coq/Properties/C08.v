(** C08 — Max-memory policy: who may be evicted, in what order, and when. *)
From stdpp Require Import gmap strings.
From EV Require Import Base.Str Model.Value Model.Keyspace Model.Evict Model.ScriptEvict Spec.SpecEvict.
From EV Require Import Proofs.EvictProofs Proofs.EvictSound Proofs.EvictScript.
Local Open Scope Z_scope.

(** Every theorem is about one [adjustMemoryUsage] pass from an ARBITRARY extended state (any
    keyspace, any cache contents, any limit, any stamps, any hints): such a pass is what every access
    history ends in, whatever the interleaving of commands and cache-update goroutines. *)

Theorem C08_noeviction :
  (forall now h d ks es, es_policy es = NoEviction -> exists n, update_keys_in_cache now h d ks es = (es, n, true, [])) /\
  (forall es d kvs, st_noevict (es_st es) = true ->
     (st_maxmem (es_st es) <> 0 /\ st_maxmem (es_st es) <= st_mem (es_st es) -> e_set_values es d kvs = (es, false)) /\
     (~ (st_maxmem (es_st es) <> 0 /\ st_maxmem (es_st es) <= st_mem (es_st es)) -> snd (e_set_values es d kvs) = true)).
Proof. split; [exact noeviction_never_evicts|exact noeviction_refuses]. Qed.

Theorem C08_only_over_limit : forall h d es es' ok tr,
  adjust_memory_usage h d es = (es', ok, tr) ->
  Forall (fun st => st_maxmem (es_st (ev_pre st)) <= st_mem (es_st (ev_pre st))) tr /\
  (st_maxmem (es_st es) = 0 -> tr = []).
Proof. exact only_over_limit. Qed.

(** [C08_candidates], in full.  [reachable es]: [es] is the empty server of some policy / limit / clock
    ([init_estate]) followed by ANY finite sequence of primitives of the extended model, each with any
    arguments ([estep]): [setValues] (incl. the overwrite of an expired entry), [setExpiry] with a deadline and
    without (PERSIST; also on a missing or expired key), [getValues] with its lazy deletions, [deleteKey] (a
    handler's, or the expiry sampler's: any keys), [Flush] of one database or all, the clock, [updateKeysInCache]
    with any stamp / hints / database / key list (the parked cache-update goroutines, at any time, in any
    order, any number of times), [adjustMemoryUsage].  From every such state, under a volatile policy no
    eviction pass evicts a stored key that has no deadline, and the state after the pass is reachable again. *)
Theorem C08_candidates : forall h d es es' ok tr,
  reachable es -> adjust_memory_usage h d es = (es', ok, tr) ->
  Forall victim_is_candidate tr /\ reachable es'.
Proof. exact candidates_reachable. Qed.

(** The same for the passes a cache update runs over all the databases after its touches. *)
Theorem C08_candidates_update : forall now h d ks es es' n ok tr,
  reachable es -> update_keys_in_cache now h d ks es = (es', n, ok, tr) ->
  Forall victim_is_candidate tr /\ reachable es'.
Proof. exact update_candidates_reachable. Qed.

(** Stronger than asked: the victim of a volatile policy IS stored and HAS a deadline (in a reachable state
    the policy's cache and the volatile index hold no stale key). *)
Theorem C08_victims_have_deadline : forall h d es es' ok tr,
  reachable es -> adjust_memory_usage h d es = (es', ok, tr) -> Forall victim_volatile tr.
Proof. exact victims_volatile_reachable. Qed.

(** The bookkeeping invariant holds in every reachable state ... *)
Theorem C08_cands_inv_reachable : forall es, reachable es -> cands_inv es.
Proof. exact cands_inv_reachable. Qed.
(** ... because the stronger [sound] (each key at most once in each heap and recorded in [keys]; every entry
    of the volatile policy's cache and every key of the volatile index is stored and has a deadline) holds
    initially and is preserved by every primitive, ... *)
Theorem C08_sound_preserved :
  (forall now p m nf, sound (init_estate now p m nf)) /\
  (forall es es', sound es -> estep es es' -> sound es') /\
  (forall es, sound es -> cands_inv es).
Proof. split; [exact sound_init|split; [exact sound_step|exact sound_cands_inv]]. Qed.
(** ... by every handler (every program over the primitives, any arguments, whatever updates it starts), ... *)
Theorem C08_handlers_reachable : forall R d (p : Prog.prog R) es sp,
  reachable es -> reachable (fst (fst (e_run d p es sp))).
Proof. intros R. exact (@e_run_reachable R). Qed.
(** ... and by every line of the script machine that is compared with the implementation: after ANY
    sequence of lines from the empty server the state is reachable, sound, and satisfies [cands_inv]. *)
Theorem C08_script_states_sound : forall now p maxmem nf tick lines,
  let w := world_after (EWorld (init_estate now p maxmem nf) tick [] []) lines in
  reachable (ew_es w) /\ sound (ew_es w) /\ cands_inv (ew_es w).
Proof. exact script_states_sound. Qed.

(** From an ARBITRARY state (not necessarily reachable) whose bookkeeping is sound — the former [_partial]
    statement, kept because it is about more states. *)
Theorem C08_candidates_from_sound_bookkeeping : forall h d es es' ok tr,
  cands_inv es -> adjust_memory_usage h d es = (es', ok, tr) ->
  Forall victim_is_candidate tr /\ cands_inv es'.
Proof. exact candidates. Qed.
Theorem C08_candidates_init : forall now p m nf, cands_inv (init_estate now p m nf).
Proof. exact cands_inv_init. Qed.

(** Non-vacuity: volatile-lru, [a] persistent and [b] with a deadline, both touched, limit crossed:
    [b] is evicted, [a] stays. *)
Definition vwitness : estate :=
  let v := VScal (SStr "vvvvvvvvvv") in
  let es0 := init_estate 0 VolatileLRU 100 true in
  let es1 := fst (e_set_values es0 0 [("a", v)]) in
  let es2 := fst (e_set_values es1 0 [("b", v)]) in
  e_set_expiry es2 0 "b" (Some 1000).
Example C08_candidates_witness :
  let '(es, n, ok, tr) := update_keys_in_cache 1 [] 0 ["a"; "b"] vwitness in
  (n, ok, map ev_key tr, sorted_keys (get_db (es_st es) 0)) = (2, true, ["b"], ["a"]).
Proof. vm_compute. done. Qed.

(** LFU as the code has it; LRU for the order the property asks for ([es_newest_first = false]). *)
Theorem C08_order :
  (forall h d es es' ok tr, is_lfu (es_policy es) = true ->
     adjust_memory_usage h d es = (es', ok, tr) -> Forall lfu_first tr) /\
  (forall h d es es' ok tr, is_lru (es_policy es) = true -> es_newest_first es = false ->
     adjust_memory_usage h d es = (es', ok, tr) -> Forall lru_first tr).
Proof. split; [exact order_lfu|exact order_lru]. Qed.

Theorem C08_stops : forall h d es es' ok tr,
  adjust_memory_usage h d es = (es', ok, tr) ->
  chain_ok tr /\ es' = final_of es tr /\ (ok = true -> tr <> [] -> under_limit es' = true).
Proof. exact stops. Qed.

Theorem C08_clean_removal : forall h d es es' ok tr,
  adjust_memory_usage h d es = (es', ok, tr) -> Forall removed_cleanly tr.
Proof. exact clean_removal. Qed.

(** The code as it is ([CacheLRU.Less] compares with [>]: [es_newest_first = true]) refutes the LRU
    half of the order: a written first, b second, limit crossed by b: b is evicted. *)
Definition lru_victim_oldest (st : evstep) : bool :=
  let ents := c_ents (get_lru (ev_pre st) (ev_db st)) in
  match c_find lru_key (ev_key st) ents with
  | Some v => forallb (fun e => lru_time v <=? lru_time e) ents
  | None => false
  end.

Definition witness (newest_first : bool) : estate :=
  let v := VScal (SStr "vvvvvvvvvv") in
  let es0 := init_estate 0 AllKeysLRU 100 newest_first in
  let es1 := fst (e_set_values es0 0 [("a", v)]) in
  let es2 := fst (fst (fst (update_keys_in_cache 1 [] 0 ["a"] es1))) in
  let es3 := fst (e_set_values es2 0 [("b", v)]) in
  set_lru es3 0 (lru_update 2 "b" (get_lru es3 0)).

Theorem C08_order_lru_refuted :
  exists es, es_policy es = AllKeysLRU /\ es_newest_first es = true /\
    map (fun st => (ev_key st, lru_victim_oldest st)) (snd (adjust_memory_usage [] 0 es)) = [("b", false)].
Proof. exists (witness true). vm_compute. done. Qed.

(** Non-vacuity: with the order the property asks for, the same history evicts a, the oldest. *)
Example C08_order_witness :
  map (fun st => (ev_key st, lru_victim_oldest st)) (snd (adjust_memory_usage [] 0 (witness false))) = [("a", true)].
Proof. vm_compute. done. Qed.

Print Assumptions C08_noeviction.
Print Assumptions C08_only_over_limit.
Print Assumptions C08_candidates.
Print Assumptions C08_candidates_update.
Print Assumptions C08_victims_have_deadline.
Print Assumptions C08_cands_inv_reachable.
Print Assumptions C08_sound_preserved.
Print Assumptions C08_handlers_reachable.
Print Assumptions C08_script_states_sound.
Print Assumptions C08_candidates_from_sound_bookkeeping.
Print Assumptions C08_order.
Print Assumptions C08_stops.
Print Assumptions C08_clean_removal.
Print Assumptions C08_order_lru_refuted.
