(** C20 — Logical databases are isolated namespaces. *)
From stdpp Require Import gmap strings.
From EV Require Import Base.Str Model.Value Model.Keyspace Model.Reply Model.Prog Model.Dispatch.
From EV Require Import Proofs.KeyspaceLemmas Proofs.ProgLemmas Proofs.DispatchLemmas Proofs.HandlerClasses Proofs.DbLemmas.
Local Open Scope Z_scope.

(** A command executed with database [i] selected never changes the keys, deadlines or volatile-key
    bookkeeping of a database [j <> i] — for every command word of every modelled module (list, hash,
    set, sorted set, generic, string, connection), every argument vector, every state — unless the
    command is FLUSHALL. *)
Theorem C20_other_databases_untouched : forall w c argv cmd,
  argv = cmd :: tl argv -> lower cmd <> "flushall"%string -> 0 <= conn_db w c ->
  forall d', d' <> conn_db w c -> other_db_same (w_st w) (w_st (fst (exec_cmd w c argv))) d'.
Proof. exact other_databases_untouched. Qed.
Print Assumptions C20_other_databases_untouched.

(** …and never reads them: two servers that show the same keys in database [i] (whatever the other
    databases hold) give the same reply and show the same keys in [i] afterwards. *)
Theorem C20_reply_independent : forall w1 w2 c argv,
  w_conns w1 = w_conns w2 ->
  view_agree (fun d => d = conn_db w1 c) (w_st w1) (w_st w2) -> st_maxmem (w_st w1) = 0 ->
  snd (exec_cmd w1 c argv) = snd (exec_cmd w2 c argv) /\
  w_conns (fst (exec_cmd w1 c argv)) = w_conns (fst (exec_cmd w2 c argv)) /\
  view_agree (fun d => d = conn_db w1 c) (w_st (fst (exec_cmd w1 c argv))) (w_st (fst (exec_cmd w2 c argv))).
Proof. exact reply_independent_of_other_databases. Qed.
Print Assumptions C20_reply_independent.

(** The same at the level of programs: holds for every handler that can ever be written over the
    primitives. *)
Theorem C20_frame_every_program : forall {R} (p : prog R), noflushall p -> forall d s d',
  d' <> d -> d <> -1 -> other_db_same s (fst (run_seq d p s)) d'.
Proof. intros R. exact (@noflushall_frame R). Qed.
Print Assumptions C20_frame_every_program.

(** FLUSHDB empties the selected database and nothing else; FLUSHALL empties all. *)
Theorem C20_flushdb : forall s d, d <> -1 ->
  (forall k, lentry (flush s d) d k = None) /\ (forall d', d' <> d -> other_db_same s (flush s d) d').
Proof. exact flushdb_exact. Qed.
Print Assumptions C20_flushdb.

Theorem C20_flushall : forall s d k, lentry (flush s (-1)) d k = None.
Proof. exact flushall_exact. Qed.
Print Assumptions C20_flushall.

(** SELECT affects only the issuing connection. *)
Theorem C20_select_local : forall w c d, 0 <= d ->
  let w' := fst (exec_cmd w c ["SELECT"; show_Z d]%string) in
  w_st w' = w_st w /\ (forall c', c' <> conn_key c -> w_conns w' !! c' = w_conns w !! c') /\
  (parse_int (show_Z d) = Some d -> w_conns w' !! conn_key c = Some d).
Proof. exact select_local. Qed.
Print Assumptions C20_select_local.

(** SWAPDB exchanges the two databases as seen by every client (TCP) connection; data and the embedded
    caller are left alone. *)
Theorem C20_swapdb : forall w c d1 d2 s1 s2,
  parse_int s1 = Some d1 -> parse_int s2 = Some d2 -> 0 <= d1 -> 0 <= d2 ->
  let w' := fst (exec_cmd w c ["SWAPDB"; s1; s2]%string) in
  w_st w' = w_st w /\
  (forall c', w_conns w' !! c' = (fun d => if c' =? 0 then d else swap_idx d1 d2 d) <$> (w_conns w !! c')).
Proof. exact swapdb_exchanges. Qed.
Print Assumptions C20_swapdb.

(** Non-vacuity: three connections, two-digit database indices, a swap and a flush. *)
Example C20_example :
  let w := fst (ScriptLemmas.run_cmds (init_world 5)
    [(1, ["SELECT"; "12"]); (1, ["SET"; "k"; "in12"]); (2, ["SET"; "k"; "in0"]); (2, ["SWAPDB"; "0"; "12"]);
     (2, ["GET"; "k"]); (1, ["FLUSHDB"]); (2, ["GET"; "k"]); (1, ["GET"; "k"])]%string) in
  snd (ScriptLemmas.run_cmds (init_world 5)
    [(1, ["SELECT"; "12"]); (1, ["SET"; "k"; "in12"]); (2, ["SET"; "k"; "in0"]); (2, ["SWAPDB"; "0"; "12"]);
     (2, ["GET"; "k"]); (1, ["FLUSHDB"]); (2, ["GET"; "k"]); (1, ["GET"; "k"])]%string)
  = [ROk; ROk; ROk; ROk; RBulk "in12"; ROk; RBulk "in12"; RNil]%string.
Proof. vm_compute. done. Qed.
