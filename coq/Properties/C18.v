(** C18 — Pub/Sub: exactly-once, in-order delivery to current subscribers only.

    Model: Model/PubSub.v (the Go module after the C18 fixes: channel objects found by name *and*
    kind, one ordered queue and one writer goroutine per connection, recipients fixed when PUBLISH
    runs).  Reference: Spec/SpecPubSub.v.  [glob_ok] / [glob_match] are parameters throughout.
    A history is any list of events; [EWrite c] is one step of connection c's writer goroutine, so
    quantifying over histories quantifies over every schedule of the deliveries. *)
From Coq Require Import String List Bool Arith.
From EV Require Import Base.Str Model.Reply Model.PubSub Spec.SpecPubSub Proofs.PubSubDeliver Proofs.PubSubProofs.
Import ListNotations.

Section C18.
Variable glob_ok : string -> bool.
Variable glob_match : string -> string -> bool.

(** Delivery, all interleavings.  After any history from the initial state, for every connection:
    what it has received followed by what is still queued for it is exactly the frames the
    commands of the history queued for it, in history order — nothing lost, nothing duplicated,
    nothing reordered, whatever the placement of the write steps. *)
Theorem C18_deliver_exact : forall evs c,
  received (fst (m_run glob_ok glob_match ps_init evs)) c ++
  outbox (fst (m_run glob_ok glob_match ps_init evs)) c
  = emitted glob_ok glob_match ps_init evs c.
Proof. exact (received_prefix glob_ok glob_match). Qed.

(** ... and the frames a PUBLISH queues: exactly one for a connection that is, at that moment, a
    subscriber of the channel or of a pattern matching it, none for any other connection. *)
Theorem C18_publish_exactly_once_current_only : forall chn msg t c,
  proj c (publish_pushes glob_match chn msg t) =
    match find (fun ch => mem c (ch_subs ch)) (pub_objs glob_match chn t) with
    | Some ch => [FMsg (ch_name ch) msg]
    | None => []
    end.
Proof. exact (publish_exact glob_match). Qed.

(** Once the queues are empty every connection has received all of it. *)
Theorem C18_deliver_complete : forall evs c,
  quiescent (fst (m_run glob_ok glob_match ps_init evs)) ->
  received (fst (m_run glob_ok glob_match ps_init evs)) c = emitted glob_ok glob_match ps_init evs c.
Proof. exact (received_all_when_quiescent glob_ok glob_match). Qed.

(** FIFO: for any selection of frames (the messages of one publisher on one channel, say), what a
    connection has received of them is a prefix, in publish order, of what was queued for it. *)
Theorem C18_fifo : forall (P : frame -> bool) evs c,
  prefix_of (filter P (received (fst (m_run glob_ok glob_match ps_init evs)) c))
            (filter P (emitted glob_ok glob_match ps_init evs c)).
Proof. exact (fifo glob_ok glob_match). Qed.

End C18.
Print Assumptions C18_deliver_exact.
Print Assumptions C18_publish_exactly_once_current_only.
Print Assumptions C18_deliver_complete.
Print Assumptions C18_fifo.

Local Open Scope string_scope.


(** The table.  Full statements (checked differentially against the extracted reference on every run, proved
    here only for the subscribe family):

      C18_table_refines : forall evs without EClose, the replies of [m_run ps_init evs] are those of
        [s_run sst_init evs], the frames queued for every connection are those the reference owes it, and
        [R] (same table: subs = abs table, ord = targets in creation order) holds at the end;
      C18_introspection : under [R m s], m_channels / m_numpat / m_numsub on [table m] = s_channels /
        s_numpat / s_numsub on [s].

    Proved: (P)SUBSCRIBE — for every argument list, from every well-formed table, the confirmations
    (with the running count = number of (connection, target) pairs of that connection in the set) and
    the resulting table are the reference's. *)
Theorem C18_table_refines_partial : forall p c names t S o,
  wf t -> S = abs t -> o = List.map tgt t ->
  let '(t', fs) := subscribe_loop p c names t in
  let '(s', fs') := s_subscribe p c names (MkS S o) in
  fs = fs' /\ wf t' /\ subs s' = abs t' /\ ord s' = List.map tgt t'.
Proof. exact subscribe_refines. Qed.
Print Assumptions C18_table_refines_partial.

(** With a connection that goes away the unguarded statement is false: the code leaves the table alone. *)
Theorem C18_close_refuted : exists evs,
  snd (m_run glob_ok_frag glob_match_frag ps_init evs) <>
  snd (fst (s_run glob_ok_frag glob_match_frag sst_init evs)).
Proof.
  exists [ESub false 1 ["a"]; EClose 1; ENumSub ["a"]]. vm_compute. intros H. discriminate H.
Qed.
Print Assumptions C18_close_refuted.

(** Non-vacuity: two connections, a channel and a pattern with the same text, a publish between a
    subscribe and an unsubscribe, deliveries delayed until the end. *)
Example C18_example :
  let evs := [ESub false 1 ["a*"; "a"]; ESub true 2 ["a*"]; ESub true 1 ["a*"];
              EPublish 0 "a" "m1"; EUnsub false 1 []; EPublish 0 "a" "m2"; EPublish 2 "a*" "m3";
              EWrite 1; EWrite 1; EWrite 1; EWrite 1; EWrite 1; EWrite 2; EWrite 2; EWrite 2; EWrite 2] in
  let m := fst (m_run glob_ok_frag glob_match_frag ps_init evs) in
  received m 1 = [FConfirm "subscribe" "a*" 1; FConfirm "subscribe" "a" 2; FConfirm "psubscribe" "a*" 3;
                  FMsg "a" "m1"; FMsg "a*" "m2"] /\
  outbox m 1 = [FMsg "a*" "m3"] /\
  received m 2 = [FConfirm "psubscribe" "a*" 1; FMsg "a*" "m1"; FMsg "a*" "m2"; FMsg "a*" "m3"].
Proof. vm_compute. repeat split. Qed.
