(** C18 — Pub/Sub: exactly-once, in-order delivery to current subscribers only.

    Model: Model/PubSub.v (the Go module after the C18 fixes: channel objects found by name *and*
    kind, one ordered queue and one writer goroutine per connection, recipients fixed when PUBLISH
    runs).  Reference: Spec/SpecPubSub.v.  [glob_ok] / [glob_match] are parameters throughout.
    First the delivery theorems (lists only), then the table: the model's list of channel objects
    refines the reference's [gset (conn * target)] for every command and every history
    ([C18_table_refines], [C18_introspection]; proofs in Proofs/PubSubProofs.v, Proofs/PubSubTable.v).
    A history is any list of events; [EWrite c] is one step of connection c's writer goroutine, so
    quantifying over histories quantifies over every schedule of the deliveries. *)
From Coq Require Import String List Bool Arith.
From EV Require Import Base.Str Model.Reply Model.PubSub Spec.SpecPubSub Proofs.PubSubDeliver Proofs.PubSubProofs
  Proofs.PubSubTable.
Import ListNotations.

Section C18.
Variable glob_ok : string -> bool.
Variable glob_match : string -> string -> bool.

(** Delivery, all interleavings.  After any history from the initial state, for every connection:
    what it has received followed by what is still queued for it is exactly the frames the
    commands of the history queued for it, in history order — nothing lost, nothing duplicated,
    nothing reordered, whatever the placement of the write steps. *)
Theorem C18_deliver_exact : forall evs c,
  received (fst (m_run glob_ok glob_match ps_init evs)) c ++
  outbox (fst (m_run glob_ok glob_match ps_init evs)) c
  = emitted glob_ok glob_match ps_init evs c.
Proof. exact (received_prefix glob_ok glob_match). Qed.

(** ... and the frames a PUBLISH queues: exactly one for a connection that is, at that moment, a
    subscriber of the channel or of a pattern matching it, none for any other connection. *)
Theorem C18_publish_exactly_once_current_only : forall chn msg t c,
  proj c (publish_pushes glob_match chn msg t) =
    match find (fun ch => mem c (ch_subs ch)) (pub_objs glob_match chn t) with
    | Some ch => [FMsg (ch_name ch) msg]
    | None => []
    end.
Proof. exact (publish_exact glob_match). Qed.

(** Once the queues are empty every connection has received all of it. *)
Theorem C18_deliver_complete : forall evs c,
  quiescent (fst (m_run glob_ok glob_match ps_init evs)) ->
  received (fst (m_run glob_ok glob_match ps_init evs)) c = emitted glob_ok glob_match ps_init evs c.
Proof. exact (received_all_when_quiescent glob_ok glob_match). Qed.

(** FIFO: for any selection of frames (the messages of one publisher on one channel, say), what a
    connection has received of them is a prefix, in publish order, of what was queued for it. *)
Theorem C18_fifo : forall (P : frame -> bool) evs c,
  prefix_of (filter P (received (fst (m_run glob_ok glob_match ps_init evs)) c))
            (filter P (emitted glob_ok glob_match ps_init evs c)).
Proof. exact (fifo glob_ok glob_match). Qed.

End C18.
Print Assumptions C18_deliver_exact.
Print Assumptions C18_publish_exactly_once_current_only.
Print Assumptions C18_deliver_complete.
Print Assumptions C18_fifo.

Local Open Scope string_scope.
Local Open Scope list_scope.

(** * The table: the model's list of channel objects implements the reference's set of
    (connection, target) pairs — every command, every history. *)
Section C18_table.
Variable glob_ok : string -> bool.
Variable glob_match : string -> string -> bool.

(** For every history of (P)SUBSCRIBE / (P)UNSUBSCRIBE / PUBLISH / PUBSUB CHANNELS, NUMPAT, NUMSUB
    commands and writer-goroutine steps (no connection goes away: see [C18_close_refuted]) from every
    pair of a well-formed model table and a reference state describing the same table ([R]: subs =
    abs table, ord = targets in creation order): the replies (UNSUBSCRIBE confirmations with their
    numbers, introspection answers, PUBLISH's reply) are the reference's, the frames queued for every
    connection (SUBSCRIBE confirmations with the running count, messages) are those the reference
    owes it, in the same order, and [R] holds again at the end. *)
Theorem C18_table_refines : forall evs m s,
  R m s -> forallb not_close evs = true ->
  let '(m', rs) := m_run glob_ok glob_match m evs in
  let '(s', rs', owed) := s_run glob_ok glob_match s evs in
  rs = rs' /\ (forall c, emitted glob_ok glob_match m evs c = owed c) /\ R m' s'.
Proof. exact (table_refines glob_ok glob_match). Qed.

(** From the empty table, with the delivery invariant: after every such history what a connection
    has received followed by what is still queued for it is what the reference owes it. *)
Theorem C18_table_refines_init : forall evs,
  forallb not_close evs = true ->
  let '(m', rs) := m_run glob_ok glob_match ps_init evs in
  let '(s', rs', owed) := s_run glob_ok glob_match sst_init evs in
  rs = rs' /\ (forall c, received m' c ++ outbox m' c = owed c) /\ R m' s'.
Proof. exact (table_refines_init glob_ok glob_match). Qed.

(** The per-command facts behind it, for every argument vector from every well-formed table. *)
Theorem C18_subscribe_refines : forall p c names t S o,
  wf t -> S = abs t -> o = List.map tgt t ->
  let '(t', fs) := subscribe_loop p c names t in
  let '(s', fs') := s_subscribe p c names (MkS S o) in
  fs = fs' /\ wf t' /\ subs s' = abs t' /\ ord s' = List.map tgt t'.
Proof. exact subscribe_refines. Qed.

(** (P)UNSUBSCRIBE, all argument vectors (none = all of that kind, names the connection is not
    subscribed to, duplicates): the reply and the table afterwards are the reference's. *)
Theorem C18_unsubscribe_refines : forall pat c names t S o,
  wf t -> S = abs t -> o = List.map tgt t ->
  unsub_reply pat (unsub_dropped pat c names t)
    = unsub_reply pat (List.map tname (s_unsub_dropped pat c names (MkS S o))) /\
  wf (unsub_table pat c names t) /\
  s_unsub_subs pat c names S = abs (unsub_table pat c names t) /\
  o = List.map tgt (unsub_table pat c names t).
Proof. exact unsub_refines. Qed.

(** ... the reference's table afterwards being: exactly the named (or all) subscriptions of that
    kind of that connection are gone, every other pair stays. *)
Theorem C18_unsubscribe_drops_exactly : forall pat c names S c' T,
  stdpp.base.elem_of (c', T) (s_unsub_subs pat c names S) <->
  stdpp.base.elem_of (c', T) S /\
  ~ (c' = c /\ is_pat T = pat /\ (names = [] \/ stdpp.base.elem_of (tname T) names)).
Proof. exact unsub_subs_spec. Qed.

(** PUBLISH against the reference: the model's search (the channel object of that name, then the
    matching pattern objects) selects exactly the connections the set-based [recipient] names ... *)
Theorem C18_recipients_refine : forall chn t c,
  recipient glob_match (abs t) chn c <->
  exists ch, find (fun ch => mem c (ch_subs ch)) (pub_objs glob_match chn t) = Some ch.
Proof. exact (recipients_refine glob_match). Qed.

(** ... so a PUBLISH queues exactly one message frame, under the name of one of its matching
    subscriptions, for every connection that is at that moment subscribed to the channel or to a
    pattern matching it, and nothing for any other connection (C18_publish_exactly_once_current_only
    restated over the set) ... *)
Theorem C18_publish_recipients : forall chn msg t c,
  (recipient glob_match (abs t) chn c ->
     exists T, stdpp.base.elem_of (c, T) (abs t) /\ tmatch glob_match chn T = true /\
               proj c (publish_pushes glob_match chn msg t) = [FMsg (tname T) msg]) /\
  (~ recipient glob_match (abs t) chn c -> proj c (publish_pushes glob_match chn msg t) = []).
Proof. exact (publish_recipients glob_match). Qed.

(** ... and it is the reference's frame. *)
Theorem C18_publish_refines : forall chn msg t c,
  wf t ->
  proj c (publish_pushes glob_match chn msg t) = s_publish_out glob_match (MkS (abs t) (List.map tgt t)) chn msg c.
Proof. exact (publish_refines glob_match). Qed.

(** PUBSUB CHANNELS [pattern] / NUMPAT / NUMSUB are the reference's functions of the set. *)
Theorem C18_introspection : forall m s,
  R m s ->
  (forall arg, m_channels glob_ok glob_match arg (table m) = s_channels glob_ok glob_match arg s) /\
  m_numpat (table m) = s_numpat s /\
  (forall names, m_numsub names (table m) = s_numsub names s).
Proof. exact (introspection_refines glob_ok glob_match). Qed.

End C18_table.
Print Assumptions C18_table_refines.
Print Assumptions C18_table_refines_init.
Print Assumptions C18_subscribe_refines.
Print Assumptions C18_unsubscribe_refines.
Print Assumptions C18_unsubscribe_drops_exactly.
Print Assumptions C18_recipients_refine.
Print Assumptions C18_publish_recipients.
Print Assumptions C18_publish_refines.
Print Assumptions C18_introspection.

(** NUMSUB counts subscriptions, not clients: the channel object and the pattern object of one name
    are added (pubsub.go NumSub; Test_HandleSubscribe pins that a pattern's subscribers are counted),
    so one connection holding both is counted twice — the documentation's "how many clients are
    subscribed to the channel" would say 1.  Adopted; the witness: *)
Example C18_numsub_counts_subscriptions :
  snd (m_run glob_ok_frag glob_match_frag ps_init [ESub false 1 ["a"]; ESub true 1 ["a"]; ENumSub ["a"]])
  = [REmpty; REmpty; RArr [RArr [RBulk "a"; RInt 2]]].
Proof. vm_compute. reflexivity. Qed.

(** Non-vacuity of the table theorems: the reference on a history with an UNSUBSCRIBE naming an unknown
    channel and one channel twice, a PUNSUBSCRIBE and an UNSUBSCRIBE without arguments, introspection
    in between, and two publishes (by [C18_table_refines_init] the model answers the same). *)
Example C18_table_example :
  let evs := [ESub false 1 ["a"; "b"]; ESub true 1 ["a"]; ESub false 2 ["b"];
              EUnsub false 1 ["zz"; "b"; "b"]; ENumSub ["a"; "b"]; EUnsub true 2 []; EUnsub false 1 [];
              EChannels None; ENumPat; EPublish 0 "b" "m"; EPublish 0 "a" "n"] in
  let '(_, rs, owed) := s_run glob_ok_frag glob_match_frag sst_init evs in
  rs = [REmpty; REmpty; REmpty;
        RArr [RArr [RSimple "unsubscribe"; RBulk "b"; RInt 1]];
        RArr [RArr [RBulk "a"; RInt 2]; RArr [RBulk "b"; RInt 1]];
        RArr [];
        RArr [RArr [RSimple "unsubscribe"; RBulk "a"; RInt 1]];
        RArr [RBulk "b"; RBulk "a"]; RInt 1; ROk; ROk] /\
  owed 1 = [FConfirm "subscribe" "a" 1; FConfirm "subscribe" "b" 2; FConfirm "psubscribe" "a" 3; FMsg "a" "n"] /\
  owed 2 = [FConfirm "subscribe" "b" 1; FMsg "b" "m"] /\
  snd (m_run glob_ok_frag glob_match_frag ps_init evs) = rs.
Proof. vm_compute. repeat split. Qed.

(** With a connection that goes away the unguarded statement is false: the code leaves the table alone. *)
Theorem C18_close_refuted : exists evs,
  snd (m_run glob_ok_frag glob_match_frag ps_init evs) <>
  snd (fst (s_run glob_ok_frag glob_match_frag sst_init evs)).
Proof.
  exists [ESub false 1 ["a"]; EClose 1; ENumSub ["a"]]. vm_compute. intros H. discriminate H.
Qed.
Print Assumptions C18_close_refuted.

(** Non-vacuity: two connections, a channel and a pattern with the same text, a publish between a
    subscribe and an unsubscribe, deliveries delayed until the end. *)
Example C18_example :
  let evs := [ESub false 1 ["a*"; "a"]; ESub true 2 ["a*"]; ESub true 1 ["a*"];
              EPublish 0 "a" "m1"; EUnsub false 1 []; EPublish 0 "a" "m2"; EPublish 2 "a*" "m3";
              EWrite 1; EWrite 1; EWrite 1; EWrite 1; EWrite 1; EWrite 2; EWrite 2; EWrite 2; EWrite 2] in
  let m := fst (m_run glob_ok_frag glob_match_frag ps_init evs) in
  received m 1 = [FConfirm "subscribe" "a*" 1; FConfirm "subscribe" "a" 2; FConfirm "psubscribe" "a*" 3;
                  FMsg "a" "m1"; FMsg "a*" "m2"] /\
  outbox m 1 = [FMsg "a*" "m3"] /\
  received m 2 = [FConfirm "psubscribe" "a*" 1; FMsg "a*" "m1"; FMsg "a*" "m2"; FMsg "a*" "m3"].
Proof. vm_compute. repeat split. Qed.
