(** C04 — Expiry: keys live exactly until their deadline, then are unobservable.

    Vocabulary.  [lentry s d k] is the entry a client can see at key [k] of database [d] in model
    state [s] (none when absent or when the deadline is strictly before the clock [st_now s]);
    [same_view] = equal [lentry] everywhere (+ clock and limits).  [SE.visible], [SE.purge],
    [SE.spec_key] are the reference ([Spec/SpecExpiry.v]); [abs_state] maps a model state to the
    reference keyspace.  [handler_of] is the handler table of every modelled module (list, hash, set,
    sorted set, generic, string).  A history ([hevent]) is any list of commands of any connection,
    clock advances, sampler passes (any database, any sample) and database selections.
    Hypotheses: [st_maxmem s = 0] (no memory limit: C08), [monotone] (the clock does not go back). *)
From stdpp Require Import gmap strings.
From EV Require Import Base.Str Model.Value Model.Keyspace Model.Reply Model.Prog Model.Dispatch Model.CmdGeneric.
From EV Require Import Model.Script Model.ScriptExpiry.
From EV Require Import Proofs.KeyspaceLemmas Proofs.ProgLemmas Proofs.ScriptLemmas Proofs.HandlerClasses.
From EV Require Import Proofs.ExpiryProofs Proofs.ExpiryCmds Proofs.ExpiryInherit Proofs.ExpiryRename.
From EV Require Spec.SpecExpiry.
From EV Require Import Model.GoDuration Proofs.GoDurationProofs.
Local Open Scope Z_scope.

(** ** The model's view is the reference's [visible]; [purge_state] is the reference's [purge]. *)
Theorem C04_view_is_reference_view : forall s d k,
  SE.visible (st_now s) (abs_state s) d k = abs_entry <$> lentry s d k.
Proof. exact visible_abs. Qed.
Print Assumptions C04_view_is_reference_view.

Theorem C04_purge_is_reference_purge : forall s,
  abs_state (purge_state s) = SE.purge (st_now s) (abs_state s) /\
  (forall d k, get_db (purge_state s) d !! k = lentry s d k) /\
  same_view s (purge_state s).
Proof. intros s. split; [apply abs_purge_state|]. split; [apply purge_state_lookup|apply purge_state_same_view]. Qed.
Print Assumptions C04_purge_is_reference_purge.

(** ** Unobservability as a factorisation: for every command of every module, every argument
    vector, every state and time: the reply, and the view afterwards, are the same whether the
    command runs on [s] or on [s] with every expired entry physically removed. *)
Theorem C04_transparent : forall name h argv d s,
  handler_of name = Some h -> st_maxmem s = 0 ->
  snd (run_seq d (h argv) s) = snd (run_seq d (h argv) (purge_state s)) /\
  same_view (fst (run_seq d (h argv) s)) (fst (run_seq d (h argv) (purge_state s))).
Proof.
  intros name h argv d s _ Hm. apply expiry_unobservable; [apply purge_state_same_view|done].
Qed.
Print Assumptions C04_transparent.

(** The same through the dispatcher (connection table included), for any two states with one view. *)
Theorem C04_transparent_dispatch : forall w1 w2 c argv,
  world_view w1 w2 -> st_maxmem (w_st w1) = 0 ->
  snd (exec_cmd w1 c argv) = snd (exec_cmd w2 c argv) /\
  world_view (fst (exec_cmd w1 c argv)) (fst (exec_cmd w2 c argv)).
Proof. intros w1 w2 c argv Hw Hm. destruct (exec_cmd_congr w1 w2 c argv Hw Hm) as (R & V & _). done. Qed.
Print Assumptions C04_transparent_dispatch.

(** "Whether or not background expiry has run": over whole histories, sampler passes may be inserted
    or removed anywhere — any number, any database, any sample — and the history may start from the
    purged state: same replies, same final view. *)
Theorem C04_transparent_histories : forall es es' w w',
  strip_sweeps es = strip_sweeps es' -> world_view w w' -> st_maxmem (w_st w) = 0 ->
  monotone es -> monotone es' ->
  snd (hrun w es) = snd (hrun w' es') /\ world_view (fst (hrun w es)) (fst (hrun w' es')).
Proof. exact hrun_sweeps_unobservable. Qed.
Print Assumptions C04_transparent_histories.

Corollary C04_transparent_histories_purged : forall es es' w,
  strip_sweeps es = strip_sweeps es' -> st_maxmem (w_st w) = 0 -> monotone es -> monotone es' ->
  snd (hrun w es) = snd (hrun (World (purge_state (w_st w)) (w_conns w)) es').
Proof.
  intros es es' w Hs Hm M1 M2.
  apply (hrun_sweeps_unobservable es es' w (World (purge_state (w_st w)) (w_conns w)) Hs); try done.
  split; [apply purge_state_same_view|done].
Qed.
Print Assumptions C04_transparent_histories_purged.

(** ** The sampler: a pass (any number of rounds over any samples of any database) removes only
    entries whose deadline is strictly before the clock; every other entry of every database is
    physically unchanged; nothing appears; and no client can tell. *)
Theorem C04_sweep_sound : forall rounds s d,
  (forall d' k e, get_db s d' !! k = Some e -> expired (st_now s) e = false ->
                  get_db (sampler_pass s d rounds) d' !! k = Some e) /\
  (forall d' k e, get_db (sampler_pass s d rounds) d' !! k = Some e -> get_db s d' !! k = Some e) /\
  (forall d' k e, get_db s d' !! k = Some e -> get_db (sampler_pass s d rounds) d' !! k = None ->
                  exists t, e_dl e = Some t /\ t < st_now s) /\
  same_view s (sampler_pass s d rounds).
Proof.
  intros rounds s d. destruct (sampler_pass_sound rounds s d) as (_ & K & A).
  split; [exact K|]. split; [exact A|]. split; [|apply sampler_pass_same_view].
  intros d' k e. apply sampler_pass_removes_only_expired.
Qed.
Print Assumptions C04_sweep_sound.

(** ** Served until the deadline.  An entry whose deadline has not passed ([now <= t], the code's
    strict [Before]) or that has none is visible; no read (reads are what trigger lazy expiry)
    removes or changes it; a clock advance that does not pass its deadline keeps it visible. *)
Theorem C04_served_until_deadline : forall s d k e,
  get_db s d !! k = Some e -> (forall t, e_dl e = Some t -> st_now s <= t) ->
  lentry s d k = Some e /\
  (forall {R} (p : prog R) d0, readonly p -> get_db (fst (run_seq d0 p s)) d !! k = Some e) /\
  (forall rounds d0, get_db (sampler_pass s d0 rounds) d !! k = Some e) /\
  (forall t', st_now s <= t' -> (forall t, e_dl e = Some t -> t' <= t) -> lentry (set_now s t') d k = Some e).
Proof.
  intros s d k e He Hd.
  assert (Hx : forall now, (forall t, e_dl e = Some t -> now <= t) -> expired now e = false).
  { intros now H. unfold expired. destruct (e_dl e) as [t|]; [|done]. specialize (H t eq_refl).
    destruct (t <? now) eqn:E; [|done]. apply Z.ltb_lt in E. by apply Z.lt_nge in E. }
  assert (Hl : lentry s d k = Some e) by (unfold lentry; by rewrite He, (Hx _ Hd)).
  split; [done|]. split; [|split].
  - intros R p d0 Hp. destruct (readonly_keeps_unexpired p Hp d0 s) as [_ K]. apply K; [done|by apply Hx].
  - intros rounds d0. destruct (sampler_pass_sound rounds s d0) as (_ & K & _). apply K; [done|by apply Hx].
  - intros t' Hle Hd'. rewrite lentry_set_now by done. rewrite Hl. by rewrite (Hx _ Hd').
Qed.
Print Assumptions C04_served_until_deadline.

(** … and from the moment the clock passes the deadline no client sees it, wherever it still sits. *)
Theorem C04_unobservable_after_deadline : forall s d k e t,
  get_db s d !! k = Some e -> e_dl e = Some t -> t < st_now s -> lentry s d k = None.
Proof.
  intros s d k e t He Ht Hl. unfold lentry, expired. rewrite He, Ht.
  destruct (t <? st_now s) eqn:E; [done|]. apply Z.ltb_ge in E. by apply Z.le_ngt in E.
Qed.
Print Assumptions C04_unobservable_after_deadline.

(** ** No inheritance.  For every command of every module other than the seven deadline words and RENAME (whose
    effect on deadlines is C04_rename_moves_deadline below): a key
    not visible before (never there, or deadline passed — whether or not the entry is still
    physically present) and visible after has no deadline; a key visible before and after has the
    deadline it had, or none (recreated). *)
Theorem C04_no_inherit : forall name h argv d s d' k e',
  handler_of name = Some h -> sets_deadline name = false -> st_maxmem s = 0 ->
  lentry s d' k = None -> lentry (fst (run_seq d (h argv) s)) d' k = Some e' -> e_dl e' = None.
Proof.
  intros name h argv d s d' k e' Hh Hn Hm. apply nosx_no_inherit; [by eapply nx_every_handler|done].
Qed.
Print Assumptions C04_no_inherit.

Theorem C04_deadline_only_set_by_deadline_cmds : forall name h argv d s d' k e0 e',
  handler_of name = Some h -> sets_deadline name = false -> st_maxmem s = 0 ->
  lentry s d' k = Some e0 -> lentry (fst (run_seq d (h argv) s)) d' k = Some e' ->
  e_dl e' = None \/ e_dl e' = e_dl e0.
Proof.
  intros name h argv d s d' k e0 e' Hh Hn Hm. apply nosx_keeps_deadline; [by eapply nx_every_handler|done].
Qed.
Print Assumptions C04_deadline_only_set_by_deadline_cmds.

(** RENAME (the eighth word that calls SetExpiry): the deadline travels with the value.  The new name
    gets exactly the entry (value and deadline, or absence of a deadline) the old name had — it does
    not keep a deadline the replaced key had — the old name is gone, and no other key of the database
    changes.  Corollary of the C01 refinement of RENAME to the reference map. *)
Theorem C04_rename_moves_deadline : forall old new s d e,
  st_maxmem s = 0 -> old <> new -> lentry s d old = Some e ->
  let s' := fst (run_seq d (handle_rename ["RENAME"; old; new]) s) in
  lentry s' d new = Some e /\ lentry s' d old = None /\
  forall k, k <> old -> k <> new -> lentry s' d k = lentry s d k.
Proof. exact rename_moves_deadline. Qed.
Print Assumptions C04_rename_moves_deadline.

(** For the deadline words themselves the reference says it: on a key that is not visible, the only
    command that creates an entry is SET, and its deadline is the one given in that very command. *)
Theorem C04_no_inherit_reference : forall sc now (c : SE.dcmd value) e r,
  SE.spec_key sc now None c = (Some e, r) ->
  exists v ex get t, c = SE.DSet v ex get t /\ SE.se_dl e = SE.deadline_of now <$> t.
Proof.
  intros sc now c e r H. destruct c as [t cnd| |u|u|v ex get t|o]; simpl in H; try discriminate.
  exists v, ex, get, t. split; [done|].
  destruct ex; simpl in H; try discriminate; rewrite ?andb_false_r in H; injection H as <- _; by destruct t.
Qed.
Print Assumptions C04_no_inherit_reference.

(** ** The deadline commands.  For every argument vector that parses as a command of the family:
    the model's reply is the reference's, the key's visible entry afterwards is the reference's, every
    other key of every database is untouched (the record [refines]); for every argument vector of
    the family that does not parse: an error, and nothing observable changes. *)
Theorem C04_deadline_cmds : forall argv k c h s d,
  st_maxmem s = 0 ->
  SE.parse_dcmd mkval argv = Some (k, c) ->
  handler_of (lower (arg argv 0)) = Some h ->
  let res := run_seq d (h argv) s in
  let ref := SE.spec_key scalar (st_now s) (abs_entry <$> lentry s d k) c in
  snd res = render (snd ref) /\
  (forall d' k', lentry (fst res) d' k' = if decide (d = d' /\ k = k') then vis (st_now s) (fst ref) else lentry s d' k') /\
  st_now (fst res) = st_now s.
Proof.
  intros argv k c h s d Hm Hp Hh. destruct (deadline_cmds_refine argv k c h s d Hm Hp Hh) as (R & L & N & _).
  done.
Qed.
Print Assumptions C04_deadline_cmds.

Lemma family_is_generic name h :
  SE.deadline_family name = true -> handler_of (lower name) = Some h -> generic_handler (lower name) = Some h.
Proof.
  intros Hf Hh. unfold SE.deadline_family in Hf. apply bool_decide_eq_true in Hf.
  repeat (apply elem_of_cons in Hf; destruct Hf as [Hf|Hf]; [rewrite Hf in *; injection Hh as <-; reflexivity|]).
  by apply elem_of_nil in Hf.
Qed.

Theorem C04_deadline_cmds_malformed : forall argv h s d,
  SE.deadline_family (arg argv 0) = true ->
  SE.parse_dcmd mkval argv = None ->
  handler_of (lower (arg argv 0)) = Some h ->
  snd (run_seq d (h argv) s) = RErr /\ same_view s (fst (run_seq d (h argv) s)).
Proof.
  intros argv h s d Hf Hp Hh. pose proof (deadline_cmds_malformed argv h s d Hf Hp Hh) as He.
  split; [done|]. apply err_before_write_pure; [|done].
  eapply eb_generic. by apply family_is_generic.
Qed.
Print Assumptions C04_deadline_cmds_malformed.

(** What TTL & co. report is the deadline last set: spelled out for a visible key with deadline [t]. *)
Corollary C04_ttl_reports_deadline : forall s d k e t,
  lentry s d k = Some e -> e_dl e = Some t ->
  snd (run_seq d (handle_ttl ["PTTL"; k]) s) = RInt (t - st_now s) /\
  snd (run_seq d (handle_ttl ["TTL"; k]) s) = RInt (t / 1000 - st_now s / 1000) /\
  snd (run_seq d (handle_expiretime ["PEXPIRETIME"; k]) s) = RInt t /\
  snd (run_seq d (handle_expiretime ["EXPIRETIME"; k]) s) = RInt (t / 1000).
Proof.
  intros s d k e t He Ht.
  pose proof (ttl_refines "PTTL" k SE.Msec s d eq_refl) as (R1 & _).
  pose proof (ttl_refines "TTL" k SE.Sec s d eq_refl) as (R2 & _).
  pose proof (expiretime_refines "PEXPIRETIME" k SE.Msec s d eq_refl) as (R3 & _).
  pose proof (expiretime_refines "EXPIRETIME" k SE.Sec s d eq_refl) as (R4 & _).
  unfold cur_of in *. rewrite He in *. simpl in R1, R2, R3, R4. rewrite Ht in *. done.
Qed.
Print Assumptions C04_ttl_reports_deadline.

(** ** The model's unbounded arithmetic is Go's [time.Duration] arithmetic on the range the tie is claimed for.
    [clock.Now().Add(time.Duration(n) * time.Second)] read in milliseconds is [now + n * 1000], and
    [... * time.Millisecond] is [now + n], for every clock (sub-millisecond part included) and every relative
    time whose product fits [int64] nanoseconds; one step beyond, the product wraps and a positive relative
    time yields a deadline in the past (finding KF-C04-duration-overflow: [EXPIRE k 9223372037]). *)
Theorem C04_go_duration_exact : forall now_ns n,
  (- max_rel_s <= n <= max_rel_s -> go_deadline_ms now_ns (go_duration ns_per_s n) = ms_of_ns now_ns + n * 1000) /\
  (- max_rel_ms <= n <= max_rel_ms -> go_deadline_ms now_ns (go_duration ns_per_ms n) = ms_of_ns now_ns + n).
Proof. intros now_ns n. split; intros Hn; [exact (go_deadline_s_exact now_ns n Hn) | exact (go_deadline_ms_exact now_ns n Hn)]. Qed.
Print Assumptions C04_go_duration_exact.

Theorem C04_duration_overflow_refuted : forall now_ns,
  go_deadline_ms now_ns (go_duration ns_per_s (max_rel_s + 1)) < ms_of_ns now_ns /\
  go_deadline_ms now_ns (go_duration ns_per_ms (max_rel_ms + 1)) < ms_of_ns now_ns.
Proof. intros now_ns. split; [exact (proj1 (go_deadline_s_overflow now_ns)) | exact (proj1 (go_deadline_ms_overflow now_ns))]. Qed.
Print Assumptions C04_duration_overflow_refuted.

Theorem C04_duration_range_is_int64 :
  max_rel_s * ns_per_s < two63 <= (max_rel_s + 1) * ns_per_s /\
  max_rel_ms * ns_per_ms < two63 <= (max_rel_ms + 1) * ns_per_ms.
Proof. exact max_rel_is_int64_limit. Qed.
Print Assumptions C04_duration_range_is_int64.

(** ** Non-vacuity *)
Definition h0 : list hevent :=
  [HCmd 0 ["SET"; "k"; "v"; "PX"; "10"]; HAdvance 10; HCmd 0 ["GET"; "k"]; HCmd 0 ["PTTL"; "k"];
   HAdvance 1; HCmd 0 ["GET"; "k"]; HCmd 0 ["PTTL"; "k"]; HCmd 0 ["TYPE"; "k"];
   HCmd 0 ["SET"; "k"; "w"; "XX"]; HCmd 0 ["HSET"; "k"; "f"; "x"]; HCmd 0 ["PTTL"; "k"]].
Definition h0_swept : list hevent :=
  [HCmd 0 ["SET"; "k"; "v"; "PX"; "10"]; HSweep 0 ["k"]; HAdvance 10; HSweep 0 ["k"]; HCmd 0 ["GET"; "k"]; HCmd 0 ["PTTL"; "k"];
   HAdvance 1; HSweep 0 ["k"; "zz"]; HCmd 0 ["GET"; "k"]; HCmd 0 ["PTTL"; "k"]; HCmd 0 ["TYPE"; "k"];
   HCmd 0 ["SET"; "k"; "w"; "XX"]; HSweep 1 ["k"]; HCmd 0 ["HSET"; "k"; "f"; "x"]; HCmd 0 ["PTTL"; "k"]].

(** At the deadline the key is served (TTL 0), one millisecond later it is gone for GET, PTTL, TYPE and
    SET XX; HSET creates a fresh hash without deadline; with and without sampler passes. *)
Example C04_example_replies :
  snd (hrun (init_world 1000) h0) =
  [ROk; RBulk "v"; RInt 0; RNil; RInt (-2); RErr; RErr; RInt 1; RInt (-1)] /\
  snd (hrun (init_world 1000) h0_swept) = snd (hrun (init_world 1000) h0).
Proof. vm_compute. done. Qed.

(** The lazy run still holds the expired entry physically when the clock has passed it; the swept run
    does not; the views agree. *)
Example C04_example_physical :
  let lazy := fst (hrun (init_world 1000) (firstn 5 h0)) in
  let swept := fst (hrun (init_world 1000) (firstn 8 h0_swept)) in
  (get_db (w_st lazy) 0 !! "k" <> None) /\ get_db (w_st swept) 0 !! "k" = None /\
  lentry (w_st lazy) 0 "k" = None /\ lentry (w_st swept) 0 "k" = None.
Proof. vm_compute. repeat split; done. Qed.

(** The reference on GT / LT at <, =, >, and SET keeping / replacing / not inheriting a deadline. *)
Example C04_example_reference :
  let e := Some (SE.SEntry (VScal (SStr "v")) (Some 2000)) in
  snd (SE.spec_key scalar 1000 e (SE.DExpire (SE.At SE.Msec 2000) SE.CGT)) = SE.SInt 0 /\
  snd (SE.spec_key scalar 1000 e (SE.DExpire (SE.At SE.Msec 2001) SE.CGT)) = SE.SInt 1 /\
  snd (SE.spec_key scalar 1000 e (SE.DExpire (SE.At SE.Msec 2000) SE.CLT)) = SE.SInt 0 /\
  snd (SE.spec_key scalar 1000 e (SE.DExpire (SE.In SE.Msec 999) SE.CLT)) = SE.SInt 1 /\
  fst (SE.spec_key scalar 1000 e (SE.DSet (VScal (SStr "w")) SE.ENone false None)) = Some (SE.SEntry (VScal (SStr "w")) (Some 2000)) /\
  fst (SE.spec_key scalar 1000 None (SE.DSet (VScal (SStr "w")) SE.ENone false None)) = Some (SE.SEntry (VScal (SStr "w")) None) /\
  snd (SE.spec_key scalar 1000 e (SE.DTtl SE.Sec)) = SE.SInt 1.
Proof. vm_compute. repeat split; done. Qed.
