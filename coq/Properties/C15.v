(** C15 — List commands implement a sequence. *)
From stdpp Require Import gmap strings.
From EV Require Import Base.Str Model.Value Model.Keyspace Model.Reply Model.Prog Model.CmdList Model.Dispatch.
From EV Require Import Spec.SpecList Proofs.KeyspaceLemmas Proofs.ListPure Proofs.ListProofs Proofs.DispatchLemmas.
Local Open Scope Z_scope.

(** For every finite sequence of argument vectors (any command word, any arity, any bytes), from
    every state of the keyspace (any pre-existing types, deadlines, databases) without a memory
    limit, the replies of the list handlers and the resulting lists of the selected database are
    those of the reference sequences. *)
Theorem C15_refines : forall cmds s d,
  st_maxmem s = 0 ->
  let '(s', rs) := run_list_cmds d cmds s in
  let '(m', rs') := spec_list_run (lview s d) cmds in
  rs = rs' /\ lview s' d = m' /\ st_maxmem s' = 0.
Proof. exact list_script_refines. Qed.
Print Assumptions C15_refines.

(** A list command that fails (wrong type, bad arity, bad integer, missing key where one is
    required) changes nothing a client can observe: no value, no deadline, in no database. *)
Theorem C15_error_changes_nothing : forall argv s d,
  st_maxmem s = 0 -> snd (exec_list d argv s) = RErr -> same_view s (fst (exec_list d argv s)).
Proof. exact list_error_changes_nothing. Qed.
Print Assumptions C15_error_changes_nothing.

(** Frame: other databases are untouched; in the selected one every entry is untouched, or is a
    list that kept its deadline, or has been removed. *)
Theorem C15_frame : forall argv s d,
  st_maxmem s = 0 -> list_frame s (fst (exec_list d argv s)) d.
Proof. exact list_step_frame. Qed.
Print Assumptions C15_frame.

(** The index arithmetic of LRANGE, for all integers and all lists. *)
Theorem C15_index_clamp : forall (l : list string) (s0 e0 : Z),
  (let s1 := if s0 <? 0 then zlen l + s0 else s0 in
   let s2 := if s1 <? 0 then 0 else s1 in
   let e1 := if e0 <? 0 then zlen l + e0 else e0 in
   let e2 := if zlen l - 1 <? e1 then zlen l - 1 else e1 in
   if (e2 <? s2) || (zlen l - 1 <? s2) then RArr [] else bulks (slice l s2 (e2 + 1)))
  = bulks (ref_range l s0 e0).
Proof. exact lrange_eq. Qed.
Print Assumptions C15_index_clamp.

(** The in-place loops of LREM remove exactly the requested matches. *)
Theorem C15_lrem_loops : forall (count : Z) (x : string) (l : list string),
  (if 0 <? count then lrem_fwd (length l) true x 0 (Z.abs count) l
   else if count <? 0 then lrem_bwd (length l) x (zlen l - 1) (Z.abs count) l
   else lrem_fwd (length l) false x 0 0 l) = ref_rem count x l.
Proof. exact lrem_eq. Qed.
Print Assumptions C15_lrem_loops.

(** The dispatcher runs exactly these handlers for the thirteen list command words. *)
Theorem C15_dispatch : forall w c argv h,
  argv = c :: tl argv -> list_handler (lower c) = Some h ->
  exec_cmd w 0 argv =
  (let '(s', r) := exec_list (conn_db w 0) argv (w_st w) in (World s' (w_conns w), r)).
Proof.
  intros w c argv h Hargv Hh.
  assert (Hho : handler_of (lower c) = Some h) by (rewrite handler_of_unfold, Hh; done).
  destruct argv as [|c0 rest]; [discriminate|]. injection Hargv as ->.
  rewrite (exec_cmd_runs_handler w 0 (c :: rest) c h eq_refl Hho). unfold exec_list. by rewrite Hh.
Qed.
Print Assumptions C15_dispatch.

(** Non-vacuity: a concrete non-trivial state and script meet the hypotheses, and the script does
    something (pushes, a trim, a removal from the tail, a rotation, a wrong-typed key). *)
Example C15_example :
  let s0 := fst (run_seq 0 (SetValues [("s"%string, VStr "v")] (fun _ => Ret tt)) (init_state 5)) in
  let cmds := [["RPUSH"; "a"; "x"; "y"; "x"; "z"]; ["LREM"; "a"; "-1"; "x"]; ["LMOVE"; "a"; "a"; "LEFT"; "RIGHT"];
               ["LTRIM"; "a"; "-2"; "9"]; ["LRANGE"; "a"; "0"; "-1"]; ["LLEN"; "s"]]%string in
  st_maxmem s0 = 0 /\
  snd (run_list_cmds 0 cmds s0) =
    [RInt 4; RInt 1; ROk; ROk; bulks ["z"; "x"]%string; RErr].
Proof. vm_compute. done. Qed.
