(** C05 — Commands are atomic: concurrent clients see a sequential order.

    Model: [Model/Conc.v].  A pool of threads; one step = one keyspace primitive of one thread (the
    store lock); commands and state copies (snapshot, REWRITEAOF preamble) take the command lock of
    [handleCommand] for their whole duration ([fixed_pool]); the expiry sampler does not.  Schedules are
    arbitrary lists of thread ids.  All statements are for pools of ANY number of threads, ANY programs
    over the keyspace primitives (hence every handler of [handler_of], any arguments), ANY initial
    state and ALL schedules.

    Outside these theorems (runtime facts, see INTEGRATION.md): Go-level data races on values shared by
    pointer between the store and a state copy that is being encoded, fatal runtime errors, the
    eviction passes of [updateKeysInCache] when a memory limit is set, cluster mode.  "Never crashes"
    is therefore only partly covered: what is proved is absence of deadlock and that no step of the
    model is undefined. *)
From stdpp Require Import gmap strings.
From EV Require Import Base.Str Model.Value Model.Keyspace Model.Reply Model.Prog Model.Dispatch Model.Conc.
From EV Require Import Proofs.KeyspaceLemmas Proofs.ConcLemmas Proofs.ConcSerial Proofs.ConcTheorems.
Local Open Scope Z_scope.

(** The discipline is a property of the model of the code, not an assumption: along every schedule,
    from every pool, the command lock is held by exactly the locking thread that is between two
    primitives — so all primitives of a command run inside one critical section. *)
Theorem C05_atomic_discipline : forall acts s0 sched,
  atomic_discipline (run_conc (init_pool acts s0) sched).
Proof. intros. apply run_conc_discipline, init_pool_discipline. Qed.
Print Assumptions C05_atomic_discipline.

(** Every schedule that completes is equivalent to the serial execution in the order the lock was
    acquired: same final store, same outcome (reply, or copied state) for every thread. *)
Theorem C05_serializable : forall (acts : gmap nat act) s0 sched,
  all_lock acts ->
  let P := run_conc (fixed_pool acts s0) sched in
  all_done P ->
  let perm := acq_order P in
  (base.NoDup perm /\ forall t, In t perm <-> is_Some (acts !! t)) /\
  p_store P = fst (run_serial acts perm s0) /\
  forall t, is_Some (acts !! t) -> is_Some (outcome_of P t) /\ outcome_of P t = snd (run_serial acts perm s0) !! t.
Proof. exact serializable_exact. Qed.
Print Assumptions C05_serializable.

(** The same for clients' commands as [handleCommand] dispatches them. *)
Definition cmd_acts (cmds : gmap nat (Z * list string)) : gmap nat act := (fun '(d, argv) => cmd_act d argv) <$> cmds.
Lemma cmd_acts_all_lock cmds : all_lock (cmd_acts cmds).
Proof.
  intros t a Ht. unfold cmd_acts in Ht. rewrite lookup_fmap in Ht. destruct (cmds !! t) as [[d argv]|]; [|discriminate].
  injection Ht as <-. done.
Qed.

Corollary C05_serializable_commands : forall (cmds : gmap nat (Z * list string)) s0 sched,
  let P := run_conc (fixed_pool (cmd_acts cmds) s0) sched in
  all_done P ->
  let perm := acq_order P in
  p_store P = fst (run_serial (cmd_acts cmds) perm s0) /\
  forall t, is_Some (cmds !! t) -> outcome_of P t = snd (run_serial (cmd_acts cmds) perm s0) !! t.
Proof.
  intros cmds s0 sched P Hd perm.
  destruct (serializable_exact (cmd_acts cmds) s0 sched) as (_ & H1 & H2); [apply cmd_acts_all_lock|exact Hd|].
  - split; [exact H1|]. intros t [x Hx]. apply H2. unfold cmd_acts. rewrite lookup_fmap, Hx. destruct x. eauto.
Qed.
Print Assumptions C05_serializable_commands.

(** With the expiry sampler running at arbitrary points (it does not take the command lock): same
    replies; the final store and the copied states show the same keyspace to every client.
    (Depends on functional extensionality through [ProgLemmas.run_seq_congruence].) *)
Theorem C05_serializable_with_expiry : forall (acts : gmap nat act) s0 sched,
  st_maxmem s0 = 0 ->
  let P := run_conc (fixed_pool acts s0) sched in
  all_done P ->
  let perm := acq_order P in
  let ser := run_serial acts perm s0 in
  (base.NoDup perm /\ forall t, In t perm <-> exists a, acts !! t = Some a /\ locks a = true) /\
  same_view (p_store P) (fst ser) /\
  forall t a, acts !! t = Some a -> locks a = true ->
    exists o o', outcome_of P t = Some o /\ snd ser !! t = Some o' /\ orel_view o o'.
Proof. exact serializable_view. Qed.
Print Assumptions C05_serializable_with_expiry.

(** From every reachable pool — whatever the threads lock — some thread can step, or all are done. *)
Theorem C05_no_deadlock : forall acts s0 sched,
  let P := run_conc (init_pool acts s0) sched in
  all_done P \/ exists t, is_Some (step_conc P t).
Proof. intros. apply no_deadlock, run_conc_discipline, init_pool_discipline. Qed.
Print Assumptions C05_no_deadlock.

(** A copy of the state taken by a concurrent thread (snapshot, preamble of a log rewrite) is the store
    at one instant between two commands. *)
Theorem C05_snapshot_consistent : forall (acts : gmap nat act) s0 sched t,
  all_lock acts -> acts !! t = Some ACopy ->
  let P := run_conc (fixed_pool acts s0) sched in
  all_done P ->
  exists pre post, acq_order P = pre ++ t :: post /\
    outcome_of P t = Some (OSnap (fst (run_serial acts pre s0))).
Proof. exact snapshot_consistent. Qed.
Print Assumptions C05_snapshot_consistent.

(** * Without the command lock (the code before the fix): refuted *)
Definition s5 : state := fst (set_values (init_state 1700000000000) 0 [("k", VScal (SInt 5))]).
Definition two_incr : gmap nat act := {[ 0%nat := cmd_act 0 ["INCR"; "k"]; 1%nat := cmd_act 0 ["INCR"; "k"] ]}.
Definition lost_update_sched : list nat := [0; 1; 0; 1; 0; 1; 0; 1]%nat.

Definition reply_of (P : pool) (t : nat) : option reply :=
  match outcome_of P t with Some (OReply r) => Some r | _ => None end.
Definition sreply_of (x : state * gmap nat outcome) (t : nat) : option reply :=
  match snd x !! t with Some (OReply r) => Some r | _ => None end.

(** Two INCRs of a key that holds 5, each primitive under the store lock only: both reply 6 and 6 is
    stored; in either serial order one of them replies 7. *)
Theorem C05_per_primitive_lock_refuted :
  exists (acts : gmap nat act) s0 sched,
    let P := run_conc (free_pool acts s0) sched in
    all_doneb P = true /\
    reply_of P 0%nat = Some (RInt 6) /\ reply_of P 1%nat = Some (RInt 6) /\
    forall perm, Permutation perm [0; 1]%nat ->
      sreply_of (run_serial acts perm s0) 0%nat = Some (RInt 7) \/
      sreply_of (run_serial acts perm s0) 1%nat = Some (RInt 7).
Proof.
  exists two_incr, s5, lost_update_sched. cbv zeta.
  split; [vm_compute; reflexivity|]. split; [vm_compute; reflexivity|]. split; [vm_compute; reflexivity|].
  intros perm Hp. apply Permutation_sym, Permutation_length_2_inv in Hp. destruct Hp as [-> | ->].
  - right. vm_compute. reflexivity.
  - left. vm_compute. reflexivity.
Qed.
Print Assumptions C05_per_primitive_lock_refuted.

(** The same schedule with the command lock: the second INCR cannot start before the first is over
    (its steps are not enabled until then and are skipped; three more steps let it finish). *)
Example C05_lock_orders_the_increments :
  let P := run_conc (fixed_pool two_incr s5) (lost_update_sched ++ [1; 1; 1]%nat) in
  all_doneb P = true /\ acq_order P = [0; 1]%nat /\
  reply_of P 0%nat = Some (RInt 6) /\ reply_of P 1%nat = Some (RInt 7).
Proof. cbv zeta. repeat split; vm_compute; reflexivity. Qed.

(** * Non-vacuity: a three-thread pool that meets the hypotheses *)
Definition three : gmap nat act :=
  cmd_acts {[ 0%nat := (0, ["INCR"; "k"]);
              1%nat := (0, ["LPUSH"; "l"; "a"; "b"]);
              2%nat := (0, ["MSET"; "k"; "10"; "m"; "x"]) ]}.
Definition three_sched : list nat := concat (replicate 8 [2; 0; 1]%nat).

Example C05_three_threads :
  all_lock three /\
  let P := run_conc (fixed_pool three s5) three_sched in
  all_doneb P = true /\ acq_order P = [2; 0; 1]%nat /\
  reply_of P 0%nat = Some (RInt 11) /\
  p_store P = fst (run_serial three [2; 0; 1]%nat s5).
Proof.
  split; [apply cmd_acts_all_lock|]. cbv zeta.
  assert (all_doneb (run_conc (fixed_pool three s5) three_sched) = true) as Hd by (vm_compute; reflexivity).
  assert (acq_order (run_conc (fixed_pool three s5) three_sched) = [2; 0; 1]%nat) as Ho by (vm_compute; reflexivity).
  split; [done|]. split; [done|]. split; [vm_compute; reflexivity|].
  pose proof (C05_serializable three s5 three_sched (cmd_acts_all_lock _)) as H. cbv zeta in H.
  destruct H as (_ & H & _); [by apply all_doneb_spec|]. rewrite Ho in H. exact H.
Qed.

(** A state copy and a sampler pass among commands: the hypotheses of the theorem with expiry are met. *)
Definition with_actors : gmap nat act :=
  {[ 0%nat := cmd_act 0 ["INCR"; "k"]; 1%nat := ACopy; 2%nat := ASweep 0 (fun l => l) ]}.
Example C05_with_actors :
  let P := run_conc (fixed_pool with_actors s5) (concat (replicate 8 [1; 0; 2]%nat)) in
  all_doneb P = true /\ st_maxmem s5 = 0.
Proof. cbv zeta. split; vm_compute; reflexivity. Qed.
