(** C19 — Reported memory usage is a function of the current dataset. *)
From stdpp Require Import gmap strings.
From EV Require Import Base.Str Model.Value Model.Keyspace Model.Reply Model.Prog Model.Dispatch Model.CmdSet.
From EV Require Import Proofs.KeyspaceLemmas Proofs.MemLemmas Proofs.ScriptLemmas.
Local Open Scope Z_scope.

(** [acct s] is the accounted size of the keys currently stored: the sum over all databases and keys of
    the per-type size formulas ([KeyData.GetMem], [Set.GetMem], [SortedSet.GetMem]) plus the key's own
    overhead.  [mem_inv s] says the reported figure equals it. *)

(** Every program over the keyspace primitives keeps the invariant: whatever handler, whatever
    arguments, whatever state it starts from (overwrites, growth of collections through SetValues,
    deletes, lazy expiry, flushes, renames). *)
Theorem C19_inv_every_program : forall {R} (p : prog R) d s, mem_inv s -> mem_inv (fst (run_seq d p s)).
Proof. intros R. exact (@mem_inv_run R). Qed.
Print Assumptions C19_inv_every_program.

(** Hence for every history of commands by any number of connections, starting from an empty server. *)
Theorem C19_inv_every_history : forall cmds now,
  mem_inv (w_st (fst (run_cmds (init_world now) cmds))).
Proof. intros cmds now. apply session_mem_inv. apply mem_inv_init. Qed.
Print Assumptions C19_inv_every_history.

(** Background expiry keeps it too. *)
Theorem C19_inv_sweep : forall s d k, mem_inv s -> mem_inv (ProgLemmas.sweep_key s d k).
Proof.
  intros s d k H. unfold ProgLemmas.sweep_key. destruct (get_db s d !! k) as [e|]; [|done].
  destruct (expired _ e); [by apply delete_key_mem|done].
Qed.
Print Assumptions C19_inv_sweep.

(** The figure depends on the dataset only, not on the history that produced it; it is zero for an
    empty dataset. *)
Theorem C19_history_independent : forall s1 s2,
  mem_inv s1 -> mem_inv s2 -> st_dbs s1 = st_dbs s2 -> st_mem s1 = st_mem s2.
Proof. exact mem_history_independent. Qed.
Print Assumptions C19_history_independent.

Theorem C19_empty_is_zero : forall s,
  mem_inv s -> (forall d db, st_dbs s !! d = Some db -> db = ∅) -> st_mem s = 0.
Proof. exact mem_empty_zero. Qed.
Print Assumptions C19_empty_is_zero.

(** Recorded finding.  The Go handlers that change a stored set or sorted set *through the pointer*
    (SADD / SREM / SPOP / SMOVE on an existing set; ZADD / ZINCRBY / ZREM / ZPOP… / ZMPOP / ZREMRANGEBY… on an
    existing sorted set) never call SetValues, so the figure does not move while the dataset does.
    [mutate_in_place] is that effect; it breaks the invariant: *)
Definition mutate_in_place (s : state) (d : Z) (k : string) (v : value) : state :=
  match get_db s d !! k with
  | Some e => State (<[d := <[k := Entry v (e_dl e)]> (get_db s d)]> (st_dbs s)) (st_vol s) (st_mem s) (st_now s)
                    (st_maxmem s) (st_noevict s) (st_changes s)
  | None => s
  end.

Theorem C19_in_place_mutation_refuted :
  exists s d k v, mem_inv s /\ ~ mem_inv (mutate_in_place s d k v).
Proof.
  exists (fst (set_values (init_state 5) 0 [("k"%string, VSet {["a"%string]})])), 0, "k"%string,
         (VSet {["a"%string; "bb"%string]}).
  split.
  - apply set_values_mem. apply mem_inv_init.
  - vm_compute. discriminate.
Qed.
Print Assumptions C19_in_place_mutation_refuted.

(** Non-vacuity: a session with overwrites, a list, a flush and a rename ends with the figure of its
    final dataset. *)
Example C19_example :
  let w := fst (run_cmds (init_world 5)
     [(0, ["SET"; "a"; "hello"]); (0, ["SET"; "a"; "x"]); (1, ["RPUSH"; "l"; "p"; "q"]); (1, ["LPOP"; "l"]);
      (0, ["RENAME"; "a"; "b"]); (0, ["DEL"; "l"])]%string) in
  st_mem (w_st w) = acct (w_st w) /\ st_mem (w_st w) = 58.
Proof. vm_compute. done. Qed.
