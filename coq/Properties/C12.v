(** C12 — Wire protocol: one well-formed reply per command, no crash on any input.

    What is proved here is about the model ([Model/RespWire.v]): the reader of requests, the connection
    loop as it is after fixes/01..05, the reply encoder, the API's reply parsers.  "The server process stays
    up on arbitrary bytes" is a fact about the Go runtime (panics, allocation): it is explored by the
    generator of checks/C12.py with a liveness probe after every case, not excluded by a theorem; the
    theorems cover totality of the model ([C12_decode_total]: every input is classified, the model never
    gets stuck) and framing. *)
From stdpp Require Import gmap strings.
From EV Require Import Base.Str Model.Value Model.Keyspace Model.Reply Model.Prog Model.Dispatch Model.RespWire.
From EV Require Import Model.CmdList Model.CmdString Model.CmdHash Model.CmdSet Model.CmdZSet Model.CmdGeneric.
From EV Require Model.CmdZRand Model.CmdKeyspace.
From EV Require Import Proofs.RespWireProofs Proofs.WireProofs Proofs.WireReplies Proofs.WireRepliesAll.
Local Open Scope Z_scope.

(** The reader gives back exactly the value that was marshalled and the bytes that follow it — values of any
    size and depth for the RESP grammar ([lim = false]), within 512 MiB / 2^20 for the server's reader. *)
Theorem C12_encode_decode : forall lim v rest,
  wf lim v = true -> decode_g lim (encode v +:+ rest) = DOk v rest.
Proof. exact encode_decode. Qed.
Print Assumptions C12_encode_decode.

(** Every byte string is classified (incomplete / malformed / value + rest) and more fuel never changes the
    verdict: inputs of unbounded size and nesting are handled, [DIncomplete] never means "gave up". *)
Theorem C12_decode_total : forall lim s fuel,
  (String.length s < fuel)%nat -> decode_f lim fuel false s = decode_g lim s.
Proof. exact decode_total. Qed.
Print Assumptions C12_decode_total.

(** A verdict on a prefix of the stream is final: later bytes neither change a decoded value nor rescue a
    malformed frame (this is what makes waiting for more bytes on [DIncomplete] sound). *)
Theorem C12_decode_prefix_stable : forall lim s q,
  match decode_g lim s with
  | DOk v r => decode_g lim (s +:+ q) = DOk v (r +:+ q)
  | DMalformed => decode_g lim (s +:+ q) = DMalformed
  | DIncomplete => True
  end.
Proof. exact decode_mono. Qed.
Print Assumptions C12_decode_prefix_stable.

(** A reply without raw bytes whose simple strings contain no CR / LF is exactly one well-formed RESP value for
    a strict parser, also when other replies follow it (pipelining); bulk strings carry any bytes (CR, LF, NUL,
    none) at any length, arrays nest to any depth. *)
Theorem C12_reply_frame : forall r rest,
  reply_ok r = true -> decode_strict (reply_bytes r +:+ rest) = DOk (reply_value r) rest.
Proof. exact reply_frame. Qed.
Print Assumptions C12_reply_frame.

(** Every reply the server can give is exactly one well-formed frame: for every world [w] (any keyspace, any
    clock, any connection table), connection [c], argument vector [argv] (any command word — one of the 97
    words of [handler_of], a connection command, or unknown —, any arity, any argument bytes) and whatever
    bytes [rest] follow on the wire, a strict RESP parser reads the reply as exactly the value [reply_value r]
    (so a bulk string carries the stored bytes intact: CR, LF, NUL, none) and leaves [rest] untouched.
    No hypothesis: [typed_leaves] is proved for every handler of every module (next theorem). *)
Theorem C12_reply_wellformed : forall w c argv rest,
  let r := reply_of (snd (wire_exec w c argv)) in
  decode_strict (reply_bytes r +:+ rest) = DOk (reply_value r) rest.
Proof. exact reply_wellformed. Qed.
Print Assumptions C12_reply_wellformed.

(** What discharges the hypothesis of the former [_partial] statement: every [Ret] leaf of every handler of
    [handler_of], under all arguments of all continuations (hence from every state, in every database), is a
    reply built from the typed constructors whose simple strings contain no CR / LF. *)
Theorem C12_handlers_typed_leaves : forall name h argv,
  handler_of name = Some h -> typed_leaves (h argv).
Proof. exact handler_typed_leaves. Qed.
Print Assumptions C12_handlers_typed_leaves.

(** The same for a handler run directly (embedded API, AOF / raft replay), from every state [s] in every
    database [d], and for EVERY selection function [pick] / [zpick] standing for the random draw of SPOP /
    SRANDMEMBER / ZRANDMEMBER and every random source [cands] of RANDOMKEY. *)
Theorem C12_reply_wellformed_handlers : forall pick zpick cands name h argv d s rest,
  first_some [list_handler name; hash_handler name; set_handler pick name; zset_handler name;
              generic_handler name; string_handler name;
              CmdZRand.zrand_handler zpick name; CmdKeyspace.keyspace_handler cands name] = Some h ->
  let r := snd (run_seq d (h argv) s) in
  decode_strict (reply_bytes r +:+ rest) = DOk (reply_value r) rest.
Proof. exact handler_reply_wellformed. Qed.
Print Assumptions C12_reply_wellformed_handlers.

(** Floats as Go prints them.  The model renders [RFloat f] as a bulk string of its canonical text; the Go
    handlers send [strconv.FormatFloat(f, 'f', -1, 64)], some as [+text] (ZSCORE, ZINCRBY, ZADD INCR,
    HINCRBYFLOAT), some as [$len text].  For ANY text function [ftext] and ANY choice [fsimple] of simple / bulk
    per float, the statement holds under the single assumption that the text is a line (no CR, no LF) —
    FormatFloat's alphabet is [0-9 + - . e I n f N a].  It is a hypothesis of this theorem, not an axiom. *)
Theorem C12_reply_wellformed_float_text : forall (ftext : fl -> string) (fsimple : fl -> bool),
  (forall f, no_crlf (ftext f) = true) ->
  forall w c argv rest,
  let r := reply_of (snd (wire_exec w c argv)) in
  decode_strict (reply_bytes_ft ftext fsimple r +:+ rest) = DOk (reply_value_ft ftext fsimple r) rest.
Proof. exact reply_wellformed_ft. Qed.
Print Assumptions C12_reply_wellformed_float_text.

Theorem C12_reply_wellformed_list_string : forall name h argv d s rest,
  list_handler name = Some h \/ string_handler name = Some h ->
  let r := snd (run_seq d (h argv) s) in
  decode_strict (reply_bytes r +:+ rest) = DOk (reply_value r) rest.
Proof. exact list_string_replies_wellformed. Qed.
Print Assumptions C12_reply_wellformed_list_string.

Theorem C12_reply_wellformed_conn : forall w c argv rest,
  handler_of (lower (arg argv 0)) = None ->
  let r := reply_of (snd (wire_exec w c argv)) in
  decode_strict (reply_bytes r +:+ rest) = DOk (reply_value r) rest.
Proof. exact conn_replies_wellformed. Qed.
Print Assumptions C12_reply_wellformed_conn.

Theorem C12_bulk_bytes_intact : forall s rest,
  decode_strict (reply_bytes (RBulk s) +:+ rest) = DOk (WBulk s) rest.
Proof. exact bulk_bytes_intact. Qed.
Print Assumptions C12_bulk_bytes_intact.

(** Full statement of the framing property: for every world, every connection, every sequence of well-formed
    commands (any command word — known or not —, any arity up to 2^20, any argument bytes up to 512 MiB) and
    every segmentation of their byte stream into reads, the bytes written to the connection are exactly
    the concatenation of one reply per command, in order (up to the first QUIT, which is acknowledged and
    closes the connection). *)
Theorem C12_one_reply_per_command : forall w c cmds reads,
  Forall (fun a => cmd_ok a = true) cmds -> scat reads = encode_cmds cmds ->
  scat (serve w c reads) = scat (replies_of w c cmds).
Proof. exact one_reply_per_command. Qed.
Print Assumptions C12_one_reply_per_command.

(** Stronger on the segmentation side: for *any* bytes (truncated, corrupted, inline, anything), the list of
    writes depends on the byte stream only, not on how it was cut into reads. *)
Theorem C12_segmentation_irrelevant : forall w c reads1 reads2,
  scat reads1 = scat reads2 -> serve w c reads1 = serve w c reads2.
Proof. exact WireProofs.C12_segmentation_irrelevant. Qed.
Print Assumptions C12_segmentation_irrelevant.

(** Writing a reply in pieces of 1024 bytes loses and adds nothing (the loop bound [len-1-start < 1024]
    only makes the last piece up to 1024 bytes long). *)
Theorem C12_chunking_exact : forall res, scat (writes_of res) = res.
Proof. exact writes_of_cat. Qed.
Print Assumptions C12_chunking_exact.

(** The embedded API parses the handler's bytes with the same reader: for every reply within the reader's
    limits its result is what a wire client decodes from the same bytes. *)
Theorem C12_embedded_equals_wire : forall r,
  reply_small r = true ->
  parse_string_response (reply_bytes r) = ApiOk (wire_string r) /\
  parse_integer_response (reply_bytes r) = ApiOk (wire_int r) /\
  parse_boolean_response (reply_bytes r) = ApiOk (negb (wire_int r =? 0)) /\
  parse_string_array_response (reply_bytes r) = ApiOk (wire_strings r) /\
  parse_integer_array_response (reply_bytes r) = ApiOk (wire_ints r).
Proof. exact embedded_equals_wire. Qed.
Print Assumptions C12_embedded_equals_wire.

(** * The loop as it was (one read = one message = one command): the statement is false for it *)
Definition w0 := init_world 0.
Definition ping := encode_cmd ["PING"].
Definition echo_x := encode_cmd ["ECHO"; "x"].

(** Two pipelined commands in one write: one reply. *)
Theorem C12_old_loop_pipelining_refuted :
  exists w c cmds reads,
    Forall (fun a => cmd_ok a = true) cmds /\ scat reads = encode_cmds cmds /\
    scat (serve_old w c reads) <> scat (replies_of w c cmds).
Proof.
  exists w0, 1, [["PING"]; ["ECHO"; "x"]], [ping +:+ echo_x].
  split; [repeat constructor|]. split; [reflexivity|]. vm_compute. discriminate.
Qed.

(** One command split across two writes: two error replies (the second for a command word made of the
    tail of the frame). *)
Theorem C12_old_loop_split_refuted :
  exists w c cmds reads,
    Forall (fun a => cmd_ok a = true) cmds /\ scat reads = encode_cmds cmds /\
    scat (serve_old w c reads) <> scat (replies_of w c cmds).
Proof.
  exists w0, 1, [["ECHO"; "x"]], ["*2" +:+ CRLF +:+ "$4" +:+ CRLF +:+ "EC"; "HO" +:+ CRLF +:+ "$1" +:+ CRLF +:+ "x" +:+ CRLF].
  split; [repeat constructor|]. split; [reflexivity|]. vm_compute. discriminate.
Qed.

(** Non-vacuity: three commands, pipelined and cut in the middle of a frame, are answered one by one. *)
Example C12_example :
  serve w0 1 [ping +:+ "*2" +:+ CRLF +:+ "$4" +:+ CRLF +:+ "EC"; "HO" +:+ CRLF +:+ "$1" +:+ CRLF +:+ "x" +:+ CRLF +:+ ping]
  = ["+PONG" +:+ CRLF; "$1" +:+ CRLF +:+ "x" +:+ CRLF; "+PONG" +:+ CRLF].
Proof. vm_compute. reflexivity. Qed.

(** Non-vacuity of [C12_reply_wellformed]: a value with CR LF inside, stored and read back, is one bulk frame. *)
Example C12_wellformed_example :
  let w1 := fst (wire_exec w0 1 ["SET"; "k"; "a" +:+ CRLF +:+ "+b"]) in
  reply_bytes (reply_of (snd (wire_exec w1 1 ["GET"; "k"]))) = "$5" +:+ CRLF +:+ "a" +:+ CRLF +:+ "+b" +:+ CRLF.
Proof. vm_compute. reflexivity. Qed.
