(** C10 - Snapshots are crash-atomic: a crash never loses the last good one.

    Model: Model/SnapFs.v (file system, crash images incl. torn writes), Model/Snapshot.v
    ([take_snapshot_plan]: the operations of TakeSnapshot in the order of the code; [restore]).
    Assumptions (all explicit): the file-system assumptions at the head of Model/SnapFs.v; [codec_ok]
    (base64 / strconv round trips); [st_now s <> 0] (the code itself treats a manifest naming
    millisecond 0 as "no snapshot"). *)
From stdpp Require Import gmap strings.
From EV Require Import Base.Str Model.Value Model.Keyspace Model.SnapCodec Model.SnapFs Model.Snapshot Model.SnapServer.
From EV Require Import Proofs.SnapCodecProofs Proofs.SnapProofs Proofs.SnapRoundTrip.
Local Open Scope Z_scope.

Section C10.
Variable c : codec.
Hypothesis Hc : codec_ok c.
Context {H : Type} `{EqDecision H}.
Variable hash : snapobj -> H.
Notation sfs := (sfs (H:=H)).

(** The dataset a fresh instance loads from the complete new snapshot of state [s]. *)
Definition new_restored (s s0 : state) : option (state * Z) :=
  Some (load_state (filter_expired (st_now s0) (filter_expired (st_now s) (st_dbs s))) s0, st_now s).

(** For every crash point between the file-system operations of a snapshot and every torn write, from
    every directory content [x] (any number of earlier snapshots, leftovers of earlier crashes), every
    dataset [s]: a restore of the image yields what a restore yielded before the attempt, or the
    complete new snapshot - in particular never an error when there was none before. *)
Theorem C10_crash_atomic (x y : sfs) s ls s0 :
  st_now s <> 0 ->
  crash_image x (p_ops (take_snapshot_plan c hash x s ls)) y ->
  restore c y s0 = restore c x s0 \/ restore c y s0 = new_restored s s0.
Proof.
  intros Hnow Hci. destruct (plan_crash_atomic c hash x s ls y Hnow Hci) as [Hr|[_ Hr]].
  - left. unfold restore. by rewrite Hr.
  - right. by apply restore_of_object.
Qed.

Theorem C10_startup_never_fails (x y : sfs) s ls s0 :
  st_now s <> 0 ->
  crash_image x (p_ops (take_snapshot_plan c hash x s ls)) y ->
  is_Some (restore c x s0) -> is_Some (restore c y s0).
Proof.
  intros Hnow Hci Hx. destruct (C10_crash_atomic x y s ls s0 Hnow Hci) as [->| ->]; [done|].
  by eexists.
Qed.

(** The list the runner enumerates is exactly the set of crash images. *)
Theorem C10_images_complete (x y : sfs) ops : y ∈ crash_images x ops <-> crash_image x ops y.
Proof. apply crash_images_spec. Qed.

(** An attempt that finds nothing new (or cannot read the manifest) writes no file, creates no
    snapshot directory, and leaves the last-save time and the change counter alone. *)
Theorem C10_nochange_untouched (x x' : sfs) s ls s' ls' r :
  p_res (take_snapshot_plan c hash x s ls) <> SnapOk ->
  take_snapshot c hash x s ls None = (x', s', ls', r) ->
  f_files x' = f_files x /\ f_dirs x' = f_dirs x /\ ls' = ls /\ s' = s /\ r <> SnapOk /\
  forall s0, restore c x' s0 = restore c x s0.
Proof.
  intros Hne Ht. destruct (plan_not_ok_untouched c hash x s ls Hne) as [Hf Hd].
  unfold take_snapshot, run_plan in Ht.
  destruct (p_res (take_snapshot_plan c hash x s ls)) eqn:Hres; [done| |];
    injection Ht as <- <- <- <-; repeat split; auto; try discriminate;
    intros s0; unfold restore; f_equal; (rewrite (restore_read_same x); [done|]); split; simpl; by rewrite ?Hf.
Qed.

(** An attempt that fails at operation [k] leaves the last-save time alone, and leaves what a restore
    yields alone provided the failure comes before the state file is renamed into place (k <= 6) or
    the previous snapshot was taken in another millisecond. *)
Theorem C10_failed_attempt_untouched (x : sfs) s ls k :
  st_now s <> 0 ->
  (k < length (p_ops (take_snapshot_plan c hash x s ls)))%nat ->
  (k <= 6)%nat \/ (forall m, read_manifest x = MOk m -> m_msec m <> st_now s) ->
  let '(x', s', ls', r) := take_snapshot c hash x s ls (Some k) in
  r = SnapFail /\ ls' = ls /\ s' = s /\ forall s0, restore c x' s0 = restore c x s0.
Proof.
  intros Hnow Hk Hcase.
  pose proof (failed_attempt_read c hash x s ls k Hnow Hk Hcase) as Hr.
  unfold take_snapshot, run_plan in *. apply Nat.ltb_lt in Hk. rewrite Hk in *. simpl in *.
  repeat split; auto. intros s0. unfold restore. by rewrite Hr.
Qed.

End C10.

(** * Witnesses on concrete data (the runner's codec, hash = content) *)
Definition wst (v : string) (now : Z) : state :=
  (set_values (init_state now) 0 [("k", VStr v)]).1.
Definition wtake (x : sfs (H:=snapobj)) (s : state) (ls : Z) (fail : option nat) :=
  take_snapshot run_codec (fun o => o) x s ls fail.
Definition wfs1 : sfs (H:=snapobj) := (wtake fs_empty (wst "old" 5) 0 None).1.1.1.
Definition shows (r : option (state * Z)) : option (string * Z) :=
  match r with Some (s, ls) => Some (show_state s, ls) | None => None end.

(** Non-vacuity: a snapshot, a second one at a later time, and a crash image of the second in which the
    state file is in place but the manifest still names the first: the restore yields the first. *)
Example C10_example_previous_survives :
  let x2ops := p_ops (take_snapshot_plan run_codec (fun o => o) wfs1 (wst "new" 9) 5) in
  List.length x2ops = 12%nat /\
  shows (restore run_codec (apply_ops wfs1 (take 9 x2ops)) (init_state 9)) = Some ("mem=60 db0{6b=s6f6c64@0}v[]"%string, 5) /\
  shows (restore run_codec (apply_ops wfs1 x2ops) (init_state 9)) = Some ("mem=60 db0{6b=s6e6577@0}v[]"%string, 9).
Proof. vm_compute. done. Qed.

(** The order of operations before the fix refutes the property: with the manifest rewritten first, the
    image after "create manifest" restores nothing although a snapshot existed. *)
Theorem C10_legacy_order_refuted :
  exists (x : sfs (H:=snapobj)) (s : state) (k : nat),
    let ops := OMkRoot :: legacy_publish_ops (fun o => o) (st_now s) (snapshot_object run_codec s (st_now s)) in
    is_Some (restore run_codec x (init_state (st_now s))) /\
    restore run_codec (apply_ops x (take k ops)) (init_state (st_now s)) = None.
Proof. exists wfs1, (wst "new" 9), 2%nat. split; [by eexists|]. vm_compute. done. Qed.

(** ... and so does the window in which the manifest names a snapshot whose state file does not exist yet. *)
Theorem C10_legacy_manifest_first_refuted :
  exists (x : sfs (H:=snapobj)) (s : state) (k : nat),
    let ops := OMkRoot :: legacy_publish_ops (fun o => o) (st_now s) (snapshot_object run_codec s (st_now s)) in
    is_Some (restore run_codec x (init_state (st_now s))) /\
    restore run_codec (apply_ops x (take k ops)) (init_state (st_now s)) = None.
Proof. exists wfs1, (wst "new" 9), 6%nat. split; [by eexists|]. vm_compute. done. Qed.

(** Known finding (C10-same-ms): two snapshots in one millisecond share a directory; if the second
    attempt fails after its state file is in place, a restore yields the second dataset although the
    attempt failed and LASTSAVE did not move.  (The suite pins that snapshots in the same millisecond
    are allowed, so the code cannot refuse them.) *)
Theorem C10_failed_same_ms_refuted :
  exists (x : sfs (H:=snapobj)) (s : state) (ls : Z) (k : nat),
    let '(x', _, ls', r) := wtake x s ls (Some k) in
    r = SnapFail /\ ls' = ls /\
    shows (restore run_codec x' (init_state 5)) <> shows (restore run_codec x (init_state 5)).
Proof. exists wfs1, (wst "new" 5), 5, 7%nat. vm_compute. repeat split; done. Qed.

Print Assumptions C10_crash_atomic.
Print Assumptions C10_startup_never_fails.
Print Assumptions C10_images_complete.
Print Assumptions C10_nochange_untouched.
Print Assumptions C10_failed_attempt_untouched.
Print Assumptions C10_legacy_order_refuted.
Print Assumptions C10_legacy_manifest_first_refuted.
Print Assumptions C10_failed_same_ms_refuted.
