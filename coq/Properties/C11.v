(** C11 — Authentication and user lifecycle follow the stored credentials.
    Statements only; proofs are in [Proofs/AuthProofs.v]. *)
From stdpp Require Import gmap strings.
From RecordUpdate Require Import RecordSet.
Import RecordSetNotations.
From EV Require Import Base.Str Model.Reply Model.TableTypes Model.Acl Model.AclWorld Spec.SpecAcl.
From EV Require Import Proofs.AclProofs Proofs.AuthProofs Proofs.AclNormal.
Local Open Scope string_scope.

(** AUTH user password (and HELLO ... AUTH user password, which calls the same function with the
    same vector) succeeds exactly when the named user exists, is enabled, and is password-less or
    holds the password in plain text or its SHA-256 digest; AUTH password is the same for "default". *)
Theorem C11_auth_iff :
  forall sha256 a c w name pw,
    ((exists a', authenticate sha256 a c [w; name; pw] = Some a') <-> auth_ok sha256 a name pw)
    /\ ((exists a', authenticate sha256 a c [w; pw] = Some a') <-> auth_ok sha256 a "default" pw).
Proof. intros sha256 a c w name pw. split; [exact (auth_iff (fun _ _ => true) sha256 a c w name pw) | exact (auth_default_iff (fun _ _ => true) sha256 a c w pw)]. Qed.

(** success only binds the connection, authenticated, to that user's record (which is in the table) *)
Theorem C11_auth_effect :
  forall sha256 a c cmd a', authenticate sha256 a c cmd = Some a' ->
    exists p, a' = bind_conn a c p /\ In p (a_users a).
Proof. exact auth_effect. Qed.

(** a failed AUTH / HELLO leaves identity, privileges and everything else as they were *)
Theorem C11_failed_auth_frame :
  forall sha256 aw c p s argv aw',
    cr_name p = "auth" \/ cr_name p = "hello" ->
    conn_acl_handler sha256 aw c p s argv = Some (aw', RErr) -> aw' = aw.
Proof. exact failed_auth_frame. Qed.

(** a new connection is the default user, authenticated iff that user needs no password *)
Theorem C11_new_conn :
  forall a c p, find_user a "default" = Some p ->
    a_conns (register_conn a c) !! c = Some (ConnRec (u_nopass (deref a p)) p)
    /\ a_users (register_conn a c) = a_users a /\ a_heap (register_conn a c) = a_heap a.
Proof. exact new_conn. Qed.

(** Edits govern every later decision.  [auth_live] (every authenticated connection holds a record of
    the table) holds initially and is kept by every operation; under it, whoever passes the gate for a
    non-handshake command is at that moment in the table, enabled, and judged by that record's current
    rules - so a deleted or disabled user can no longer act. *)
Theorem C11_edits_govern :
  (forall req pw file, auth_live (new_acl req pw file))
  /\ (forall a c, auth_live a -> auth_live (register_conn a c))
  /\ (forall sha256 a c cmd a', auth_live a -> authenticate sha256 a c cmd = Some a' -> auth_live a')
  /\ (forall a cmd, auth_live a -> auth_live (set_user a cmd))
  /\ (forall a names, auth_live a -> auth_live (delete_users a names))
  /\ (forall a mode a', auth_live a -> acl_load a mode = Some a' -> auth_live a')
  /\ (forall a, auth_live a -> auth_live (acl_save a))
  /\ (forall glob_match a c p s argv rq,
        auth_live a -> a_require a = true -> request_of p s argv = Some rq -> ~ handshake (rq_comm rq) ->
        authorize glob_match a c p s argv = true ->
        exists r, a_conns a !! c = Some r /\ c_auth r = true /\ In (c_user r) (a_users a)
                  /\ u_enabled (deref a (c_user r)) = true /\ rules_allow glob_match (deref a (c_user r)) rq).
Proof.
  repeat split.
  - exact auth_live_new.
  - exact auth_live_register.
  - intros sha256. exact (auth_live_authenticate sha256).
  - exact auth_live_set_user.
  - exact auth_live_delete.
  - exact auth_live_load.
  - exact auth_live_save.
  - exact acting_user_is_current.
Qed.

Theorem C11_deleted_cannot_act :
  forall a name c r, name <> "default" -> a_conns (delete_one a name) !! c = Some r ->
    u_name (deref a (c_user r)) = name -> is_Some (find_user a name) -> c_auth r = false.
Proof. exact deleted_cannot_act. Qed.
Theorem C11_deleted_cannot_auth :
  forall a name, name <> "default" -> find_user (delete_one a name) name = None.
Proof. exact deleted_cannot_auth. Qed.

Theorem C11_default_undeletable :
  forall a names, find_user (delete_users a names) "default" = find_user a "default".
Proof. exact default_undeletable. Qed.

(** [Normalise] is idempotent: for EVERY user record (any rule lists, aliases, duplicates, "*" mixed
    with other entries, nokeys, any passwords) a second application changes nothing. *)
Theorem C11_normalise_idempotent : forall u, normalise (normalise u) = normalise u.
Proof. exact normalise_idempotent. Qed.

(** Hence every state the server can reach - [NewACL] at start-up (any config file), then any sequence
    of RegisterConnection, AUTH / HELLO, SETUSER, DELUSER, LOAD (merge or replace) and SAVE - holds a
    table of normalised records at distinct, allocated addresses. *)
Theorem C11_reachable_table_normal : forall a, reachable a -> table_ok a.
Proof. exact reachable_normal. Qed.

(** ACL SAVE then ACL LOAD REPLACE gives back the same state, for every reachable state whose user
    names are distinct (a config file may name a user twice: then LOAD folds the second record into the
    first).  File serialisation is trusted as the identity on the records. *)
Theorem C11_save_load_id :
  forall a, reachable a -> NoDup (map u_name (table a)) -> acl_load (acl_save a) "replace" = Some (acl_save a).
Proof. exact save_load_id_reachable. Qed.

(** The earlier form, for any state (reachable or not) that satisfies the invariant. *)
Theorem C11_save_load_id_invariant :
  forall a, table_normal a -> acl_load (acl_save a) "replace" = Some (acl_save a).
Proof. exact save_load_id. Qed.

Print Assumptions C11_auth_iff.
Print Assumptions C11_auth_effect.
Print Assumptions C11_failed_auth_frame.
Print Assumptions C11_new_conn.
Print Assumptions C11_edits_govern.
Print Assumptions C11_deleted_cannot_act.
Print Assumptions C11_deleted_cannot_auth.
Print Assumptions C11_default_undeletable.
Print Assumptions C11_save_load_id.
Print Assumptions C11_normalise_idempotent.
Print Assumptions C11_reachable_table_normal.
Print Assumptions C11_save_load_id_invariant.

(** Non-vacuity. *)
Definition sha_ex (s : string) : string := if String.eqb s "pw2" then "d2" else "".
Definition ex_a : acl :=
  let a := register_conn (new_acl true "root" None) 1 in
  set_user a ["bob"; "on"; ">pw1"; "#d2"].
Example ex_auth :
  map (fun cmd => match authenticate sha_ex ex_a 1 cmd with Some _ => true | None => false end)
      [["AUTH"; "bob"; "pw1"]; ["AUTH"; "bob"; "pw2"]; ["AUTH"; "bob"; "bad"]; ["AUTH"; "root"]; ["AUTH"; "pw1"];
       ["AUTH"; "nobody"; "pw1"]]
  = [true; true; false; true; false; false].
Proof. vm_compute. reflexivity. Qed.
Example ex_disabled :
  match authenticate sha_ex (set_user ex_a ["bob"; "off"]) 1 ["AUTH"; "bob"; "pw1"] with Some _ => true | None => false end = false.
Proof. vm_compute. reflexivity. Qed.
(** the documented spellings are parsed *)
Example ex_spellings :
  let u := normalise (update_user (create_user "x") ["x"; "+@all"; "-all"]) in (u_icat u, u_icmd u, u_xcmd u) = (["*"], [], ["*"]).
Proof. vm_compute. reflexivity. Qed.
(** the hypotheses of [C11_save_load_id] are met: a reachable state with two users *)
Example ex_reachable : reachable ex_a /\ NoDup (map u_name (table ex_a)).
Proof.
  split; [apply r_set_user, r_register, r_new|]. vm_compute. repeat constructor; simpl; intuition discriminate.
Qed.
(** a record that is not normalised, and what [Normalise] makes of it (twice) *)
Example ex_normalise :
  let u := create_user "x" <| u_icat := ["write"; "allCategories"; "read"; "write"] |> <| u_xcmd := ["allCommands"; "*"] |>
                           <| u_rkeys := ["b"; "a"; "b"] |> <| u_pws := [Pw "SHA256" "d"; Pw "plaintext" "p"] |> in
  normalise u <> u /\
  (u_icat (normalise u), u_icmd (normalise u), u_xcmd (normalise u), u_rkeys (normalise u), u_wkeys (normalise u), u_pws (normalise u))
    = (["read"; "write"], [], ["*"], ["a"; "b"], ["*"], [Pw "plaintext" "p"; Pw "SHA256" "d"]) /\
  normalise (normalise u) = normalise u.
Proof. vm_compute. split; [discriminate|]. split; reflexivity. Qed.
