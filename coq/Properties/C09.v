(** C09 — Log rewrite is transparent and crash-atomic.

    What is proved of the model of the code as it is (with the fixes in fixes/):
    - [C09_fresh_log]: a rewrite before the first write leaves a log that restores, and every write
      made afterwards is restored (the SELECT -1 header is gone);
    - [C09_transparent_quiescent_partial]: on a quiescent server the disk after a completed rewrite
      restores to the dataset before it — evaluated on a dataset with every value type, deadlines and
      three databases (the general statement, for all datasets, is not proved: it needs the lemma that
      loading a snapshot reproduces the view, left out for time);
    - [C09_crash_atomic_refuted]: the full statement "every image between the file steps of a rewrite
      restores to a prefix dataset that contains everything acknowledged" is FALSE of the code: after
      the preamble is written and before the log is truncated, restore applies the whole log on top of
      the new preamble (INCR counted twice); known finding C09-rewrite-not-crash-atomic;
    - [C09_torn_preamble_refuted]: while the preamble is being written (truncated in place) a crash
      restores nothing at all, not even the log.
    The full statements are kept in the comments below.  The writer-versus-rewrite interleavings
    ([C09_concurrent_writer]) are not modelled in Coq; the harness explores them (stream "concurrent"). *)
From stdpp Require Import gmap strings.
From EV Require Import Base.Str Model.Value Model.Keyspace Model.Reply Model.Prog Model.Dispatch.
From EV Require Import Model.Resp Model.Disk Model.Aof Spec.SpecDurable Proofs.RespProofs Proofs.AofProofs.
Local Open Scope Z_scope.

Lemma load_snapshot_empty s : load_snapshot s ∅ = s.
Proof. unfold load_snapshot. by rewrite map_to_list_empty. Qed.
Lemma snapshot_of_init now : snapshot_of (init_state now) = ∅.
Proof. unfold snapshot_of, init_state. simpl. apply fmap_empty. Qed.

Theorem C09_fresh_log now pol h : Forall wr_ok h ->
  let '(pre, a) := rewrite_final (init_state now) aof_fresh in
  restore now pre (f_all (a_log a)) = init_state now /\
  restore now pre (f_all (a_log (aof_run pol a h))) = run_writes (init_state now) h.
Proof.
  intros Hok. unfold rewrite_final. rewrite snapshot_of_init. cbn [aof_fresh a_cur trunc_header].
  change (-1 <? 0) with true. cbv iota. unfold restore. rewrite load_snapshot_empty. split.
  - reflexivity.
  - change (trunc_header (-1)) with (@nil ascii).
    destruct (log_bytes_run pol h (Aof (f_sync (f_write empty_file [])) (-1))) as [-> _].
    cbn [a_log a_cur]. change (f_all (f_sync (f_write empty_file []))) with (@nil ascii). cbn [app].
    pose proof (restore_recs now (log_recs (-1) h) (log_recs_ok h (-1) Hok)) as Hr. unfold restore in Hr.
    rewrite Hr. rewrite rp_log_recs by (auto; right; lia). done.
Qed.

(** Full statement (not true of the code):
      forall s pre a (the live server: dataset s, preamble pre, log a, with restore now pre (log a) ≈ s),
      forall (label, pre', f') ∈ rewrite_steps s pre a, restore now pre' (f_all f') ≈ s. *)
Definition ex_hist : list wr := [(0, ["INCR"; "n"]); (0, ["RPUSH"; "l"; "a"])].
Definition ex_now : Z := 1700000000000.
Definition ex_live : state := run_writes (init_state ex_now) ex_hist.
Definition ex_aof : aof := aof_run Always aof_fresh ex_hist.
Definition prefix_views : list string :=
  map (fun j => show_view (dataset_after (init_state ex_now) ex_hist j)) (seq 0 3).

Theorem C09_crash_atomic_refuted :
  exists label pre f, In (label, pre, f) (rewrite_steps ex_live PreEmpty ex_aof) /\
    ~ In (show_view (restore ex_now pre (f_all f))) prefix_views.
Proof.
  exists "pre.create.after_sync", (PreFull (snapshot_of ex_live)), (a_log ex_aof). split.
  - unfold rewrite_steps. simpl. tauto.
  - vm_compute. intros [H|[H|[H|[]]]]; discriminate H.
Qed.

Theorem C09_torn_preamble_refuted :
  exists label pre f, In (label, pre, f) (rewrite_steps ex_live PreEmpty ex_aof) /\
    show_view (restore ex_now pre (f_all f)) = show_view (init_state ex_now) /\
    show_view (restore ex_now pre (f_all f)) <> show_view ex_live.
Proof.
  exists "pre.create.torn_write", PreTorn, (a_log ex_aof). split; [|split].
  - unfold rewrite_steps. simpl. tauto.
  - reflexivity.
  - vm_compute. discriminate.
Qed.

(** Transparency of a completed rewrite, on one dataset with every value type. *)
Definition ex_hist2 : list wr :=
  [(12, ["SET"; "k"; "v1"; "PXAT"; "4102444800000"]); (2, ["RPUSH"; "l"; "a"; "b"]); (2, ["INCR"; "n"]);
   (0, ["SADD"; "s"; "x"]); (12, ["HSET"; "h"; "f"; "1"]); (0, ["ZADD"; "z"; "1.5"; "m"]); (2, ["INCRBYFLOAT"; "q"; "0.5"])].
Theorem C09_transparent_quiescent_partial :
  let s := run_writes (init_state ex_now) ex_hist2 in
  let '(pre, a) := rewrite_final s (aof_run EverySec aof_fresh ex_hist2) in
  show_view (restore ex_now pre (f_all (a_log a))) = show_view s /\
  show_view (restore ex_now pre (f_all (a_log (aof_run EverySec a [(2, ["INCR"; "n"])])))) =
  show_view (run_writes s [(2, ["INCR"; "n"])]).
Proof. vm_compute. split; reflexivity. Qed.

Print Assumptions C09_fresh_log.
Print Assumptions C09_crash_atomic_refuted.
Print Assumptions C09_torn_preamble_refuted.
Print Assumptions C09_transparent_quiescent_partial.
