(** C09 — Log rewrite is transparent and crash-atomic.

    The model is the rewrite as repaired by fixes/fix-c09-atomic-rewrite.diff (Model/Aof.v, section
    "The rewrite as repaired"): rewrites are numbered, the new preamble is written to a temporary file,
    synced and renamed over preamble.bin, the log is truncated afterwards and numbered like the
    preamble, and a restore does not replay a log older than the preamble it finds.

    Proved, for every codec satisfying the three library round trips of [codec_ok], every sync policy,
    every clock value, every history [es] of acknowledged writes (any commands, databases, value types,
    deadlines - C02's [wr_ok], and not the word GENERATION, which is no command), completed rewrites at
    any positions and in any number, and restarts:
    - [C09_transparent_quiescent]: restoring the directory shows exactly the dataset the writes built
      ([same_view]: keys, types, values, deadlines, database placement; keys whose deadline has
      passed at the restore are absent on both sides);
    - [C09_fresh_log]: the special case of a rewrite before the first write;
    - [C09_crash_atomic]: the process dies at any instant of a rewrite begun after [es] - between any
      two file operations, inside the header writes at any byte: restoring what is left shows the whole
      dataset, every acknowledged write once;
    - [C09_power_loss]: the same for every image a power loss can leave, except that before the switch
      an image that lacks unsynced bytes of the log is an image C02 speaks about (none under "always":
      [C09_power_loss_always]);
    - [C09_recovery_completes]: the process that starts on what a crash after the switch left is again
      in the invariant all of the above is proved from (a stale log has been truncated and numbered),
      so whatever it does next is covered too.
    Writes cannot run while a rewrite runs (REWRITEAOF is a command, every command holds the command
    lock: C05); the histories above are the serial orders that lock leaves.  The interleavings are
    explored against the implementation by the harness (stream "concurrent").
    [C09_legacy_crash_atomic_refuted], [C09_legacy_torn_preamble_refuted]: the steps of the code before
    the repair (preamble truncated and rewritten in place, log truncated afterwards, no numbers) do not
    have the property - kept as regression witnesses.
    Hypotheses that are not proved: the file-system behaviour of Model/Disk.v, and of rename (atomic;
    on disk before the truncation of the log because the directory is synced in between); the same
    clock in the restoring process (C02-relative-expiry); fewer than 2^29 rewrites in a history (the
    number is printed in the log and must fit the reader's limits, like a database index in C02).
    [C09_transparent_quiescent] and the theorems built on it depend on functional extensionality
    (through [ProgLemmas.run_seq_congruence]). *)
From stdpp Require Import gmap strings.
From EV Require Import Base.Str Model.Value Model.Keyspace Model.Reply Model.Prog Model.Dispatch.
From EV Require Import Model.Resp Model.Disk Model.Aof Model.SnapCodec Spec.SpecDurable.
From EV Require Import Proofs.KeyspaceLemmas Proofs.RespProofs Proofs.AofProofs Proofs.AofRewriteProofs.
Local Open Scope Z_scope.

Theorem C09_transparent_quiescent c now pol es :
  codec_ok c -> Z.of_nat (length es) < max_bulk -> Forall ev_ok es ->
  let v := srv_run c pol now (srv_init now) es in
  same_view (run_writes (init_state now) (ev_writes es))
            (restore_g c now (v_pre v) (f_all (a_log (v_aof v)))).
Proof. intros Hc. exact (rewrite_transparent c Hc now pol es). Qed.

Theorem C09_fresh_log c now pol es :
  codec_ok c -> Z.of_nat (length es) + 1 < max_bulk -> Forall ev_ok es ->
  let v := srv_run c pol now (srv_init now) (EvRewrite :: es) in
  same_view (run_writes (init_state now) (ev_writes es))
            (restore_g c now (v_pre v) (f_all (a_log (v_aof v)))).
Proof.
  intros Hc Hn Hes. apply (rewrite_transparent c Hc now pol (EvRewrite :: es)); [simpl length; lia|by constructor].
Qed.

Theorem C09_crash_atomic c now pol es t0 x :
  codec_ok c -> Z.of_nat (length es) + 1 < max_bulk -> Forall ev_ok es ->
  let v := srv_run c pol now (srv_init now) es in
  In x (rewrite_instants c (v_st v) (v_gen v) t0 (v_pre v) (v_aof v)) ->
  same_view (run_writes (init_state now) (ev_writes es)) (restore_g c now (dir_death x).1 (dir_death x).2).
Proof. intros Hc. exact (rewrite_crash_atomic_hist c Hc now pol es t0 x). Qed.

Theorem C09_power_loss c now pol es t0 x img :
  codec_ok c -> Z.of_nat (length es) + 1 < max_bulk -> Forall ev_ok es ->
  let v := srv_run c pol now (srv_init now) es in
  In x (rewrite_instants c (v_st v) (v_gen v) t0 (v_pre v) (v_aof v)) -> In img (dir_power x) ->
  same_view (run_writes (init_state now) (ev_writes es)) (restore_g c now img.1 img.2) \/
  (d_pre x = v_pre v /\ d_log x = a_log (v_aof v) /\ f_pending (a_log (v_aof v)) <> [] /\ img.2 <> death_image (d_log x)).
Proof. intros Hc. exact (rewrite_power_loss_hist c Hc now pol es t0 x img). Qed.

Theorem C09_power_loss_always c now n v t0 x img :
  codec_ok c -> n + 1 < max_bulk -> srv_inv c now n v -> f_pending (a_log (v_aof v)) = [] ->
  In x (rewrite_instants c (v_st v) (v_gen v) t0 (v_pre v) (v_aof v)) -> In img (dir_power x) ->
  same_view (v_st v) (restore_g c now img.1 img.2).
Proof. intros Hc. exact (rewrite_power_loss_always c Hc now n v t0 x img). Qed.

Theorem C09_recovery_completes c now n v b suf rs t :
  codec_ok c -> n + 1 < max_bulk -> srv_inv c now n v -> Forall rcd_ok rs -> b ++ suf = recs_bytes rs ->
  (forall m, match firstn m rs with r :: _ => rcd_gen r | [] => 0 end <= v_gen v) \/
    rs = hdr_recs (v_gen v + 1) (a_cur (v_aof v)) ->
  srv_inv c now (n + 1) (srv_start c now (PfDoc (v_gen v + 1) (preamble_of c (v_st v))) t b).
Proof. intros Hc. exact (recovery_completes c Hc now n v b suf rs t). Qed.

(** The histories the theorems speak about are not empty of interest: every write command of the
    table is a legal event ([not_gen_name]), and the invariant holds of a fresh server. *)
Example C09_inv_nonvacuous c now : srv_inv c now 0 (srv_init now).
Proof. apply srv_inv_init. Qed.

(** * The code before the repair (regression witnesses) *)
Definition ex_hist : list wr := [(0, ["INCR"; "n"]); (0, ["RPUSH"; "l"; "a"])].
Definition ex_now : Z := 1700000000000.
Definition ex_live : state := run_writes (init_state ex_now) ex_hist.
Definition ex_aof : aof := aof_run Always aof_fresh ex_hist.
Definition prefix_views : list string :=
  map (fun j => show_view (dataset_after (init_state ex_now) ex_hist j)) (seq 0 3).

Theorem C09_legacy_crash_atomic_refuted :
  exists label pre f, In (label, pre, f) (rewrite_steps ex_live PreEmpty ex_aof) /\
    ~ In (show_view (restore ex_now pre (f_all f))) prefix_views.
Proof.
  exists "pre.create.after_sync", (PreFull (snapshot_of ex_live)), (a_log ex_aof). split.
  - unfold rewrite_steps. simpl. tauto.
  - vm_compute. intros [H|[H|[H|[]]]]; discriminate H.
Qed.

Theorem C09_legacy_torn_preamble_refuted :
  exists label pre f, In (label, pre, f) (rewrite_steps ex_live PreEmpty ex_aof) /\
    show_view (restore ex_now pre (f_all f)) = show_view (init_state ex_now) /\
    show_view (restore ex_now pre (f_all f)) <> show_view ex_live.
Proof.
  exists "pre.create.torn_write", PreTorn, (a_log ex_aof). split; [|split].
  - unfold rewrite_steps. simpl. tauto.
  - reflexivity.
  - vm_compute. discriminate.
Qed.

(** The same crash point after the repair, evaluated: the new preamble next to the old log. *)
Example C09_repaired_same_point :
  show_view (restore_pg ex_now (PreFull (snapshot_of ex_live)) 1 (f_all (a_log ex_aof))) = show_view ex_live.
Proof. vm_compute. reflexivity. Qed.

(** Transparency evaluated on one dataset with every value type, a deadline and three databases: a
    completed rewrite (generation 1), then one more write, then a restore. *)
Definition ex_hist2 : list wr :=
  [(12, ["SET"; "k"; "v1"; "PXAT"; "4102444800000"]); (2, ["RPUSH"; "l"; "a"; "b"]); (2, ["INCR"; "n"]);
   (0, ["SADD"; "s"; "x"]); (12, ["HSET"; "h"; "f"; "1"]); (0, ["ZADD"; "z"; "1.5"; "m"]); (2, ["INCRBYFLOAT"; "q"; "0.5"])].
Example C09_transparent_example :
  let s := run_writes (init_state ex_now) ex_hist2 in
  let a := aof_run EverySec aof_fresh ex_hist2 in
  let f := apply_ops empty_file (hdr_ops 1 (a_cur a)) in
  show_view (restore_pg ex_now (PreFull (snapshot_of s)) 1 (f_all f)) = show_view s /\
  show_view (restore_pg ex_now (PreFull (snapshot_of s)) 1
               (f_all (a_log (aof_run EverySec (Aof f (a_cur a)) [(2, ["INCR"; "n"])])))) =
  show_view (run_writes s [(2, ["INCR"; "n"])]).
Proof. vm_compute. split; reflexivity. Qed.

Print Assumptions C09_transparent_quiescent.
Print Assumptions C09_fresh_log.
Print Assumptions C09_crash_atomic.
Print Assumptions C09_power_loss.
Print Assumptions C09_power_loss_always.
Print Assumptions C09_recovery_completes.
Print Assumptions C09_legacy_crash_atomic_refuted.
Print Assumptions C09_legacy_torn_preamble_refuted.
