(** C16 — Set commands implement mathematical sets (and the set half of C13: the read-only set
    commands are pure; a ...STORE destination never shares structure with a source — in the model
    values are immutable, so the second half is [C16_frame] plus the correspondence runs with alias
    probes). *)
From stdpp Require Import gmap strings.
From EV Require Import Base.Str Model.Value Model.Keyspace Model.Reply Model.Prog Model.CmdList Model.CmdSet Model.Dispatch.
From EV Require Import Spec.SpecSet Proofs.KeyspaceLemmas Proofs.SetProofs Proofs.DispatchLemmas.
Local Open Scope Z_scope.

(** FULL STATEMENT (what the property says): for every finite sequence of argument vectors (any
    command word, any arity, any bytes), from every state of the keyspace (any pre-existing types,
    deadlines, databases) without a memory limit, and for every way [pick] of resolving the random
    choices of SPOP / SRANDMEMBER, the replies of the set handlers and the resulting sets of the
    selected database are those of the reference finite sets [spec_set false]:

      forall pick cmds s d, st_maxmem s = 0 ->
        let '(s', rs) := run_set_cmds pick d cmds s in
        let '(m', rs') := spec_set_run false pick (sview s d) cmds in
        rs = rs' /\ sview s' d = m' /\ st_maxmem s' = 0.

    The faithful model REFUTES this statement on two recorded findings about SDIFF / SDIFFSTORE
    ([C16_sdiff_missing_base_refuted], [C16_sdiff_skips_non_sets_refuted]); it is proved with the
    decidable guard [kf_free_run] that excludes exactly the (state, command) pairs of that class. *)
Theorem C16_refines : forall pick cmds s d,
  st_maxmem s = 0 -> kf_free_run pick (sview s d) cmds = true ->
  let '(s', rs) := run_set_cmds pick d cmds s in
  let '(m', rs') := spec_set_run false pick (sview s d) cmds in
  rs = rs' /\ sview s' d = m' /\ st_maxmem s' = 0.
Proof. exact set_script_refines. Qed.
Print Assumptions C16_refines.

(** Without any guard: the handlers do exactly what [spec_set true] says — the same reference
    except for the two SDIFF / SDIFFSTORE deviations, see [C16_guard_exact]. *)
Theorem C16_refines_code : forall pick cmds s d,
  st_maxmem s = 0 ->
  let '(s', rs) := run_set_cmds pick d cmds s in
  let '(m', rs') := spec_set_run true pick (sview s d) cmds in
  rs = rs' /\ sview s' d = m' /\ st_maxmem s' = 0.
Proof. exact set_script_refines_code. Qed.
Print Assumptions C16_refines_code.

Theorem C16_guard_exact : forall pick m argv,
  kf_sdiff m argv = false -> spec_set true pick m argv = spec_set false pick m argv.
Proof. exact lenient_is_property. Qed.
Print Assumptions C16_guard_exact.

(** A set command that fails (wrong type, bad arity, bad integer) changes nothing a client can
    observe: no value, no deadline, in no database.  No guard. *)
Theorem C16_error_changes_nothing : forall pick argv s d,
  st_maxmem s = 0 -> snd (exec_set pick d argv s) = RErr -> same_view s (fst (exec_set pick d argv s)).
Proof. exact set_error_changes_nothing. Qed.
Print Assumptions C16_error_changes_nothing.

(** Frame: other databases are untouched; in the selected one every entry is untouched, or is a
    set that kept its deadline.  No guard. *)
Theorem C16_frame : forall pick argv s d,
  st_maxmem s = 0 -> set_frame s (fst (exec_set pick d argv s)) d.
Proof. exact set_step_frame. Qed.
Print Assumptions C16_frame.

(** C13, set half: SCARD, SDIFF, SINTER, SINTERCARD, SISMEMBER, SMEMBERS, SMISMEMBER, SRANDMEMBER,
    SUNION leave every key of the database as it was — all arguments, all key types, all random
    choices.  (Together with [C16_frame]: nothing anywhere changes.)  No guard. *)
Theorem C16_read_only_pure : forall pick c args s d,
  st_maxmem s = 0 -> set_read_only (lower c) = true ->
  sview (fst (exec_set pick d (c :: args) s)) d = sview s d.
Proof. exact set_read_only_pure. Qed.
Print Assumptions C16_read_only_pure.

(** Algebra on the reference results: SUNION does not depend on the order or repetition of its
    operands; SDIFF is inside its base and disjoint from the union of the others. *)
Theorem C16_union_order_irrelevant : forall m ks ks', ks ≡ₚ ks' -> union_at m ks = union_at m ks'.
Proof. exact union_at_perm. Qed.
Print Assumptions C16_union_order_irrelevant.
Theorem C16_union_idempotent : forall m ks, union_at m (ks ++ ks) = union_at m ks.
Proof. exact union_at_idem. Qed.
Print Assumptions C16_union_idempotent.
Theorem C16_diff_disjoint : forall m base ks,
  diff_at m base ks ⊆ default ∅ (set_at m base) /\ diff_at m base ks ## union_at m ks.
Proof. intros. split; [apply diff_at_subseteq|apply diff_union_disjoint]. Qed.
Print Assumptions C16_diff_disjoint.

(** The acceptance oracle used on implementation traces ([spec_step_hint], run by mode spec16)
    accepts, and follows, every outcome the reference has under a valid selection function; the
    model's own selection function is a valid one. *)
Theorem C16_oracle_complete : forall pick m argv,
  valid_pick pick ->
  let sel := match rand_request m argv with Some (s, n) => pick s n | None => [] end in
  spec_step_hint m argv sel = (spec_set false pick m argv, true).
Proof. exact hint_complete. Qed.
Print Assumptions C16_oracle_complete.
Theorem C16_default_pick_valid : valid_pick default_pick.
Proof. exact default_pick_valid. Qed.
Print Assumptions C16_default_pick_valid.

(** The dispatcher runs exactly these handlers for the sixteen set command words. *)
Theorem C16_dispatch : forall w c argv,
  argv = c :: tl argv -> list_handler (lower c) = None -> CmdHash.hash_handler (lower c) = None ->
  forall h, set_handler default_pick (lower c) = Some h ->
  exec_cmd w 0 argv =
  (let '(s', r) := exec_set default_pick (conn_db w 0) argv (w_st w) in (World s' (w_conns w), r)).
Proof.
  intros w c argv Hargv Hl Hh h Hs.
  assert (Hho : handler_of (lower c) = Some h) by (rewrite handler_of_unfold, Hl, Hh, Hs; done).
  destruct argv as [|c0 rest]; [discriminate|]. injection Hargv as ->.
  rewrite (exec_cmd_runs_handler w 0 (c :: rest) c h eq_refl Hho). unfold exec_set. by rewrite Hs.
Qed.
Print Assumptions C16_dispatch.

(** * Recorded findings: the unguarded statement is false for the code as it is. *)
Definition st_of (kvs : list (string * value)) : state :=
  fst (run_seq 0 (SetValues kvs (fun _ => Ret tt)) (init_state 5)).

(** SDIFF with a missing base key fails; the reference result is the empty set. *)
Theorem C16_sdiff_missing_base_refuted : exists cmds s d,
  st_maxmem s = 0 /\
  snd (run_set_cmds default_pick d cmds s) <> snd (spec_set_run false default_pick (sview s d) cmds).
Proof.
  exists [["SDIFF"; "c"; "b"]]%string, (st_of [("b"%string, VSet {["x"%string]})]), 0.
  split; [done|]. vm_compute. discriminate.
Qed.

(** SDIFF skips a later key that holds a string; the reference fails the command. *)
Theorem C16_sdiff_skips_non_sets_refuted : exists cmds s d,
  st_maxmem s = 0 /\
  snd (run_set_cmds default_pick d cmds s) <> snd (spec_set_run false default_pick (sview s d) cmds).
Proof.
  exists [["SDIFF"; "a"; "b"]]%string,
         (st_of [("a"%string, VSet {["x"%string; "y"%string]}); ("b"%string, VStr "v")]), 0.
  split; [done|]. vm_compute. discriminate.
Qed.

(** Non-vacuity: a concrete non-trivial state and script meet the hypotheses (guard included), and the
    script does something: duplicate members, a missing operand, destination = source, a limit, a move
    to a new key, a pop of everything, a wrong-typed key. *)
Example C16_example :
  let s0 := st_of [("s"%string, VStr "v"); ("a"%string, VSet {["x"%string; "y"%string]})] in
  let cmds := [["SADD"; "b"; "y"; "y"; "z"]; ["SUNIONSTORE"; "a"; "a"; "b"; "nokey"]; ["SINTERCARD"; "a"; "b"; "LIMIT"; "1"];
               ["SMOVE"; "a"; "new"; "x"]; ["SDIFF"; "a"; "b"]; ["SPOP"; "b"; "9"]; ["SMEMBERS"; "b"]; ["SCARD"; "s"];
               ["SINTER"; "a"; "nokey"]; ["SISMEMBER"; "new"; "x"]]%string in
  st_maxmem s0 = 0 /\ kf_free_run default_pick (sview s0 0) cmds = true /\
  snd (run_set_cmds default_pick 0 cmds s0) =
    [RInt 2; RInt 3; RInt 1; RInt 1; RArr []; bulks ["y"; "z"]%string; RArr []; RErr; RArr []; RInt 1].
Proof. vm_compute. done. Qed.
