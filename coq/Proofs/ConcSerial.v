(** Serializability of the pools of [Model/Conc.v] in which every command takes the command lock.

    The argument is the classical one, carried as an invariant over the schedule: with [done] the
    locked threads that have finished, in the order they acquired the lock, and
    [base = run_serial done s0]:
    - while the lock is free the store is [base] (up to [R]);
    - while thread [t] holds it with [ra] left to run, running [ra] to completion on the store gives
      what the whole activity of [t] gives on [base];
    - threads that do not take the lock only take steps that [R] cannot see.
    [R] is equality for the exact theorem (pools without sampler passes) and "same observable
    keyspace" for the theorem with the expiry sampler running at arbitrary points. *)
From stdpp Require Import gmap strings.
From RecordUpdate Require Import RecordSet.
Import RecordSetNotations.
From EV Require Import Base.Str Model.Value Model.Keyspace Model.Reply Model.Prog Model.Conc.
From EV Require Import Proofs.KeyspaceLemmas Proofs.ProgLemmas Proofs.ConcLemmas.
Local Open Scope Z_scope.

Lemma run_serial_snoc acts perm t s0 :
  run_serial acts (perm ++ [t]) s0 = serial_step acts (run_serial acts perm s0) t.
Proof. unfold run_serial. by rewrite fold_left_app. Qed.

Section Serial.
  Variable R : state -> state -> Prop.
  Variable Good : state -> Prop.
  Variable quiet : ract -> Prop.

  Definition orel (o1 o2 : outcome) : Prop :=
    match o1, o2 with
    | OReply r1, OReply r2 => r1 = r2
    | OSnap s1, OSnap s2 => R s1 s2
    | OSwept, OSwept => True
    | _, _ => False
    end.
  Definition srel (x y : state * outcome) : Prop := R (fst x) (fst y) /\ orel (snd x) (snd y).

  Hypothesis R_refl : forall s, R s s.
  Hypothesis R_sym : forall a b, R a b -> R b a.
  Hypothesis R_trans : forall a b c, R a b -> R b c -> R a c.
  Hypothesis Good_R : forall a b, R a b -> Good a -> Good b.
  Hypothesis rrun_cong : forall ra a b, R a b -> Good a -> srel (rrun ra a) (rrun ra b).
  Hypothesis rstep_good : forall ra s, Good s -> Good (fst (rstep ra s)).
  Hypothesis quiet_step : forall ra s, quiet ra -> Good s ->
    R s (fst (rstep ra s)) /\ (forall ra', snd (rstep ra s) = inl ra' -> quiet ra').

  Lemma orel_refl o : orel o o.
  Proof. destruct o; cbn; auto. Qed.
  Lemma orel_trans a b c : orel a b -> orel b c -> orel a c.
  Proof. destruct a, b, c; cbn; try done; [congruence|eauto]. Qed.
  Lemma orel_sym a b : orel a b -> orel b a.
  Proof. destruct a, b; cbn; try done; eauto. Qed.
  Lemma srel_trans a b c : srel a b -> srel b c -> srel a c.
  Proof. intros [? ?] [? ?]. split; [eauto|by eapply orel_trans]. Qed.
  Lemma srel_sym a b : srel a b -> srel b a.
  Proof. intros [? ?]. split; [eauto|by apply orel_sym]. Qed.
  Lemma srel_refl a : srel a a.
  Proof. split; [auto|apply orel_refl]. Qed.

  (** How the threads that do not take the lock start: into something quiet. *)
  Definition quiet_pool (P : pool) : Prop :=
    forall t th, p_threads P !! t = Some th -> th_locked th = false ->
      (forall s ra, act_start (th_act th) s = inl ra -> quiet ra) /\
      (forall ra, th_st th = Run ra -> quiet ra).
  Definition locked_ok (P : pool) : Prop :=
    forall t th, p_threads P !! t = Some th -> th_locked th = true -> locks (th_act th) = true.

  Record inv (s0 : state) (P : pool) (done : list nat) : Prop := {
    inv_disc : atomic_discipline P;
    inv_quiet : quiet_pool P;
    inv_lok : locked_ok P;
    inv_nodup : base.NoDup done;
    inv_done : forall t, In t done <->
      exists th o, p_threads P !! t = Some th /\ th_locked th = true /\ th_st th = Done o;
    inv_outs : forall t th o, p_threads P !! t = Some th -> th_locked th = true -> th_st th = Done o ->
      exists o', snd (run_serial (pool_acts P) done s0) !! t = Some o' /\ orel o o';
    inv_good : Good (p_store P);
    inv_lock : match p_lock P with
               | None => R (p_store P) (fst (run_serial (pool_acts P) done s0))
               | Some t => exists th ra, p_threads P !! t = Some th /\ th_st th = Run ra /\
                   srel (rrun ra (p_store P)) (act_seq (th_act th) (fst (run_serial (pool_acts P) done s0)))
               end;
    inv_order : acq_order P = done ++ match p_lock P with Some t => [t] | None => [] end;
  }.

  Lemma acq_order_step P t P' :
    step_conc P t = Some P' ->
    acq_order P' = List.filter (lockedb P) (p_order P').
  Proof.
    intros H. unfold acq_order. apply filter_ext. intros t'. by eapply step_conc_lockedb.
  Qed.

  Lemma pool_acts_lookup P t th : p_threads P !! t = Some th -> pool_acts P !! t = Some (th_act th).
  Proof. intros H. unfold pool_acts. by rewrite lookup_fmap, H. Qed.

  Lemma lockedb_lookup P t th : p_threads P !! t = Some th -> lockedb P t = th_locked th.
  Proof. intros H. unfold lockedb. by rewrite H. Qed.

  Definition ldone (P : pool) (t' : nat) : Prop :=
    exists th o, p_threads P !! t' = Some th /\ th_locked th = true /\ th_st th = Done o.

  Section Upd.
    Context (P P' : pool) (t : nat) (th : thread) (st' : tstate).
    Hypothesis Ht : p_threads P !! t = Some th.
    Hypothesis HP' : p_threads P' = <[t := th <| th_st := st' |>]> (p_threads P).

    Lemma upd_quiet :
      quiet_pool P -> (th_locked th = false -> forall ra, st' = Run ra -> quiet ra) -> quiet_pool P'.
    Proof using Ht HP'.
      intros Iq Hnew t' th' Ht' Hl'. rewrite HP' in Ht'. destruct (decide (t' = t)) as [->|Hne].
      - rewrite lookup_insert in Ht'. injection Ht' as <-. cbn in *. split; [|eauto].
        by apply (Iq _ _ Ht).
      - rewrite lookup_insert_ne in Ht' by done. eauto.
    Qed.

    Lemma upd_lok : locked_ok P -> locked_ok P'.
    Proof using Ht HP'.
      intros Il t' th' Ht' Hl'. rewrite HP' in Ht'. destruct (decide (t' = t)) as [->|Hne].
      - rewrite lookup_insert in Ht'. injection Ht' as <-. cbn in *. eauto.
      - rewrite lookup_insert_ne in Ht' by done. eauto.
    Qed.

    Lemma upd_ldone_same :
      (forall o, th_st th <> Done o) -> (th_locked th = false \/ forall o, st' <> Done o) ->
      forall t', ldone P' t' <-> ldone P t'.
    Proof using Ht HP'.
      intros Hold Hnew t'. unfold ldone. rewrite HP'. split; intros (th' & o & Ht' & Hl' & Hst').
      - destruct (decide (t' = t)) as [->|Hne].
        + rewrite lookup_insert in Ht'. injection Ht' as <-. cbn in *. destruct Hnew as [Hn|Hn]; [congruence|].
          by destruct (Hn o).
        + rewrite lookup_insert_ne in Ht' by done. eauto.
      - assert (t' <> t) by (intros ->; rewrite Ht in Ht'; injection Ht' as <-; by destruct (Hold o)).
        rewrite lookup_insert_ne by done. eauto.
    Qed.

    Lemma upd_ldone_new o :
      th_locked th = true -> st' = Done o -> forall t', ldone P' t' <-> (ldone P t' \/ t' = t).
    Proof using Ht HP'.
      intros Hl -> t'. unfold ldone. rewrite HP'. split.
      - intros (th' & o' & Ht' & Hl' & Hst'). destruct (decide (t' = t)) as [->|Hne]; [by right|].
        rewrite lookup_insert_ne in Ht' by done. left. eauto.
      - intros [(th' & o' & Ht' & Hl' & Hst')| ->].
        + destruct (decide (t' = t)) as [->|Hne].
          * rewrite lookup_insert. eexists _, _. split; [done|]. cbn. eauto.
          * rewrite lookup_insert_ne by done. eauto.
        + rewrite lookup_insert. eexists _, _. split; [done|]. cbn. eauto.
    Qed.

    (** the replies of the finished threads, when [t] does not finish (or does not lock) *)
    Lemma upd_outs_same (outs : gmap nat outcome) :
      (th_locked th = false \/ forall o, st' <> Done o) ->
      (forall t' th' o, p_threads P !! t' = Some th' -> th_locked th' = true -> th_st th' = Done o ->
         exists o', outs !! t' = Some o' /\ orel o o') ->
      (forall t' th' o, p_threads P' !! t' = Some th' -> th_locked th' = true -> th_st th' = Done o ->
         exists o', outs !! t' = Some o' /\ orel o o').
    Proof using Ht HP'.
      intros Hnew Io t' th' o Ht' Hl' Hst'. rewrite HP' in Ht'. destruct (decide (t' = t)) as [->|Hne].
      - rewrite lookup_insert in Ht'. injection Ht' as <-. cbn in *. destruct Hnew as [Hn|Hn]; [congruence|].
        by destruct (Hn o).
      - rewrite lookup_insert_ne in Ht' by done. eauto.
    Qed.

    Lemma upd_outs_new (outs : gmap nat outcome) o ob :
      st' = Done o -> orel o ob ->
      (forall t' th' o, p_threads P !! t' = Some th' -> th_locked th' = true -> th_st th' = Done o ->
         exists o', outs !! t' = Some o' /\ orel o o') ->
      (forall t' th' o, p_threads P' !! t' = Some th' -> th_locked th' = true -> th_st th' = Done o ->
         exists o', <[t := ob]> outs !! t' = Some o' /\ orel o o').
    Proof using Ht HP'.
      intros -> Hrel Io t' th' o' Ht' Hl' Hst'. rewrite HP' in Ht'. destruct (decide (t' = t)) as [->|Hne].
      - rewrite lookup_insert in Ht'. injection Ht' as <-. cbn in *. injection Hst' as <-.
        rewrite lookup_insert. eauto.
      - rewrite lookup_insert_ne in Ht' by done. rewrite lookup_insert_ne by done. eauto.
    Qed.

    Lemma upd_other u thu : u <> t -> p_threads P !! u = Some thu -> p_threads P' !! u = Some thu.
    Proof using Ht HP'. intros Hne Hu. rewrite HP'. by rewrite lookup_insert_ne. Qed.
    Lemma upd_self : p_threads P' !! t = Some (th <| th_st := st' |>).
    Proof using Ht HP'. rewrite HP'. by rewrite lookup_insert. Qed.
  End Upd.

  Lemma nodup_snoc (l : list nat) t : base.NoDup l -> ~ In t l -> base.NoDup (l ++ [t]).
  Proof.
    intros Hn Hnot. apply NoDup_app. split; [done|]. split; [|apply NoDup_singleton].
    intros x Hx Hx'. apply elem_of_list_singleton in Hx'. subst. apply Hnot. by apply elem_of_list_In.
  Qed.

  Lemma act_seq_cong a x y : locks a = true -> R x y -> Good x -> srel (act_seq a x) (act_seq a y).
  Proof.
    intros Hl Hxy Hg. destruct a as [d p| |d pick].
    - apply (rrun_cong (RCmd d p)); done.
    - apply (rrun_cong RCopy); done.
    - discriminate.
  Qed.

  Lemma step_inv s0 P t P' done :
    inv s0 P done -> step_conc P t = Some P' -> exists done', inv s0 P' done'.
  Proof.
    intros I Hstep.
    pose proof (step_conc_discipline _ _ _ (inv_disc _ _ _ I) Hstep) as Hdisc'.
    pose proof (step_conc_acts _ _ _ Hstep) as Hacts.
    pose proof (acq_order_step _ _ _ Hstep) as Hord.
    destruct I as [[D1 D2] Iq Ilok Ind Idone Iouts Igood Ilock Iorder].
    fold (ldone P) in Idone.
    revert Hstep Hord. unfold step_conc.
    destruct (p_threads P !! t) as [th|] eqn:Ht; [|discriminate].
    assert (~ In t done \/ exists o, th_st th = Done o) as Hnot.
    { destruct (th_st th) eqn:E; [left|left|right; eauto];
        rewrite Idone; intros (th' & o & Ht' & _ & Hst'); congruence. }
    destruct (th_st th) as [|a|o] eqn:Hst; [| |discriminate];
      (destruct Hnot as [Hnot|[? ?]]; [|discriminate]).
    - (* start *)
      destruct (th_locked th) eqn:Hl; cbn [andb].
      + destruct (bool_decide (is_Some (p_lock P))) eqn:Hk; [discriminate|].
        apply bool_decide_eq_false in Hk. assert (p_lock P = None) as Hnone.
        { destruct (p_lock P); [exfalso; apply Hk; eauto|done]. }
        rewrite Hnone in Ilock, Iorder. rewrite app_nil_r in Iorder.
        destruct (act_start (th_act th) (p_store P)) as [ra|o] eqn:Hs; intros [= <-] Hord.
        * (* got the lock *)
          exists done. constructor.
          -- done.
          -- eapply (upd_quiet P _ t th _ Ht); [reflexivity|done|]. intros; congruence.
          -- eapply (upd_lok P _ t th _ Ht); [reflexivity|done].
          -- done.
          -- intros t'. rewrite Idone. symmetry. fold (ldone (set_thread P t th (Run ra) <| p_lock := Some t |> <| p_order := p_order P ++ [t] |>) t').
             eapply (upd_ldone_same P _ t th _ Ht); [reflexivity|rewrite Hst; discriminate|right; discriminate].
          -- rewrite Hacts. eapply (upd_outs_same P _ t th _ Ht); [reflexivity|right; discriminate|done].
          -- done.
          -- rewrite Hacts. cbn. eexists _, ra. split; [apply lookup_insert|].
             split; [done|]. cbn. rewrite (act_start_inl _ _ _ Hs).
             apply act_seq_cong; [by eapply Ilok|done|done].
          -- rewrite Hord. cbn. rewrite filter_app. cbn. rewrite (lockedb_lookup _ _ _ Ht), Hl.
             fold (acq_order P). rewrite Iorder. done.
        * (* over before the first primitive *)
          pose proof (act_start_inr _ _ _ Hs (Ilok _ _ Ht Hl)) as Hseq.
          pose proof (act_seq_cong _ _ _ (Ilok _ _ Ht Hl) Ilock Igood) as Hc. rewrite Hseq in Hc.
          destruct Hc as [Hc1 Hc2]. cbn [fst snd] in Hc1, Hc2.
          exists (done ++ [t]). constructor.
          -- done.
          -- eapply (upd_quiet P _ t th _ Ht); [reflexivity|done|]. intros; congruence.
          -- eapply (upd_lok P _ t th _ Ht); [reflexivity|done].
          -- by apply nodup_snoc.
          -- intros t'. rewrite in_app_iff, Idone. cbn [In].
             etransitivity; [|symmetry; eapply (upd_ldone_new P _ t th (Done o) Ht); [reflexivity|exact Hl|reflexivity]].
             unfold ldone. intuition congruence.
          -- rewrite Hacts, run_serial_snoc. unfold serial_step.
             rewrite (pool_acts_lookup _ _ _ Ht).
             destruct (act_seq (th_act th) (run_serial (pool_acts P) done s0).1) as [sb ob].
             cbn [snd fst] in *.
             eapply (upd_outs_new P _ t th _ Ht); [reflexivity|reflexivity|done|done].
          -- done.
          -- rewrite Hacts. cbn. rewrite Hnone, run_serial_snoc. unfold serial_step.
             rewrite (pool_acts_lookup _ _ _ Ht).
             destruct (act_seq (th_act th) (run_serial (pool_acts P) done s0).1) as [sb ob]. done.
          -- rewrite Hord. cbn. rewrite Hnone, filter_app. cbn. rewrite (lockedb_lookup _ _ _ Ht), Hl.
             fold (acq_order P). rewrite Iorder, app_nil_r. done.
      + (* a thread that does not lock starts *)
        destruct (Iq _ _ Ht Hl) as [Hq1 Hq2].
        assert (forall st' ord, match p_lock P with
                | None => R (p_store P) (fst (run_serial (pool_acts P) done s0))
                | Some u => exists thu rau, p_threads (set_thread P t th st' <| p_order := ord |>) !! u = Some thu /\
                    th_st thu = Run rau /\
                    srel (rrun rau (p_store P)) (act_seq (th_act thu) (fst (run_serial (pool_acts P) done s0)))
                end) as Hlock'.
        { intros st' ord. destruct (p_lock P) as [u|] eqn:Hk; [|done].
          destruct Ilock as (thu & rau & Hu & Hstu & Hrel).
          assert (u <> t) by (intros ->; congruence).
          exists thu, rau. split; [|done]. eapply (upd_other P _ t th _ Ht); [reflexivity|done|done]. }
        destruct (act_start (th_act th) (p_store P)) as [ra|o] eqn:Hs; intros [= <-] Hord;
          exists done; constructor.
        * done.
        * eapply (upd_quiet P _ t th _ Ht); [reflexivity|done|]. intros _ ra' [= <-]. eauto.
        * eapply (upd_lok P _ t th _ Ht); [reflexivity|done].
        * done.
        * intros t'. rewrite Idone. symmetry.
          eapply (upd_ldone_same P _ t th (Run ra) Ht); [reflexivity|rewrite Hst; discriminate|by left].
        * rewrite Hacts. eapply (upd_outs_same P _ t th _ Ht); [reflexivity|by left|done].
        * done.
        * rewrite Hacts. cbn. rewrite ?Hl. apply (Hlock' (Run ra) (p_order P ++ [t])).
        * rewrite Hord. cbn. rewrite filter_app. cbn. rewrite (lockedb_lookup _ _ _ Ht), Hl.
          fold (acq_order P). rewrite Iorder, app_nil_r. done.
        * done.
        * eapply (upd_quiet P _ t th _ Ht); [reflexivity|done|]. intros _ ra'. discriminate.
        * eapply (upd_lok P _ t th _ Ht); [reflexivity|done].
        * done.
        * intros t'. rewrite Idone. symmetry.
          eapply (upd_ldone_same P _ t th (Done o) Ht); [reflexivity|rewrite Hst; discriminate|by left].
        * rewrite Hacts. eapply (upd_outs_same P _ t th _ Ht); [reflexivity|by left|done].
        * done.
        * rewrite Hacts. cbn. rewrite ?Hl. apply (Hlock' (Done o) (p_order P ++ [t])).
        * rewrite Hord. cbn. rewrite filter_app. cbn. rewrite (lockedb_lookup _ _ _ Ht), Hl.
          fold (acq_order P). rewrite Iorder, app_nil_r. done.
    - (* one primitive *)
      destruct (th_locked th) eqn:Hl.
      + (* of the thread that holds the lock *)
        pose proof (D2 _ _ _ Ht Hl Hst) as Hk. rewrite Hk in Ilock, Iorder.
        destruct Ilock as (th0 & ra0 & Ht0 & Hst0 & Hrel). rewrite Ht in Ht0. injection Ht0 as <-.
        rewrite Hst in Hst0. injection Hst0 as <-.
        pose proof (rstep_good a _ Igood) as Hg'.
        destruct (rstep a (p_store P)) as [s' [a'|o]] eqn:Hr; intros [= <-] Hord; cbn [fst] in Hg'.
        * exists done. constructor.
          -- done.
          -- eapply (upd_quiet P _ t th _ Ht); [reflexivity|done|]. intros; congruence.
          -- eapply (upd_lok P _ t th _ Ht); [reflexivity|done].
          -- done.
          -- intros t'. rewrite Idone. symmetry.
             eapply (upd_ldone_same P _ t th (Run a') Ht); [reflexivity|rewrite Hst; discriminate|right; discriminate].
          -- rewrite Hacts. eapply (upd_outs_same P _ t th _ Ht); [reflexivity|right; discriminate|done].
          -- done.
          -- rewrite Hacts. cbn. rewrite Hk. eexists _, a'. split; [apply lookup_insert|].
             split; [done|]. cbn. rewrite (rstep_inl _ _ _ _ Hr). done.
          -- rewrite Hord. cbn. rewrite Hk. fold (acq_order P). done.
        * pose proof (rstep_inr _ _ _ _ Hr) as Hrun. rewrite Hrun in Hrel. destruct Hrel as [Hr1 Hr2].
          cbn [fst snd] in Hr1, Hr2.
          exists (done ++ [t]). constructor.
          -- done.
          -- eapply (upd_quiet P _ t th _ Ht); [reflexivity|done|]. intros; congruence.
          -- eapply (upd_lok P _ t th _ Ht); [reflexivity|done].
          -- by apply nodup_snoc.
          -- intros t'. rewrite in_app_iff, Idone. cbn [In].
             etransitivity; [|symmetry; eapply (upd_ldone_new P _ t th (Done o) Ht); [reflexivity|exact Hl|reflexivity]].
             unfold ldone. intuition congruence.
          -- rewrite Hacts, run_serial_snoc. unfold serial_step. rewrite (pool_acts_lookup _ _ _ Ht).
             destruct (act_seq (th_act th) (run_serial (pool_acts P) done s0).1) as [sb ob].
             cbn [snd fst] in *.
             eapply (upd_outs_new P _ t th _ Ht); [reflexivity|reflexivity|done|done].
          -- done.
          -- rewrite Hacts. cbn. rewrite ?Hl, run_serial_snoc. unfold serial_step.
             rewrite (pool_acts_lookup _ _ _ Ht).
             destruct (act_seq (th_act th) (run_serial (pool_acts P) done s0).1) as [sb ob]. done.
          -- rewrite Hord. cbn. rewrite ?Hl, ?Hk. fold (acq_order P). rewrite Iorder, app_nil_r. done.
      + (* of a thread that does not lock *)
        destruct (Iq _ _ Ht Hl) as [Hq1 Hq2]. specialize (Hq2 _ Hst).
        destruct (quiet_step _ _ Hq2 Igood) as [HR Hq'].
        pose proof (rstep_good a _ Igood) as Hg'.
        assert (forall st', match p_lock P with
                | None => R (fst (rstep a (p_store P))) (fst (run_serial (pool_acts P) done s0))
                | Some u => exists thu rau, p_threads (set_thread P t th st') !! u = Some thu /\ th_st thu = Run rau /\
                    srel (rrun rau (fst (rstep a (p_store P)))) (act_seq (th_act thu) (fst (run_serial (pool_acts P) done s0)))
                end) as Hlock'.
        { intros st'. destruct (p_lock P) as [u|] eqn:Hk.
          - destruct Ilock as (thu & rau & Hu & Hstu & Hrel).
            destruct (D1 _ eq_refl) as (thu' & rau' & Hu' & Hlu' & _). rewrite Hu in Hu'. injection Hu' as <-.
            assert (u <> t) by (intros ->; congruence).
            exists thu, rau. split; [eapply (upd_other P _ t th _ Ht); [reflexivity|done|done]|]. split; [done|].
            eapply srel_trans; [|exact Hrel]. apply srel_sym. apply rrun_cong; done.
          - eapply R_trans; [apply R_sym; exact HR|done]. }
        destruct (rstep a (p_store P)) as [s' [a'|o]] eqn:Hr; intros [= <-] Hord; cbn [fst snd] in *;
          exists done; constructor.
        * done.
        * eapply (upd_quiet P _ t th _ Ht); [reflexivity|done|]. intros _ ra' [= <-]. eauto.
        * eapply (upd_lok P _ t th _ Ht); [reflexivity|done].
        * done.
        * intros t'. rewrite Idone. symmetry.
          eapply (upd_ldone_same P _ t th (Run a') Ht); [reflexivity|rewrite Hst; discriminate|by left].
        * rewrite Hacts. eapply (upd_outs_same P _ t th _ Ht); [reflexivity|by left|done].
        * done.
        * rewrite Hacts. cbn. rewrite ?Hl. apply (Hlock' (Run a')).
        * rewrite Hord. cbn. fold (acq_order P). done.
        * done.
        * eapply (upd_quiet P _ t th _ Ht); [reflexivity|done|]. intros _ ra'. discriminate.
        * eapply (upd_lok P _ t th _ Ht); [reflexivity|done].
        * done.
        * intros t'. rewrite Idone. symmetry.
          eapply (upd_ldone_same P _ t th (Done o) Ht); [reflexivity|rewrite Hst; discriminate|by left].
        * rewrite Hacts. eapply (upd_outs_same P _ t th _ Ht); [reflexivity|by left|done].
        * done.
        * rewrite Hacts. cbn. rewrite ?Hl. apply (Hlock' (Done o)).
        * rewrite Hord. cbn. rewrite ?Hl. fold (acq_order P). done.
  Qed.

  Lemma run_inv s0 sched : forall P done, inv s0 P done -> exists done', inv s0 (run_conc P sched) done'.
  Proof.
    induction sched as [|t r IH]; intros P dn I; [exists dn; exact I|]. cbn [run_conc fold_left].
    unfold sched_step at 2. destruct (step_conc P t) as [P'|] eqn:E; cbn [default].
    - destruct (step_inv _ _ _ _ _ I E) as [done' I']. by eapply IH.
    - by eapply IH.
  Qed.

  (** Who locks: commands and state copies; whoever does not lock is quiet from its first step on. *)
  Definition disciplined (acts : gmap nat (bool * act)) : Prop :=
    forall (t : nat) (l : bool) (a : act), acts !! t = Some (l, a) ->
      if l then locks a = true else forall s ra, act_start a s = inl ra -> quiet ra.

  Lemma init_inv acts s0 : Good s0 -> disciplined acts -> inv s0 (init_pool acts s0) [].
  Proof.
    intros Hg Hd. constructor.
    - apply init_pool_discipline.
    - intros t th Ht Hl. rewrite init_pool_lookup in Ht. destruct (acts !! t) as [[l a]|] eqn:E; [|discriminate].
      cbn in Ht. injection Ht as <-. cbn in *. subst. split; [exact (Hd _ _ _ E)|discriminate].
    - intros t th Ht Hl. rewrite init_pool_lookup in Ht. destruct (acts !! t) as [[l a]|] eqn:E; [|discriminate].
      cbn in Ht. injection Ht as <-. cbn in *. subst. exact (Hd _ _ _ E).
    - apply NoDup_nil_2.
    - intros t. split; [intros []|]. intros (th & o & Ht & _ & Hst). rewrite init_pool_lookup in Ht.
      destruct (acts !! t) as [[l a]|]; [|discriminate]. cbn in Ht. injection Ht as <-. discriminate.
    - intros t th o Ht _ Hst. rewrite init_pool_lookup in Ht.
      destruct (acts !! t) as [[l a]|]; [|discriminate]. cbn in Ht. injection Ht as <-. discriminate.
    - done.
    - cbn. apply R_refl.
    - done.
  Qed.

  (** [perm] is the order in which the lock was acquired; it lists every locking thread once;
      running the activities one after the other in that order gives the same store (up to [R]) and
      the same outcome for every locking thread. *)
  Theorem serializable_gen acts s0 sched :
    Good s0 -> disciplined acts ->
    let P := run_conc (init_pool acts s0) sched in
    all_done P ->
    let perm := acq_order P in
    let ser := run_serial (snd <$> acts) perm s0 in
    (base.NoDup perm /\ forall t, In t perm <-> exists a, acts !! t = Some (true, a)) /\
    R (p_store P) (fst ser) /\
    forall t a, acts !! t = Some (true, a) ->
      exists o o', outcome_of P t = Some o /\ snd ser !! t = Some o' /\ orel o o'.
  Proof.
    intros Hg Hd P Hall perm ser.
    destruct (run_inv s0 sched _ _ (init_inv acts s0 Hg Hd)) as [dn I]. fold P in I.
    assert (pool_acts P = snd <$> acts) as Hacts.
    { unfold P. rewrite run_conc_acts. apply pool_acts_init. }
    assert (forall t, p_threads P !! t = None /\ acts !! t = None \/
              exists th l a, p_threads P !! t = Some th /\ acts !! t = Some (l, a) /\
                th_locked th = l /\ th_act th = a) as Hthr.
    { intros t. destruct (run_conc_static sched (init_pool acts s0) t) as [H1 H2]. fold P in H1, H2.
      rewrite init_pool_lookup in H1, H2. destruct (acts !! t) as [[l a]|] eqn:E.
      - right. destruct (p_threads P !! t) as [th|]; [|discriminate]. cbn in H1, H2.
        injection H1 as H1. injection H2 as H2. eauto 10.
      - left. destruct (p_threads P !! t); [discriminate|done]. }
    destruct I as [[D1 D2] Iq Ilok Ind Idone Iouts Igood Ilock Iorder].
    assert (p_lock P = None) as Hnone.
    { destruct (p_lock P) as [u|] eqn:Hk; [|done]. destruct (D1 _ eq_refl) as (th & ra & Hu & _ & Hst).
      specialize (Hall _ _ Hu). unfold is_done in Hall. rewrite Hst in Hall. discriminate. }
    rewrite Hnone in Ilock, Iorder. rewrite app_nil_r in Iorder.
    unfold ser, perm. rewrite Iorder. rewrite Hacts in Ilock, Iouts. split; [split; [done|]|split; [done|]].
    - intros t. rewrite Idone. split.
      + intros (th & o & Ht & Hl & _). destruct (Hthr t) as [[Hn _]|(th' & l & a & Ht' & Ha & Hl' & _)]; [congruence|].
        rewrite Ht in Ht'. injection Ht' as <-. exists a. congruence.
      + intros [a Ha]. destruct (Hthr t) as [[_ Hn]|(th' & l & a' & Ht' & Ha' & Hl' & _)]; [congruence|].
        specialize (Hall _ _ Ht'). unfold is_done in Hall. destruct (th_st th') as [| |o] eqn:Hst; try discriminate.
        exists th', o. split; [done|]. split; [congruence|done].
    - intros t a Ha. destruct (Hthr t) as [[_ Hn]|(th' & l & a' & Ht' & Ha' & Hl' & _)]; [congruence|].
      specialize (Hall _ _ Ht'). unfold is_done in Hall. destruct (th_st th') as [| |o] eqn:Hst; try discriminate.
      assert (th_locked th' = true) as Hlt by congruence.
      destruct (Iouts _ _ _ Ht' Hlt Hst) as (o' & Ho' & Hrel).
      exists o, o'. split; [|done]. unfold outcome_of. by rewrite Ht', Hst.
  Qed.
End Serial.
