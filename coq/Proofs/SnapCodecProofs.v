(** Round trip of the snapshot encoding: decoding what was encoded gives back the value, the entry,
    the database, the whole state - for every value of every type and every byte string, under the
    three library round-trip hypotheses of [codec_ok]. *)
From stdpp Require Import gmap strings sorting.
From EV Require Import Base.Str Model.Value Model.Keyspace Model.SnapCodec.
Local Open Scope Z_scope.

Lemma snap_insert_sorted_perm {A} (leb : A -> A -> bool) x l : insert_sorted leb x l ≡ₚ x :: l.
Proof.
  induction l as [|y l IH]; simpl; [done|]. destruct (leb x y); [done|].
  rewrite IH. apply Permutation_swap.
Qed.
Lemma snap_sort_by_perm {A} (leb : A -> A -> bool) l : sort_by leb l ≡ₚ l.
Proof.
  unfold sort_by. induction l as [|x l IH]; simpl; [done|].
  rewrite snap_insert_sorted_perm. by f_equiv.
Qed.

Lemma mapM_map_rt {A B} (f : B -> option A) (g : A -> B) (l : list A) :
  (forall x, f (g x) = Some x) -> mapM f (map g l) = Some l.
Proof.
  intros Hrt. apply mapM_Some. induction l as [|x l IH]; simpl; constructor; auto.
Qed.

Lemma sorted_pairs_to_map {A} (m : gmap string A) : list_to_map (sorted_pairs m) = m.
Proof.
  unfold sorted_pairs.
  rewrite (list_to_map_proper (sort_by pair_leb (map_to_list m)) (map_to_list m)).
  - apply list_to_map_to_list.
  - rewrite snap_sort_by_perm. apply NoDup_fst_map_to_list.
  - apply snap_sort_by_perm.
Qed.

Lemma sorted_elems_to_set (m : gset string) : list_to_set (sorted_elems m) = m.
Proof.
  unfold sorted_elems, sort_strings. apply leibniz_equiv.
  rewrite snap_sort_by_perm. apply list_to_set_elements.
Qed.

Section rt.
Variable c : codec.
Hypothesis Hc : codec_ok c.

Lemma dec_enc_string s : dec_string c (enc_string c s) = Some s.
Proof. unfold enc_string. destruct (utf8_valid c s); simpl; [done|]. apply (b64_rt c Hc). Qed.

Lemma dec_enc_scalar x : dec_scalar c (enc_scalar c x) = Some x.
Proof.
  destruct x as [s|z|f]; simpl.
  - unfold enc_string. destruct (utf8_valid c s); simpl; [done|]. by rewrite (b64_rt c Hc).
  - by rewrite (int_rt c Hc).
  - by rewrite (float_rt c Hc).
Qed.

Lemma dec_enc_value v : dec_value c (enc_value c v).1 (enc_value c v).2 = Some v.
Proof.
  destruct v as [|x|l|h|m|z]; unfold dec_value; simpl.
  - done.
  - by rewrite dec_enc_scalar.
  - rewrite (mapM_map_rt _ _ l dec_enc_string). done.
  - rewrite (mapM_map_rt (dec_pair c (dec_scalar c)) (fun p => (enc_string c p.1, enc_scalar c p.2))).
    + simpl. by rewrite sorted_pairs_to_map.
    + intros [f x]. unfold dec_pair; simpl. by rewrite dec_enc_string, dec_enc_scalar.
  - rewrite (mapM_map_rt _ _ (sorted_elems m) dec_enc_string). simpl. by rewrite sorted_elems_to_set.
  - rewrite (mapM_map_rt (dec_pair c (float_parse c)) (fun p => (enc_string c p.1, float_fmt c p.2))).
    + simpl. by rewrite sorted_pairs_to_map.
    + intros [f x]. unfold dec_pair; simpl. by rewrite dec_enc_string, (float_rt c Hc).
Qed.

Lemma dec_enc_entry e : dec_entry c (enc_entry c e) = Some e.
Proof.
  destruct e as [v dl]. unfold enc_entry, dec_entry. simpl.
  pose proof (dec_enc_value v) as Hv. destruct (enc_value c v) as [t j]. simpl in *. by rewrite Hv.
Qed.

Lemma dec_enc_db db : dec_db c (enc_db c db) = Some db.
Proof.
  unfold dec_db, enc_db.
  rewrite (mapM_map_rt (dec_member c) (fun p => (enc_string c p.1, enc_entry c p.2))).
  - simpl. by rewrite list_to_map_to_list.
  - intros [k e]. unfold dec_member; simpl. by rewrite dec_enc_string, dec_enc_entry.
Qed.

Theorem dec_enc_state dbs : dec_state c (enc_state c dbs) = Some dbs.
Proof.
  unfold dec_state, enc_state.
  rewrite (mapM_map_rt (dec_dbmember c) (fun p => (p.1, enc_db c p.2))).
  - simpl. by rewrite list_to_map_to_list.
  - intros [d db]. unfold dec_dbmember; simpl. by rewrite dec_enc_db.
Qed.

End rt.

(** Why the key names must go through an injective encoding: if two different names are written as
    the same member name (what encoding/json does to bytes that are not valid UTF-8: each becomes
    U+FFFD), no decoder gives both keys back. *)
Lemma keyname_collision_loses_a_key (kn : string -> string) (dec : list (string * entry) -> option dbmap) k1 k2 (e : entry) :
  k1 <> k2 -> kn k1 = kn k2 ->
  ~ (forall db : dbmap, dec (map (fun p => (kn p.1, p.2)) (map_to_list db)) = Some db).
Proof.
  intros Hne Hkn Hall.
  pose proof (Hall {[k1 := e]}) as H1. pose proof (Hall {[k2 := e]}) as H2.
  rewrite map_to_list_singleton in H1, H2. simpl in *. rewrite Hkn in H1. rewrite H1 in H2.
  assert (H3 : ({[k1 := e]} : dbmap) = {[k2 := e]}) by congruence.
  apply (f_equal (fun m : dbmap => m !! k1)) in H3.
  rewrite lookup_singleton, lookup_singleton_ne in H3 by done. done.
Qed.
