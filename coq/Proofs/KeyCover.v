(** C06, key coverage: the keys a program passes to the keyspace primitives stay within given sets.

    [within R W p]: every key [p] passes to a *reading* primitive ([KeysExist], [GetExpiry],
    [GetValues]) satisfies [R], every key it passes to a *writing* primitive ([SetValues],
    [SetExpiry], [DeleteKey]) satisfies [W] — whatever the primitives answer (the continuations are
    quantified over all their arguments).  There is no constructor for [FlushDb] / [FlushAll]: a
    program that flushes is within no key set.

    Soundness, for every such program, every database, every state without a memory limit:
    - [within_writes_only]: a key of the selected database outside [W], and every key of every other
      database, shows the same entry (value and deadline) before and after;
    - [within_frame]: when [W] is included in [R], two states that agree on the keys of the selected
      database satisfying [R] (and on the clock) give the same reply, and the final states agree on
      those keys again: the reply and the effect do not depend on any key outside [R] nor on any other
      database.  ([KeysExist] / [GetValues] hand a *function* to the continuation, hence
      [functional_extensionality], as in [ProgLemmas.run_seq_congruence].) *)
From stdpp Require Import gmap strings.
From Coq Require Import FunctionalExtensionality.
From EV Require Import Base.Str Model.Value Model.Keyspace Model.Reply Model.Prog.
From EV Require Import Proofs.KeyspaceLemmas Proofs.ProgLemmas.
Local Open Scope Z_scope.

Inductive within {A} (R W : string -> Prop) : prog A -> Prop :=
| wi_ret r : within R W (Ret r)
| wi_ke ks k : Forall R ks -> (forall f, within R W (k f)) -> within R W (KeysExist ks k)
| wi_ge key k : R key -> (forall o, within R W (k o)) -> within R W (GetExpiry key k)
| wi_gv ks k : Forall R ks -> (forall f, within R W (k f)) -> within R W (GetValues ks k)
| wi_sv kvs k : Forall W (map fst kvs) -> (forall b, within R W (k b)) -> within R W (SetValues kvs k)
| wi_sx key t touch k : W key -> within R W k -> within R W (SetExpiry key t touch k)
| wi_del key k : W key -> within R W k -> within R W (DeleteKey key k)
| wi_now k : (forall t, within R W (k t)) -> within R W (Now k)
| wi_db k : (forall d, within R W (k d)) -> within R W (GetDb k).

Lemma Forall_elem {X} (P : X -> Prop) l x : Forall P l -> x ∈ l -> P x.
Proof. intros H Hx. by apply (proj1 (list.Forall_forall P l) H). Qed.

(** The list form used with the result of a key-extraction function. *)
Definition within_l {A} (R W : list string) (p : prog A) : Prop :=
  within (fun k => k ∈ R) (fun k => k ∈ W) p.

Lemma within_mono {A} (R W R' W' : string -> Prop) (p : prog A) :
  (forall k, R k -> R' k) -> (forall k, W k -> W' k) -> within R W p -> within R' W' p.
Proof.
  intros HR HW. induction 1; constructor; auto;
    try (eapply Forall_impl; [eassumption|auto]).
Qed.

(** A program that touches no key at all is within every pair of sets. *)
Lemma within_nothing {A} (R W : string -> Prop) (p : prog A) :
  within (fun _ => False) (fun _ => False) p -> within R W p.
Proof. apply within_mono; tauto. Qed.

Lemma within_bind {A B} (R W : string -> Prop) (p : prog A) (f : A -> prog B) :
  within R W p -> (forall a, within R W (f a)) -> within R W (bind p f).
Proof. intros Hp Hf. induction Hp; simpl; try constructor; auto. Qed.

(** * The write half *)
Theorem within_writes_only {A} (R W : string -> Prop) (p : prog A) : within R W p -> forall d s,
  st_maxmem s = 0 ->
  (forall d' k, d' <> d \/ ~ W k -> lentry (fst (run_seq d p s)) d' k = lentry s d' k) /\
  st_now (fst (run_seq d p s)) = st_now s /\
  st_maxmem (fst (run_seq d p s)) = 0.
Proof.
  induction 1 as [r|ks k Hks _ IH|key k Hk _ IH|ks k Hks _ IH|kvs k Hkvs _ IH|key t touch k Hk _ IH
                  |key k Hk _ IH|k _ IH|k _ IH]; intros d s Hm; cbn [run_seq].
  - done.
  - by apply IH.
  - by apply IH.
  - pose proof (get_values_full s d ks) as Hg. destruct (get_values s d ks) as [s' f].
    destruct Hg as [(Hl & Hn & Hmm & _) _].
    destruct (IH f d s') as (I1 & I2 & I3); [congruence|].
    split; [|split; [congruence|done]]. intros d' k' Hd. rewrite I1 by done. apply Hl.
  - pose proof (set_values_spec s d kvs Hm) as Hs. destruct (set_values s d kvs) as [s' ok].
    destruct Hs as (_ & L & N & M & _).
    destruct (IH ok d s') as (I1 & I2 & I3); [congruence|].
    split; [|split; [congruence|done]]. intros d' k' Hd. rewrite I1 by done. rewrite L.
    destruct (decide (d = d')) as [<-|]; [|done].
    destruct Hd as [Hd|Hd]; [done|].
    replace (assoc_last k' kvs) with (@None value); [done|].
    symmetry. apply assoc_last_None. intros Hin. apply Hd.
    by eapply Forall_elem.
  - destruct (set_expiry_fields s d key t) as (N & M & _).
    destruct (IH d (set_expiry s d key t)) as (I1 & I2 & I3); [congruence|].
    split; [|split; [congruence|done]]. intros d' k' Hd. rewrite I1 by done.
    rewrite set_expiry_lentry. destruct (decide _) as [[<- <-]|]; [|done].
    destruct Hd as [Hd|Hd]; done.
  - destruct (IH d (delete_key s d key)) as (I1 & I2 & I3); [by rewrite delete_key_maxmem|].
    split; [|split; [by rewrite I2, delete_key_now|done]]. intros d' k' Hd. rewrite I1 by done.
    rewrite delete_key_lentry. destruct (decide _) as [[<- <-]|]; [|done].
    destruct Hd as [Hd|Hd]; done.
  - by apply IH.
  - by apply IH.
Qed.

(** * The read half: behaviour is a function of the keys in [R] of the selected database *)
Definition keys_agree (R : string -> Prop) (d : Z) (s1 s2 : state) : Prop :=
  (forall k, R k -> lentry s2 d k = lentry s1 d k) /\ st_now s2 = st_now s1 /\
  st_maxmem s2 = st_maxmem s1 /\ st_noevict s2 = st_noevict s1.

Lemma same_view_keys_agree R d s1 s2 : same_view s1 s2 -> keys_agree R d s1 s2.
Proof. intros (H1 & H2 & H3 & H4). repeat split; auto. Qed.

Lemma keys_agree_trans_view R d a a' b b' :
  same_view a a' -> same_view b b' -> keys_agree R d a b -> keys_agree R d a' b'.
Proof.
  intros (A1 & A2 & A3 & A4) (B1 & B2 & B3 & B4) (H1 & H2 & H3 & H4).
  repeat split; try congruence. intros k Hk. rewrite B1, A1. by apply H1.
Qed.

Theorem within_frame {A} (R W : string -> Prop) (p : prog A) :
  within R W p -> (forall k, W k -> R k) -> forall d s1 s2,
  keys_agree R d s1 s2 -> st_maxmem s1 = 0 ->
  snd (run_seq d p s1) = snd (run_seq d p s2) /\
  keys_agree R d (fst (run_seq d p s1)) (fst (run_seq d p s2)) /\
  st_maxmem (fst (run_seq d p s1)) = 0.
Proof.
  intros Hp HWR.
  induction Hp as [r|ks k Hks _ IH|key k Hk _ IH|ks k Hks _ IH|kvs k Hkvs _ IH|key t touch k Hk _ IH
                  |key k Hk _ IH|k _ IH|k _ IH]; intros d s1 s2 Hv Hm; cbn [run_seq].
  - done.
  - replace (keys_exist s2 d ks) with (keys_exist s1 d ks); [by apply IH|].
    apply functional_extensionality. intros x. rewrite !keys_exist_lentry.
    destruct (str_in x ks) eqn:Hx; [|done]. apply str_in_spec in Hx.
    destruct Hv as (Hv & _). by rewrite (Hv x (Forall_elem _ _ _ Hks Hx)).
  - rewrite !get_expiry_lentry. destruct Hv as (Hl & Hr). rewrite (Hl key Hk). apply IH; [|done].
    by split.
  - pose proof (get_values_full s1 d ks) as H1. pose proof (get_values_full s2 d ks) as H2.
    destruct (get_values s1 d ks) as [s1' f1]. destruct (get_values s2 d ks) as [s2' f2].
    destruct H1 as [V1 F1]. destruct H2 as [V2 F2].
    replace f2 with f1.
    + apply IH.
      * eapply keys_agree_trans_view; eauto.
      * destruct V1 as (_ & _ & -> & _). done.
    + apply functional_extensionality. intros x. rewrite F1, F2.
      destruct (bool_decide (x ∈ ks)) eqn:Hx; [|done]. apply bool_decide_eq_true in Hx.
      unfold live. destruct Hv as (Hv & _). by rewrite (Hv x (Forall_elem _ _ _ Hks Hx)).
  - assert (Hm2 : st_maxmem s2 = 0) by (destruct Hv as (_ & _ & -> & _); done).
    pose proof (set_values_spec s1 d kvs Hm) as H1. pose proof (set_values_spec s2 d kvs Hm2) as H2.
    destruct (set_values s1 d kvs) as [s1' ok1]. destruct (set_values s2 d kvs) as [s2' ok2].
    destruct H1 as (-> & L1 & N1 & M1 & E1). destruct H2 as (-> & L2 & N2 & M2 & E2).
    apply IH; [|congruence]. destruct Hv as (Hl & Hn & Hmm & He).
    repeat split; try congruence. intros k' Hk'. rewrite L1, L2, (Hl k' Hk'). done.
  - destruct (set_expiry_fields s1 d key t) as (N1 & M1 & E1).
    destruct (set_expiry_fields s2 d key t) as (N2 & M2 & E2).
    apply IH; [|congruence]. destruct Hv as (Hl & Hn & Hmm & He).
    repeat split; try congruence.
    intros k' Hk'. rewrite !set_expiry_lentry, (Hl k' Hk'), Hn.
    destruct (decide _) as [[_ <-]|]; [|done]. by rewrite (Hl key (HWR key Hk)).
  - apply IH; [|by rewrite delete_key_maxmem]. destruct Hv as (Hl & Hn & Hmm & He).
    repeat split; rewrite ?delete_key_now, ?delete_key_maxmem, ?delete_key_noevict; try congruence.
    intros k' Hk'. rewrite !delete_key_lentry, (Hl k' Hk'). done.
  - destruct Hv as (Hl & Hn & Hr1 & Hr2). rewrite <- Hn. apply IH; [|done]. by repeat split.
  - by apply IH.
Qed.

(** The reply of a program within [R] / [W] is not changed by changing, adding or removing any key
    outside [R] (in any database), nor anything in another database. *)
Corollary within_reply_independent {A} (R W : string -> Prop) (p : prog A) d s1 s2 :
  within R W p -> (forall k, W k -> R k) -> keys_agree R d s1 s2 -> st_maxmem s1 = 0 ->
  snd (run_seq d p s1) = snd (run_seq d p s2).
Proof. intros Hp HWR Hv Hm. by destruct (within_frame R W p Hp HWR d s1 s2 Hv Hm). Qed.

(** * A program that flushes is within nothing *)
Lemma flushdb_not_within {A} R W (k : prog A) : ~ within R W (FlushDb k).
Proof. inversion 1. Qed.
Lemma flushall_not_within {A} R W (k : prog A) : ~ within R W (FlushAll k).
Proof. inversion 1. Qed.
