(** C14: the hash handlers refine the reference maps of [Spec/SpecHash.v]. *)
From stdpp Require Import gmap strings.
From EV Require Import Base.Str Model.Value Model.Adapt Model.Keyspace Model.Reply Model.Prog Model.HashVal Model.CmdHash.
From EV Require Import Spec.SpecHash Proofs.KeyspaceLemmas Proofs.HashPure.
Local Open Scope Z_scope.

(** * Abstraction: what hash commands can see of database [d] *)
Definition hclassify (v : value) : hval := match v with VHash h => HHash h | _ => HOther end.
Definition hview (s : state) (d : Z) : hspec :=
  omap (fun e => if expired (st_now s) e then None else Some (hclassify (e_val e))) (get_db s d).

Lemma hview_lookup s d k : hview s d !! k = hclassify <$> live s d k.
Proof.
  unfold hview, live, lentry. rewrite lookup_omap.
  destruct (get_db s d !! k) as [e|]; simpl; [|done]. by destruct (expired _ e).
Qed.

Lemma hview_ext s' d m :
  (forall k, hclassify <$> live s' d k = m !! k) -> hview s' d = m.
Proof. intros H. apply map_eq. intros k. rewrite hview_lookup. apply H. Qed.

Lemma same_view_hview s s' d : same_view s s' -> hview s' d = hview s d.
Proof.
  intros (H & _). apply hview_ext. intros k. rewrite hview_lookup. unfold live. by rewrite H.
Qed.

(** What a step may do to the entries: nothing outside [d]; inside [d] an entry is untouched, or
    is (now) a hash that kept the deadline it had.  No hash command removes a key. *)
Definition hash_frame (s s' : state) (d : Z) : Prop :=
  (forall d' k, d' <> d -> lentry s' d' k = lentry s d' k) /\
  (forall k, lentry s' d k = lentry s d k \/
             (exists h, lentry s' d k = Some (Entry (VHash h) (dl_of (lentry s d k))))) /\
  st_now s' = st_now s /\ st_maxmem s' = st_maxmem s /\ st_noevict s' = st_noevict s.

Lemma same_view_hframe s s' d : same_view s s' -> hash_frame s s' d.
Proof. intros (H1 & H2 & H3 & H4). repeat split; auto. Qed.

Lemma hash_frame_trans_view s s1 s' d :
  same_view s s1 -> hash_frame s1 s' d -> hash_frame s s' d.
Proof.
  intros (V1 & V2 & V3 & V4) (F1 & F2 & F3 & F4 & F5). repeat split; try congruence.
  - intros d' k Hd. rewrite F1 by done. apply V1.
  - intros k. destruct (F2 k) as [H|[h H]].
    + left. rewrite H. apply V1.
    + right. exists h. rewrite H. by rewrite V1.
Qed.

(** Writing one hash value after some reads. *)
Lemma hput_one s s1 d k h' s2 ok :
  st_maxmem s = 0 -> same_view s s1 -> set_values s1 d [(k, VHash h')] = (s2, ok) ->
  ok = true /\ hview s2 d = <[k := HHash h']> (hview s d) /\ hash_frame s s2 d.
Proof.
  intros Hm Hv Hs. assert (Hm1 : st_maxmem s1 = 0) by (destruct Hv as (_ & _ & -> & _); done).
  pose proof (set_values_spec s1 d [(k, VHash h')] Hm1) as H. rewrite Hs in H.
  destruct H as (-> & He & Hn & Hmm & Hne). split; [done|]. split.
  - apply hview_ext. intros k0. unfold live. rewrite He, decide_True by done. simpl.
    destruct (String.eqb k0 k) eqn:E.
    + apply String.eqb_eq in E. subst. by rewrite lookup_insert.
    + apply String.eqb_neq in E. rewrite lookup_insert_ne by done.
      rewrite <- (same_view_hview _ _ _ Hv). by rewrite hview_lookup.
  - eapply hash_frame_trans_view; [exact Hv|]. repeat split; auto.
    + intros d' k0 Hd. rewrite He. by rewrite decide_False.
    + intros k0. rewrite He, decide_True by done. simpl.
      destruct (String.eqb k0 k); [right; eauto|by left].
Qed.

(** The statement proved of every handler. *)
Definition hrefines (h : list string -> prog reply) (argv : list string) : Prop :=
  forall s d, st_maxmem s = 0 ->
  let '(s', r) := run_seq d (h argv) s in
  let '(m', r') := spec_hash (hview s d) argv in
  r = r' /\ hview s' d = m' /\ hash_frame s s' d /\ (r = RErr -> same_view s s').

Lemma live_hash s d k h :
  hview s d !! k = Some (HHash h) -> live s d k = Some (VHash h).
Proof.
  rewrite hview_lookup. destruct (live s d k) as [v|]; [|done]. destruct v; simpl; try done.
  by intros [= ->].
Qed.
Lemma live_other s d k :
  hview s d !! k = Some HOther -> exists v, live s d k = Some v /\ as_hash (Some v) = None.
Proof.
  rewrite hview_lookup. destruct (live s d k) as [v|]; [|done]. destruct v; simpl; try done; eauto.
Qed.

Lemma exists_iff_hview s d k :
  bool_decide (is_Some (lentry s d k)) = bool_decide (is_Some (hview s d !! k)).
Proof.
  rewrite hview_lookup. unfold live. destruct (lentry s d k); simpl; done.
Qed.

(** * Reading one key *)
Ltac use_get_values s d ks :=
  let s1 := fresh "s1" in let f := fresh "f" in let Hv := fresh "Hview" in let Hf := fresh "Hf" in
  pose proof (get_values_spec s d ks) as Hv;
  destruct (get_values s d ks) as [s1 f]; destruct Hv as [Hv Hf].

Ltac finish_same :=
  match goal with
  | H : same_view ?s ?s' |- _ /\ hview ?s' _ = _ /\ hash_frame ?s ?s' _ /\ _ =>
      split; [reflexivity|split; [apply same_view_hview; exact H|split; [apply same_view_hframe; exact H|intros _; exact H]]]
  | |- _ /\ hview ?s _ = _ /\ hash_frame ?s ?s _ /\ _ =>
      split; [reflexivity|split; [reflexivity|split; [apply same_view_hframe; apply same_view_refl|intros _; apply same_view_refl]]]
  end.

(** The common tail of every reader: existence test, read, type test, answer. *)
Definition read_tail (key : string) (absent : reply) (f : hmap -> reply) (ex : string -> bool) : prog reply :=
  if negb (ex key) then Ret absent else
  GetValues [key] (fun vals =>
  match as_hash (vals key) with
  | None => Ret RErr
  | Some h => Ret (f h)
  end).

Lemma read_tail_refines s d k absent f :
  let '(s', r) := run_seq d (read_tail k absent f (keys_exist s d [k])) s in
  let '(m', r') := read_hash (hview s d) k absent f in
  r = r' /\ hview s' d = m' /\ hash_frame s s' d /\ (r = RErr -> same_view s s').
Proof.
  unfold read_tail, read_hash.
  rewrite keys_exist_single, exists_iff_hview.
  destruct (hview s d !! k) as [[h|]|] eqn:Hk; cbn -[hview].
  - use_get_values s d [k]. cbn -[hview]. rewrite Hf by set_solver.
    rewrite (live_hash _ _ _ _ Hk). cbn -[hview]. finish_same.
  - use_get_values s d [k]. cbn -[hview]. rewrite Hf by set_solver.
    destruct (live_other _ _ _ Hk) as (v & -> & Hv). rewrite Hv. cbn -[hview]. finish_same.
  - finish_same.
Qed.

Ltac argv_cases argv :=
  destruct argv as [|?c [|?a1 [|?a2 [|?a3 [|?a4 [|?a5 ?rest]]]]]].

Lemma hlen_refines argv c : argv = c :: tl argv -> lower c = "hlen" -> hrefines handle_hlen argv.
Proof.
  intros Hargv Hc s d Hm. unfold spec_hash, handle_hlen, hash_reader.
  argv_cases argv; try discriminate Hargv; injection Hargv as <-; rewrite Hc; cbn -[hview];
    try finish_same.
  apply (read_tail_refines s d a1 (RInt 0) (fun h => RInt (hsize h))).
Qed.

Lemma hvals_refines argv c : argv = c :: tl argv -> lower c = "hvals" -> hrefines handle_hvals argv.
Proof.
  intros Hargv Hc s d Hm. unfold spec_hash, handle_hvals, hash_reader.
  argv_cases argv; try discriminate Hargv; injection Hargv as <-; rewrite Hc; cbn -[hview];
    try finish_same.
  apply (read_tail_refines s d a1 (RArr []) hvals_reply).
Qed.

Lemma hkeys_refines argv c : argv = c :: tl argv -> lower c = "hkeys" -> hrefines handle_hkeys argv.
Proof.
  intros Hargv Hc s d Hm. unfold spec_hash, handle_hkeys, hash_reader.
  argv_cases argv; try discriminate Hargv; injection Hargv as <-; rewrite Hc; cbn -[hview];
    try finish_same.
  apply (read_tail_refines s d a1 (RArr []) hkeys_reply).
Qed.

Lemma hgetall_refines argv c : argv = c :: tl argv -> lower c = "hgetall" -> hrefines handle_hgetall argv.
Proof.
  intros Hargv Hc s d Hm. unfold spec_hash, handle_hgetall, hash_reader.
  argv_cases argv; try discriminate Hargv; injection Hargv as <-; rewrite Hc; cbn -[hview];
    try finish_same.
  apply (read_tail_refines s d a1 (RArr []) hgetall_reply).
Qed.

Lemma hexists_refines argv c : argv = c :: tl argv -> lower c = "hexists" -> hrefines handle_hexists argv.
Proof.
  intros Hargv Hc s d Hm. unfold spec_hash, handle_hexists.
  argv_cases argv; try discriminate Hargv; injection Hargv as <-; rewrite Hc; cbn -[hview];
    try finish_same.
  pose proof (read_tail_refines s d a1 (RInt 0)
                (fun h => RInt (match h !! a2 with Some _ => 1 | None => 0 end))) as H.
  unfold read_tail, harg in *. cbn -[hview] in H.
  destruct (run_seq d _ s) as [s' r]. unfold read_hash in *.
  destruct (hview s d !! a1) as [[h|]|]; try exact H.
  by rewrite <- hexists_eq.
Qed.

(** HGET / HMGET / HSTRLEN: any number of fields. *)
Lemma hget_refines argv c :
  argv = c :: tl argv -> (lower c = "hget" \/ lower c = "hmget") -> hrefines handle_hget argv.
Proof.
  intros Hargv Hc s d Hm. unfold spec_hash, handle_hget.
  destruct argv as [|c0 [|k [|f fs]]]; try discriminate Hargv; injection Hargv as ->.
  1,2: destruct Hc as [-> | ->]; cbn -[hview]; finish_same.
  assert (Harity : (length (c :: k :: f :: fs) <? 3)%nat = false) by done.
  rewrite Harity. clear Harity. unfold harg. cbn [nth skipn].
  destruct Hc as [-> | ->]; cbn -[hview];
    apply (read_tail_refines s d k RNil (fun h => RArr (map (fun x => field_reply (h !! x)) (f :: fs)))).
Qed.

Lemma hstrlen_refines argv c :
  argv = c :: tl argv -> lower c = "hstrlen" -> hrefines handle_hstrlen argv.
Proof.
  intros Hargv Hc s d Hm. unfold spec_hash, handle_hstrlen.
  destruct argv as [|c0 [|k [|f fs]]]; try discriminate Hargv; injection Hargv as ->.
  1,2: rewrite Hc; cbn -[hview]; finish_same.
  assert (Harity : (length (c :: k :: f :: fs) <? 3)%nat = false) by done.
  rewrite Harity. clear Harity. unfold harg. cbn [nth skipn].
  rewrite Hc; cbn -[hview];
    apply (read_tail_refines s d k RNil (fun h => RArr (map (fun x => strlen_reply (h !! x)) (f :: fs)))).
Qed.

Lemma hrandfield_refines argv c :
  argv = c :: tl argv -> lower c = "hrandfield" -> hrefines handle_hrandfield argv.
Proof.
  intros Hargv Hc s d Hm. unfold spec_hash, handle_hrandfield.
  argv_cases argv; try discriminate Hargv; injection Hargv as <-; rewrite Hc;
    unfold harg; cbn -[hview parse_int eq_fold]; try finish_same.
  - apply (read_tail_refines s d a1 (RArr []) (fun h => RArr (with_vals h false (hrand_pick h 1)))).
  - destruct (parse_int a2) as [n|]; cbn -[hview]; [|finish_same].
    apply (read_tail_refines s d a1 (RArr []) (fun h => RArr (with_vals h false (hrand_pick h n)))).
  - destruct (parse_int a2) as [n|]; cbn -[hview eq_fold]; [|finish_same].
    destruct (eq_fold a3 "withvalues"); cbn -[hview]; [|finish_same].
    apply (read_tail_refines s d a1 (RArr []) (fun h => RArr (with_vals h true (hrand_pick h n)))).
Qed.

(** * Writers *)
Ltac do_hput s :=
  match goal with
  | Hm : st_maxmem s = 0, Hv : same_view s ?s1 |- context [set_values ?s1 ?d [(?k, VHash ?h')]] =>
      let s2 := fresh "s2" in let ok := fresh "ok" in let Hs := fresh "Hset" in
      destruct (set_values s1 d [(k, VHash h')]) as [s2 ok] eqn:Hs;
      let H := fresh "Hput" in
      pose proof (hput_one s s1 d k h' s2 ok Hm Hv Hs) as H;
      destruct H as (-> & ? & ?); cbn -[hview];
      split; [reflexivity|split; [assumption|split; [assumption|intros ?; discriminate]]]
  end.

Ltac hview_cases s d k H :=
  rewrite ?keys_exist_single, ?exists_iff_hview;
  destruct (hview s d !! k) as [[?h|]|] eqn:H; cbn -[hview entries_of union difference hsize insert].

Ltac read_hash_val Hk :=
  match goal with
  | Hf : forall k, k ∈ ?ks -> ?f k = live ?s ?d k |- context [?f ?k] =>
      rewrite (Hf k) by set_solver;
      first [ rewrite (live_hash _ _ _ _ Hk)
            | let v := fresh "v" in let Hv := fresh "Hv" in
              destruct (live_other _ _ _ Hk) as (v & -> & Hv); rewrite ?Hv ];
      cbn -[hview entries_of union difference hsize insert]
  end.

Lemma hset_refines argv c :
  argv = c :: tl argv -> (lower c = "hset" \/ lower c = "hsetnx") -> hrefines handle_hset argv.
Proof.
  intros Hargv Hc s d Hm. unfold spec_hash, handle_hset.
  destruct argv as [|c0 [|k [|f [|v rest]]]]; try discriminate Hargv; injection Hargv as ->.
  1-3: destruct Hc as [-> | ->]; cbn -[hview]; finish_same.
  assert (Harity : (length (c :: k :: f :: v :: rest) <? 4)%nat = false) by done.
  rewrite Harity. clear Harity. unfold harg. cbn [nth skipn].
  assert (Hodd : Nat.odd (length (f :: v :: rest)) = Nat.odd (length rest)) by done.
  rewrite Hodd. clear Hodd.
  pose proof (same_view_refl s) as Hrefl.
  destruct Hc as [Hc | Hc]; rewrite Hc; cbn -[hview entries_of union difference hsize insert];
    (destruct (Nat.odd (length rest)); cbn -[hview entries_of union difference hsize insert]; [finish_same|]);
    hview_cases s d k Hk.
  all: try (use_get_values s d [k]; cbn -[hview entries_of union difference hsize insert]; read_hash_val Hk).
  all: do_hput s.
Qed.

Ltac hcbn := cbn -[hview entries_of union difference hsize insert singletonM parse_incr hincr hdel_loop remove_fields].

Ltac hview_cases' s d k H :=
  rewrite ?keys_exist_single, ?exists_iff_hview;
  destruct (hview s d !! k) as [[?h|]|] eqn:H; hcbn.

Ltac read_hash_val' Hk :=
  match goal with
  | Hf : forall k, k ∈ ?ks -> ?f k = live ?s ?d k |- context [?f ?k] =>
      rewrite (Hf k) by set_solver;
      first [ rewrite (live_hash _ _ _ _ Hk)
            | let v := fresh "v" in let Hv := fresh "Hv" in
              destruct (live_other _ _ _ Hk) as (v & -> & Hv); rewrite ?Hv ];
      hcbn
  end.

Lemma val_reply_not_err x : val_reply x <> RErr.
Proof. destruct x; discriminate. Qed.

Ltac do_hput' s :=
  match goal with
  | Hm : st_maxmem s = 0, Hv : same_view s ?s1 |- context [set_values ?s1 ?d [(?k, VHash ?h')]] =>
      let s2 := fresh "s2" in let ok := fresh "ok" in let Hs := fresh "Hset" in
      destruct (set_values s1 d [(k, VHash h')]) as [s2 ok] eqn:Hs;
      let H := fresh "Hput" in
      pose proof (hput_one s s1 d k h' s2 ok Hm Hv Hs) as H;
      destruct H as (-> & ? & ?); hcbn;
      split; [reflexivity|split; [assumption|split; [assumption|
        intros Hr; first [discriminate Hr | exfalso; exact (val_reply_not_err _ Hr)]]]]
  end.

Lemma hincrby_refines argv c :
  argv = c :: tl argv -> (lower c = "hincrby" \/ lower c = "hincrbyfloat") -> hrefines handle_hincrby argv.
Proof.
  intros Hargv Hc s d Hm. unfold spec_hash, handle_hincrby.
  pose proof (same_view_refl s) as Hrefl.
  argv_cases argv; try discriminate Hargv; injection Hargv as <-; unfold harg, eq_fold; cbn [nth];
    change (lower "hincrbyfloat") with "hincrbyfloat";
    (destruct Hc as [Hc | Hc]; rewrite Hc; hcbn); try finish_same.
  all: match goal with |- context [parse_incr ?b ?x] => destruct (parse_incr b x) as [inc|]; hcbn; [|finish_same] end.
  all: hview_cases' s d a1 Hk.
  all: try (use_get_values s d [a1]; hcbn; read_hash_val' Hk).
  all: try finish_same.
  all: try match goal with |- context [hincr ?a ?b] => destruct (hincr a b) as [x|]; hcbn; [|finish_same] end.
  all: do_hput' s.
Qed.

Lemma hdel_refines argv c :
  argv = c :: tl argv -> lower c = "hdel" -> hrefines handle_hdel argv.
Proof.
  intros Hargv Hc s d Hm. unfold spec_hash, handle_hdel.
  destruct argv as [|c0 [|k [|f fs]]]; try discriminate Hargv; injection Hargv as ->.
  1,2: rewrite Hc; cbn -[hview]; finish_same.
  assert (Harity : (length (c :: k :: f :: fs) <? 3)%nat = false) by done.
  rewrite Harity. clear Harity. unfold harg. cbn [nth skipn].
  rewrite Hc. hcbn. hview_cases' s d k Hk.
  - use_get_values s d [k]. hcbn. read_hash_val' Hk.
    rewrite hdel_loop_spec. hcbn. replace (0 + hsize h - hsize (remove_fields (f :: fs) h))
      with (hsize h - hsize (remove_fields (f :: fs) h)) by lia.
    do_hput s.
  - use_get_values s d [k]. hcbn. read_hash_val' Hk. finish_same.
  - finish_same.
Qed.

(** * Any command word, any argument vector *)
Definition exec_hash (d : Z) (argv : list string) (s : state) : state * reply :=
  match argv with
  | [] => (s, RErr)
  | c :: _ => match hash_handler (lower c) with
              | Some h => run_seq d (h argv) s
              | None => (s, RErr)
              end
  end.

Ltac solve_with lem name :=
  match goal with
  | E : lower _ = name, Ha : _ :: _ = _ :: tl _, Hm : st_maxmem _ = 0 |- _ =>
      exact (lem _ _ Ha E _ _ Hm)
  end.
Ltac solve_with_or lem n1 n2 :=
  match goal with
  | E : lower _ = n1, Ha : _ :: _ = _ :: tl _, Hm : st_maxmem _ = 0 |- _ =>
      exact (lem _ _ Ha (or_introl E) _ _ Hm)
  | E : lower _ = n2, Ha : _ :: _ = _ :: tl _, Hm : st_maxmem _ = 0 |- _ =>
      exact (lem _ _ Ha (or_intror E) _ _ Hm)
  end.

Theorem hash_step_refines argv s d :
  st_maxmem s = 0 ->
  let '(s', r) := exec_hash d argv s in
  let '(m', r') := spec_hash (hview s d) argv in
  r = r' /\ hview s' d = m' /\ hash_frame s s' d /\ (r = RErr -> same_view s s').
Proof.
  intros Hm. destruct argv as [|c args]; [cbn -[hview]; finish_same|].
  unfold exec_hash, hash_handler.
  assert (Hargv : c :: args = c :: tl (c :: args)) by done.
  repeat match goal with
  | |- context [if String.eqb (lower c) ?name then _ else _] =>
      let E := fresh "E" in destruct (String.eqb (lower c) name) eqn:E;
      [apply String.eqb_eq in E|]
  | |- context [if String.eqb (lower c) ?n1 || String.eqb (lower c) ?n2 then _ else _] =>
      let E1 := fresh "E" in let E2 := fresh "E" in
      destruct (String.eqb (lower c) n1) eqn:E1; [apply String.eqb_eq in E1|];
      (destruct (String.eqb (lower c) n2) eqn:E2; [apply String.eqb_eq in E2|]); cbn [orb]
  end.
  all: try solve_with_or hset_refines "hset" "hsetnx".
  all: try solve_with_or hget_refines "hget" "hmget".
  all: try solve_with hstrlen_refines "hstrlen".
  all: try solve_with hvals_refines "hvals".
  all: try solve_with hrandfield_refines "hrandfield".
  all: try solve_with hlen_refines "hlen".
  all: try solve_with hkeys_refines "hkeys".
  all: try solve_with_or hincrby_refines "hincrby" "hincrbyfloat".
  all: try solve_with hgetall_refines "hgetall".
  all: try solve_with hexists_refines "hexists".
  all: try solve_with hdel_refines "hdel".
  (* not a hash command: the reference refuses it too *)
  unfold spec_hash.
  repeat match goal with H : String.eqb (lower c) _ = false |- _ => rewrite H; clear H end.
  cbn -[hview]. finish_same.
Qed.

(** * Whole scripts *)
Fixpoint run_hash_cmds (d : Z) (cmds : list (list string)) (s : state) : state * list reply :=
  match cmds with
  | [] => (s, [])
  | c :: r => let '(s1, x) := exec_hash d c s in
              let '(s2, xs) := run_hash_cmds d r s1 in (s2, x :: xs)
  end.

Theorem hash_script_refines cmds : forall s d,
  st_maxmem s = 0 ->
  let '(s', rs) := run_hash_cmds d cmds s in
  let '(m', rs') := spec_hash_run (hview s d) cmds in
  rs = rs' /\ hview s' d = m' /\ st_maxmem s' = 0.
Proof.
  induction cmds as [|c r IH]; intros s d Hm; cbn -[hview]; [done|].
  pose proof (hash_step_refines c s d Hm) as H1.
  destruct (exec_hash d c s) as [s1 x]. destruct (spec_hash (hview s d) c) as [m1 x'].
  destruct H1 as (-> & Hlv & Hfr & _).
  assert (Hm1 : st_maxmem s1 = 0) by (destruct Hfr as (_ & _ & _ & -> & _); done).
  specialize (IH s1 d Hm1). rewrite Hlv in IH.
  destruct (run_hash_cmds d r s1) as [s2 xs]. destruct (spec_hash_run m1 r) as [m2 xs'].
  destruct IH as (-> & ? & ?). done.
Qed.

(** A hash command that fails changes nothing a client can observe, in any database. *)
Corollary hash_error_changes_nothing argv s d :
  st_maxmem s = 0 -> snd (exec_hash d argv s) = RErr -> same_view s (fst (exec_hash d argv s)).
Proof.
  intros Hm. pose proof (hash_step_refines argv s d Hm) as H.
  destruct (exec_hash d argv s) as [s' r]. destruct (spec_hash (hview s d) argv) as [m' r'].
  simpl. intros Hr. destruct H as (_ & _ & _ & H). by apply H.
Qed.

(** A hash command never touches another database, and inside its own every entry is untouched or
    is a hash that kept its deadline. *)
Corollary hash_step_frame argv s d :
  st_maxmem s = 0 -> hash_frame s (fst (exec_hash d argv s)) d.
Proof.
  intros Hm. pose proof (hash_step_refines argv s d Hm) as H.
  destruct (exec_hash d argv s) as [s' r]. destruct (spec_hash (hview s d) argv) as [m' r'].
  simpl. by destruct H as (_ & _ & H & _).
Qed.

(** * Reading a key of another type fails (every command but HSET / HSETNX, which replace it) *)
Lemma spec_wrongtype m c k rest :
  m !! k = Some HOther -> lower c <> "hset" -> lower c <> "hsetnx" ->
  spec_hash m (c :: k :: rest) = (m, RErr).
Proof.
  intros Hk H1 H2. unfold spec_hash, read_hash.
  apply String.eqb_neq in H1, H2. rewrite H1, H2. cbn [orb].
  repeat match goal with
         | |- context [String.eqb (lower c) ?n] => destruct (String.eqb (lower c) n)
         end; cbn [orb]; try done.
  all: destruct rest as [|a [|b [|x y]]]; rewrite ?Hk; try done.
  all: repeat match goal with
              | |- context [parse_int ?a] => destruct (parse_int a)
              | |- context [parse_incr ?b ?a] => destruct (parse_incr b a)
              | |- context [eq_fold ?a ?b] => destruct (eq_fold a b)
              end; rewrite ?Hk; try done.
Qed.

Theorem hash_wrongtype_fails c k rest s d v :
  st_maxmem s = 0 -> live s d k = Some v -> as_hash (Some v) = None ->
  lower c <> "hset" -> lower c <> "hsetnx" ->
  snd (exec_hash d (c :: k :: rest) s) = RErr /\ same_view s (fst (exec_hash d (c :: k :: rest) s)).
Proof.
  intros Hm Hl Hv H1 H2.
  assert (Hk : hview s d !! k = Some HOther).
  { rewrite hview_lookup, Hl. destruct v; simpl in *; done. }
  pose proof (hash_step_refines (c :: k :: rest) s d Hm) as H.
  rewrite (spec_wrongtype _ _ _ _ Hk H1 H2) in H.
  destruct (exec_hash d (c :: k :: rest) s) as [s' r]. simpl.
  destruct H as (-> & _ & _ & H). split; [done|]. by apply H.
Qed.
