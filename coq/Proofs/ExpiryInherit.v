(** C04, part 3: deadlines are only ever changed by the deadline commands, and a value written under
    a name whose previous value had expired (or that was never there) has no deadline.

    [nosx p]: the program never calls [SetExpiry].  For every such program — every handler of the
    list, hash, set, sorted-set and string modules and every generic handler except SET, GETEX,
    EXPIRE & co. and PERSIST, whose effect on the deadline is given exactly by
    [Proofs/ExpiryCmds.v] — and for every key of every database: the entry a client sees afterwards
    either has no deadline or has the deadline the key had before the command. *)
From stdpp Require Import gmap strings.
From RecordUpdate Require Import RecordSet.
Import RecordSetNotations.
From EV Require Import Base.Str Model.Value Model.Adapt Model.Keyspace Model.Reply Model.Prog.
From EV Require Import Model.CmdList Model.CmdGeneric Model.CmdString Model.Dispatch.
From EV Require Import Model.HashVal Model.CmdHash Model.CmdSet Model.ZSetOps Model.ZSetMulti Model.CmdZSet.
From EV Require Import Proofs.KeyspaceLemmas Proofs.ProgLemmas Proofs.DispatchLemmas Proofs.HandlerClasses.
Local Open Scope Z_scope.

Inductive nosx {R} : prog R -> Prop :=
| nx_ret r : nosx (Ret r)
| nx_ke ks k : (forall f, nosx (k f)) -> nosx (KeysExist ks k)
| nx_ge key k : (forall o, nosx (k o)) -> nosx (GetExpiry key k)
| nx_gv ks k : (forall f, nosx (k f)) -> nosx (GetValues ks k)
| nx_now k : (forall t, nosx (k t)) -> nosx (Now k)
| nx_db k : (forall d, nosx (k d)) -> nosx (GetDb k)
| nx_sv kvs k : (forall b, nosx (k b)) -> nosx (SetValues kvs k)
| nx_del key k : nosx k -> nosx (DeleteKey key k)
| nx_fdb k : nosx k -> nosx (FlushDb k)
| nx_fall k : nosx k -> nosx (FlushAll k).

(** Every visible entry of [s] has no deadline, or the deadline its key had in [s0]. *)
Definition dl_inv (s0 s : state) : Prop :=
  forall d k e', lentry s d k = Some e' ->
    e_dl e' = None \/ exists e0, lentry s0 d k = Some e0 /\ e_dl e0 = e_dl e'.

Lemma dl_inv_refl s : dl_inv s s.
Proof. intros d k e' H. right. by exists e'. Qed.

Lemma dl_inv_view s0 s s' : same_view s s' -> dl_inv s0 s -> dl_inv s0 s'.
Proof. intros (Hl & _) H d k e' He. rewrite Hl in He. by apply H. Qed.

Theorem nosx_deadlines {R} (p : prog R) : nosx p -> forall d s0 s,
  st_maxmem s = 0 -> dl_inv s0 s ->
  dl_inv s0 (fst (run_seq d p s)) /\ st_maxmem (fst (run_seq d p s)) = 0.
Proof.
  induction 1 as [r|ks k _ IH|key k _ IH|ks k _ IH|k _ IH|k _ IH|kvs k _ IH|key k _ IH|k _ IH|k _ IH];
    intros d s0 s Hm Hi; cbn [run_seq].
  - done.
  - by apply IH.
  - by apply IH.
  - pose proof (get_values_full s d ks) as Hg. destruct (get_values s d ks) as [s' f]. destruct Hg as [Hv _].
    apply IH; [destruct Hv as (_ & _ & -> & _); done|by eapply dl_inv_view].
  - by apply IH.
  - by apply IH.
  - pose proof (set_values_spec s d kvs Hm) as Hs. destruct (set_values s d kvs) as [s' ok].
    destruct Hs as (_ & L & _ & M & _). apply IH; [congruence|].
    intros d' k' e' He. rewrite L in He.
    destruct (if decide (d = d') then assoc_last k' kvs else None) as [v|]; [|by apply Hi].
    injection He as <-. simpl. destruct (lentry s d' k') as [e|] eqn:Hle; simpl; [|by left].
    destruct (Hi d' k' e Hle) as [->|Hr]; [by left|by right].
  - apply IH; [by rewrite delete_key_maxmem|].
    intros d' k' e' He. rewrite delete_key_lentry in He. destruct (decide _); [done|by apply Hi].
  - destruct (flush_fields s d) as (_ & M & _). apply IH; [congruence|].
    intros d' k' e' He. rewrite flush_lentry in He. destruct (_ || _); [done|by apply Hi].
  - destruct (flush_fields s (-1)) as (_ & M & _). apply IH; [congruence|].
    intros d' k' e' He. rewrite flush_lentry in He. destruct (_ || _); [done|by apply Hi].
Qed.

(** "A value written afterwards under the same name does not inherit the old deadline": a key that
    no client could see before the command (never there, deleted, or deadline passed — whether or
    not the expired entry is still physically present) and that exists after it, has no deadline. *)
Corollary nosx_no_inherit {R} (p : prog R) d s d' k e' :
  nosx p -> st_maxmem s = 0 -> lentry s d' k = None ->
  lentry (fst (run_seq d p s)) d' k = Some e' -> e_dl e' = None.
Proof.
  intros Hp Hm Hk He. destruct (nosx_deadlines p Hp d s s Hm (dl_inv_refl s)) as [Hi _].
  destruct (Hi d' k e' He) as [?|(e0 & H0 & _)]; [done|congruence].
Qed.

(** "TTL … report the deadline last set": no other command moves the deadline of a live key. *)
Corollary nosx_keeps_deadline {R} (p : prog R) d s d' k e0 e' :
  nosx p -> st_maxmem s = 0 -> lentry s d' k = Some e0 ->
  lentry (fst (run_seq d p s)) d' k = Some e' -> e_dl e' = None \/ e_dl e' = e_dl e0.
Proof.
  intros Hp Hm Hk He. destruct (nosx_deadlines p Hp d s s Hm (dl_inv_refl s)) as [Hi _].
  destruct (Hi d' k e' He) as [?|(e1 & H1 & ?)]; [by left|right; congruence].
Qed.

(** * Which handlers are [nosx] *)
Ltac nx_step :=
  match goal with
  | |- nosx (match ?x with _ => _ end) => destruct x
  | |- nosx (if ?b then _ else _) => destruct b
  | H : forall _, nosx _ |- nosx _ => apply H
  | |- nosx _ => constructor
  end.
Ltac nx := repeat (intros; cbv zeta; nx_step).

Lemma nx_del_keys ks ex n : nosx (del_keys ks ex n).
Proof. revert n. induction ks as [|k r IH]; intros n; simpl; nx. Qed.
Lemma nx_counter_step key delta : nosx (counter_step key delta).
Proof. unfold counter_step. nx. Qed.

Lemma nx_list name h argv : list_handler name = Some h -> nosx (h argv).
Proof.
  unfold list_handler.
  repeat match goal with |- context [if ?b then _ else _] => destruct b end; intros [= <-];
    unfold handle_llen, handle_lindex, handle_lrange, handle_lset, handle_ltrim, handle_lrem, handle_lmove,
      handle_push, handle_pop; nx.
Qed.

Lemma nx_string name h argv : string_handler name = Some h -> nosx (h argv).
Proof.
  unfold string_handler.
  repeat match goal with |- context [if ?b then _ else _] => destruct b end; intros [= <-];
    unfold handle_setrange, handle_strlen, handle_substr, handle_append; nx.
Qed.

(** The generic commands that call [SetExpiry]; their effect is given by [deadline_cmds_refine]. *)
Definition sets_deadline (name : string) : bool :=
  bool_decide (name ∈ ["set"; "getex"; "expire"; "pexpire"; "expireat"; "pexpireat"; "persist"; "rename"]).

Lemma nx_generic name h argv :
  generic_handler name = Some h -> sets_deadline name = false -> nosx (h argv).
Proof.
  unfold generic_handler, sets_deadline. intros Hh Hn. apply bool_decide_eq_false in Hn. revert Hh.
  repeat match goal with |- context [if ?b then _ else _] => destruct b eqn:? end; intros [= <-];
    repeat match goal with
    | H : String.eqb _ _ = true |- _ => apply String.eqb_eq in H; subst
    | H : (_ || _) = true |- _ => apply orb_prop in H; destruct H
    end;
    try (exfalso; apply Hn; set_solver);
    unfold handle_mset, handle_get, handle_mget, handle_del, handle_expiretime,
      handle_ttl, handle_incr, handle_decr, handle_incrby,
      handle_decrby, handle_incrbyfloat, handle_rename, handle_getdel, handle_type, handle_flush;
    nx; auto using nx_del_keys, nx_counter_step.
Qed.

Lemma nx_hash name h argv : hash_handler name = Some h -> nosx (h argv).
Proof.
  unfold hash_handler.
  chain_cases ltac:(unfold handle_hset, handle_hget, handle_hstrlen, handle_hvals, handle_hrandfield, handle_hlen,
      handle_hkeys, handle_hincrby, handle_hgetall, handle_hexists, handle_hdel, hash_reader; nx).
Qed.

Lemma nx_read_sets_skip {R} ks : forall (k : list (gset string) -> prog R),
  (forall l, nosx (k l)) -> nosx (read_sets_skip ks k).
Proof. induction ks as [|key r IH]; intros k Hk; simpl; [apply Hk|]. nx; apply IH; intros; apply Hk. Qed.

Lemma nx_existing_sets {R} ex ks : forall (k : scan_result -> prog R),
  (forall x, nosx (k x)) -> nosx (existing_sets ex ks k).
Proof.
  induction ks as [|key r IH]; intros k Hk; simpl; [apply Hk|].
  destruct (negb (ex key)); [apply IH; intros; apply Hk|]. nx; try apply Hk. apply IH; intros; apply Hk.
Qed.

Lemma nx_set pick name h argv : set_handler pick name = Some h -> nosx (h argv).
Proof.
  unfold set_handler.
  chain_cases ltac:(unfold handle_sadd, handle_scard, handle_sdiff, handle_sdiffstore, handle_sinter, handle_sintercard,
      handle_sinterstore, handle_sismember, handle_smembers, handle_smismember, handle_smove, handle_spop,
      handle_srandmember, handle_srem, handle_sunion, handle_sunionstore, WriteBack;
      nx; try (intros; apply nx_read_sets_skip; nx); try (intros; apply nx_existing_sets; nx)).
Qed.

Lemma nx_run_act wkey a : nosx (run_act wkey a).
Proof. unfold run_act. nx. Qed.
Lemma nx_run_zset dec argv : nosx (run_zset dec argv).
Proof. unfold run_zset, run_single, run_multi. nx; intros; apply nx_run_act. Qed.

Lemma nx_zset name h argv : zset_handler name = Some h -> nosx (h argv).
Proof.
  unfold zset_handler.
  chain_cases ltac:(apply nx_run_zset).
Qed.

Lemma nx_zrand pick name h argv : CmdZRand.zrand_handler pick name = Some h -> nosx (h argv).
Proof. unfold CmdZRand.zrand_handler. destruct (String.eqb _ _); [|done]. intros [= <-]. apply nx_run_zset. Qed.

Lemma nx_keyspace cands name h argv : CmdKeyspace.keyspace_handler cands name = Some h -> nosx (h argv).
Proof.
  unfold CmdKeyspace.keyspace_handler. chain_cases ltac:(idtac).
  all: unfold CmdKeyspace.handle_randomkey, CmdKeyspace.handle_touch, CmdKeyspace.handle_objfreq,
         CmdKeyspace.handle_objidletime; nx.
Qed.

(** Every handler of every modelled module, for every argument vector, except the seven command
    words whose business is the deadline. *)
Theorem nx_every_handler name h argv :
  handler_of name = Some h -> sets_deadline name = false -> nosx (h argv).
Proof.
  rewrite DispatchLemmas.handler_of_unfold. intros Hh Hn.
  destruct (list_handler name) eqn:E1; [injection Hh as <-; by eapply nx_list|].
  destruct (hash_handler name) eqn:E2; [injection Hh as <-; by eapply nx_hash|].
  destruct (set_handler default_pick name) eqn:E3; [injection Hh as <-; by eapply nx_set|].
  destruct (zset_handler name) eqn:E4; [injection Hh as <-; by eapply nx_zset|].
  destruct (generic_handler name) eqn:E5; [injection Hh as <-; by eapply nx_generic|].
  destruct (string_handler name) eqn:E6; [injection Hh as <-; by eapply nx_string|].
  destruct (CmdZRand.zrand_handler CmdZRand.default_zpick name) eqn:E7; [injection Hh as <-; by eapply nx_zrand|].
  by eapply nx_keyspace.
Qed.
