(** C19: the memory figure is the accounted size of what is stored — an invariant of every
    keyspace primitive, hence of every program over them. *)
From stdpp Require Import gmap strings.
From RecordUpdate Require Import RecordSet.
Import RecordSetNotations.
From EV Require Import Base.Str Model.Value Model.Keyspace Model.Reply Model.Prog.
From EV Require Import Proofs.KeyspaceLemmas.
Local Open Scope Z_scope.

Lemma sum_Z_perm l l' : l ≡ₚ l' -> sum_Z l = sum_Z l'.
Proof. induction 1; simpl; lia. Qed.
Lemma sum_Z_app l l' : sum_Z (l ++ l') = sum_Z l + sum_Z l'.
Proof. induction l; simpl; lia. Qed.

Lemma fmap_is_map {A B} (f : A -> B) (l : list A) : f <$> l = map f l.
Proof. induction l as [|x l IH]; simpl; [done|]. by rewrite <- IH. Qed.

(** Accounted size of one database and of the whole store. *)
Definition db_mem (db : dbmap) : Z := sum_Z (map (fun '(k, e) => entry_mem k e) (map_to_list db)).
Definition acct_dbs (dbs : gmap Z dbmap) : Z := sum_Z (map (fun '(_, db) => db_mem db) (map_to_list dbs)).
Definition acct (s : state) : Z := acct_dbs (st_dbs s).
Definition mem_inv (s : state) : Prop := st_mem s = acct s.

Lemma db_mem_empty : db_mem ∅ = 0.
Proof. unfold db_mem. by rewrite map_to_list_empty. Qed.

Lemma db_mem_insert_fresh db k e : db !! k = None -> db_mem (<[k := e]> db) = db_mem db + entry_mem k e.
Proof.
  intros Hk. unfold db_mem. rewrite (sum_Z_perm _ _ (fmap_Permutation _ _ _ (map_to_list_insert db k e Hk))).
  rewrite fmap_is_map. simpl. lia.
Qed.

Lemma db_mem_delete db k e : db !! k = Some e -> db_mem (delete k db) = db_mem db - entry_mem k e.
Proof.
  intros Hk. rewrite <- (insert_delete db k e Hk) at 2.
  rewrite db_mem_insert_fresh by apply lookup_delete. lia.
Qed.

Lemma db_mem_insert db k e :
  db_mem (<[k := e]> db) =
  db_mem db - (match db !! k with Some e0 => entry_mem k e0 | None => 0 end) + entry_mem k e.
Proof.
  destruct (db !! k) as [e0|] eqn:Hk.
  - rewrite <- insert_delete_insert. rewrite db_mem_insert_fresh by apply lookup_delete.
    rewrite (db_mem_delete db k e0 Hk). lia.
  - rewrite db_mem_insert_fresh by done. lia.
Qed.

Lemma acct_insert_fresh dbs d db : dbs !! d = None -> acct_dbs (<[d := db]> dbs) = acct_dbs dbs + db_mem db.
Proof.
  intros Hd. unfold acct_dbs. rewrite (sum_Z_perm _ _ (fmap_Permutation _ _ _ (map_to_list_insert dbs d db Hd))).
  rewrite fmap_is_map. simpl. lia.
Qed.

Lemma acct_insert dbs d db :
  acct_dbs (<[d := db]> dbs) = acct_dbs dbs - db_mem (default ∅ (dbs !! d)) + db_mem db.
Proof.
  destruct (dbs !! d) as [db0|] eqn:Hd; simpl.
  - rewrite <- insert_delete_insert. rewrite acct_insert_fresh by apply lookup_delete.
    rewrite <- (insert_delete dbs d db0 Hd) at 2. rewrite acct_insert_fresh by apply lookup_delete. lia.
  - rewrite acct_insert_fresh by done. rewrite db_mem_empty. lia.
Qed.

Lemma delete_key_mem s d k : mem_inv s -> mem_inv (delete_key s d k).
Proof.
  unfold mem_inv, acct, delete_key. intros H. destruct (get_db s d !! k) as [e|] eqn:He; [|done].
  simpl. rewrite acct_insert. fold (get_db s d). rewrite (db_mem_delete _ _ _ He). lia.
Qed.

Lemma get_values_go_mem s d ks acc : mem_inv s -> mem_inv (fst (get_values_go s d ks acc)).
Proof.
  revert s acc. induction ks as [|k r IH]; intros s acc H; simpl; [done|].
  destruct (get_db s d !! k) as [e|]; [|by apply IH].
  destruct (expired (st_now s) e); [|by apply IH]. apply IH. by apply delete_key_mem.
Qed.

Lemma get_values_mem s d ks : mem_inv s -> mem_inv (fst (get_values s d ks)).
Proof.
  intros H. unfold get_values. pose proof (get_values_go_mem s d ks [] H) as G.
  by destruct (get_values_go s d ks []).
Qed.

Lemma set_value1_mem s d k v : mem_inv s -> mem_inv (set_value1 s d k v).
Proof.
  intros H. unfold set_value1.
  set (s1 := match get_db s d !! k with
             | Some e => if expired (st_now s) e then delete_key s d k else s
             | None => s end).
  assert (H1 : mem_inv s1).
  { subst s1. destruct (get_db s d !! k) as [e|]; [|done]. destruct (expired _ e); [by apply delete_key_mem|done]. }
  unfold mem_inv, acct in *. simpl. rewrite acct_insert. fold (get_db s1 d). rewrite db_mem_insert.
  destruct (get_db s1 d !! k); lia.
Qed.

Lemma set_values_mem s d kvs : mem_inv s -> mem_inv (fst (set_values s d kvs)).
Proof.
  intros H. unfold set_values. destruct (_ && _); [done|]. simpl.
  generalize (dedupe_last kvs). intros l. revert s H. induction l as [|[k v] r IH]; intros s H; simpl; [done|].
  apply IH. by apply set_value1_mem.
Qed.

Lemma set_expiry_mem s d k t : mem_inv s -> mem_inv (set_expiry s d k t).
Proof.
  intros H. unfold set_expiry. destruct (get_db s d !! k) as [e|] eqn:He; [|done].
  destruct (expired _ e); [done|]. unfold mem_inv, acct in *. simpl.
  rewrite acct_insert. fold (get_db s d). rewrite db_mem_insert, He. unfold entry_mem. simpl. lia.
Qed.

Lemma flush_db_mem s d : mem_inv s -> mem_inv (flush_db s d).
Proof.
  intros H. unfold flush_db. destruct (st_dbs s !! d) as [db|] eqn:Hd; [|done].
  unfold mem_inv, acct in *. simpl. rewrite acct_insert, Hd, db_mem_empty. simpl. unfold db_mem. lia.
Qed.

Lemma flush_mem s d : mem_inv s -> mem_inv (flush s d).
Proof.
  intros H. unfold flush. destruct (d =? -1); [|by apply flush_db_mem].
  generalize (map fst (map_to_list (st_dbs s))). intros ds. revert s H.
  induction ds as [|d0 r IH]; intros s H; simpl; [done|]. apply IH. by apply flush_db_mem.
Qed.

(** Every program over the primitives — every handler, every command sequence — keeps the figure
    equal to the accounted size of the stored dataset. *)
Theorem mem_inv_run {R} (p : prog R) : forall d s, mem_inv s -> mem_inv (fst (run_seq d p s)).
Proof.
  induction p as [r|ks k IH|key k IH|ks k IH|kvs k IH|key t touch k IH|key k IH|k IH|k IH|k IH|k IH];
    intros d s H; cbn [run_seq]; try (by apply IH).
  - done.
  - pose proof (get_values_mem s d ks H) as G. destruct (get_values s d ks) as [s' f]. by apply IH.
  - pose proof (set_values_mem s d kvs H) as G. destruct (set_values s d kvs) as [s' ok]. by apply IH.
  - apply IH. by apply set_expiry_mem.
  - apply IH. by apply delete_key_mem.
  - apply IH. by apply flush_mem.
  - apply IH. by apply flush_mem.
Qed.

Lemma mem_inv_init now : mem_inv (init_state now).
Proof. unfold mem_inv, acct, acct_dbs. simpl. by rewrite map_to_list_empty. Qed.

(** The figure is a function of the dataset: two states holding the same data report the same
    figure, whatever histories produced them; the empty dataset reports zero. *)
Corollary mem_history_independent s1 s2 :
  mem_inv s1 -> mem_inv s2 -> st_dbs s1 = st_dbs s2 -> st_mem s1 = st_mem s2.
Proof. unfold mem_inv, acct. intros -> -> ->. done. Qed.

Lemma sum_Z_all_zero {A} (f : A -> Z) (l : list A) : (forall x, x ∈ l -> f x = 0) -> sum_Z (map f l) = 0.
Proof.
  induction l as [|x l IH]; intros H; simpl; [done|].
  rewrite (H x) by set_solver. rewrite IH; [done|]. intros y Hy. apply H. set_solver.
Qed.

Lemma acct_dbs_all_empty (dbs : gmap Z dbmap) :
  (forall d db, dbs !! d = Some db -> db = ∅) -> acct_dbs dbs = 0.
Proof.
  intros H. unfold acct_dbs. apply sum_Z_all_zero. intros [d db] Hin.
  apply elem_of_map_to_list in Hin. rewrite (H d db Hin). apply db_mem_empty.
Qed.

Corollary mem_empty_zero s :
  mem_inv s -> (forall d db, st_dbs s !! d = Some db -> db = ∅) -> st_mem s = 0.
Proof. unfold mem_inv, acct. intros -> H. by apply acct_dbs_all_empty. Qed.
