(** Crash atomicity of [TakeSnapshot] (C10): what [Restore] reads from any crash image is what it read
    before the attempt or the complete new snapshot. *)
From stdpp Require Import gmap strings.
From RecordUpdate Require Import RecordSet.
Import RecordSetNotations.
From EV Require Import Base.Str Model.Value Model.Keyspace Model.SnapCodec Model.SnapFs Model.Snapshot.
From EV Require Import Proofs.SnapCodecProofs.
Local Open Scope Z_scope.

(** * The file-system model *)
Section fsl.
Context {D : Type}.
Implicit Types (x y : fs D) (o : fsop D).

Lemma apply_ops_app x a b : apply_ops (apply_ops x a) b = apply_ops x (a ++ b).
Proof. unfold apply_ops. by rewrite fold_left_app. Qed.

Lemma crash_image_app x a b y :
  crash_image x (a ++ b) y -> crash_image x a y \/ crash_image (apply_ops x a) b y.
Proof.
  intros [k Hk|k o z Ho Ht].
  - destruct (decide (k <= length a)%nat) as [Hle|Hgt].
    + left. rewrite take_app_le by done. by constructor.
    + right. rewrite take_app_ge by lia. rewrite <- apply_ops_app.
      constructor. rewrite app_length in Hk. lia.
  - destruct (decide (k < length a)%nat) as [Hlt|Hge].
    + left. rewrite lookup_app_l in Ho by done. rewrite take_app_le in Ht by lia.
      by econstructor 2.
    + right. rewrite lookup_app_r in Ho by lia. rewrite take_app_ge in Ht by lia.
      rewrite <- apply_ops_app in Ht. by econstructor 2.
Qed.

Lemma crash_image_single x o y :
  crash_image x [o] y -> y = x \/ y = apply_op x o \/ torn_op x o = Some y.
Proof.
  intros [k Hk|k o' z Ho Ht].
  - destruct k as [|[|k]]; simpl in *; auto; lia.
  - destruct k as [|k]; simpl in *; [|done]. injection Ho as ->. auto.
Qed.

(** The list of images is the relation. *)
Lemma crash_images_spec x ops y : y ∈ crash_images x ops <-> crash_image x ops y.
Proof.
  revert x. induction ops as [|o r IH]; intros x; simpl.
  - rewrite elem_of_list_singleton. split.
    + intros ->. by apply (ci_between x [] 0%nat).
    + intros [k Hk|k o z Ho]; [|done]. by destruct k.
  - rewrite elem_of_cons, elem_of_app, IH. split.
    + intros [->|[Ht|Hr]].
      * apply (ci_between x (o :: r) 0%nat). simpl; lia.
      * apply (ci_torn x (o :: r) 0%nat o y); [done|]. simpl.
        destruct (torn_op x o); [|by apply elem_of_nil in Ht].
        apply elem_of_list_singleton in Ht. by subst.
      * destruct Hr as [k Hk|k o' z Ho Ht].
        -- apply (ci_between x (o :: r) (S k)). simpl; lia.
        -- by apply (ci_torn x (o :: r) (S k) o' z).
    + intros [k Hk|k o' z Ho Ht].
      * destruct k as [|k]; [by left|]. right; right. simpl. apply ci_between. simpl in Hk; lia.
      * destruct k as [|k]; simpl in *.
        -- injection Ho as ->. right; left. rewrite Ht. by apply elem_of_list_singleton.
        -- right; right. by econstructor 2.
Qed.

End fsl.

Section engine.
Variable c : codec.
Context {H : Type} `{EqDecision H}.
Variable hash : snapobj -> H.
Notation sfs := (sfs (H:=H)).
Notation fsop := (fsop (doc (H:=H))).
Implicit Types (x y : sfs) (o : fsop).

(** What [Restore] looks at: the manifest and the state files.  The rest (directories, the two
    temporary files) is invisible to it. *)
Definition same_pub x y : Prop :=
  f_files y !! FMan = f_files x !! FMan /\ forall m, f_files y !! FState m = f_files x !! FState m.

Lemma same_pub_refl x : same_pub x x.
Proof. by split. Qed.
Lemma same_pub_trans x y z : same_pub x y -> same_pub y z -> same_pub x z.
Proof. intros [A B] [A' B']. split; [congruence|]. intros m. by rewrite B', B. Qed.

Lemma read_manifest_same x y : same_pub x y -> read_manifest y = read_manifest x.
Proof. intros [A _]. unfold read_manifest, read_file. by rewrite A. Qed.
Lemma restore_read_same x y : same_pub x y -> restore_read y = restore_read x.
Proof.
  intros Hs. unfold restore_read. rewrite (read_manifest_same x y Hs).
  destruct (read_manifest x) as [| |m]; try done.
  destruct (m_msec m =? 0); [done|]. unfold read_file. destruct Hs as [_ B]. by rewrite B.
Qed.

Definition is_tmp (f : fileid) : bool :=
  match f with FManTmp | FStateTmp _ => true | _ => false end.
(** Operations that only touch directories and temporary files. *)
Definition quiet o : bool :=
  match o with
  | OCreate f | OWrite f _ => is_tmp f
  | ORename s d => is_tmp s && is_tmp d
  | _ => true
  end.

Lemma tmp_ne_pub f g : is_tmp f = true -> is_tmp g = false -> f <> g.
Proof. intros Hf Hg ->. congruence. Qed.

Lemma insert_tmp_same x f (v : fdata doc) : is_tmp f = true -> same_pub x (set_files x (<[f := v]> (f_files x))).
Proof.
  intros Hf. split; simpl; [|intros m]; rewrite lookup_insert_ne; auto; by apply tmp_ne_pub.
Qed.

Lemma quiet_same x o : quiet o = true -> same_pub x (apply_op x o).
Proof.
  destruct o as [|m|f|f d|f|f|s d]; simpl; intros Hq; try apply same_pub_refl; try (by split).
  - by apply insert_tmp_same.
  - by apply insert_tmp_same.
  - apply andb_true_iff in Hq as [Hs Hd]. destruct (f_files x !! s) as [v|]; [|apply same_pub_refl].
    split; simpl; [|intros m]; rewrite lookup_insert_ne, lookup_delete_ne; auto; by apply tmp_ne_pub.
Qed.
Lemma quiet_torn_same x o y : quiet o = true -> torn_op x o = Some y -> same_pub x y.
Proof.
  destruct o; simpl; try done. intros Hq [= <-]. by apply insert_tmp_same.
Qed.
Lemma quiet_ops_same x ops : forallb quiet ops = true -> same_pub x (apply_ops x ops).
Proof.
  revert x. induction ops as [|o r IH]; intros x; simpl; [intros; apply same_pub_refl|].
  intros [Ho Hr]%andb_true_iff. eapply same_pub_trans; [by apply quiet_same|]. by apply IH.
Qed.
Lemma forallb_take {A} (f : A -> bool) l k : forallb f l = true -> forallb f (take k l) = true.
Proof.
  revert k. induction l as [|a l IH]; intros [|k]; simpl; auto.
  intros [Ha Hl]%andb_true_iff. rewrite Ha. simpl. by apply IH.
Qed.
Lemma forallb_lookup {A} (f : A -> bool) l k a : forallb f l = true -> l !! k = Some a -> f a = true.
Proof.
  revert k. induction l as [|b l IH]; intros [|k]; simpl; try done.
  - intros [Ha _]%andb_true_iff [= ->]. done.
  - intros [_ Hl]%andb_true_iff. by apply IH.
Qed.
Lemma crash_quiet x ops y : forallb quiet ops = true -> crash_image x ops y -> same_pub x y.
Proof.
  intros Hq [k Hk|k o z Ho Ht].
  - apply quiet_ops_same. by apply forallb_take.
  - eapply same_pub_trans; [apply quiet_ops_same; by apply (forallb_take _ ops k)|].
    eapply quiet_torn_same; [|done]. by eapply forallb_lookup.
Qed.

(** The two phases of publishing. *)
Definition phase1 (msec : Z) (obj : snapobj) : list fsop :=
  [ OMkRoot; OMkDir msec; OCreate (FStateTmp msec); OWrite (FStateTmp msec) (DSnap obj);
    OSync (FStateTmp msec); OClose (FStateTmp msec) ].
Definition phase2 (msec : Z) (obj : snapobj) : list fsop :=
  [ OCreate FManTmp; OWrite FManTmp (DMan (Manifest msec (hash obj))); OSync FManTmp; OClose FManTmp ].

Lemma publish_split msec obj :
  OMkRoot :: publish_ops hash msec obj =
  phase1 msec obj ++ [ORename (FStateTmp msec) (FState msec)] ++ phase2 msec obj ++ [ORename FManTmp FMan].
Proof. done. Qed.

Lemma phase1_tmp x msec obj :
  f_files (apply_ops x (phase1 msec obj)) !! FStateTmp msec = Some (FWhole (DSnap obj)).
Proof. simpl. by rewrite lookup_insert. Qed.
Lemma phase2_tmp x msec obj :
  f_files (apply_ops x (phase2 msec obj)) !! FManTmp = Some (FWhole (DMan (Manifest msec (hash obj)))).
Proof. simpl. by rewrite lookup_insert. Qed.
Lemma phase2_state x msec obj m :
  f_files (apply_ops x (phase2 msec obj)) !! FState m = f_files x !! FState m.
Proof. simpl. by rewrite !lookup_insert_ne. Qed.

(** After the state file has been renamed into place: [Restore] reads the new snapshot when the old
    manifest names the same millisecond, and what it read before otherwise. *)
Lemma after_state_rename x msec obj :
  msec <> 0 ->
  f_files x !! FStateTmp msec = Some (FWhole (DSnap obj)) ->
  let x' := apply_op x (ORename (FStateTmp msec) (FState msec)) in
  f_files x' !! FState msec = Some (FWhole (DSnap obj)) /\
  (restore_read x' = restore_read x \/ restore_read x' = Some obj).
Proof.
  intros Hm Ht. simpl. rewrite Ht. split; [simpl; by rewrite lookup_insert|].
  unfold restore_read, read_manifest, read_file. simpl.
  rewrite lookup_insert_ne, lookup_delete_ne by done.
  destruct (f_files x !! FMan) as [[|?|[m|?]]|]; auto.
  destruct (m_msec m =? 0) eqn:E0; auto.
  destruct (decide (m_msec m = msec)) as [->|Hne].
  - right. by rewrite lookup_insert.
  - left. rewrite lookup_insert_ne, lookup_delete_ne; [done| |]; congruence.
Qed.

Lemma after_manifest_rename x msec obj :
  msec <> 0 ->
  f_files x !! FManTmp = Some (FWhole (DMan (Manifest msec (hash obj)))) ->
  f_files x !! FState msec = Some (FWhole (DSnap obj)) ->
  restore_read (apply_op x (ORename FManTmp FMan)) = Some obj.
Proof.
  intros Hm Ht Hs. simpl. rewrite Ht. unfold restore_read, read_manifest, read_file. simpl.
  rewrite lookup_insert. simpl. destruct (msec =? 0) eqn:E; [lia|].
  rewrite lookup_insert_ne, lookup_delete_ne by done. by rewrite Hs.
Qed.

(** * Crash atomicity at the level of what [Restore] reads *)
Theorem publish_crash_atomic x msec obj y :
  msec <> 0 ->
  crash_image x (OMkRoot :: publish_ops hash msec obj) y ->
  restore_read y = restore_read x \/ restore_read y = Some obj.
Proof.
  intros Hm Hci. rewrite publish_split in Hci.
  apply crash_image_app in Hci as [Hci|Hci].
  { left. apply restore_read_same. by apply crash_quiet in Hci. }
  set (x1 := apply_ops x (phase1 msec obj)) in *.
  assert (Hx1 : same_pub x x1) by (by apply quiet_ops_same).
  pose proof (phase1_tmp x msec obj) as Ht1. fold x1 in Ht1.
  destruct (after_state_rename x1 msec obj Hm Ht1) as [Hst Hrr]. 
  apply crash_image_app in Hci as [Hci|Hci].
  { apply crash_image_single in Hci as [->|[->|Ht]]; [| |done].
    - left. by apply restore_read_same.
    - rewrite <- (restore_read_same x x1 Hx1). exact Hrr. }
  change (apply_ops x1 [ORename (FStateTmp msec) (FState msec)])
    with (apply_op x1 (ORename (FStateTmp msec) (FState msec))) in Hci.
  set (x2 := apply_op x1 (ORename (FStateTmp msec) (FState msec))) in *.
  assert (Hx2 : restore_read x2 = restore_read x \/ restore_read x2 = Some obj).
  { rewrite <- (restore_read_same x x1 Hx1). exact Hrr. }
  apply crash_image_app in Hci as [Hci|Hci].
  { apply crash_quiet in Hci; [|done]. by rewrite (restore_read_same _ _ Hci). }
  set (x3 := apply_ops x2 (phase2 msec obj)) in *.
  assert (Hx3 : same_pub x2 x3) by (by apply quiet_ops_same).
  apply crash_image_single in Hci as [->|[->|Ht]]; [| |done].
  - by rewrite (restore_read_same _ _ Hx3).
  - right. apply (after_manifest_rename x3 msec obj); [done|apply phase2_tmp|].
    unfold x3. by rewrite phase2_state.
Qed.

Lemma take_plan_cases x s ls :
  let p := take_snapshot_plan c hash x s ls in
  (p_ops p = [OMkRoot] /\ p_res p <> SnapOk) \/
  (p_ops p = OMkRoot :: publish_ops hash (st_now s) (snapshot_object c s (st_now s)) /\ p_res p = SnapOk /\
   p_obj p = Some (snapshot_object c s (st_now s))).
Proof.
  unfold take_snapshot_plan. simpl.
  destruct (read_manifest x) as [| |m]; simpl; auto.
  destruct (bool_decide _); simpl; auto.
Qed.

Theorem plan_crash_atomic x s ls y :
  st_now s <> 0 ->
  crash_image x (p_ops (take_snapshot_plan c hash x s ls)) y ->
  restore_read y = restore_read x \/
  (p_res (take_snapshot_plan c hash x s ls) = SnapOk /\ restore_read y = Some (snapshot_object c s (st_now s))).
Proof.
  intros Hnow Hci. destruct (take_plan_cases x s ls) as [[Hops _]|(Hops & Hres & _)]; rewrite Hops in Hci.
  - left. apply restore_read_same. by apply crash_quiet in Hci.
  - apply publish_crash_atomic in Hci as [?|?]; auto.
Qed.

(** A completed snapshot is what [Restore] reads afterwards. *)
Theorem plan_complete x s ls :
  st_now s <> 0 ->
  p_res (take_snapshot_plan c hash x s ls) = SnapOk ->
  restore_read (apply_ops x (p_ops (take_snapshot_plan c hash x s ls))) = Some (snapshot_object c s (st_now s)).
Proof.
  intros Hnow Hres. destruct (take_plan_cases x s ls) as [[_ Hne]|(Hops & _ & _)]; [done|].
  rewrite Hops, publish_split.
  rewrite <- !apply_ops_app.
  set (x1 := apply_ops x (phase1 _ _)).
  pose proof (phase1_tmp x (st_now s) (snapshot_object c s (st_now s))) as Ht1. fold x1 in Ht1.
  destruct (after_state_rename x1 _ _ Hnow Ht1) as [Hst _].
  apply (after_manifest_rename _ (st_now s) (snapshot_object c s (st_now s))); [done|apply phase2_tmp|].
  by rewrite phase2_state.
Qed.

(** Nothing new, or an unreadable manifest: the only operation is MkdirAll(snapshots). *)
Theorem plan_not_ok_untouched x s ls :
  p_res (take_snapshot_plan c hash x s ls) <> SnapOk ->
  let x' := apply_ops x (p_ops (take_snapshot_plan c hash x s ls)) in
  f_files x' = f_files x /\ f_dirs x' = f_dirs x.
Proof.
  intros Hne. destruct (take_plan_cases x s ls) as [[Hops _]|(_ & Hres & _)]; [|done].
  simpl. by rewrite Hops.
Qed.

(** An attempt that fails at operation [k]. *)
Theorem failed_attempt_read x s ls k :
  st_now s <> 0 ->
  (k < length (p_ops (take_snapshot_plan c hash x s ls)))%nat ->
  let y := (run_plan x (take_snapshot_plan c hash x s ls) (Some k)).1 in
  (k <= 6)%nat \/ (forall m, read_manifest x = MOk m -> m_msec m <> st_now s) ->
  restore_read y = restore_read x.
Proof.
  intros Hnow Hk y Hcase. subst y. unfold run_plan.
  apply Nat.ltb_lt in Hk as Hk'. rewrite Hk'. simpl.
  destruct (take_plan_cases x s ls) as [[Hops _]|(Hops & _ & _)]; rewrite Hops in *.
  - apply restore_read_same, quiet_ops_same. by apply forallb_take.
  - rewrite publish_split.
    set (msec := st_now s) in *. set (obj := snapshot_object c s msec) in *.
    destruct (decide (k <= 6)%nat) as [Hle|Hgt].
    + apply restore_read_same. rewrite take_app_le by (simpl; lia).
      apply quiet_ops_same. by apply forallb_take.
    + destruct Hcase as [?|Hm]; [lia|].
      (* the state file was renamed into a directory the manifest does not name *)
      assert (Hpub : forall z, same_pub x z -> f_files z !! FStateTmp msec = Some (FWhole (DSnap obj)) ->
                restore_read (apply_op z (ORename (FStateTmp msec) (FState msec))) = restore_read x).
      { intros z [A B] Hzt. unfold restore_read, read_manifest, read_file. simpl. rewrite Hzt. simpl.
        rewrite lookup_insert_ne, lookup_delete_ne by done. rewrite A.
        destruct (f_files x !! FMan) as [[|?|[m|?]]|] eqn:EM; try done.
        destruct (m_msec m =? 0); [done|].
        assert (m_msec m <> msec) as Hne.
        { apply Hm. unfold read_manifest, read_file. by rewrite EM. }
        rewrite lookup_insert_ne, lookup_delete_ne by congruence. by rewrite B. }
      rewrite take_app_ge by (simpl; lia). rewrite <- apply_ops_app.
      set (x1 := apply_ops x (phase1 msec obj)).
      assert (Hx1 : same_pub x x1) by (by apply quiet_ops_same).
      pose proof (phase1_tmp x msec obj) as Ht1. fold x1 in Ht1.
      change (length (phase1 msec obj)) with 6%nat.
      destruct (k - 6)%nat as [|k'] eqn:Ek; [lia|]. simpl take.
      rewrite <- (Hpub x1 Hx1 Ht1).
      apply restore_read_same.
      apply (quiet_ops_same (apply_op x1 (ORename (FStateTmp msec) (FState msec)))).
      assert (k' <= 4)%nat as Hk4 by (simpl in Hk; lia).
      do 5 (destruct k' as [|k']; [done|]). lia.
Qed.

End engine.
