(** C04, part 1: unobservability of expired entries.

    - the abstraction [abs_state] of a model state to the reference keyspace of [Spec/SpecExpiry.v];
      what a client of the model can see ([lentry]) is what is [visible] in the abstraction;
    - [purge_state]: physical removal of every expired entry of every database, which is the
      reference's [purge] under the abstraction; it never changes the view;
    - histories of commands (any connection, every modelled module), clock advances, sampler passes
      (any database, any sample) and database selections: replies and final view are a function of
      the initial *view* ([hrun_congruence]), hence sampler passes can be inserted or removed anywhere
      ([hrun_sweeps_unobservable]);
    - the sampler only removes entries whose deadline is strictly before the clock; lazy expiry
      likewise ([sampler_pass_sound], [readonly_keeps_unexpired]). *)
From stdpp Require Import gmap strings.
From Coq Require Import ZifyBool FunctionalExtensionality.
From RecordUpdate Require Import RecordSet.
Import RecordSetNotations.
From EV Require Import Base.Str Model.Value Model.Keyspace Model.Reply Model.Prog Model.Dispatch Model.Script Model.ScriptExpiry.
From EV Require Import Proofs.KeyspaceLemmas Proofs.ProgLemmas Proofs.DispatchLemmas Proofs.ScriptLemmas.
From EV Require Spec.SpecExpiry.
Module SE := SpecExpiry.
Local Open Scope Z_scope.

(** * The reference's own facts *)
Section SpecFacts.
Context {T : Type}.
Implicit Types s : SE.sks T.

Lemma visible_purge now s d k : SE.visible now (SE.purge now s) d k = SE.visible now s d k.
Proof.
  unfold SE.visible, SE.purge, SE.sget. unfold SE.sks, SE.sdb in *. rewrite lookup_fmap.
  destruct (s !! d) as [db|]; simpl; [|done].
  unfold SE.purge_db. unfold SE.sdb. rewrite map_filter_lookup.
  destruct (db !! k) as [e|]; simpl; [|done].
  destruct (SE.expired now e) eqn:Hx.
  - rewrite option_guard_False by (simpl; congruence). done.
  - rewrite option_guard_True by done. simpl. by rewrite Hx.
Qed.

(** After [purge] nothing invisible is left. *)
Lemma purge_physical now s d k : SE.sget (SE.purge now s) d !! k = SE.visible now s d k.
Proof.
  unfold SE.visible, SE.purge, SE.sget. unfold SE.sks, SE.sdb in *. rewrite lookup_fmap.
  destruct (s !! d) as [db|]; simpl; [|by rewrite lookup_empty].
  unfold SE.purge_db. unfold SE.sdb. rewrite map_filter_lookup.
  destruct (db !! k) as [e|]; simpl; [|done].
  destruct (SE.expired now e) eqn:Hx.
  - rewrite option_guard_False by (simpl; congruence). done.
  - rewrite option_guard_True by done. done.
Qed.

(** An entry whose deadline has not passed (or that has none) is visible: [expired] is strict. *)
Lemma visible_until_deadline now s d k e :
  SE.sget s d !! k = Some e -> (forall t, SE.se_dl e = Some t -> now <= t) -> SE.visible now s d k = Some e.
Proof.
  intros He Hd. unfold SE.visible. rewrite He. unfold SE.expired.
  destruct (SE.se_dl e) as [t|]; [|done]. specialize (Hd t eq_refl).
  destruct (t <? now) eqn:E; [lia|done].
Qed.
Lemma invisible_after_deadline now s d k e t :
  SE.sget s d !! k = Some e -> SE.se_dl e = Some t -> t < now -> SE.visible now s d k = None.
Proof.
  intros He Ht Hl. unfold SE.visible. rewrite He. unfold SE.expired. rewrite Ht.
  destruct (t <? now) eqn:E; [done|lia].
Qed.
End SpecFacts.

(** * Abstraction *)
Definition abs_entry (e : entry) : SE.sentry value := SE.SEntry (e_val e) (e_dl e).
Definition abs_db (db : dbmap) : gmap string (SE.sentry value) := abs_entry <$> db.
Definition abs_state (s : state) : gmap Z (gmap string (SE.sentry value)) := abs_db <$> st_dbs s.

Lemma expired_abs now e : SE.expired now (abs_entry e) = expired now e.
Proof. reflexivity. Qed.

Lemma sget_abs s d k : SE.sget (abs_state s) d !! k = abs_entry <$> (get_db s d !! k).
Proof.
  unfold SE.sget, abs_state, get_db. unfold SE.sks, SE.sdb in *. rewrite lookup_fmap.
  destruct (st_dbs s !! d) as [db|]; simpl; [unfold abs_db; by rewrite lookup_fmap|by rewrite !lookup_empty].
Qed.

Theorem visible_abs s d k : SE.visible (st_now s) (abs_state s) d k = abs_entry <$> lentry s d k.
Proof.
  unfold SE.visible, lentry. rewrite sget_abs.
  destruct (get_db s d !! k) as [e|]; simpl; [|done].
  rewrite expired_abs. by destruct (expired (st_now s) e).
Qed.

(** Two states have the same view iff their abstractions show the same entries. *)
Lemma abs_entry_inj : Inj (=) (=) abs_entry.
Proof. intros [v1 d1] [v2 d2] H. by injection H as -> ->. Qed.

Lemma same_view_abs s1 s2 :
  same_view s1 s2 ->
  forall d k, SE.visible (st_now s2) (abs_state s2) d k = SE.visible (st_now s1) (abs_state s1) d k.
Proof. intros (Hl & _) d k. by rewrite !visible_abs, Hl. Qed.

(** * Physical removal of every expired entry *)
Definition purge_state (s : state) : state :=
  s <| st_dbs := (fun db : dbmap => base.filter (fun kv : string * entry => expired (st_now s) (snd kv) = false) db)
                 <$> st_dbs s |>.

Lemma purge_state_lookup s d k : get_db (purge_state s) d !! k = lentry s d k.
Proof.
  unfold lentry, get_db, purge_state. simpl. rewrite lookup_fmap.
  destruct (st_dbs s !! d) as [db|]; simpl; [|by rewrite !lookup_empty].
  rewrite map_filter_lookup. destruct (db !! k) as [e|]; simpl; [|done].
  destruct (expired (st_now s) e) eqn:Hx.
  - rewrite option_guard_False by (simpl; congruence). done.
  - rewrite option_guard_True by done. done.
Qed.

Theorem purge_state_same_view s : same_view s (purge_state s).
Proof.
  split; [|done]. intros d k. unfold lentry at 1. rewrite purge_state_lookup.
  change (st_now (purge_state s)) with (st_now s).
  unfold lentry. destruct (get_db s d !! k) as [e|]; [|done].
  destruct (expired (st_now s) e) eqn:Hx; [done|]. by rewrite Hx.
Qed.

(** [purge_state] is the reference's [purge], seen through the abstraction. *)
Theorem abs_purge_state s : abs_state (purge_state s) = SE.purge (st_now s) (abs_state s).
Proof.
  unfold abs_state, SE.purge, purge_state. unfold SE.sks, SE.sdb in *. simpl. rewrite <- !map_fmap_compose.
  apply map_fmap_ext. intros d db _. simpl. unfold SE.purge_db. unfold SE.sdb.
  unfold abs_db. rewrite map_filter_fmap. f_equal.
Qed.

(** * The sampler *)
Lemma sampler_key_sweep_key s d k : sampler_key s d k = sweep_key s d k.
Proof.
  unfold sampler_key, sweep_key, expired. destruct (get_db s d !! k) as [e|]; [|done].
  by destruct (e_dl e).
Qed.
Lemma sampler_round_sweep s d ks : sampler_round s d ks = sweep s d ks.
Proof.
  unfold sampler_round, sweep. revert s. induction ks as [|k r IH]; intros s; simpl; [done|].
  by rewrite sampler_key_sweep_key, IH.
Qed.

Lemma sampler_round_same_view s d ks : same_view s (sampler_round s d ks).
Proof. rewrite sampler_round_sweep. apply sweep_same_view. Qed.

Lemma sampler_pass_same_view rounds : forall s d, same_view s (sampler_pass s d rounds).
Proof.
  induction rounds as [|r rs IH]; intros s d; simpl; [apply same_view_refl|].
  eapply same_view_trans; [apply sampler_round_same_view|apply IH].
Qed.

(** What one step of the deletion loop does, physically. *)
Lemma sampler_key_lookup s d k d' k' :
  get_db (sampler_key s d k) d' !! k' =
  match get_db s d' !! k' with
  | Some e => if bool_decide (d = d' /\ k = k') && expired (st_now s) e then None else Some e
  | None => None
  end.
Proof.
  rewrite sampler_key_sweep_key. unfold sweep_key.
  destruct (get_db s d !! k) as [e0|] eqn:H0.
  - destruct (expired (st_now s) e0) eqn:Hx0.
    + rewrite delete_key_db. destruct (decide (d = d')) as [<-|Hd].
      * destruct (decide (k = k')) as [<-|Hk].
        -- rewrite lookup_delete, H0, bool_decide_eq_true_2 by done. by rewrite Hx0.
        -- rewrite lookup_delete_ne by done. destruct (get_db s d !! k'); [|done].
           rewrite bool_decide_eq_false_2; [done|]. intros [_ ?]; done.
      * destruct (get_db s d' !! k'); [|done].
        rewrite bool_decide_eq_false_2; [done|]. intros [? _]; done.
    + destruct (get_db s d' !! k') as [e|] eqn:He; [|done].
      destruct (bool_decide (d = d' /\ k = k')) eqn:B; [|done].
      apply bool_decide_eq_true in B. destruct B as [<- <-]. rewrite H0 in He. injection He as <-.
      by rewrite Hx0.
  - destruct (get_db s d' !! k') as [e|] eqn:He; [|done].
    destruct (bool_decide (d = d' /\ k = k')) eqn:B; [|done].
    apply bool_decide_eq_true in B. destruct B as [<- <-]. congruence.
Qed.

Lemma sampler_key_now s d k : st_now (sampler_key s d k) = st_now s.
Proof.
  rewrite sampler_key_sweep_key. unfold sweep_key. destruct (get_db s d !! k) as [e|]; [|done].
  destruct (expired _ e); [apply delete_key_now|done].
Qed.

(** Soundness of a sampler round, in every database: an entry survives unchanged unless its
    deadline is strictly before the clock; nothing appears; nothing is modified. *)
Lemma sampler_round_sound ks : forall s d,
  st_now (sampler_round s d ks) = st_now s /\
  (forall d' k' e, get_db s d' !! k' = Some e -> expired (st_now s) e = false ->
                   get_db (sampler_round s d ks) d' !! k' = Some e) /\
  (forall d' k' e, get_db (sampler_round s d ks) d' !! k' = Some e -> get_db s d' !! k' = Some e).
Proof.
  induction ks as [|k r IH]; intros s d; simpl; [done|].
  destruct (IH (sampler_key s d k) d) as (N & K & A). rewrite sampler_key_now in *.
  split; [done|]. split.
  - intros d' k' e He Hx. apply K; [|done]. rewrite sampler_key_lookup, He, Hx. by rewrite andb_false_r.
  - intros d' k' e He. apply A in He. rewrite sampler_key_lookup in He.
    destruct (get_db s d' !! k') as [e0|]; [|done]. by destruct (_ && _).
Qed.

Theorem sampler_pass_sound rounds : forall s d,
  st_now (sampler_pass s d rounds) = st_now s /\
  (forall d' k' e, get_db s d' !! k' = Some e -> expired (st_now s) e = false ->
                   get_db (sampler_pass s d rounds) d' !! k' = Some e) /\
  (forall d' k' e, get_db (sampler_pass s d rounds) d' !! k' = Some e -> get_db s d' !! k' = Some e).
Proof.
  induction rounds as [|r rs IH]; intros s d; simpl; [done|].
  destruct (sampler_round_sound r s d) as (N1 & K1 & A1).
  destruct (IH (sampler_round s d r) d) as (N2 & K2 & A2). rewrite N1 in *.
  split; [done|]. split.
  - intros d' k' e He Hx. apply K2; [by apply K1|done].
  - intros d' k' e He. by apply A1, A2.
Qed.

(** Whatever a pass removed had a deadline, and it was strictly before the clock. *)
Corollary sampler_pass_removes_only_expired rounds s d d' k' e :
  get_db s d' !! k' = Some e -> get_db (sampler_pass s d rounds) d' !! k' = None ->
  exists t, e_dl e = Some t /\ t < st_now s.
Proof.
  intros He Hn. destruct (sampler_pass_sound rounds s d) as (_ & K & _).
  destruct (expired (st_now s) e) eqn:Hx.
  - unfold expired in Hx. destruct (e_dl e) as [t|]; [|done]. exists t. split; [done|lia].
  - rewrite (K d' k' e He Hx) in Hn. done.
Qed.

(** * Lazy expiry removes nothing that has not expired *)
Definition keeps_unexpired (s s' : state) : Prop :=
  st_now s' = st_now s /\
  forall d k e, get_db s d !! k = Some e -> expired (st_now s) e = false -> get_db s' d !! k = Some e.

Lemma keeps_unexpired_refl s : keeps_unexpired s s.
Proof. by split. Qed.
Lemma keeps_unexpired_trans a b c : keeps_unexpired a b -> keeps_unexpired b c -> keeps_unexpired a c.
Proof.
  intros [N1 K1] [N2 K2]. split; [congruence|]. intros d k e He Hx. apply K2; [by apply K1|].
  by rewrite N1.
Qed.

Lemma get_values_go_keeps ks : forall s d acc, keeps_unexpired s (fst (get_values_go s d ks acc)).
Proof.
  induction ks as [|k r IH]; intros s d acc; simpl; [apply keeps_unexpired_refl|].
  destruct (get_db s d !! k) as [e|] eqn:He; [|apply IH].
  destruct (expired (st_now s) e) eqn:Hx; [|apply IH].
  eapply keeps_unexpired_trans; [|apply IH]. split; [apply delete_key_now|].
  intros d' k' e' He' Hx'. rewrite delete_key_db. destruct (decide (d = d')) as [<-|]; [|done].
  destruct (decide (k = k')) as [<-|Hk]; [congruence|]. by rewrite lookup_delete_ne.
Qed.

Lemma get_values_keeps s d ks : keeps_unexpired s (fst (get_values s d ks)).
Proof.
  unfold get_values. pose proof (get_values_go_keeps ks s d []) as H.
  by destruct (get_values_go s d ks []).
Qed.

(** Every read (any program without a writing primitive; reading is what triggers lazy expiry)
    leaves every entry whose deadline has not passed, and every entry without deadline, physically
    in place and unchanged. *)
Theorem readonly_keeps_unexpired {R} (p : prog R) : readonly p -> forall d s,
  keeps_unexpired s (fst (run_seq d p s)).
Proof.
  induction 1 as [r|ks k _ IH|key k _ IH|ks k _ IH|k _ IH|k _ IH]; intros d s; cbn [run_seq];
    try apply IH; [apply keeps_unexpired_refl|].
  pose proof (get_values_keeps s d ks) as Hg. destruct (get_values s d ks) as [s' f].
  eapply keeps_unexpired_trans; [exact Hg|apply IH].
Qed.

(** * Histories *)
Inductive hevent :=
| HCmd (conn : Z) (argv : list string)
| HAdvance (ms : Z)
| HSweep (db : Z) (sample : list string)
| HSelect (db : Z).

Definition set_now (s : state) (t : Z) : state := s <| st_now := t |>.

Definition hstep (w : world) (e : hevent) : world * list reply :=
  match e with
  | HCmd c argv => let '(w', r) := session_step w c argv in (w', [r])
  | HAdvance ms => (w <| w_st := set_now (w_st w) (st_now (w_st w) + ms) |>, [])
  | HSweep d ks => (w <| w_st := sampler_round (w_st w) d ks |>, [])
  | HSelect d => (w <| w_conns := <[0 := d]> (w_conns w) |>, [])
  end.

Fixpoint hrun (w : world) (es : list hevent) : world * list reply :=
  match es with
  | [] => (w, [])
  | e :: r => let '(w1, o1) := hstep w e in let '(w2, o2) := hrun w1 r in (w2, o1 ++ o2)
  end.

(** The server clock does not go backwards. *)
Definition monotone (es : list hevent) : Prop :=
  Forall (fun e => match e with HAdvance ms => 0 <= ms | _ => True end) es.

Definition world_view (w1 w2 : world) : Prop :=
  same_view (w_st w1) (w_st w2) /\ w_conns w2 = w_conns w1.

(** [hstep] agrees with the script runner of the correspondence check. *)
Lemma hstep_cmd_is_step_event w c argv :
  step_event w (ECmd c argv) = (fst (hstep w (HCmd c argv)), map (fun r => "R " +:+ show_reply r) (snd (hstep w (HCmd c argv)))).
Proof.
  unfold step_event, hstep, session_step. by destruct (exec_cmd (register_conn w c) c argv).
Qed.
Lemma hstep_sweep_is_step_xevent w d ks :
  step_xevent w (XSweep d ks) = (fst (hstep w (HSweep d ks)), ["W ok"]).
Proof. reflexivity. Qed.
Lemma hstep_advance_is_step_event w ms :
  step_event w (EAdvance ms) = (fst (hstep w (HAdvance ms)), []).
Proof. reflexivity. Qed.

(** Advancing a monotone clock: what is visible afterwards is what was visible before and has not
    expired in between. *)
Lemma lentry_set_now s t d k :
  st_now s <= t ->
  lentry (set_now s t) d k =
  match lentry s d k with Some e => if expired t e then None else Some e | None => None end.
Proof.
  intros Hle. unfold lentry, set_now, get_db. simpl.
  destruct (default ∅ (st_dbs s !! d) !! k) as [e|]; [|done].
  destruct (expired (st_now s) e) eqn:Hx; [|done].
  unfold expired in *. destruct (e_dl e) as [t0|]; [|done].
  destruct (t0 <? t) eqn:E; [done|lia].
Qed.

Lemma set_now_same_view s1 s2 t :
  same_view s1 s2 -> st_now s1 <= t -> same_view (set_now s1 t) (set_now s2 t).
Proof.
  intros (Hl & Hn & Hm & He) Hle. split; [|done].
  intros d k. rewrite !lentry_set_now by lia. by rewrite Hl.
Qed.

(** Connection-level commands look at the connection table only. *)
Lemma exec_conn_cmd_congr w1 w2 c name argv :
  w_conns w2 = w_conns w1 ->
  match exec_conn_cmd w1 c name argv, exec_conn_cmd w2 c name argv with
  | Some (w1', r1), Some (w2', r2) =>
      r1 = r2 /\ w_conns w2' = w_conns w1' /\ w_st w1' = w_st w1 /\ w_st w2' = w_st w2
  | None, None => True
  | _, _ => False
  end.
Proof.
  intros Hc. unfold exec_conn_cmd. rewrite Hc.
  destruct (String.eqb name "select").
  { destruct (negb _); [simpl; by repeat split|].
    destruct (parse_int _) as [d|]; [|simpl; by repeat split].
    destruct (d <? 0); simpl; by repeat split. }
  destruct (String.eqb name "swapdb").
  { destruct (negb _); [simpl; by repeat split|].
    destruct (parse_int (arg argv 1)) as [d1|]; [|simpl; by repeat split].
    destruct (parse_int (arg argv 2)) as [d2|]; [|simpl; by repeat split].
    destruct (_ || _); simpl; by repeat split. }
  destruct (String.eqb name "ping").
  { destruct argv as [|a [|b [|? ?]]]; simpl; by repeat split. }
  destruct (String.eqb name "echo").
  { destruct argv as [|a [|b [|? ?]]]; simpl; by repeat split. }
  done.
Qed.

Lemma register_conn_conns w1 w2 c :
  w_conns w2 = w_conns w1 -> w_conns (register_conn w2 c) = w_conns (register_conn w1 c).
Proof.
  intros Hc. unfold register_conn. destruct (c =? 0); [done|]. rewrite Hc.
  destruct (w_conns w1 !! c); simpl; done.
Qed.

Lemma exec_cmd_congr w1 w2 c argv :
  world_view w1 w2 -> st_maxmem (w_st w1) = 0 ->
  snd (exec_cmd w1 c argv) = snd (exec_cmd w2 c argv) /\
  world_view (fst (exec_cmd w1 c argv)) (fst (exec_cmd w2 c argv)) /\
  st_maxmem (w_st (fst (exec_cmd w1 c argv))) = 0.
Proof.
  intros [Hv Hc] Hm. unfold exec_cmd. destruct argv as [|cmd rest]; [done|].
  pose proof (exec_conn_cmd_congr w1 w2 c (lower cmd) (cmd :: rest) Hc) as Hcc.
  destruct (exec_conn_cmd w1 c (lower cmd) (cmd :: rest)) as [[w1' r1]|];
    destruct (exec_conn_cmd w2 c (lower cmd) (cmd :: rest)) as [[w2' r2]|]; try done.
  - destruct Hcc as (-> & Hc' & S1 & S2). simpl. repeat split; try congruence.
    + rewrite S1, S2. apply Hv.
    + rewrite S1, S2. apply Hv.
    + rewrite S1, S2. apply Hv.
    + rewrite S1, S2. apply Hv.
  - destruct (handler_of (lower cmd)) as [h|]; [|done].
    unfold conn_db. rewrite Hc.
    destruct (run_seq_congruence (h (cmd :: rest)) (default 0 (w_conns w1 !! c)) (w_st w1) (w_st w2) Hv Hm)
      as (R & V & M).
    destruct (run_seq _ _ (w_st w1)) as [s1' x1]. destruct (run_seq _ _ (w_st w2)) as [s2' x2].
    simpl in *. done.
Qed.

Lemma hstep_congruence w1 w2 e :
  world_view w1 w2 -> st_maxmem (w_st w1) = 0 ->
  match e with HAdvance ms => 0 <= ms | _ => True end ->
  snd (hstep w1 e) = snd (hstep w2 e) /\ world_view (fst (hstep w1 e)) (fst (hstep w2 e)) /\
  st_maxmem (w_st (fst (hstep w1 e))) = 0.
Proof.
  intros [Hv Hc] Hm Hmono. destruct e as [c argv|ms|d ks|d]; simpl.
  - unfold session_step.
    assert (Hw : world_view (register_conn w1 c) (register_conn w2 c)).
    { split; [by rewrite !register_conn_st|by apply register_conn_conns]. }
    assert (Hm' : st_maxmem (w_st (register_conn w1 c)) = 0) by (by rewrite register_conn_st).
    destruct (exec_cmd_congr _ _ c argv Hw Hm') as (R & V & M).
    destruct (exec_cmd (register_conn w1 c) c argv) as [w1' r1].
    destruct (exec_cmd (register_conn w2 c) c argv) as [w2' r2]. simpl in *. by subst.
  - split; [done|]. split; [|done]. split; [|done]. simpl.
    pose proof Hv as (_ & Hn & _). rewrite Hn. apply set_now_same_view; [exact Hv|lia].
  - split; [done|]. split.
    + split; [|done]. simpl.
      eapply same_view_trans; [apply same_view_sym, sampler_round_same_view|].
      eapply same_view_trans; [exact Hv|apply sampler_round_same_view].
    + simpl. destruct (sampler_round_same_view (w_st w1) d ks) as (_ & _ & -> & _). done.
  - split; [done|]. split; [|done]. split; [done|]. simpl. by rewrite Hc.
Qed.

(** Replies and final view of a whole history are a function of the initial view. *)
Theorem hrun_congruence es : forall w1 w2,
  world_view w1 w2 -> st_maxmem (w_st w1) = 0 -> monotone es ->
  snd (hrun w1 es) = snd (hrun w2 es) /\ world_view (fst (hrun w1 es)) (fst (hrun w2 es)).
Proof.
  induction es as [|e r IH]; intros w1 w2 Hw Hm Hmono; simpl; [done|].
  inversion Hmono as [|? ? He Hr]; subst.
  destruct (hstep_congruence w1 w2 e Hw Hm He) as (R & V & M).
  destruct (hstep w1 e) as [w1' o1]. destruct (hstep w2 e) as [w2' o2]. simpl in *.
  destruct (IH w1' w2' V M Hr) as (R' & V').
  destruct (hrun w1' r) as [w1'' o1']. destruct (hrun w2' r) as [w2'' o2']. simpl in *.
  by subst.
Qed.

(** Removing the sampler passes from a history. *)
Definition is_sweep (e : hevent) : bool := match e with HSweep _ _ => true | _ => false end.
Definition strip_sweeps (es : list hevent) : list hevent := List.filter (fun e => negb (is_sweep e)) es.

Lemma monotone_strip es : monotone es -> monotone (strip_sweeps es).
Proof.
  unfold monotone, strip_sweeps. induction 1 as [|e r He _ IH]; simpl; [constructor|].
  destruct (negb (is_sweep e)); [by constructor|done].
Qed.

Ltac strip_step w1 w2 e Hw Hm He IH Hr r :=
  cbn [hrun];
  destruct (hstep_congruence w1 w2 e Hw Hm He) as (R & V & M);
  destruct (hstep w1 e) as [w1' o1]; destruct (hstep w2 e) as [w2' o2];
  simpl in R, V, M; destruct (IH w1' w2' V M Hr) as (R' & V');
  destruct (hrun w1' r) as [w1'' o1']; destruct (hrun w2' (strip_sweeps r)) as [w2'' o2'];
  simpl in *; by subst.

Lemma hrun_strip es : forall w1 w2,
  world_view w1 w2 -> st_maxmem (w_st w1) = 0 -> monotone es ->
  snd (hrun w1 es) = snd (hrun w2 (strip_sweeps es)) /\
  world_view (fst (hrun w1 es)) (fst (hrun w2 (strip_sweeps es))).
Proof.
  induction es as [|e r IH]; intros w1 w2 Hw Hm Hmono; [done|].
  inversion Hmono as [|? ? He Hr]; subst.
  destruct e as [c argv|ms|d ks|d]; cbn [strip_sweeps List.filter is_sweep negb];
    fold (strip_sweeps r).
  3: { (* a sampler pass: skipped on the right *)
    cbn [hrun hstep].
    assert (Hw' : world_view (w1 <| w_st := sampler_round (w_st w1) d ks |>) w2).
    { destruct Hw as [Hv Hc]. split; [|done]. simpl.
      eapply same_view_trans; [apply same_view_sym, sampler_round_same_view|exact Hv]. }
    assert (Hm' : st_maxmem (w_st (w1 <| w_st := sampler_round (w_st w1) d ks |>)) = 0).
    { simpl. destruct (sampler_round_same_view (w_st w1) d ks) as (_ & _ & -> & _). done. }
    destruct (IH _ w2 Hw' Hm' Hr) as (R & V).
    destruct (hrun _ r) as [w1'' o1']. destruct (hrun w2 (strip_sweeps r)) as [w2'' o2']. done. }
  - strip_step w1 w2 (HCmd c argv) Hw Hm He IH Hr r.
  - strip_step w1 w2 (HAdvance ms) Hw Hm He IH Hr r.
  - strip_step w1 w2 (HSelect d) Hw Hm He IH Hr r.
Qed.

Lemma world_view_refl w : world_view w w.
Proof. split; [apply same_view_refl|done]. Qed.
Lemma world_view_sym a b : world_view a b -> world_view b a.
Proof. intros [H1 H2]. split; [by apply same_view_sym|done]. Qed.
Lemma world_view_trans a b c : world_view a b -> world_view b c -> world_view a c.
Proof. intros [H1 H2] [G1 G2]. split; [by eapply same_view_trans|congruence]. Qed.

(** "Whether or not background expiry has run": two histories that differ only in sampler passes
    — any number of them, anywhere, over any database, with any sample — started from states with
    the same view (for instance [s] and [purge_state s]) produce the same replies and end in the
    same view. *)
Theorem hrun_sweeps_unobservable es es' w w' :
  strip_sweeps es = strip_sweeps es' -> world_view w w' -> st_maxmem (w_st w) = 0 ->
  monotone es -> monotone es' ->
  snd (hrun w es) = snd (hrun w' es') /\ world_view (fst (hrun w es)) (fst (hrun w' es')).
Proof.
  intros Hs Hw Hm Hmono Hmono'.
  assert (Hm' : st_maxmem (w_st w') = 0) by (destruct Hw as [(_ & _ & -> & _) _]; done).
  destruct (hrun_strip es w w (world_view_refl w) Hm Hmono) as (R1 & V1).
  destruct (hrun_strip es' w' w' (world_view_refl w') Hm' Hmono') as (R2 & V2).
  destruct (hrun_congruence (strip_sweeps es) w w' Hw Hm (monotone_strip _ Hmono)) as (R3 & V3).
  rewrite Hs in *. split; [congruence|].
  eapply world_view_trans; [exact V1|]. eapply world_view_trans; [exact V3|]. by apply world_view_sym.
Qed.
