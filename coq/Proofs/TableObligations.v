(** Obligations over the tables regenerated from the repository ([Gen/CmdTable.v],
    [Gen/KeyExtract.v], [Gen/Defaults.v]).  Each is a statement about *what the source contains
    today*, closed by evaluation over the finite generated table whose length is part of the
    statement; they are re-checked on every run, after [harness/tabledump] has rewritten the tables. *)
From stdpp Require Import gmap strings.
From EV Require Import Base.Str Model.Value Model.TableTypes Model.KeyFuncs Model.Acl Model.Dispatch.
From EV Require Import Proofs.HandlerClasses.
From EV Require Import Gen.CmdTable Gen.KeyExtract Gen.Defaults.
Local Open Scope string_scope.

(** * The tables have the stated sizes *)
Lemma cmd_table_length : length cmd_table = cmd_table_len.
Proof. vm_compute. reflexivity. Qed.
Lemma kx_rows_length : length (concat kx_rows) = kx_rows_len /\ length kx_rows = kx_groups_len.
Proof. vm_compute. split; reflexivity. Qed.

(** Every registered command and sub-command has an enumerated group of key-extraction rows. *)
Definition row_has_group (r : cmd_row) : bool :=
  existsb (fun g => match g with
                    | k :: _ => String.eqb (kr_name k) (cr_name r) && String.eqb (kr_sub k) (cr_sub r)
                    | [] => false
                    end) kx_rows.
Lemma every_command_enumerated : forallb row_has_group cmd_table = true.
Proof. vm_compute. reflexivity. Qed.

(** * [key_extract_agrees]: the model's key extraction equals the code's on every enumerated row *)
Definition kx_row_ok (r : kx_row) : bool :=
  kx_res_eqb (key_extract (kr_name r) (kr_sub r) (kr_argv r)) (kr_res r).
Lemma key_extract_agrees_b : forallb (forallb kx_row_ok) kx_rows = true.
Proof. vm_compute. reflexivity. Qed.
Theorem key_extract_agrees :
  forall g r, In g kx_rows -> In r g -> key_extract (kr_name r) (kr_sub r) (kr_argv r) = kr_res r.
Proof.
  intros g r Hg Hr. pose proof key_extract_agrees_b as H.
  rewrite forallb_forall in H. specialize (H g Hg). rewrite forallb_forall in H. specialize (H r Hr).
  apply kx_res_eqb_eq. exact H.
Qed.

(** No key-extraction function panicked on the enumerated universe. *)
Lemma key_extract_never_panics :
  forallb (forallb (fun r => match kr_res r with KxPanic | KxNone => false | _ => true end)) kx_rows = true.
Proof. vm_compute. reflexivity. Qed.

(** * C06: the commands that bypass the authorization gate are exactly AUTH, PING, ECHO, HELLO
    ("ack" is not a registered command; no "cmd|sub" name is exempt). *)
Lemma exempt_exact :
  map comm_of (filter (fun r => exempt_comm (comm_of r)) cmd_table) = ["auth"; "ping"; "echo"; "hello"].
Proof. vm_compute. reflexivity. Qed.
Lemma exempt_rows_touch_nothing :
  forallb (fun r => negb (exempt_comm (comm_of r)) || negb (is_write_row r)) cmd_table = true.
Proof. vm_compute. reflexivity. Qed.

(** A command with sub-commands has no categories of its own (so the categories AuthorizeConnection
    checks for "cmd|sub" are exactly the sub-command's), and sub-commands do not nest. *)
Lemma parents_have_no_categories :
  forallb (fun r => negb (cr_has_sub r) || match cr_cats r with [] => true | _ => false end) cmd_table = true.
Proof. vm_compute. reflexivity. Qed.

(** Command names are lower-case and unique (getCommand takes the first case-insensitive match). *)
Lemma names_lower_unique :
  forallb (fun r => String.eqb (lower (cr_name r)) (cr_name r) && String.eqb (lower (cr_sub r)) (cr_sub r)) cmd_table = true
  /\ NoDup (map comm_of cmd_table).
Proof. split; [vm_compute; reflexivity|]. apply NoDup_ListNoDup, (bool_decide_unpack _). vm_compute. reflexivity. Qed.

(** * C02 / C07 / C09 / C20: classification of the data commands *)
Definition top_rows := filter (fun r => String.eqb (cr_sub r) "") cmd_table.
Definition modelled (name : string) : bool := match handler_of name with Some _ => true | None => false end.

(** read-category commands: their purity is proved in [HandlerClasses] ([all_readonly_words_sound] —
    list, generic, string, hash, set, sorted set, incl. ZRANDMEMBER RANDOMKEY TOUCH OBJECTFREQ OBJECTIDLETIME);
    no read-category row is left without a model handler (the list is empty on this tree) *)
Definition ro_not_modelled : list string := [].

Lemma read_rows_classified :
  forallb (fun r => negb (is_read_row r)
                    || mem (cr_name r) all_readonly_words
                    || (mem (cr_name r) ro_not_modelled && negb (modelled (cr_name r)))) top_rows = true
  /\ length (filter is_read_row top_rows) = 47%nat.
Proof. vm_compute. split; reflexivity. Qed.

(** every row of the six data modules has a model handler *)
Definition data_modules : list string := ["list"; "hash"; "set"; "sortedset"; "generic"; "string"].
Lemma data_rows_modelled :
  forallb (fun r => negb (mem (cr_module r) data_modules) || modelled (cr_name r)) top_rows = true.
Proof. vm_compute. reflexivity. Qed.

(** every command the model can mutate the dataset with (modelled, not in the read-only lists) is
    write-category ... *)
Definition may_mutate (name : string) : bool :=
  modelled name && negb (mem name all_readonly_words).
(** SCARD and SINTER are read-only handlers registered in the write category (repaired by
    fixes/0007; the list is empty on the repaired tree) *)
Definition misfiled_as_write : list string := [].
Lemma every_mutator_is_write :
  forallb (fun r => negb (may_mutate (cr_name r)) || is_write_row r) top_rows = true.
Proof. vm_compute. reflexivity. Qed.
(** ... and every write-category command is replicated (Sync) *)
Lemma every_write_syncs :
  forallb (fun r => negb (is_write_row r) || cr_sync r || mem (cr_name r) misfiled_as_write) cmd_table = true.
Proof. vm_compute. reflexivity. Qed.
(** no read-category command is also write-category *)
Lemma read_write_disjoint :
  forallb (fun r => negb (is_read_row r && is_write_row r)) cmd_table = true.
Proof. vm_compute. reflexivity. Qed.

(** * C19: the size figures of [Model/Value.v] are those of the platform the code was built for *)
Lemma sizes_agree :
  (gen_sz_time, gen_sz_string, gen_sz_int, gen_sz_float, gen_sz_map, gen_sz_iface, gen_sz_ptr, gen_sz_member, gen_sz_setmap)
  = (sz_time, sz_string, sz_int, sz_float, sz_map, sz_iface, sz_ptr, sz_member, sz_map).
Proof. vm_compute. reflexivity. Qed.

(** the categories the tables use are among the declared constants *)
Definition declared_categories : list string :=
  ["admin"; "bitmap"; "blocking"; "connection"; "dangerous"; "geo"; "hash"; "hyperloglog"; "fast"; "keyspace";
   "list"; "pubsub"; "read"; "scripting"; "set"; "sortedset"; "slow"; "stream"; "string"; "transaction"; "write"].
Lemma categories_declared : forallb (fun c => mem c declared_categories) gen_categories_used = true.
Proof. vm_compute. reflexivity. Qed.
