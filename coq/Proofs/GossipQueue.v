(** C07, the broadcast queue of the forwarding hop ([Model/RaftRun.v] [enqueue], the model of memberlist's
    TransmitLimitedQueue with [BroadcastMessage.Invalidates]): a queued write is replaced by a later one with the same
    bytes for the same database.  Stated for every queue and every message — the universal form of the witness
    [C07_forwarded_twin_collapses_refuted]: whatever is queued, handing the same write over twice leaves it queued once. *)
From stdpp Require Import gmap strings.
From EV Require Import Base.Str Model.TableTypes Model.RaftRun.
Local Open Scope Z_scope.

Lemma list_string_eqb_refl l : list_string_eqb l l = true.
Proof. by apply list_string_eqb_eq. Qed.
Lemma msg_eqb_refl m : msg_eqb m m = true.
Proof. unfold msg_eqb. rewrite Z.eqb_refl, list_string_eqb_refl. done. Qed.

Lemma filter_filter_same {A} (f : A -> bool) l : List.filter f (List.filter f l) = List.filter f l.
Proof.
  induction l as [|a l IH]; simpl; [done|]. destruct (f a) eqn:E; simpl; [rewrite E|]; by rewrite ?IH.
Qed.

Theorem enqueue_twice q m : enqueue (enqueue q m) m = enqueue q m.
Proof.
  unfold enqueue. rewrite List.filter_app. simpl. rewrite msg_eqb_refl. simpl.
  rewrite app_nil_r, filter_filter_same. done.
Qed.

(** ... and the queue never holds two copies of one message. *)
Theorem enqueue_one_copy q m : List.filter (fun x => msg_eqb x m) (enqueue q m) = [m].
Proof.
  unfold enqueue. rewrite List.filter_app. simpl. rewrite msg_eqb_refl.
  assert (H : List.filter (fun x => msg_eqb x m) (List.filter (fun x => negb (msg_eqb x m)) q) = []).
  { induction q as [|a q IH]; simpl; [done|]. destruct (msg_eqb a m) eqn:E; simpl; [exact IH|]. rewrite E. exact IH. }
  rewrite H. done.
Qed.
