(** Snapshot round trip (C03): what a fresh instance serves after restoring a completed snapshot is
    the dataset at the snapshot, minus the keys whose deadline has passed at the restore; LASTSAVE;
    the automatic trigger. *)
From stdpp Require Import gmap strings.
From RecordUpdate Require Import RecordSet.
Import RecordSetNotations.
From EV Require Import Base.Str Model.Value Model.Keyspace Model.Prog Model.SnapCodec Model.SnapFs Model.Snapshot.
From EV Require Import Proofs.KeyspaceLemmas Proofs.ProgLemmas Proofs.SnapCodecProofs Proofs.SnapProofs.
Local Open Scope Z_scope.

(** The entry stored under key [k] of database [d] in a copy of the store. *)
Definition flookup (dbs : gmap Z dbmap) (d : Z) (k : string) : option entry :=
  match dbs !! d with Some db => db !! k | None => None end.

(** Dropping what has expired at [t]. *)
Definition purge1 (t : Z) (o : option entry) : option entry :=
  match o with Some e => if expired t e then None else Some e | None => None end.

Lemma flookup_filter t dbs d k : flookup (filter_expired t dbs) d k = purge1 t (flookup dbs d k).
Proof.
  unfold flookup, filter_expired. rewrite lookup_fmap. destruct (dbs !! d) as [db|]; simpl; [|done].
  apply option_eq. intros e. rewrite map_filter_lookup_Some. simpl.
  destruct (db !! k) as [e0|]; simpl; [|naive_solver].
  destruct (expired t e0) eqn:Hx; split.
  - intros [[= ->] ?]. congruence.
  - done.
  - intros [[= ->] ?]. done.
  - intros [= ->]. done.
Qed.

Lemma lentry_flookup s d k : lentry s d k = purge1 (st_now s) (flookup (st_dbs s) d k).
Proof.
  unfold lentry, flookup, get_db. destruct (st_dbs s !! d) as [db|]; simpl; [done|].
  by rewrite lookup_empty.
Qed.

(** * Loading *)
Lemma load_entry_spec d k e s :
  st_maxmem s = 0 ->
  st_maxmem (load_entry d k e s) = 0 /\ st_now (load_entry d k e s) = st_now s /\
  forall d' k', lentry (load_entry d k e s) d' k' =
    if decide (d = d' /\ k = k') then purge1 (st_now s) (Some e) else lentry s d' k'.
Proof.
  intros Hm. unfold load_entry.
  pose proof (set_values_spec s d [(k, e_val e)] Hm) as Hsv.
  destruct (set_values s d [(k, e_val e)]) as [s1 ok]. simpl.
  destruct Hsv as (_ & Hl & Hn & Hmm & _).
  destruct (set_expiry_fields s1 d k (e_dl e)) as (N & M & _).
  split; [congruence|]. split; [congruence|].
  intros d' k'. rewrite set_expiry_lentry.
  destruct (decide (d = d' /\ k = k')) as [[<- <-]|Hne].
  - rewrite Hl. rewrite decide_True by done. simpl. rewrite String.eqb_refl.
    simpl. rewrite Hn. destruct e as [v dl]. done.
  - rewrite Hl. destruct (decide (d = d')) as [<-|]; [|done].
    simpl. destruct (String.eqb k' k) eqn:E; [|done].
    apply String.eqb_eq in E. subst. exfalso. by apply Hne.
Qed.

Lemma load_db_spec d db s0 :
  st_maxmem s0 = 0 ->
  let s := load_db d db s0 in
  st_maxmem s = 0 /\ st_now s = st_now s0 /\
  forall d' k', lentry s d' k' =
    if decide (d = d') then match db !! k' with Some e => purge1 (st_now s0) (Some e) | None => lentry s0 d' k' end
    else lentry s0 d' k'.
Proof.
  intros Hm. unfold load_db.
  apply (map_fold_ind (fun s (m : dbmap) =>
    st_maxmem s = 0 /\ st_now s = st_now s0 /\
    forall d' k', lentry s d' k' =
      if decide (d = d') then match m !! k' with Some e => purge1 (st_now s0) (Some e) | None => lentry s0 d' k' end
      else lentry s0 d' k')).
  - split; [done|]. split; [done|]. intros d' k'. rewrite lookup_empty. by destruct (decide _).
  - intros k e m r Hk (Hrm & Hrn & Hr).
    destruct (load_entry_spec d k e r Hrm) as (A & B & C).
    split; [done|]. split; [congruence|].
    intros d' k'. rewrite C. destruct (decide (d = d' /\ k = k')) as [[<- <-]|Hne].
    + rewrite decide_True by done. rewrite lookup_insert. by rewrite Hrn.
    + rewrite Hr. destruct (decide (d = d')) as [<-|]; [|done].
      rewrite lookup_insert_ne; [done|]. intros ->. by apply Hne.
Qed.

Lemma load_state_spec dbs s0 :
  st_maxmem s0 = 0 ->
  let s := load_state dbs s0 in
  st_maxmem s = 0 /\ st_now s = st_now s0 /\
  forall d k, lentry s d k =
    match dbs !! d with
    | Some db => match db !! k with Some e => purge1 (st_now s0) (Some e) | None => lentry s0 d k end
    | None => lentry s0 d k
    end.
Proof.
  intros Hm. unfold load_state.
  apply (map_fold_ind (fun s (m : gmap Z dbmap) =>
    st_maxmem s = 0 /\ st_now s = st_now s0 /\
    forall d k, lentry s d k =
      match m !! d with
      | Some db => match db !! k with Some e => purge1 (st_now s0) (Some e) | None => lentry s0 d k end
      | None => lentry s0 d k
      end)).
  - split; [done|]. split; [done|]. intros d k. by rewrite lookup_empty.
  - intros d db m r Hd (Hrm & Hrn & Hr).
    destruct (load_db_spec d db r Hrm) as (A & B & C).
    split; [done|]. split; [congruence|].
    intros d' k. rewrite C. destruct (decide (d = d')) as [<-|Hne].
    + rewrite lookup_insert. rewrite Hrn. destruct (db !! k); [done|]. rewrite Hr, Hd. done.
    + rewrite lookup_insert_ne by done. apply Hr.
Qed.

Lemma lentry_init now d k : lentry (init_state now) d k = None.
Proof. unfold lentry, get_db. simpl. by rewrite lookup_empty. Qed.

(** A fresh instance that loads [dbs] serves exactly the entries of [dbs] that have not expired. *)
Lemma load_fresh dbs now d k :
  lentry (load_state (filter_expired now dbs) (init_state now)) d k = purge1 now (flookup dbs d k).
Proof.
  destruct (load_state_spec (filter_expired now dbs) (init_state now) eq_refl) as (_ & _ & Hl).
  rewrite Hl. pose proof (flookup_filter now dbs d k) as Hf. unfold flookup in *.
  destruct (filter_expired now dbs !! d) as [db|]; [|rewrite lentry_init; by rewrite <- Hf].
  destruct (db !! k) as [e|] eqn:He; [|rewrite lentry_init; by rewrite <- Hf].
  simpl. rewrite <- Hf. simpl.
  (* an entry that passed the filter has not expired *)
  destruct (dbs !! d) as [db0|]; simpl in Hf; [|done].
  destruct (db0 !! k) as [e0|]; simpl in Hf; [|done].
  destruct (expired now e0) eqn:Hx; [done|]. injection Hf as ->. by rewrite Hx.
Qed.

Section engine.
Variable c : codec.
Hypothesis Hc : codec_ok c.
Context {H : Type} `{EqDecision H}.
Variable hash : snapobj -> H.

(** What [restore] does with a snapshot object made by [snapshot_object]. *)
Lemma restore_of_object (x : sfs (H:=H)) s latest s0 :
  restore_read x = Some (snapshot_object c s latest) ->
  restore c x s0 = Some (load_state (filter_expired (st_now s0) (filter_expired (st_now s) (st_dbs s))) s0, latest).
Proof.
  intros Hr. unfold restore. rewrite Hr. simpl. by rewrite (dec_enc_state c Hc).
Qed.

(** ** Round trip *)
Theorem snapshot_roundtrip (x : sfs (H:=H)) s ls x' s' ls' t' d k :
  st_now s <> 0 ->
  take_snapshot c hash x s ls None = (x', s', ls', SnapOk) ->
  exists sr,
    restore c x' (init_state t') = Some (sr, st_now s) /\
    lentry sr d k = purge1 t' (purge1 (st_now s) (flookup (st_dbs s) d k)) /\
    st_now sr = t'.
Proof.
  intros Hnow Htake. unfold take_snapshot, run_plan in Htake.
  destruct (p_res (take_snapshot_plan c hash x s ls)) eqn:Hres; try (injection Htake; discriminate).
  injection Htake as <- _ _.
  pose proof (plan_complete c hash x s ls Hnow Hres) as Hread.
  eexists. split; [by apply restore_of_object|]. split.
  - rewrite load_fresh. f_equal. simpl. apply flookup_filter.
  - by destruct (load_state_spec (filter_expired t' (filter_expired (st_now s) (st_dbs s))) (init_state t') eq_refl) as (_ & ? & _).
Qed.

(** ** LASTSAVE *)
Theorem lastsave_after_take (x : sfs (H:=H)) s ls fail x' s' ls' r :
  take_snapshot c hash x s ls fail = (x', s', ls', r) ->
  (r = SnapOk /\ ls' = st_now s /\ st_changes s' = 0) \/ (r <> SnapOk /\ ls' = ls /\ s' = s).
Proof.
  unfold take_snapshot. destruct (run_plan _ _ _) as [y r0]. destruct r0; intros [= <- <- <- <-]; auto.
Qed.

(** ** The automatic trigger: a tick with the threshold reached attempts a snapshot. *)
Theorem tick_attempts thr (x : sfs (H:=H)) s ls :
  thr <= st_changes s ->
  tick c hash thr x s ls =
    let '(x', s', ls', r) := take_snapshot c hash x s ls None in (x', s', ls', Some r).
Proof. intros Hthr. unfold tick. by rewrite (proj2 (Z.leb_le _ _) Hthr). Qed.

Theorem tick_below thr (x : sfs (H:=H)) s ls :
  st_changes s < thr -> tick c hash thr x s ls = (x, s, ls, None).
Proof. intros Hthr. unfold tick. by rewrite (proj2 (Z.leb_gt _ _) Hthr). Qed.

(** The attempt of a tick either publishes the dataset of that instant, or finds that the manifest
    already carries the hash of exactly this dataset. *)
Theorem attempt_outcome (x : sfs (H:=H)) s ls :
  st_now s <> 0 ->
  match read_manifest x with MBad => False | _ => True end ->
  let '(x', s', ls', r) := take_snapshot c hash x s ls None in
  (r = SnapOk /\ restore_read x' = Some (snapshot_object c s (st_now s))) \/
  (r = SnapSkip /\ exists m, read_manifest x = MOk m /\ m_hash m = hash (snapshot_object c s ls)).
Proof.
  intros Hnow Hman. unfold take_snapshot, run_plan.
  pose proof (plan_complete c hash x s ls Hnow) as Hcomp.
  unfold take_snapshot_plan in *.
  destruct (read_manifest x) as [| |m] eqn:Hrm; [|done|]; simpl in *.
  - left. split; [done|]. by apply Hcomp.
  - destruct (bool_decide (hash (snapshot_object c s ls) = m_hash m)) eqn:Hb; simpl in *.
    + right. split; [done|]. exists m. split; [done|]. by apply bool_decide_eq_true in Hb.
    + left. split; [done|]. by apply Hcomp.
Qed.

End engine.

(** Writes only ever increase the change counter; nothing but a completed snapshot resets it. *)
Lemma delete_key_changes s d k : st_changes (delete_key s d k) = st_changes s.
Proof. unfold delete_key. by destruct (get_db s d !! k). Qed.
Lemma get_values_go_changes s d ks acc : st_changes (get_values_go s d ks acc).1 = st_changes s.
Proof.
  revert s acc. induction ks as [|k ks IH]; intros s acc; simpl; [done|].
  destruct (get_db s d !! k) as [e|]; [|apply IH].
  destruct (expired (st_now s) e); [|apply IH]. rewrite IH. apply delete_key_changes.
Qed.
Lemma set_value1_changes s d k v : st_changes (set_value1 s d k v) = st_changes s + 1.
Proof.
  unfold set_value1. simpl. destruct (get_db s d !! k) as [e|]; [|done].
  destruct (expired (st_now s) e); [|done]. by rewrite delete_key_changes.
Qed.
Lemma set_values_changes s d kvs : st_changes s <= st_changes (set_values s d kvs).1.
Proof.
  unfold set_values. destruct (_ && _); simpl; [lia|].
  generalize (dedupe_last kvs). intros l. revert s. induction l as [|[k v] l IH]; intros s; simpl; [lia|].
  etrans; [|apply IH]. rewrite set_value1_changes. lia.
Qed.
Lemma set_expiry_changes s d k t : st_changes (set_expiry s d k t) = st_changes s.
Proof. unfold set_expiry. destruct (get_db s d !! k) as [e|]; [|done]. by destruct (expired _ e). Qed.
Lemma flush_db_changes s d : st_changes (flush_db s d) = st_changes s.
Proof. unfold flush_db. by destruct (st_dbs s !! d). Qed.
Lemma flush_changes s d : st_changes (flush s d) = st_changes s.
Proof.
  unfold flush. destruct (d =? -1); [|apply flush_db_changes].
  generalize (map fst (map_to_list (st_dbs s))). intros l. revert s.
  induction l as [|a l IH]; intros s; simpl; [done|]. rewrite IH. apply flush_db_changes.
Qed.

Theorem changes_monotone {R} (p : prog R) : forall d s, st_changes s <= st_changes (run_seq d p s).1.
Proof.
  induction p as [r|ks k IH|key k IH|ks k IH|kvs k IH|key t touch k IH|key k IH|k IH|k IH|k IH|k IH];
    intros d s; cbn [run_seq].
  - simpl. lia.
  - apply (IH (keys_exist s d ks)).
  - apply (IH (get_expiry s d key)).
  - pose proof (get_values_go_changes s d ks []) as Hg. unfold get_values.
    destruct (get_values_go s d ks []) as [s' acc]. simpl in Hg. rewrite <- Hg. apply IH.
  - pose proof (set_values_changes s d kvs) as Hs. destruct (set_values s d kvs) as [s' ok]. simpl in Hs.
    etrans; [exact Hs|apply IH].
  - rewrite <- (set_expiry_changes s d key t) at 1. apply IH.
  - rewrite <- (delete_key_changes s d key) at 1. apply IH.
  - apply (IH (st_now s)).
  - rewrite <- (flush_changes s d) at 1. apply IH.
  - rewrite <- (flush_changes s (-1)) at 1. apply IH.
  - apply (IH d).
Qed.
