(** The two instances of [ConcSerial.serializable_gen], and what follows for state copies.

    - exact: pools in which every thread takes the command lock (commands of any kind, state copies);
      equality of stores and outcomes; no hypothesis on the memory limit;
    - with background expiry: sampler passes, which do not take the lock, run at arbitrary points; equality
      of replies, "same observable keyspace" for stores and copies ([same_view]; needs [maxmemory = 0]
      because an expired-but-present entry counts for the memory limit; uses
      [ProgLemmas.run_seq_congruence], hence functional extensionality). *)
From stdpp Require Import gmap strings.
From RecordUpdate Require Import RecordSet.
Import RecordSetNotations.
From EV Require Import Base.Str Model.Value Model.Keyspace Model.Reply Model.Prog Model.Conc.
From EV Require Import Proofs.KeyspaceLemmas Proofs.ProgLemmas Proofs.ConcLemmas Proofs.ConcSerial.
Local Open Scope Z_scope.

(** * Exact *)
Lemma orel_eq o o' : orel eq o o' -> o = o'.
Proof. destruct o, o'; cbn; try done; congruence. Qed.

Definition all_lock (acts : gmap nat act) : Prop := forall (t : nat) a, acts !! t = Some a -> locks a = true.

Theorem serializable_exact (acts : gmap nat act) s0 sched :
  all_lock acts ->
  let P := run_conc (fixed_pool acts s0) sched in
  all_done P ->
  let perm := acq_order P in
  (base.NoDup perm /\ forall t, In t perm <-> is_Some (acts !! t)) /\
  p_store P = fst (run_serial acts perm s0) /\
  forall t, is_Some (acts !! t) -> is_Some (outcome_of P t) /\ outcome_of P t = snd (run_serial acts perm s0) !! t.
Proof.
  intros Hall P Hd perm. subst P perm. unfold fixed_pool in *.
  pose proof (serializable_gen eq (fun _ => True) (fun _ => False)
    (fun s => eq_refl) (fun a b H => eq_sym H) (fun a b c H1 H2 => eq_trans H1 H2)) as G.
  specialize (G (fun ra a b H _ => ltac:(subst; split; [done|apply orel_refl; done]))).
  specialize (G (fun _ _ _ => I) (fun _ _ F _ => False_ind _ F)).
  specialize (G ((fun a => (locks a, a)) <$> acts) s0 sched I).
  assert (snd <$> ((fun a => (locks a, a)) <$> acts) = acts) as Hs.
  { rewrite <- map_fmap_compose. apply map_eq. intros t. rewrite lookup_fmap. by destruct (acts !! t). }
  rewrite Hs in G. destruct G as ((Hn & Hin) & Hst & Ho).
  - intros t l a Ht. rewrite lookup_fmap in Ht. destruct (acts !! t) as [a'|] eqn:E; [|discriminate].
    cbn in Ht. injection Ht as <- <-. rewrite (Hall _ _ E). done.
  - exact Hd.
  - split; [split; [done|]|split; [done|]].
    + intros t. rewrite Hin. rewrite lookup_fmap. split.
      * intros [a Ha]. destruct (acts !! t); [eauto|discriminate].
      * intros [a Ha]. rewrite Ha. cbn. rewrite (Hall _ _ Ha). eauto.
    + intros t [a Ha]. destruct (Ho t a) as (o & o' & H1 & H2 & H3).
      { rewrite lookup_fmap, Ha. cbn. by rewrite (Hall _ _ Ha). }
      apply orel_eq in H3. subst. rewrite H1. split; [eauto|]. by rewrite H2.
Qed.

(** A state copy taken by a concurrent thread is the store at one instant between two commands: the
    state reached by the commands that got the lock before it. *)
Theorem snapshot_consistent (acts : gmap nat act) s0 sched t :
  all_lock acts -> acts !! t = Some ACopy ->
  let P := run_conc (fixed_pool acts s0) sched in
  all_done P ->
  exists pre post, acq_order P = pre ++ t :: post /\
    outcome_of P t = Some (OSnap (fst (run_serial acts pre s0))).
Proof.
  intros Hall Ht P Hd.
  destruct (serializable_exact acts s0 sched Hall Hd) as ((Hn & Hin) & _ & Ho). fold P in Hn, Hin, Ho.
  assert (In t (acq_order P)) as Hi by (apply Hin; eauto).
  apply in_split in Hi. destruct Hi as (pre & post & Hsplit). exists pre, post. split; [done|].
  destruct (Ho t) as [_ ->]; [eauto|]. rewrite Hsplit. apply serial_copy; [done|].
  rewrite Hsplit in Hn. apply NoDup_app in Hn. destruct Hn as (_ & _ & Hn). apply list.NoDup_cons in Hn.
  destruct Hn as [Hn _]. intros Hc. apply Hn. by apply elem_of_list_In.
Qed.

(** * With the expiry sampler *)
Definition good (s : state) : Prop := st_maxmem s = 0.
Definition is_sweep (ra : ract) : Prop := match ra with RSweep _ _ => True | _ => False end.

Lemma step1_maxmem {A} d (p : prog A) s : st_maxmem s = 0 -> st_maxmem (fst (step1 d p s)) = 0.
Proof.
  intros Hm. destruct p; cbn [step1 fst]; try done.
  - pose proof (get_values_full s d ks) as H. destruct (get_values s d ks) as [s' f]. cbn [fst]. destruct H as [(_ & _ & Hx & _) _]. congruence.
  - pose proof (set_values_spec s d kvs Hm) as H. destruct (set_values s d kvs) as [s' ok].
    cbn [fst]. destruct H as (_ & _ & _ & Hx & _). congruence.
  - destruct (set_expiry_fields s d key t) as (_ & Hx & _). congruence.
  - by rewrite delete_key_maxmem.
  - destruct (flush_fields s d) as (_ & Hx & _). congruence.
  - destruct (flush_fields s (-1)) as (_ & Hx & _). congruence.
Qed.

Lemma rrun_cong_view ra a b :
  same_view a b -> good a -> srel same_view (rrun ra a) (rrun ra b).
Proof.
  intros Hv Hg. destruct ra as [d p| |d ks]; cbn [rrun].
  - destruct (run_seq_congruence p d a b Hv Hg) as (H1 & H2 & _).
    destruct (run_seq d p a) as [a' r1]. destruct (run_seq d p b) as [b' r2]. cbn in *. subst. split; done.
  - split; done.
  - split; [|done]. cbn. rewrite !sweepc_is_sweep.
    eapply same_view_trans; [apply same_view_sym, sweep_same_view|].
    eapply same_view_trans; [exact Hv|apply sweep_same_view].
Qed.

Lemma rstep_good_view ra s : good s -> good (fst (rstep ra s)).
Proof.
  intros Hg. destruct ra as [d p| |d ks]; cbn [rstep].
  - pose proof (step1_maxmem d p s Hg) as H. destruct (step1 d p s) as [s' p']. cbn in *. done.
  - done.
  - cbn [fst]. rewrite sweepc_is_sweep. destruct (sweep_same_view ks s d) as (_ & _ & Hx & _). unfold good in *. congruence.
Qed.

Lemma quiet_step_view ra s : is_sweep ra -> good s ->
  same_view s (fst (rstep ra s)) /\ (forall ra', snd (rstep ra s) = inl ra' -> is_sweep ra').
Proof.
  destruct ra as [d p| |d ks]; try done. intros _ _. cbn. split; [|discriminate].
  rewrite sweepc_is_sweep. apply sweep_same_view.
Qed.

Definition orel_view := orel same_view.

Theorem serializable_view (acts : gmap nat act) s0 sched :
  st_maxmem s0 = 0 ->
  let P := run_conc (fixed_pool acts s0) sched in
  all_done P ->
  let perm := acq_order P in
  let ser := run_serial acts perm s0 in
  (base.NoDup perm /\ forall t, In t perm <-> exists a, acts !! t = Some a /\ locks a = true) /\
  same_view (p_store P) (fst ser) /\
  forall t a, acts !! t = Some a -> locks a = true ->
    exists o o', outcome_of P t = Some o /\ snd ser !! t = Some o' /\ orel_view o o'.
Proof.
  intros Hm P Hd perm ser. subst P perm ser. unfold fixed_pool in *.
  pose proof (serializable_gen same_view good is_sweep same_view_refl same_view_sym same_view_trans) as G.
  specialize (G rrun_cong_view rstep_good_view quiet_step_view).
  specialize (G ((fun a => (locks a, a)) <$> acts) s0 sched Hm).
  assert (snd <$> ((fun a => (locks a, a)) <$> acts) = acts) as Hs.
  { rewrite <- map_fmap_compose. apply map_eq. intros t. rewrite lookup_fmap. by destruct (acts !! t). }
  rewrite Hs in G. destruct G as ((Hn & Hin) & Hst & Ho).
  - intros t l a Ht. rewrite lookup_fmap in Ht. destruct (acts !! t) as [a'|] eqn:E; [|discriminate].
    cbn in Ht. injection Ht as <- <-. destruct a' as [d p| |d pick]; cbn [locks]; try done.
    intros s ra. cbn [act_start]. destruct (pick (get_vol s d)); [discriminate|]. intros [= <-]. done.
  - exact Hd.
  - split; [split; [done|]|split; [done|]].
    + intros t. rewrite Hin. rewrite lookup_fmap. split.
      * intros [a Ha]. destruct (acts !! t) as [a'|]; [|discriminate]. cbn in Ha. injection Ha as Hl <-. eauto.
      * intros (a & Ha & Hl). rewrite Ha. cbn. rewrite Hl. eauto.
    + intros t a Ha Hl. apply (Ho t a). rewrite lookup_fmap, Ha. cbn. by rewrite Hl.
Qed.
