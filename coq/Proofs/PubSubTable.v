(** C18, the subscription table, second part: (P)UNSUBSCRIBE, the recipients of a PUBLISH and the
    introspection commands of the model (lists of channel objects, Model/PubSub.v) are those of the
    reference (a [gset (conn * target)] and the order of first subscription, Spec/SpecPubSub.v); then
    the whole thing for every history: [table_refines].  (P)SUBSCRIBE is in PubSubProofs.v. *)
From stdpp Require Import gmap.
From EV Require Import Base.Str Model.Reply Model.PubSub Spec.SpecPubSub Proofs.PubSubDeliver Proofs.PubSubProofs.
Local Open Scope list_scope.

(** * Lists: Coq's [List.filter] / [List.find] / [List.map] (the model) against stdpp's (the reference) *)
Lemma NoDup_map_inj_in {A B} (f : A → B) l x y :
  base.NoDup (List.map f l) → x ∈ l → y ∈ l → f x = f y → x = y.
Proof.
  induction l as [|a l IH]; intros Hnd Hx Hy Heq; [inversion Hx|].
  cbn in Hnd. apply list.NoDup_cons in Hnd as [Hnin Hnd].
  apply elem_of_cons in Hx as [->|Hx]; apply elem_of_cons in Hy as [->|Hy]; try done.
  - exfalso. apply Hnin. rewrite Heq. apply elem_of_list_In, in_map, elem_of_list_In. done.
  - exfalso. apply Hnin. rewrite <- Heq. apply elem_of_list_In, in_map, elem_of_list_In. done.
  - by apply IH.
Qed.

Lemma lfilter_In {A} (f : A → bool) l x : x ∈ List.filter f l ↔ x ∈ l ∧ f x = true.
Proof. rewrite !elem_of_list_In. apply filter_In. Qed.

Lemma lmap_In {A B} (f : A → B) l y : y ∈ List.map f l ↔ ∃ x, x ∈ l ∧ y = f x.
Proof.
  rewrite elem_of_list_In, in_map_iff. split.
  - intros (x & <- & Hin). exists x. by rewrite elem_of_list_In.
  - intros (x & Hin & ->). exists x. by rewrite <- elem_of_list_In.
Qed.

Lemma lfilter_ext_in {A} (f g : A → bool) l :
  (∀ x, x ∈ l → f x = g x) → List.filter f l = List.filter g l.
Proof. intros H. apply filter_ext_in. intros x Hx. apply H. by apply elem_of_list_In. Qed.

Lemma lfilter_map {A B} (g : B → bool) (f : A → B) l :
  List.filter g (List.map f l) = List.map f (List.filter (fun x => g (f x)) l).
Proof. induction l as [|a l IH]; cbn; [done|]. destruct (g (f a)); cbn; by rewrite IH. Qed.

Lemma lfilter_filter {A} (f g : A → bool) l :
  List.filter f (List.filter g l) = List.filter (fun x => g x && f x) l.
Proof.
  induction l as [|a l IH]; cbn; [done|]. destruct (g a); cbn; [|done]. destruct (f a); by rewrite IH.
Qed.

(** a decidable predicate of the reference against a boolean test of the model *)
Lemma sfilter_map_tgt (P : target → Prop) `{∀ x, Decision (P x)} (q : chan → bool) l :
  (∀ ch, ch ∈ l → (P (tgt ch) ↔ q ch = true)) →
  base.filter P (List.map tgt l) = List.map tgt (List.filter q l).
Proof.
  induction l as [|a l IH]; intros Hq; cbn [List.map List.filter]; [done|].
  assert (Ha := Hq a (elem_of_list_here _ _)).
  assert (Hl : ∀ ch, ch ∈ l → P (tgt ch) ↔ q ch = true) by (intros ch Hin; apply Hq; by right).
  rewrite filter_cons. destruct (decide (P (tgt a))) as [Hp|Hp]; destruct (q a) eqn:Eq; cbn.
  - by rewrite IH.
  - apply Ha in Hp. congruence.
  - exfalso. apply Hp, Ha. done.
  - by apply IH.
Qed.

Lemma lfind_filter {A} (P Q : A → bool) l :
  List.find P (List.filter Q l) = List.find (fun x => Q x && P x) l.
Proof.
  induction l as [|a l IH]; cbn; [done|]. destruct (Q a); cbn; [|done]. by destruct (P a).
Qed.

Lemma lfind_map {A B} (P : B → bool) (f : A → B) l :
  List.find P (List.map f l) = option_map f (List.find (fun x => P (f x)) l).
Proof. induction l as [|a l IH]; cbn; [done|]. by destruct (P (f a)). Qed.

Lemma lfind_app {A} (P : A → bool) l1 l2 :
  List.find P (l1 ++ l2) = match List.find P l1 with Some x => Some x | None => List.find P l2 end.
Proof. induction l1 as [|a l1 IH]; cbn; [done|]. by destruct (P a). Qed.

Lemma lfind_ext_in {A} (P Q : A → bool) l :
  (∀ x, x ∈ l → P x = Q x) → List.find P l = List.find Q l.
Proof.
  induction l as [|a l IH]; intros H; cbn; [done|].
  rewrite <- (H a) by left. destruct (P a); [done|]. apply IH. intros x Hx. apply H. by right.
Qed.

Lemma smem_iff s l : smem s l = true ↔ s ∈ l.
Proof.
  unfold smem. rewrite existsb_exists, elem_of_list_In. split.
  - intros (x & Hin & Heq). apply String.eqb_eq in Heq. now subst.
  - intros Hin. exists s. split; [done|apply String.eqb_refl].
Qed.

Lemma is_nil_iff {A} (l : list A) : is_nil l = true ↔ l = [].
Proof. by destruct l. Qed.

(** * Targets *)
Lemma is_pat_tgt ch : is_pat (tgt ch) = ch_pat ch.
Proof. unfold tgt. by destruct (ch_pat ch). Qed.
Lemma tname_tgt ch : tname (tgt ch) = ch_name ch.
Proof. unfold tgt. by destruct (ch_pat ch). Qed.

Lemma tname_map_tgt l : List.map tname (List.map tgt l) = List.map ch_name l.
Proof. rewrite map_map. apply map_ext. intros ch. apply tname_tgt. Qed.

(** in a well-formed table a target names one object *)
Lemma in_abs_wf c ch t : wf t → ch ∈ t → ((c, tgt ch) ∈ abs t ↔ c ∈ ch_subs ch).
Proof.
  intros [Hnd _] Hin. rewrite elem_of_abs. split.
  - intros (ch' & Hin' & Heq & Hc). by rewrite (NoDup_map_inj_in tgt t ch ch' Hnd Hin Hin' Heq).
  - intros Hc. by exists ch.
Qed.

Lemma in_abs_mem c ch t : wf t → ch ∈ t → bool_decide ((c, tgt ch) ∈ abs t) = mem c (ch_subs ch).
Proof.
  intros Hwf Hin. destruct (mem c (ch_subs ch)) eqn:Hm.
  - apply bool_decide_eq_true_2. apply in_abs_wf; [done..|]. by apply mem_iff.
  - apply bool_decide_eq_false_2. rewrite in_abs_wf by done. rewrite <- mem_iff. congruence.
Qed.

(** * UNSUBSCRIBE / PUNSUBSCRIBE *)
Lemma pick_iff pat c names ch :
  unsub_pick pat c names ch = true ↔ concerned pat c names (c, tgt ch) ∧ c ∈ ch_subs ch.
Proof.
  unfold unsub_pick, concerned. cbn [fst snd].
  rewrite !andb_true_iff, orb_true_iff, eqb_true_iff, is_nil_iff, smem_iff, mem_iff, is_pat_tgt, tname_tgt.
  tauto.
Qed.

Lemma tgt_pick_remove pat c names ch :
  tgt (if unsub_pick pat c names ch then remove_sub c ch else ch) = tgt ch.
Proof. by destruct (unsub_pick pat c names ch). Qed.

Lemma tgt_unsub_table pat c names t : List.map tgt (unsub_table pat c names t) = List.map tgt t.
Proof. unfold unsub_table. rewrite map_map. apply map_ext. intros ch. apply tgt_pick_remove. Qed.

Lemma in_remove_sub c c' ch : c' ∈ ch_subs (remove_sub c ch) ↔ c' ∈ ch_subs ch ∧ c' ≠ c.
Proof.
  unfold remove_sub. cbn. rewrite lfilter_In, negb_true_iff, Nat.eqb_neq. split; intros [? ?]; split; congruence.
Qed.

(** the table after: exactly the concerned subscriptions are gone *)
Lemma abs_unsub_table pat c names t :
  abs (unsub_table pat c names t) = s_unsub_subs pat c names (abs t).
Proof.
  apply set_eq. intros [c' T]. unfold s_unsub_subs. rewrite elem_of_filter, !elem_of_abs. split.
  - intros (ch2 & Hin2 & -> & Hc). unfold unsub_table in Hin2. apply lmap_In in Hin2 as (ch & Hin & ->).
    rewrite tgt_pick_remove. destruct (unsub_pick pat c names ch) eqn:Hp.
    + apply in_remove_sub in Hc as [Hc Hne]. split; [|by exists ch].
      intros (Heq & _). cbn in Heq. congruence.
    + split; [|by exists ch]. intros Hcon. assert (c' = c) as -> by apply Hcon.
      assert (unsub_pick pat c names ch = true) by (by apply pick_iff). congruence.
  - intros (Hncon & ch & Hin & -> & Hc).
    exists (if unsub_pick pat c names ch then remove_sub c ch else ch). split; [|split].
    + unfold unsub_table. apply lmap_In. by exists ch.
    + by rewrite tgt_pick_remove.
    + destruct (unsub_pick pat c names ch) eqn:Hp; [|done].
      apply in_remove_sub. split; [done|]. intros ->. apply Hncon. by apply pick_iff in Hp as [? _].
Qed.

Lemma NoDup_remove_sub c ch : base.NoDup (ch_subs ch) → base.NoDup (ch_subs (remove_sub c ch)).
Proof. intros H. unfold remove_sub. cbn. apply NoDup_ListNoDup, List.NoDup_filter, NoDup_ListNoDup, H. Qed.

Lemma wf_unsub_table pat c names t : wf t → wf (unsub_table pat c names t).
Proof.
  intros [H1 H2]. split; [by rewrite tgt_unsub_table|].
  unfold unsub_table. induction H2 as [|ch t Hch Ht IH]; cbn; constructor.
  - destruct (unsub_pick pat c names ch); [by apply NoDup_remove_sub|done].
  - apply IH. cbn in H1. by apply list.NoDup_cons in H1 as [_ ?].
Qed.

(** the confirmations: the objects dropped, in table order = the reference's, in [ord] order *)
Lemma dropped_refines pat c names t :
  wf t →
  List.map tname (s_unsub_dropped pat c names (MkS (abs t) (List.map tgt t))) = unsub_dropped pat c names t.
Proof.
  intros Hwf. unfold s_unsub_dropped, unsub_dropped. cbn [subs ord].
  rewrite (sfilter_map_tgt _ (unsub_pick pat c names)).
  - apply tname_map_tgt.
  - intros ch Hin. rewrite pick_iff, in_abs_wf by done. done.
Qed.

(** Every argument vector (none = all of that kind, names the connection is not subscribed to,
    duplicates) from every well-formed table: the reply (one confirmation per subscription dropped,
    numbered 1, 2, …, in table order) and the table afterwards are the reference's; well-formedness
    is preserved; the order of first subscription is untouched. *)
Lemma unsub_refines pat c names t S o :
  wf t → S = abs t → o = List.map tgt t →
  unsub_reply pat (unsub_dropped pat c names t)
    = unsub_reply pat (List.map tname (s_unsub_dropped pat c names (MkS S o))) ∧
  wf (unsub_table pat c names t) ∧
  s_unsub_subs pat c names S = abs (unsub_table pat c names t) ∧
  o = List.map tgt (unsub_table pat c names t).
Proof.
  intros Hwf -> ->. split; [|split; [|split]].
  - by rewrite dropped_refines.
  - by apply wf_unsub_table.
  - symmetry. apply abs_unsub_table.
  - symmetry. apply tgt_unsub_table.
Qed.

Definition unsubscribe_refines := unsub_refines false.
Definition punsubscribe_refines := unsub_refines true.

(** what an (P)UNSUBSCRIBE means for one connection and one target, read off the set *)
Lemma unsub_subs_spec pat c names S c' T :
  (c', T) ∈ s_unsub_subs pat c names S ↔
  (c', T) ∈ S ∧ ¬ (c' = c ∧ is_pat T = pat ∧ (names = [] ∨ tname T ∈ names)).
Proof. unfold s_unsub_subs. rewrite elem_of_filter. unfold concerned. cbn. tauto. Qed.

Section WithGlob.
Variable glob_ok : string -> bool.
Variable glob_match : string -> string -> bool.
Notation m_step := (m_step glob_ok glob_match).
Notation m_run := (m_run glob_ok glob_match).
Notation s_step := (s_step glob_ok glob_match).
Notation s_run := (s_run glob_ok glob_match).
Notation pub_matches := (pub_matches glob_match).
Notation pub_objs := (pub_objs glob_match).
Notation publish_pushes := (publish_pushes glob_match).
Notation tmatch := (tmatch glob_match).
Notation recipient := (recipient glob_match).
Notation via := (via glob_match).
Notation s_publish_out := (s_publish_out glob_match).

(** * PUBLISH: the recipients *)
Lemma tmatch_tgt chn ch : tmatch chn (tgt ch) = pub_matches chn ch.
Proof using glob_match. unfold tgt, PubSub.pub_matches. by destruct (ch_pat ch). Qed.

Lemma in_pub_objs chn ch t : ch ∈ pub_objs chn t ↔ ch ∈ t ∧ pub_matches chn ch = true.
Proof using glob_match.
  clear glob_ok. unfold PubSub.pub_objs. rewrite elem_of_app, !lfilter_In, !andb_true_iff, negb_true_iff.
  destruct (ch_pat ch); intuition congruence.
Qed.

(** The model's search (the channel object of that name, then the matching pattern objects, the
    first one having the connection) finds something exactly for the connections the reference's
    set-based predicate names. *)
Lemma recipients_refine chn t c :
  recipient (abs t) chn c ↔ ∃ ch, List.find (fun ch => mem c (ch_subs ch)) (pub_objs chn t) = Some ch.
Proof using glob_match.
  unfold SpecPubSub.recipient. split.
  - intros (T & Hin & Hm). apply elem_of_abs in Hin as (ch & Hin & -> & Hc).
    rewrite tmatch_tgt in Hm.
    destruct (List.find (fun ch => mem c (ch_subs ch)) (pub_objs chn t)) as [ch'|] eqn:Hf; [by exists ch'|].
    exfalso. assert (H := find_none _ _ Hf ch). cbn in H.
    rewrite (proj2 (mem_iff c (ch_subs ch)) Hc) in H.
    enough (false = true) by done. symmetry. apply H. apply elem_of_list_In, in_pub_objs. done.
  - intros (ch & Hf). apply find_some in Hf as [Hin Hm].
    apply elem_of_list_In, in_pub_objs in Hin as [Hin Hp]. apply mem_iff in Hm.
    exists (tgt ch). split; [apply elem_of_abs; by exists ch|by rewrite tmatch_tgt].
Qed.

(** ... and it finds the object whose target the reference tells the connection. *)
Lemma via_refines chn t c :
  wf t →
  via (MkS (abs t) (List.map tgt t)) chn c
  = option_map tgt (List.find (fun ch => mem c (ch_subs ch)) (pub_objs chn t)).
Proof using glob_match.
  intros Hwf. unfold SpecPubSub.via, PubSub.pub_objs. cbn [subs ord].
  rewrite !lfilter_map, <- map_app, lfind_map. f_equal.
  rewrite !lfind_app, !lfind_filter.
  assert (He : ∀ b : bool, List.find (fun x => (if b then is_pat (tgt x) else negb (is_pat (tgt x))) &&
                               (bool_decide ((c, tgt x) ∈ abs t) && tmatch chn (tgt x))) t =
                           List.find (fun x => ((if b then ch_pat x else negb (ch_pat x)) && pub_matches chn x) &&
                               mem c (ch_subs x)) t).
  { intros b. apply lfind_ext_in. intros ch Hin.
    rewrite is_pat_tgt, tmatch_tgt, in_abs_mem by done.
    destruct b, (ch_pat ch), (pub_matches chn ch), (mem c (ch_subs ch)); done. }
  by rewrite (He false), (He true).
Qed.

(** PUBLISH queues for every connection what the reference owes it ... *)
Lemma publish_refines chn msg t c :
  wf t →
  proj c (publish_pushes chn msg t) = s_publish_out (MkS (abs t) (List.map tgt t)) chn msg c.
Proof using glob_match.
  intros Hwf. rewrite (publish_exact glob_match). unfold SpecPubSub.s_publish_out.
  rewrite via_refines by done.
  destruct (List.find (fun ch => mem c (ch_subs ch)) (pub_objs chn t)) as [ch|]; cbn; [|done].
  by rewrite tname_tgt.
Qed.

(** ... which is: exactly one message frame, under the name of one of its matching subscriptions,
    for a connection that the set says is a recipient, and nothing for any other connection. *)
Lemma publish_recipients chn msg t c :
  (recipient (abs t) chn c →
     ∃ T, (c, T) ∈ abs t ∧ tmatch chn T = true ∧ proj c (publish_pushes chn msg t) = [FMsg (tname T) msg]) ∧
  (¬ recipient (abs t) chn c → proj c (publish_pushes chn msg t) = []).
Proof using glob_match.
  rewrite (publish_exact glob_match). split.
  - intros Hr. apply recipients_refine in Hr as (ch & Hf). rewrite Hf.
    apply find_some in Hf as [Hin Hm]. apply elem_of_list_In, in_pub_objs in Hin as [Hin Hp].
    exists (tgt ch). rewrite tmatch_tgt, tname_tgt. split; [|done].
    apply elem_of_abs. exists ch. by rewrite <- mem_iff.
  - intros Hnr. destruct (List.find _ _) as [ch|] eqn:Hf; [|done].
    exfalso. apply Hnr, recipients_refine. by exists ch.
Qed.

(** * PUBSUB CHANNELS / NUMPAT / NUMSUB *)
Lemma has_sub_active ch t : wf t → ch ∈ t → has_sub (abs t) (tgt ch) = active ch.
Proof.
  intros Hwf Hin. unfold has_sub, active. destruct (ch_subs ch) as [|x l] eqn:Hs; cbn.
  - apply bool_decide_eq_false_2. intros Hne. apply Hne. apply set_eq. intros [c' T].
    rewrite elem_of_filter. cbn. split; [|set_solver]. intros [-> Hc].
    apply in_abs_wf in Hc; [|done..]. rewrite Hs in Hc. inversion Hc.
  - apply bool_decide_eq_true_2. intros He.
    assert (H : (x, tgt ch) ∈ base.filter (fun p : conn * target => p.2 = tgt ch) (abs t)).
    { apply elem_of_filter. split; [done|]. apply in_abs_wf; [done..|]. rewrite Hs. by left. }
    rewrite He in H. set_solver.
Qed.

Lemma active_targets_refines t :
  wf t → active_targets (MkS (abs t) (List.map tgt t)) = List.map tgt (List.filter active t).
Proof.
  intros Hwf. unfold active_targets. cbn [subs ord]. rewrite lfilter_map. f_equal.
  apply lfilter_ext_in. intros ch Hin. by apply has_sub_active.
Qed.

Lemma bulk_names l :
  List.map (fun T => RBulk (tname T)) (List.map tgt l) = List.map (fun ch => RBulk (ch_name ch)) l.
Proof. rewrite map_map. apply map_ext. intros ch. by rewrite tname_tgt. Qed.

Lemma channels_refines arg t :
  wf t → m_channels glob_ok glob_match arg t = s_channels glob_ok glob_match arg (MkS (abs t) (List.map tgt t)).
Proof.
  intros Hwf. unfold m_channels, s_channels. rewrite active_targets_refines by done.
  rewrite bulk_names. destruct arg as [p|]; [|done]. destruct p as [|a p]; [done|].
  destruct (glob_ok (String a p)); [|done].
  rewrite lfilter_map, bulk_names, lfilter_filter. do 2 f_equal.
  apply filter_ext. intros ch. rewrite is_pat_tgt, tname_tgt. apply andb_comm.
Qed.

Lemma numpat_refines t :
  wf t → m_numpat t = s_numpat (MkS (abs t) (List.map tgt t)).
Proof.
  intros Hwf. unfold m_numpat, s_numpat. rewrite active_targets_refines by done.
  rewrite lfilter_map, map_length, lfilter_filter. do 3 f_equal.
  apply filter_ext. intros ch. rewrite is_pat_tgt. apply andb_comm.
Qed.

(** the subscribers of one target: the length of the subscriber list of its object *)
Definition subs_len (T : target) (t : list chan) : nat :=
  fold_right (fun ch acc => if decide (tgt ch = T) then length (ch_subs ch) + acc else acc) 0 t.

Lemma size_abs1 ch : base.NoDup (ch_subs ch) → size (abs1 ch) = length (ch_subs ch).
Proof.
  intros Hnd. unfold abs1. rewrite size_list_to_set.
  - apply map_length.
  - change (List.map (fun c => (c, tgt ch)) (ch_subs ch)) with ((fun c => (c, tgt ch)) <$> ch_subs ch).
    apply NoDup_fmap_2; [|done]. intros x y Heq. by inversion Heq.
Qed.

Lemma filter_abs1_tgt T ch :
  base.filter (fun p : conn * target => p.2 = T) (abs1 ch) = if decide (tgt ch = T) then abs1 ch else ∅.
Proof.
  apply set_eq. intros [c' T']. rewrite elem_of_filter. cbn. destruct (decide (tgt ch = T)) as [<-|Hne].
  - rewrite elem_of_abs1. tauto.
  - rewrite elem_of_abs1. split; [|set_solver]. intros (-> & -> & _). done.
Qed.

Lemma subscribers_abs T t : wf t → subscribers_of (abs t) T = subs_len T t.
Proof.
  unfold subscribers_of. intros [Hnd Hall]. induction t as [|ch t IH]; cbn [subs_len fold_right].
  - rewrite abs_nil.
    assert (H : base.filter (fun p : conn * target => p.2 = T) (∅ : gset (conn * target)) = ∅)
      by (apply set_eq; intros x; rewrite elem_of_filter; set_solver).
    by rewrite H.
  - cbn in Hnd. apply list.NoDup_cons in Hnd as [Hnin Hnd]. inversion Hall as [|? ? Hch Hall']; subst.
    rewrite abs_cons, filter_union_L, size_union.
    + fold (subs_len T t). rewrite IH by done. rewrite filter_abs1_tgt.
      destruct (decide (tgt ch = T)); [by rewrite size_abs1|by rewrite size_empty].
    + intros [c' T'] H1 H2. apply elem_of_filter in H1 as [_ H1]. apply elem_of_filter in H2 as [_ H2].
      apply elem_of_abs1 in H1 as [-> _]. apply elem_of_abs in H2 as (ch' & Hin & Heq & _).
      apply Hnin. rewrite Heq. apply elem_of_list_In, in_map, elem_of_list_In. done.
    + apply _.
Qed.

(** NUMSUB adds the channel object and the pattern object of that name (pubsub.go, NumSub) *)
Lemma numsub_of_split n t : subs_len (Chan n) t + subs_len (Pat n) t = numsub_of n t.
Proof.
  induction t as [|ch t IH]; cbn [subs_len numsub_of fold_right]; [done|].
  fold (subs_len (Chan n) t) (subs_len (Pat n) t) (numsub_of n t). rewrite <- IH.
  unfold tgt. destruct (ch_pat ch); cbn [mk_target];
    destruct (String.eqb_spec (ch_name ch) n) as [->|Hne];
    repeat match goal with |- context [decide ?P] => destruct (decide P) as [?H|?H] end;
    try congruence; try lia; exfalso; eauto.
Qed.

Lemma numsub_refines names t :
  wf t → m_numsub names t = s_numsub names (MkS (abs t) (List.map tgt t)).
Proof.
  intros Hwf. unfold m_numsub, s_numsub. cbn [subs]. f_equal. apply map_ext. intros n.
  by rewrite !subscribers_abs, numsub_of_split.
Qed.

(** The three together: under [R] the introspection answers are the reference's functions of the set. *)
Lemma introspection_refines m s :
  R m s →
  (∀ arg, m_channels glob_ok glob_match arg (table m) = s_channels glob_ok glob_match arg s) ∧
  m_numpat (table m) = s_numpat s ∧
  (∀ names, m_numsub names (table m) = s_numsub names s).
Proof.
  destruct s as [S o]. intros (Hwf & HS & Ho). cbn in HS, Ho. subst S o. split; [|split].
  - intros arg. by apply channels_refines.
  - by apply numpat_refines.
  - intros names. by apply numsub_refines.
Qed.

(** ... and these functions read off the set itself (no reference to [ord] beyond the order of the
    names): a name is listed by CHANNELS iff some connection has that target; NUMPAT counts the
    patterns somebody has; NUMSUB n counts the pairs (c, Chan n) and (c, Pat n). *)
Lemma active_targets_spec s T :
  (∀ c T', (c, T') ∈ subs s → T' ∈ ord s) →
  T ∈ active_targets s ↔ ∃ c, (c, T) ∈ subs s.
Proof.
  intros Hord. unfold active_targets. rewrite lfilter_In. unfold has_sub. rewrite bool_decide_eq_true. split.
  - intros [_ Hne]. apply set_choose_L in Hne as [[c T'] Hin]. apply elem_of_filter in Hin as [Heq Hin].
    cbn in Heq. subst. by exists c.
  - intros [c Hin]. split; [by apply (Hord c)|]. intros He.
    assert (H : (c, T) ∈ base.filter (fun p : conn * target => p.2 = T) (subs s)) by (by apply elem_of_filter).
    rewrite He in H. set_solver.
Qed.

(** * One event, then every history *)
Definition not_close (e : event) : bool := match e with EClose _ => false | _ => true end.

Lemma step_refines m s e :
  R m s → not_close e = true →
  let '(m', r) := m_step m e in
  let '(s', r', out) := s_step s e in
  r = r' ∧ (∀ c, m_emit glob_ok glob_match m e c = out c) ∧ R m' s'.
Proof.
  destruct s as [S o]. intros (Hwf & HS & Ho) Hnc. cbn in HS, Ho.
  assert (HR : R m (MkS S o)) by done.
  destruct e as [pat c names|pat c names|c chn msg|arg| |names|c|c]; cbn [PubSub.m_step SpecPubSub.s_step m_emit];
    try discriminate Hnc.
  - (* (P)SUBSCRIBE *)
    destruct (is_nil names); [done|].
    destruct (pat && negb (forallb glob_ok names)); [done|].
    assert (H := subscribe_refines pat c names (table m) S o Hwf HS Ho).
    destruct (subscribe_loop pat c names (table m)) as [t' fs].
    destruct (s_subscribe pat c names (MkS S o)) as [s' fs'].
    destruct H as (-> & Hwf' & HS' & Ho'). split; [done|]. split; [|done].
    intros c'. cbn. by destruct (c' =? c).
  - (* (P)UNSUBSCRIBE *)
    destruct (unsub_refines pat c names (table m) S o Hwf HS Ho) as (Hr & Hwf' & HS' & Ho').
    cbn [subs ord]. split; [done|]. split; [done|]. done.
  - (* PUBLISH *)
    split; [done|]. split; [|done]. intros c'. subst S o. by apply publish_refines.
  - split; [|done]. subst S o. by apply channels_refines.
  - split; [|done]. subst S o. by apply numpat_refines.
  - split; [|done]. subst S o. by apply numsub_refines.
  - (* a step of a writer goroutine *)
    destruct (outbox m c); done.
Qed.

Theorem table_refines evs : ∀ m s,
  R m s → forallb not_close evs = true →
  let '(m', rs) := m_run m evs in
  let '(s', rs', owed) := s_run s evs in
  rs = rs' ∧ (∀ c, emitted glob_ok glob_match m evs c = owed c) ∧ R m' s'.
Proof.
  induction evs as [|e evs IH]; intros m s HR Hnc; cbn [PubSub.m_run SpecPubSub.s_run emitted forallb] in *.
  - done.
  - apply andb_true_iff in Hnc as [Hnc1 Hnc2].
    assert (H1 := step_refines m s e HR Hnc1).
    destruct (m_step m e) as [m1 r]. destruct (s_step s e) as [[s1 r'] out].
    destruct H1 as (-> & Hout & HR1). cbn [fst].
    specialize (IH m1 s1 HR1 Hnc2).
    destruct (m_run m1 evs) as [m2 rs]. destruct (s_run s1 evs) as [[s2 rs'] outs].
    destruct IH as (-> & Houts & HR2). split; [done|]. split; [|done].
    intros c. by rewrite Hout, Houts.
Qed.

Lemma R_init : R ps_init sst_init.
Proof. split; [|done]. split; [constructor|constructor]. Qed.

(** From the empty table; with the delivery invariant: what a connection has received followed by
    what is still queued for it is what the *reference* owes it. *)
Corollary table_refines_init evs :
  forallb not_close evs = true →
  let '(m', rs) := m_run ps_init evs in
  let '(s', rs', owed) := s_run sst_init evs in
  rs = rs' ∧ (∀ c, received m' c ++ outbox m' c = owed c) ∧ R m' s'.
Proof.
  intros Hnc. assert (H := table_refines evs ps_init sst_init R_init Hnc).
  assert (Hd := received_prefix glob_ok glob_match evs).
  destruct (m_run ps_init evs) as [m' rs]. destruct (s_run sst_init evs) as [[s' rs'] owed].
  destruct H as (-> & Ho & HR). split; [done|]. split; [|done].
  intros c. cbn [fst] in Hd. by rewrite Hd, Ho.
Qed.

End WithGlob.
