(** [Normalise] is idempotent, and every reachable ACL state has a normalised table (C11).

    [normalise_idempotent]: for EVERY user record [normalise (normalise u) = normalise u] — the rule
    lists come out of [RemoveDuplicateEntries] strictly sorted, without the alias and without "*" (or
    are exactly ["*"]), which is a fixpoint of the function; the include / exclude and nokeys
    adjustments and the stable password sort are fixpoints too.

    [reachable_normal]: the table of every state reachable from [NewACL] by RegisterConnection, AUTH,
    SETUSER, DELUSER, LOAD (merge or replace) and SAVE holds only normalised records, its addresses
    are distinct, allocated and below the allocation pointer.  With it the hypothesis "table normalised"
    of [AuthProofs.save_load_id] is discharged for reachable states; only "names distinct" stays
    (a config file may list a name twice). *)
From stdpp Require Import gmap strings.
From RecordUpdate Require Import RecordSet.
Import RecordSetNotations.
From EV Require Import Base.Str Model.Value Model.Keyspace Model.Reply Model.Prog Model.Dispatch.
From EV Require Import Model.TableTypes Model.KeyFuncs Model.Acl Model.AclWorld Spec.SpecAcl Proofs.AclProofs Proofs.AuthProofs.
From EV Require Import Proofs.ZSetPure.
Local Open Scope string_scope.
Local Open Scope list_scope.

(** * Sorted lists of strings *)
Definition slt (a b : string) : Prop := str_ltb a b = true.
Definition sle (a b : string) : Prop := str_leb a b = true.

Lemma slt_sle a b : slt a b -> sle a b.
Proof. unfold slt, sle, str_leb. intros H. by rewrite (str_ltb_asym _ _ H). Qed.

Lemma sle_total a b : str_leb a b = false -> sle b a.
Proof.
  unfold sle, str_leb. intros H. apply negb_false_iff in H. by rewrite (str_ltb_asym _ _ H).
Qed.

Lemma sle_ne_slt a b : sle a b -> a <> b -> slt a b.
Proof.
  unfold sle, slt, str_leb. intros H Hne. apply negb_true_iff in H.
  destruct (str_ltb a b) eqn:E; [done|]. exfalso. apply Hne. by apply str_ltb_total.
Qed.

(** adjacent elements in order *)
Fixpoint chain (R : string -> string -> Prop) (l : list string) : Prop :=
  match l with
  | a :: (b :: _) as r => R a b /\ chain R r
  | _ => True
  end.

Lemma chain_tail R a l : chain R (a :: l) -> chain R l.
Proof. destruct l; [done|]. by intros [_ H]. Qed.

Lemma insert_sorted_chain x l : chain sle l -> chain sle (insert_sorted str_leb x l).
Proof.
  induction l as [|y l IH]; intros Hc; [done|]. cbn [insert_sorted].
  destruct (str_leb x y) eqn:E; [by split|].
  specialize (IH (chain_tail _ _ _ Hc)). apply sle_total in E.
  destruct l as [|z l]; [by split|]. cbn [insert_sorted] in *.
  destruct Hc as [Hyz Hc]. destruct (str_leb x z); split; done.
Qed.

Lemma sort_strings_chain l : chain sle (sort_strings l).
Proof. induction l as [|x l IH]; [done|]. apply insert_sorted_chain, IH. Qed.

Lemma dedup_sorted_cons a b r :
  dedup_sorted (a :: b :: r) = if String.eqb a b then dedup_sorted (b :: r) else a :: dedup_sorted (b :: r).
Proof. done. Qed.

Lemma dedup_sorted_head a l : exists r, dedup_sorted (a :: l) = a :: r.
Proof.
  revert a. induction l as [|b l IH]; intros a; [by exists []|]. rewrite dedup_sorted_cons.
  destruct (String.eqb a b) eqn:E; [|by eexists]. apply String.eqb_eq in E. subst. apply IH.
Qed.

Lemma dedup_sorted_chain l : chain sle l -> chain slt (dedup_sorted l).
Proof.
  induction l as [|a l IH]; [done|]. destruct l as [|b l]; [done|].
  intros [Hab Hc]. rewrite dedup_sorted_cons. specialize (IH Hc).
  destruct (String.eqb a b) eqn:E; [exact IH|]. apply String.eqb_neq in E.
  destruct (dedup_sorted_head b l) as [r Hr]. rewrite Hr in *. split; [by apply sle_ne_slt|exact IH].
Qed.

Lemma dedup_sorted_In x l : In x (dedup_sorted l) -> In x l.
Proof.
  induction l as [|a l IH]; [done|]. destruct l as [|b l]; [done|]. rewrite dedup_sorted_cons.
  destruct (String.eqb a b); [intros H; right; by apply IH|]. intros [->|H]; [by left|right; by apply IH].
Qed.

Lemma insert_sorted_In x y l : In x (insert_sorted str_leb y l) -> x = y \/ In x l.
Proof.
  induction l as [|z l IH]; cbn [insert_sorted]; [intros [->|[]]; by left|].
  destruct (str_leb y z); [intros [->|H]; [by left|by right]|].
  intros [->|H]; [right; by left|]. destruct (IH H); [by left|right; by right].
Qed.

Lemma sort_strings_In x l : In x (sort_strings l) -> In x l.
Proof.
  induction l as [|y l IH]; [done|]. intros H. apply insert_sorted_In in H. destruct H as [->|H]; [by left|right; by apply IH].
Qed.

(** a strictly sorted list is a fixpoint of sorting and of the removal of adjacent duplicates *)
Lemma sort_strings_fix l : chain slt l -> sort_strings l = l.
Proof.
  induction l as [|a l IH]; [done|]. intros Hc. change (sort_strings (a :: l)) with (insert_sorted str_leb a (sort_strings l)).
  rewrite (IH (chain_tail _ _ _ Hc)). destruct l as [|b l]; [done|]. destruct Hc as [Hab _]. cbn [insert_sorted].
  by rewrite (slt_sle _ _ Hab).
Qed.

Lemma dedup_sorted_fix l : chain slt l -> dedup_sorted l = l.
Proof.
  induction l as [|a l IH]; [done|]. destruct l as [|b l]; [done|]. intros [Hab Hc]. rewrite dedup_sorted_cons.
  destruct (String.eqb a b) eqn:E.
  - apply String.eqb_eq in E. subst. unfold slt in Hab. by rewrite str_ltb_irrefl in Hab.
  - by rewrite (IH Hc).
Qed.

(** the strict order is transitive: the head is below everything *)
Lemma chain_slt_head a l : chain slt (a :: l) -> Forall (slt a) l.
Proof.
  revert a. induction l as [|b l IH]; intros a; [constructor|]. intros [Hab Hc]. constructor; [done|].
  specialize (IH b Hc). rewrite List.Forall_forall in *. intros c Hin. specialize (IH c Hin).
  unfold slt in *. by eapply str_ltb_trans.
Qed.

Lemma chain_slt_filter (f : string -> bool) l : chain slt l -> chain slt (List.filter f l).
Proof.
  induction l as [|a l IH]; [done|]. intros Hc. pose proof (chain_slt_head _ _ Hc) as Hh.
  specialize (IH (chain_tail _ _ _ Hc)). cbn [List.filter]. destruct (f a); [|exact IH].
  destruct (List.filter f l) as [|b r] eqn:E; [done|]. split; [|exact IH].
  assert (In b (List.filter f l)) as Hb by (rewrite E; by left). apply filter_In in Hb. destruct Hb as [Hb _].
  rewrite List.Forall_forall in Hh. by apply Hh.
Qed.

Lemma filter_all (f : string -> bool) l : (forall x, In x l -> f x = true) -> List.filter f l = l.
Proof.
  induction l as [|a l IH]; [done|]. intros H. cbn [List.filter]. rewrite (H a) by (by left). f_equal. apply IH.
  intros x Hx. apply H. by right.
Qed.

(** * [RemoveDuplicateEntries] *)
Lemma star_match {A} (keys : list string) (x y : A) :
  match keys with ["*"] => x | _ => y end = if decide (keys = ["*"]) then x else y.
Proof.
  destruct (decide _) as [->|Hne]; [done|].
  destruct keys as [|k [|k2 r]]; [done| |by destruct k as [|[[] [] [] [] [] [] [] []] [|]]].
  destruct k as [|[[] [] [] [] [] [] [] []] [|]]; done.
Qed.

(** The shape of its results: exactly ["*"], or strictly sorted without "*" and without the alias. *)
Definition rd_normal (alias : string) (l : list string) : Prop :=
  l = ["*"] \/ (chain slt l /\ ~ In "*" l /\ ~ In alias l).

Lemma remove_dups_normal entries alias : alias <> "*" -> rd_normal alias (remove_dups entries alias).
Proof.
  intros Ha. unfold remove_dups.
  set (m := map (fun e => if String.eqb e alias then "*" else e) entries).
  set (keys := dedup_sorted (sort_strings m)).
  assert (chain slt keys) as Hc by apply dedup_sorted_chain, sort_strings_chain.
  assert (~ In alias keys) as Hna.
  { intros Hi. apply dedup_sorted_In, sort_strings_In in Hi. subst m. apply in_map_iff in Hi.
    destruct Hi as (e & He & _). destruct (String.eqb e alias) eqn:E; [by subst|]. apply String.eqb_neq in E. done. }
  assert (rd_normal alias (List.filter (fun k => negb (String.eqb k "*")) keys)) as Hf.
  { right. split; [by apply chain_slt_filter|]. split.
    - intros Hi. apply filter_In in Hi. destruct Hi as [_ Hi]. by rewrite String.eqb_refl in Hi.
    - intros Hi. apply filter_In in Hi. by destruct Hi as [Hi _]. }
  rewrite star_match. destruct (decide _); [by left|exact Hf].
Qed.

Lemma remove_dups_fix alias l : alias <> "*" -> rd_normal alias l -> remove_dups l alias = l.
Proof.
  intros Ha [->|(Hc & Hs & Hna)].
  - unfold remove_dups. cbn [map]. destruct (String.eqb "*" alias) eqn:E; [apply String.eqb_eq in E; by subst|]. done.
  - unfold remove_dups.
    assert (map (fun e => if String.eqb e alias then "*" else e) l = l) as ->.
    { rewrite <- (map_id l) at 2. apply map_ext_in. intros e He. destruct (String.eqb e alias) eqn:E; [|done].
      apply String.eqb_eq in E. by subst. }
    rewrite (sort_strings_fix l Hc), (dedup_sorted_fix l Hc).
    assert (List.filter (fun k => negb (String.eqb k "*")) l = l) as Hf.
    { apply filter_all. intros x Hx. apply negb_true_iff, String.eqb_neq. intros ->. done. }
    rewrite star_match. destruct (decide _) as [->|_]; [exfalso; apply Hs; by left|exact Hf].
Qed.

Lemma remove_dups_idem alias l : alias <> "*" -> remove_dups (remove_dups l alias) alias = remove_dups l alias.
Proof. intros Ha. by apply remove_dups_fix, remove_dups_normal. Qed.

Lemma rd_normal_nil alias : rd_normal alias [].
Proof. right. split; [done|]. split; intros []. Qed.
Lemma rd_normal_star alias : rd_normal alias ["*"].
Proof. by left. Qed.

(** * The three adjustments of [Normalise], as functions of the de-duplicated lists *)
(** included categories / commands / channels: "*" when empty; emptied when everything is excluded *)
Definition inc_field (i x : list string) : list string :=
  if mem "*" x then [] else match i with [] => ["*"] | _ => i end.
(** read / write keys: "*" when empty unless the user has nokeys *)
Definition key_field (nokeys : bool) (k : list string) : list string :=
  match k with [] => if nokeys then [] else ["*"] | _ => k end.

Lemma inc_field_fix alias i x :
  alias <> "*" -> rd_normal alias i -> rd_normal alias x ->
  inc_field (remove_dups (inc_field i x) alias) (remove_dups x alias) = inc_field i x.
Proof.
  intros Ha Hi Hx. rewrite (remove_dups_fix alias x Ha Hx). unfold inc_field at 2 3.
  destruct (mem "*" x) eqn:E.
  - unfold inc_field. rewrite E. done.
  - assert (rd_normal alias (match i with [] => ["*"] | _ => i end)) as Hn by (destruct i; [apply rd_normal_star|exact Hi]).
    rewrite (remove_dups_fix alias _ Ha Hn). unfold inc_field. rewrite E. by destruct i.
Qed.

Lemma key_field_fix alias nk k :
  alias <> "*" -> rd_normal alias k ->
  key_field nk (remove_dups (key_field nk k) alias) = key_field nk k.
Proof.
  intros Ha Hk.
  assert (rd_normal alias (key_field nk k)) as Hn.
  { unfold key_field. destruct k; [|exact Hk]. destruct nk; [apply rd_normal_nil|apply rd_normal_star]. }
  rewrite (remove_dups_fix alias _ Ha Hn). unfold key_field. destruct k; [by destruct nk|done].
Qed.

(** * The stable sort of the passwords *)
Lemma filter_filter_same {A} (f : A -> bool) l : List.filter f (List.filter f l) = List.filter f l.
Proof.
  induction l as [|a l IH]; [done|]. cbn [List.filter]. destruct (f a) eqn:E; [|exact IH]. cbn [List.filter]. by rewrite E, IH.
Qed.
Lemma filter_filter_neg {A} (f : A -> bool) l : List.filter f (List.filter (fun x => negb (f x)) l) = [].
Proof.
  induction l as [|a l IH]; [done|]. cbn [List.filter]. destruct (f a) eqn:E; cbn [negb]; [exact IH|]. cbn [List.filter]. by rewrite E.
Qed.

Lemma sort_pws_idem l : sort_pws (sort_pws l) = sort_pws l.
Proof.
  unfold sort_pws. rewrite !filter_app.
  rewrite (filter_filter_same (fun p => negb (String.eqb (pw_type p) pw_sha))).
  rewrite (filter_filter_same (fun p => String.eqb (pw_type p) pw_sha)).
  rewrite (filter_filter_neg (fun p => String.eqb (pw_type p) pw_sha)).
  assert (forall l', List.filter (fun p => negb (String.eqb (pw_type p) pw_sha)) (List.filter (fun p => String.eqb (pw_type p) pw_sha) l') = []) as ->.
  { induction l' as [|a l' IH]; [done|]. cbn [List.filter]. destruct (String.eqb (pw_type a) pw_sha) eqn:E; [|exact IH].
    cbn [List.filter]. by rewrite E. }
  by rewrite app_nil_r.
Qed.

(** * [Normalise] field by field *)
Lemma user_ext (u v : user) :
  u_name u = u_name v -> u_enabled u = u_enabled v -> u_nopass u = u_nopass v -> u_nokeys u = u_nokeys v ->
  u_pws u = u_pws v -> u_icat u = u_icat v -> u_xcat u = u_xcat v -> u_icmd u = u_icmd v -> u_xcmd u = u_xcmd v ->
  u_rkeys u = u_rkeys v -> u_wkeys u = u_wkeys v -> u_ichan u = u_ichan v -> u_xchan u = u_xchan v -> u = v.
Proof. destruct u, v. cbn. intros. by subst. Qed.

Lemma normalise_fields u :
  u_name (normalise u) = u_name u /\ u_enabled (normalise u) = u_enabled u /\
  u_nopass (normalise u) = u_nopass u /\ u_nokeys (normalise u) = u_nokeys u /\
  u_pws (normalise u) = sort_pws (u_pws u) /\
  u_icat (normalise u) = inc_field (remove_dups (u_icat u) "allCategories") (remove_dups (u_xcat u) "allCategories") /\
  u_xcat (normalise u) = remove_dups (u_xcat u) "allCategories" /\
  u_icmd (normalise u) = inc_field (remove_dups (u_icmd u) "allCommands") (remove_dups (u_xcmd u) "allCommands") /\
  u_xcmd (normalise u) = remove_dups (u_xcmd u) "allCommands" /\
  u_rkeys (normalise u) = key_field (u_nokeys u) (remove_dups (u_rkeys u) "allKeys") /\
  u_wkeys (normalise u) = key_field (u_nokeys u) (remove_dups (u_wkeys u) "allKeys") /\
  u_ichan (normalise u) = inc_field (remove_dups (u_ichan u) "allChannels") (remove_dups (u_xchan u) "allChannels") /\
  u_xchan (normalise u) = remove_dups (u_xchan u) "allChannels".
Proof. destruct u. repeat split. Qed.

Theorem normalise_idempotent u : normalise (normalise u) = normalise u.
Proof.
  destruct (normalise_fields (normalise u)) as (N1 & N2 & N3 & N4 & N5 & N6 & N7 & N8 & N9 & N10 & N11 & N12 & N13).
  destruct (normalise_fields u) as (M1 & M2 & M3 & M4 & M5 & M6 & M7 & M8 & M9 & M10 & M11 & M12 & M13).
  apply user_ext; try congruence.
  - rewrite N5, M5. apply sort_pws_idem.
  - rewrite N6, M6, M7. apply inc_field_fix; [done|by apply remove_dups_normal..].
  - rewrite N7, M7. by apply remove_dups_idem.
  - rewrite N8, M8, M9. apply inc_field_fix; [done|by apply remove_dups_normal..].
  - rewrite N9, M9. by apply remove_dups_idem.
  - rewrite N10, M10, M4. apply key_field_fix; [done|by apply remove_dups_normal].
  - rewrite N11, M11, M4. apply key_field_fix; [done|by apply remove_dups_normal].
  - rewrite N12, M12, M13. apply inc_field_fix; [done|by apply remove_dups_normal..].
  - rewrite N13, M13. by apply remove_dups_idem.
Qed.

(** [Normalise] does not look at the name. *)
Lemma normalise_rename u n : normalise (u <| u_name := n |>) = normalise u <| u_name := n |>.
Proof. by destruct u. Qed.

(** * Every reachable state has a normalised, well-formed table *)
Definition table_ok (a : acl) : Prop :=
  Forall (fun u => normalise u = u) (table a) /\ NoDup (a_users a) /\
  (forall p, In p (a_users a) -> is_Some (a_heap a !! p)) /\
  (forall p, In p (a_users a) -> (p < a_next a)%nat).

Lemma table_ok_ext a a' :
  a_heap a' = a_heap a -> a_users a' = a_users a -> a_next a' = a_next a -> table_ok a -> table_ok a'.
Proof.
  intros Hh Hu Hn (H1 & H2 & H3 & H4). unfold table_ok, table, deref in *. rewrite Hh, Hu, Hn. done.
Qed.

Lemma table_ok_update a p u :
  table_ok a -> normalise u = u -> table_ok (a <| a_heap := <[p := u]> (a_heap a) |>).
Proof.
  intros (H1 & H2 & H3 & H4) Hu. unfold table_ok, table, deref in *. cbn.
  split; [|split; [done|split; [|done]]].
  - rewrite List.Forall_forall in *. intros v Hv. apply in_map_iff in Hv. destruct Hv as (q & <- & Hq).
    destruct (decide (q = p)) as [->|Hne]; [by rewrite lookup_insert|]. rewrite lookup_insert_ne by done.
    apply H1. apply in_map_iff. by exists q.
  - intros q Hq. apply lookup_insert_is_Some'. right. by apply H3.
Qed.

Lemma table_ok_append a u :
  table_ok a -> normalise u = u ->
  table_ok (a <| a_heap := <[a_next a := u]> (a_heap a) |> <| a_users := a_users a ++ [a_next a] |>
              <| a_next := S (a_next a) |>).
Proof.
  intros (H1 & H2 & H3 & H4) Hu. unfold table_ok, table, deref in *. cbn.
  split; [|split; [|split]].
  - rewrite map_app. apply List.Forall_app. split.
    + rewrite List.Forall_forall in *. intros v Hv. apply in_map_iff in Hv. destruct Hv as (q & <- & Hq).
      rewrite lookup_insert_ne by (specialize (H4 q Hq); lia). apply H1. apply in_map_iff. by exists q.
    + cbn. rewrite lookup_insert. by constructor.
  - apply NoDup_ListNoDup. apply NoDup_app. split; [by apply NoDup_ListNoDup|]. split; [|apply NoDup_singleton].
    intros q Hq Hq'. apply elem_of_list_singleton in Hq'. subst. apply elem_of_list_In in Hq. specialize (H4 _ Hq). lia.
  - intros q Hq. apply lookup_insert_is_Some'. apply in_app_or in Hq. destruct Hq as [Hq|[<-|[]]]; [right; by apply H3|by left].
  - intros q Hq. apply in_app_or in Hq. destruct Hq as [Hq|[<-|[]]]; [specialize (H4 q Hq)|]; lia.
Qed.

Lemma find_user_In a name p : find_user a name = Some p -> In p (a_users a).
Proof. unfold find_user. intros H. by apply find_some in H as [H _]. Qed.

(** ** NewACL *)
Lemma seq_heap_lookup (d : user) (l : list user) : forall k,
  map (fun p => default d ((list_to_map (zip (seq k (length l)) l) : gmap nat user) !! p)) (seq k (length l)) = l /\
  forall p, In p (seq k (length l)) -> is_Some ((list_to_map (zip (seq k (length l)) l) : gmap nat user) !! p).
Proof.
  induction l as [|x l IH]; intros k; [split; [done|intros p []]|]. cbn [length seq zip zip_with list_to_map map].
  destruct (IH (S k)) as [IH1 IH2].
  change (list_to_map ((k, x) :: zip (seq (S k) (length l)) l) : gmap nat user)
    with (<[k:=x]> (list_to_map (zip (seq (S k) (length l)) l) : gmap nat user)).
  split.
  - rewrite lookup_insert. cbn. f_equal. rewrite <- IH1 at 2. apply map_ext_in. intros p Hp.
    apply in_seq in Hp. rewrite lookup_insert_ne by lia. done.
  - intros p [<-|Hp]; [rewrite lookup_insert; eauto|]. apply lookup_insert_is_Some'. right. by apply IH2.
Qed.

Lemma table_ok_new req pw file : table_ok (new_acl req pw file).
Proof.
  unfold new_acl. set (us := map normalise _). unfold table_ok, table, deref. cbn.
  destruct (seq_heap_lookup (create_user "") us 0) as [E1 E2].
  split; [|split; [|split]].
  - rewrite E1. subst us. rewrite List.Forall_forall. intros v Hv. apply in_map_iff in Hv. destruct Hv as (u & <- & _).
    apply normalise_idempotent.
  - apply seq_NoDup.
  - exact E2.
  - intros p Hp. apply in_seq in Hp. lia.
Qed.

(** ** SETUSER, DELUSER, LOAD, SAVE, RegisterConnection, AUTH *)
Lemma table_ok_set_user a cmd : table_ok a -> table_ok (set_user a cmd).
Proof.
  intros Ha. unfold set_user. destruct cmd as [|name rest]; [done|].
  destruct (find_user a name) as [p|].
  - apply table_ok_update; [done|apply normalise_idempotent].
  - apply table_ok_append; [done|apply normalise_idempotent].
Qed.

Lemma table_ok_delete_one a name : table_ok a -> table_ok (delete_one a name).
Proof.
  intros Ha. unfold delete_one. destruct (String.eqb name "default"); [done|].
  destruct (find_user a name); [|done].
  destruct Ha as (H1 & H2 & H3 & H4). unfold table_ok, table, deref in *. cbn.
  split; [|split; [|split]].
  - rewrite List.Forall_forall in *. intros v Hv. apply in_map_iff in Hv. destruct Hv as (q & <- & Hq).
    apply filter_In in Hq. destruct Hq as [Hq _]. apply H1. apply in_map_iff. by exists q.
  - by apply List.NoDup_filter.
  - intros q Hq. apply filter_In in Hq. apply H3. tauto.
  - intros q Hq. apply filter_In in Hq. apply H4. tauto.
Qed.

Lemma table_ok_delete a names : table_ok a -> table_ok (delete_users a names).
Proof.
  unfold delete_users. revert a. induction names as [|n r IH]; intros a Ha; [done|]. cbn [fold_left].
  by apply IH, table_ok_delete_one.
Qed.

Lemma merge_user_normal u new : normalise (merge_user u new) = merge_user u new.
Proof. unfold merge_user. apply normalise_idempotent. Qed.

Lemma replace_user_normal u new : normalise new = new -> normalise (replace_user u new) = replace_user u new.
Proof. intros Hn. unfold replace_user. by rewrite normalise_rename, Hn. Qed.

Lemma table_ok_load_one m a fu : table_ok a -> table_ok (load_one m a fu).
Proof.
  intros Ha. unfold load_one. destruct (find_user a (u_name (normalise fu))) as [p|].
  - apply table_ok_update; [done|]. destruct m; [apply merge_user_normal|apply replace_user_normal, normalise_idempotent].
  - apply table_ok_append; [done|apply normalise_idempotent].
Qed.

Lemma table_ok_load a mode a' : table_ok a -> acl_load a mode = Some a' -> table_ok a'.
Proof.
  unfold acl_load. destruct (a_file a) as [fus|]; [|discriminate]. intros Ha [= <-].
  revert a Ha. induction fus as [|fu r IH]; intros a Ha; [done|]. cbn [fold_left]. by apply IH, table_ok_load_one.
Qed.

Lemma table_ok_save a : table_ok a -> table_ok (acl_save a).
Proof. by apply table_ok_ext. Qed.

Lemma table_ok_register a c : table_ok a -> table_ok (register_conn a c).
Proof. unfold register_conn. destruct (find_user a "default"); [|done]. by apply table_ok_ext. Qed.

Lemma table_ok_authenticate sha256 a c cmd a' :
  table_ok a -> authenticate sha256 a c cmd = Some a' -> table_ok a'.
Proof. intros Ha H. apply auth_effect in H as (p & -> & _). revert Ha. by apply table_ok_ext. Qed.

(** The states the server can be in: [NewACL] at start-up, then any sequence of the operations that
    touch the ACL state (the same list as in [C11_edits_govern]). *)
Inductive reachable : acl -> Prop :=
| r_new req pw file : reachable (new_acl req pw file)
| r_register a c : reachable a -> reachable (register_conn a c)
| r_auth sha256 a c cmd a' : reachable a -> authenticate sha256 a c cmd = Some a' -> reachable a'
| r_set_user a cmd : reachable a -> reachable (set_user a cmd)
| r_delete a names : reachable a -> reachable (delete_users a names)
| r_load a mode a' : reachable a -> acl_load a mode = Some a' -> reachable a'
| r_save a : reachable a -> reachable (acl_save a).

Theorem reachable_normal a : reachable a -> table_ok a.
Proof.
  induction 1; eauto using table_ok_new, table_ok_register, table_ok_authenticate, table_ok_set_user,
    table_ok_delete, table_ok_load, table_ok_save.
Qed.

(** SAVE then LOAD REPLACE is the identity on every reachable state whose user names are distinct. *)
Theorem save_load_id_reachable a :
  reachable a -> NoDup (map u_name (table a)) -> acl_load (acl_save a) "replace" = Some (acl_save a).
Proof.
  intros Hr Hnd. destruct (reachable_normal a Hr) as (H1 & H2 & H3 & _). apply save_load_id. unfold table_normal.
  split; [exact H1|]. split; [exact Hnd|]. split; [exact H2|exact H3].
Qed.
