(** C01: consequences of the refinement — a failing command changes nothing, other databases are never touched,
    the dispatcher runs these handlers, bytes round-trip, counters are integer arithmetic. *)
From stdpp Require Import gmap strings.
From Coq Require Import QArith ZifyBool.
From EV Require Import Base.Str Model.Value Model.Adapt Model.Keyspace Model.Reply Model.Prog.
From EV Require Import Model.CmdGeneric Model.CmdString Model.Dispatch.
From EV Require Import Spec.SpecKV Proofs.KeyspaceLemmas Proofs.ProgLemmas Proofs.HandlerClasses Proofs.DispatchLemmas.
From EV Require Import Proofs.KVProofs.
Local Open Scope Z_scope.

(** Every word of the C01 alphabet is served by the generic or the string table, with this handler. *)
Lemma kv_handler_table name h :
  kv_handler name = Some h ->
  (generic_handler name = Some h \/ string_handler name = Some h) /\ name <> "flushall" /\
  handler_of name = Some h.
Proof.
  unfold kv_handler.
  repeat match goal with
  | |- context [if String.eqb name ?w then _ else _] =>
      let E := fresh "E" in destruct (String.eqb name w) eqn:E;
      [apply String.eqb_eq in E; subst name; intros [= <-]; split; [first [left; reflexivity|right; reflexivity]|split; [discriminate|reflexivity]]|]
  end.
  discriminate.
Qed.

(** The dispatcher runs exactly [exec_kv] for these words, in the caller's database. *)
Theorem kv_dispatch w conn c argv h :
  argv = c :: tl argv -> kv_handler (lower c) = Some h ->
  exec_cmd w conn argv =
  (let '(s', r) := exec_kv (conn_db w conn) argv (w_st w) in (World s' (w_conns w), r)).
Proof.
  intros Hargv Hh. destruct (kv_handler_table _ _ Hh) as (_ & _ & Hho).
  destruct argv as [|c0 rest]; [discriminate|]. injection Hargv as ->.
  rewrite (exec_cmd_runs_handler w conn (c :: rest) c h eq_refl Hho). unfold exec_kv. by rewrite Hh.
Qed.

(** A command that answers with an error has changed nothing a client can observe: no value, no
    deadline, in no database. *)
Theorem kv_error_changes_nothing argv s d :
  snd (exec_kv d argv s) = RErr -> same_view s (fst (exec_kv d argv s)).
Proof.
  destruct argv as [|c args]; [intros _; apply same_view_refl|]. unfold exec_kv.
  destruct (kv_handler (lower c)) as [h|] eqn:Hh; [|intros _; apply same_view_refl].
  destruct (kv_handler_table _ _ Hh) as ([Hg|Hs] & _ & _).
  - apply err_before_write_pure. by eapply eb_generic.
  - apply err_before_write_pure. by eapply eb_string.
Qed.

(** No command of the alphabet touches another database: entries, deadlines and the volatile-key index
    of every database but the selected one stay exactly as they were. *)
Theorem kv_other_databases argv s d d' :
  d' <> d -> d <> -1 -> other_db_same s (fst (exec_kv d argv s)) d'.
Proof.
  intros Hd Hd1. destruct argv as [|c args]; [apply other_db_same_refl|]. unfold exec_kv.
  destruct (kv_handler (lower c)) as [h|] eqn:Hh; [|apply other_db_same_refl].
  destruct (kv_handler_table _ _ Hh) as ([Hg|Hs] & Hnf & _).
  - apply noflushall_frame; [|done|done]. eapply nf_generic; [exact Hg|exact Hnf|].
    unfold eq_fold, arg. simpl nth. apply String.eqb_neq. exact Hnf.
  - apply noflushall_frame; [|done|done]. by eapply nf_string.
Qed.

(** * Bytes: what SET stores, GET gives back *)
Lemma bulk_of_typed v : (forall f, adapt_value v <> SFloat f) -> bulk_of (typed v) = Some (RBulk v).
Proof.
  unfold typed, adapt_value. destruct (canonical_int v) as [z|] eqn:Hc.
  - intros _. unfold canonical_int in Hc. destruct (parse_int v) as [z'|]; [|done].
    destruct (String.eqb (show_Z z') v) eqn:E; [|done]. injection Hc as <-.
    apply String.eqb_eq in E. simpl. by rewrite E.
  - destruct (simple_decimal v) as [q|]; [intros H; exfalso; by apply (H (FFin q))|].
    destruct (String.eqb v "+Inf"); [intros H; exfalso; by apply (H FPInf)|].
    destruct (String.eqb v "-Inf"); [intros H; exfalso; by apply (H FNInf)|]. done.
Qed.

Theorem spec_set_get_bytes now (m : kvspec) k v :
  (forall f, adapt_value v <> SFloat f) ->
  snd (spec_kv_run now m [["SET"; k; v]; ["GET"; k]]) = [ROk; RBulk v].
Proof.
  intros Hv. unfold spec_kv_run, spec_kv. change (lower "SET") with "set". change (lower "GET") with "get".
  cbn -[put overwrite_val adapt_value typed]. unfold read_bulk.
  rewrite overwrite_lookup. simpl e_val. by rewrite (bulk_of_typed v Hv).
Qed.

(** ... for the handlers: whatever the state, the key, the previous value and its type, and every byte
    string [v] (empty, binary, CR LF, numeric-looking such as 007, a canonical integer) that is not a
    canonical decimal fraction. *)
Theorem kv_set_get_bytes s d k v :
  st_maxmem s = 0 -> (forall f, adapt_value v <> SFloat f) ->
  snd (run_kv_cmds d [["SET"; k; v]; ["GET"; k]] s) = [ROk; RBulk v].
Proof.
  intros Hm Hv. pose proof (kv_script_refines [["SET"; k; v]; ["GET"; k]] s d Hm) as H.
  destruct (run_kv_cmds d _ s) as [s' rs].
  pose proof (spec_set_get_bytes (st_now s) (kview s d) k v Hv) as Hs.
  destruct (spec_kv_run _ _ _) as [m' rs']. destruct H as (-> & _). exact Hs.
Qed.

(** * Counters: integer arithmetic in [Z] under the int64 guard *)
Theorem spec_incrby now (m : kvspec) k c dl ns n :
  m !! k = Some (Entry (VInt c) dl) -> parse_int ns = Some n ->
  spec_kv now m ["INCRBY"; k; ns] =
    if in_int64 (c + n) then (<[k := Entry (VInt (c + n)) dl]> m, RInt (c + n)) else (m, RErr).
Proof.
  intros Hk Hn. unfold spec_kv. change (lower "INCRBY") with "incrby". cbn -[overwrite_val]. rewrite Hn. unfold counter. rewrite Hk. simpl.
  destruct (in_int64 (c + n)); [|done]. f_equal.
  Transparent overwrite_val. unfold overwrite_val, dl_at. by rewrite Hk. Opaque overwrite_val.
Qed.
Theorem spec_decrby now (m : kvspec) k c dl ns n :
  m !! k = Some (Entry (VInt c) dl) -> parse_int ns = Some n ->
  spec_kv now m ["DECRBY"; k; ns] =
    if in_int64 (c - n) then (<[k := Entry (VInt (c - n)) dl]> m, RInt (c - n)) else (m, RErr).
Proof.
  intros Hk Hn. unfold spec_kv. change (lower "DECRBY") with "decrby". cbn -[overwrite_val]. rewrite Hn. unfold counter. rewrite Hk. simpl.
  replace (c + - n) with (c - n) by lia.
  destruct (in_int64 (c - n)); [|done]. f_equal.
  Transparent overwrite_val. unfold overwrite_val, dl_at. by rewrite Hk. Opaque overwrite_val.
Qed.
Theorem spec_incr_absent now (m : kvspec) k :
  m !! k = None -> spec_kv now m ["INCR"; k] = (<[k := Entry (VInt 1) None]> m, RInt 1).
Proof.
  intros Hk. unfold spec_kv. change (lower "INCR") with "incr". cbn -[overwrite_val]. unfold counter. rewrite Hk. simpl. f_equal.
  Transparent overwrite_val. unfold overwrite_val, dl_at. by rewrite Hk. Opaque overwrite_val.
Qed.

(** ... for the handler: INCRBY on a stored integer, every state, key, increment. *)
Theorem kv_incrby s d k c dl ns n :
  st_maxmem s = 0 -> kview s d !! k = Some (Entry (VInt c) dl) -> parse_int ns = Some n ->
  let '(s', r) := exec_kv d ["INCRBY"; k; ns] s in
  if in_int64 (c + n)
  then r = RInt (c + n) /\ kview s' d = <[k := Entry (VInt (c + n)) dl]> (kview s d)
  else r = RErr /\ same_view s s'.
Proof.
  intros Hm Hk Hn. pose proof (kv_step_refines ["INCRBY"; k; ns] s d Hm) as H.
  pose proof (kv_error_changes_nothing ["INCRBY"; k; ns] s d) as He.
  destruct (exec_kv d _ s) as [s' r]. rewrite (spec_incrby _ _ _ _ _ _ _ Hk Hn) in H.
  destruct (in_int64 (c + n)); destruct H as (-> & Hv & _); [done|]. split; [done|]. by apply He.
Qed.
