(** C01: the generic and string handlers refine the reference map of [Spec/SpecKV.v]. *)
From stdpp Require Import gmap strings.
From Coq Require Import QArith ZifyBool.
From EV Require Import Base.Str Model.Value Model.Adapt Model.Keyspace Model.Reply Model.Prog.
From EV Require Import Model.CmdGeneric Model.CmdString.
From EV Require Import Spec.SpecKV Proofs.KeyspaceLemmas Proofs.ProgLemmas.
Local Open Scope Z_scope.

(** * Abstraction: the live entries of database [d] (value and deadline) *)
Definition kview (s : state) (d : Z) : kvspec :=
  omap (fun e => if expired (st_now s) e then None else Some e) (get_db s d).

Lemma kview_lookup s d k : kview s d !! k = lentry s d k.
Proof.
  unfold kview, lentry. rewrite lookup_omap. destruct (get_db s d !! k) as [e|]; simpl; done.
Qed.
Lemma kview_ext s' d m : (forall k, lentry s' d k = m !! k) -> kview s' d = m.
Proof. intros H. apply map_eq. intros k. rewrite kview_lookup. apply H. Qed.
Lemma same_view_kview s s' d : same_view s s' -> kview s' d = kview s d.
Proof. intros (H & _). apply kview_ext. intros k. by rewrite kview_lookup. Qed.
Lemma kview_live s d k e : kview s d !! k = Some e -> expired (st_now s) e = false.
Proof.
  rewrite kview_lookup. unfold lentry. destruct (get_db s d !! k) as [e0|]; [|done].
  destruct (expired (st_now s) e0) eqn:E; [done|]. by intros [= <-].
Qed.
Lemma live_kview s d k : live s d k = e_val <$> kview s d !! k.
Proof. unfold live. by rewrite kview_lookup. Qed.
Lemma dl_at_kview s d k : dl_at (kview s d) k = dl_of (lentry s d k).
Proof. unfold dl_at. rewrite kview_lookup. by destruct (lentry s d k). Qed.

(** Clock and configuration are never touched. *)
Definition kv_keep (s s' : state) : Prop :=
  st_now s' = st_now s /\ st_maxmem s' = st_maxmem s /\ st_noevict s' = st_noevict s.
Lemma kv_keep_refl s : kv_keep s s. Proof. done. Qed.
Lemma same_view_keep s s' : same_view s s' -> kv_keep s s'.
Proof. intros (_ & ? & ? & ?). done. Qed.
Lemma kv_keep_trans a b c : kv_keep a b -> kv_keep b c -> kv_keep a c.
Proof. intros (?&?&?) (?&?&?). repeat split; congruence. Qed.

(** * The primitives in terms of the view *)
Lemma keys_exist_kview s d k : keys_exist s d [k] k = bool_decide (is_Some (kview s d !! k)).
Proof. rewrite keys_exist_single. by rewrite kview_lookup. Qed.

Lemma set_one s s1 d k v s2 ok :
  st_maxmem s = 0 -> same_view s s1 -> set_values s1 d [(k, v)] = (s2, ok) ->
  ok = true /\ kview s2 d = overwrite_val (kview s d) k v /\ kv_keep s s2.
Proof.
  intros Hm Hv Hs. assert (Hm1 : st_maxmem s1 = 0) by (destruct Hv as (_ & _ & -> & _); done).
  pose proof (set_values_spec s1 d [(k, v)] Hm1) as H. rewrite Hs in H.
  destruct H as (-> & He & Hk). split; [done|]. split.
  - apply kview_ext. intros k'. rewrite He, decide_True by done. simpl. unfold overwrite_val.
    destruct Hv as (Hv & _).
    destruct (String.eqb k' k) eqn:E.
    + apply String.eqb_eq in E. subst. rewrite lookup_insert. rewrite dl_at_kview. by rewrite Hv.
    + apply String.eqb_neq in E. rewrite lookup_insert_ne by done. rewrite kview_lookup. by rewrite Hv.
  - eapply kv_keep_trans; [apply same_view_keep; exact Hv|done].
Qed.

Lemma set_expiry_kview s d k t e :
  kview s d !! k = Some e ->
  kview (set_expiry s d k t) d = put (st_now s) (kview s d) k (e_val e) t /\ kv_keep s (set_expiry s d k t).
Proof.
  intros Hk. split; [|apply set_expiry_fields].
  apply kview_ext. intros k'. rewrite set_expiry_lentry. rewrite kview_lookup in Hk.
  destruct (decide (d = d /\ k = k')) as [[_ <-]|Hn].
  - rewrite Hk. unfold put, expired; simpl. destruct t as [t|].
    + destruct (t <? st_now s); [by rewrite lookup_delete|by rewrite lookup_insert].
    + by rewrite lookup_insert.
  - assert (k <> k') by (intros ->; apply Hn; done).
    unfold put. destruct t as [t|]; [destruct (t <? st_now s)|];
      rewrite ?lookup_delete_ne, ?lookup_insert_ne by done; by rewrite kview_lookup.
Qed.

Lemma delete_key_kview s d k :
  kview (delete_key s d k) d = delete k (kview s d) /\ kv_keep s (delete_key s d k).
Proof.
  split; [|repeat split; auto using delete_key_now, delete_key_maxmem, delete_key_noevict].
  apply kview_ext. intros k'. rewrite delete_key_lentry.
  destruct (decide (d = d /\ k = k')) as [[_ <-]|Hn].
  - by rewrite lookup_delete.
  - rewrite lookup_delete_ne by (intros ->; apply Hn; done). by rewrite kview_lookup.
Qed.

Lemma flush_kview s d : kview (flush s d) d = ∅ /\ kv_keep s (flush s d).
Proof.
  split; [|apply flush_fields]. apply kview_ext. intros k. rewrite flush_lentry.
  rewrite bool_decide_eq_true_2 by done. by rewrite orb_true_r, lookup_empty.
Qed.

(** * The statement proved of every handler *)
Definition refines1 (h : list string -> prog reply) (argv : list string) : Prop :=
  forall s d, st_maxmem s = 0 ->
  let '(s', r) := run_seq d (h argv) s in
  let '(m', r') := spec_kv (st_now s) (kview s d) argv in
  r = r' /\ kview s' d = m' /\ kv_keep s s'.

Ltac argv_cases argv :=
  destruct argv as [|?c [|?a1 [|?a2 [|?a3 [|?a4 [|?a5 [|?a6 [|?a7 ?rest]]]]]]]].

Ltac use_get_values s d ks :=
  let s1 := fresh "s1" in let f := fresh "f" in let Hv := fresh "Hview" in let Hf := fresh "Hf" in
  pose proof (get_values_spec s d ks) as Hv;
  destruct (get_values s d ks) as [s1 f]; destruct Hv as [Hv Hf].

Ltac finish_same :=
  match goal with
  | H : same_view ?s ?s' |- _ /\ kview ?s' _ = _ /\ kv_keep ?s ?s' =>
      split; [reflexivity|split; [apply same_view_kview; exact H|apply same_view_keep; exact H]]
  | |- _ /\ kview ?s _ = _ /\ kv_keep ?s ?s =>
      split; [reflexivity|split; [reflexivity|apply kv_keep_refl]]
  end.

Opaque put overwrite_val.

(** What a [GetValues [k]] returned, in terms of the view. *)
Ltac read_key k :=
  match goal with
  | Hf : forall k0, k0 ∈ ?ks -> ?f k0 = live ?s ?d k0 |- _ =>
      rewrite ?(Hf k) by set_solver; rewrite ?live_kview
  end.

Lemma get_refines argv c : argv = c :: tl argv -> lower c = "get" -> refines1 handle_get argv.
Proof.
  intros Hargv Hc s d Hm. unfold spec_kv, handle_get.
  argv_cases argv; try discriminate Hargv; injection Hargv as <-; rewrite Hc; cbn -[kview];
    try finish_same.
  rewrite keys_exist_kview. unfold arg, read_bulk; cbn -[kview].
  destruct (kview s d !! a1) as [e|] eqn:Hk; cbn -[kview]; [|finish_same].
  use_get_values s d [a1]. cbn -[kview]. read_key a1. rewrite Hk. cbn -[kview].
  destruct e as [[|[x|z|q0]|l|h|m|z] dl]; cbn -[kview]; try finish_same.
Qed.

Lemma strlen_refines argv c : argv = c :: tl argv -> lower c = "strlen" -> refines1 handle_strlen argv.
Proof.
  intros Hargv Hc s d Hm. unfold spec_kv, handle_strlen.
  argv_cases argv; try discriminate Hargv; injection Hargv as <-; rewrite Hc; cbn -[kview];
    try finish_same.
  rewrite keys_exist_kview. unfold arg; cbn -[kview].
  destruct (kview s d !! a1) as [e|] eqn:Hk; cbn -[kview]; [|finish_same].
  use_get_values s d [a1]. cbn -[kview]. read_key a1. rewrite Hk. cbn -[kview].
  destruct e as [[|[x|z|q0]|l|h|m|z] dl]; cbn -[kview]; finish_same.
Qed.

Lemma type_refines argv c : argv = c :: tl argv -> lower c = "type" -> refines1 handle_type argv.
Proof.
  intros Hargv Hc s d Hm. unfold spec_kv, handle_type.
  argv_cases argv; try discriminate Hargv; injection Hargv as <-; rewrite Hc; cbn -[kview];
    try finish_same.
  rewrite keys_exist_kview. unfold arg; cbn -[kview].
  destruct (kview s d !! a1) as [e|] eqn:Hk; cbn -[kview]; [|finish_same].
  use_get_values s d [a1]. cbn -[kview]. read_key a1. rewrite Hk. cbn -[kview].
  destruct e as [[|[x|z|q0]|l|h|m|z] dl]; cbn -[kview]; finish_same.
Qed.

Lemma getdel_refines argv c : argv = c :: tl argv -> lower c = "getdel" -> refines1 handle_getdel argv.
Proof.
  intros Hargv Hc s d Hm. unfold spec_kv, handle_getdel.
  argv_cases argv; try discriminate Hargv; injection Hargv as <-; rewrite Hc; cbn -[kview];
    try finish_same.
  rewrite keys_exist_kview. unfold arg, read_bulk; cbn -[kview].
  destruct (kview s d !! a1) as [e|] eqn:Hk; cbn -[kview]; [|finish_same].
  use_get_values s d [a1]. cbn -[kview]. read_key a1. rewrite Hk. cbn -[kview].
  assert (Hdel : forall r : reply, r = r /\ kview (delete_key s1 d a1) d = delete a1 (kview s d) /\ kv_keep s (delete_key s1 d a1)).
  { intros r. split; [done|]. destruct (delete_key_kview s1 d a1) as [-> Hkk].
    rewrite (same_view_kview _ _ _ Hview). split; [done|].
    eapply kv_keep_trans; [apply same_view_keep; exact Hview|done]. }
  destruct e as [[|[x|z|q0]|l|h|m|z] dl]; cbn -[kview]; try finish_same; try apply Hdel.
  destruct (fl_text q0); cbn -[kview]; apply Hdel.
Qed.

(** A [SetValues [(k, v)]] after reads that left the view as it was. *)
Ltac do_set s :=
  match goal with
  | Hv : same_view s ?s1, Hm : st_maxmem s = 0 |- context [set_values ?s1 ?d [(?k, ?v)]] =>
      let s2 := fresh "s2" in let ok := fresh "ok" in let Hs := fresh "Hs" in
      let Hkv := fresh "Hkv" in let Hkeep := fresh "Hkeep" in
      destruct (set_values s1 d [(k, v)]) as [s2 ok] eqn:Hs;
      destruct (set_one s s1 d k v s2 ok Hm Hv Hs) as (-> & Hkv & Hkeep); cbn -[kview]
  | Hm : st_maxmem s = 0 |- context [set_values s ?d [(?k, ?v)]] =>
      let s2 := fresh "s2" in let ok := fresh "ok" in let Hs := fresh "Hs" in
      let Hkv := fresh "Hkv" in let Hkeep := fresh "Hkeep" in
      destruct (set_values s d [(k, v)]) as [s2 ok] eqn:Hs;
      destruct (set_one s s d k v s2 ok Hm (same_view_refl s) Hs) as (-> & Hkv & Hkeep); cbn -[kview]
  end.
Ltac finish_set := match goal with Hkv : kview _ _ = _ |- _ => split; [reflexivity|split; [exact Hkv|assumption]] end.

Lemma counter_step_refines s d k delta :
  st_maxmem s = 0 ->
  let '(s', r) := run_seq d (counter_step k delta) s in
  let '(m', r') := counter (kview s d) k delta in
  r = r' /\ kview s' d = m' /\ kv_keep s s'.
Proof.
  intros Hm. unfold counter_step, counter. cbn -[kview].
  use_get_values s d [k]. cbn -[kview]. read_key k.
  assert (Hstore : forall n,
    let '(s', r) := run_seq d (if in_int64 n
        then SetValues [(k, VScal (SInt n))] (fun ok => if ok then Ret (RInt n) else Ret RErr) else Ret RErr) s1 in
    let '(m', r') := (if in_int64 n then (overwrite_val (kview s d) k (VInt n), RInt n) else (kview s d, RErr)) in
    r = r' /\ kview s' d = m' /\ kv_keep s s').
  { intros n. destruct (in_int64 n); cbn -[kview]; [|finish_same]. do_set s. finish_set. }
  destruct (kview s d !! k) as [e|] eqn:Hk; cbn -[kview]; [|apply Hstore].
  destruct e as [[|[x|z|q0]|l|h|m|z] dl]; cbn -[kview]; try finish_same; try apply Hstore.
  destruct (parse_int x); cbn -[kview]; [apply Hstore|finish_same].
Qed.

Ltac counter_case s d Hm key delta :=
  pose proof (counter_step_refines s d key delta Hm) as Hcs;
  destruct (run_seq d (counter_step key delta) s) as [s' r];
  destruct (counter (kview s d) key delta) as [m' r']; exact Hcs.

Lemma incr_refines argv c : argv = c :: tl argv -> lower c = "incr" -> refines1 handle_incr argv.
Proof.
  intros Hargv Hc s d Hm. unfold spec_kv, handle_incr.
  argv_cases argv; try discriminate Hargv; injection Hargv as <-; rewrite Hc; cbn -[kview counter counter_step];
    try finish_same.
  unfold arg; cbn -[kview counter counter_step]. counter_case s d Hm a1 1.
Qed.
Lemma decr_refines argv c : argv = c :: tl argv -> lower c = "decr" -> refines1 handle_decr argv.
Proof.
  intros Hargv Hc s d Hm. unfold spec_kv, handle_decr.
  argv_cases argv; try discriminate Hargv; injection Hargv as <-; rewrite Hc; cbn -[kview counter counter_step];
    try finish_same.
  unfold arg; cbn -[kview counter counter_step]. counter_case s d Hm a1 (-1).
Qed.
Lemma incrby_refines argv c : argv = c :: tl argv -> lower c = "incrby" -> refines1 handle_incrby argv.
Proof.
  intros Hargv Hc s d Hm. unfold spec_kv, handle_incrby.
  argv_cases argv; try discriminate Hargv; injection Hargv as <-; rewrite Hc; cbn -[kview counter counter_step];
    try finish_same.
  unfold arg; cbn -[kview counter counter_step].
  destruct (parse_int a2) as [n|]; [|cbn -[kview]; finish_same]. counter_case s d Hm a1 n.
Qed.
Lemma decrby_refines argv c : argv = c :: tl argv -> lower c = "decrby" -> refines1 handle_decrby argv.
Proof.
  intros Hargv Hc s d Hm. unfold spec_kv, handle_decrby.
  argv_cases argv; try discriminate Hargv; injection Hargv as <-; rewrite Hc; cbn -[kview counter counter_step];
    try finish_same.
  unfold arg; cbn -[kview counter counter_step].
  destruct (parse_int a2) as [n|]; [|cbn -[kview]; finish_same]. counter_case s d Hm a1 (- n).
Qed.

Lemma append_refines argv c : argv = c :: tl argv -> lower c = "append" -> refines1 handle_append argv.
Proof.
  intros Hargv Hc s d Hm. unfold spec_kv, handle_append.
  argv_cases argv; try discriminate Hargv; injection Hargv as <-; rewrite Hc; cbn -[kview adapt_value];
    try finish_same.
  rewrite keys_exist_kview. unfold arg; cbn -[kview adapt_value].
  destruct (kview s d !! a1) as [e|] eqn:Hk; cbn -[kview adapt_value].
  - use_get_values s d [a1]. cbn -[kview adapt_value]. read_key a1. rewrite Hk. cbn -[kview adapt_value].
    destruct e as [[|[x|z|q0]|l|h|m|z] dl]; cbn -[kview adapt_value]; try finish_same.
    do_set s. finish_set.
  - do_set s. finish_set.
Qed.

(** * SET *)
Transparent put overwrite_val.
Lemma put_overwrite now (m : kvspec) k v v' t : put now (overwrite_val m k v') k v t = put now m k v t.
Proof.
  unfold put, overwrite_val. destruct t as [t|]; [destruct (t <? now)|].
  - apply delete_insert_delete.
  - apply insert_insert.
  - apply insert_insert.
Qed.
Lemma overwrite_lookup (m : kvspec) k v : overwrite_val m k v !! k = Some (Entry v (dl_at m k)).
Proof. unfold overwrite_val. by rewrite lookup_insert. Qed.
Opaque put overwrite_val.

Definition cond_word (c : cond) : string := match c with CAlways => "" | CNX => "NX" | CXX => "XX" end.
Definition opts_rel (o : set_opts) (o' : sopts) : Prop :=
  so_exists o = cond_word (o_cond o') /\ so_get o = o_get o' /\ so_expire o = o_dl o'.

Lemma parse_set_opts_spec now : forall fuel ws o o',
  (length ws < fuel)%nat -> opts_rel o o' ->
  match parse_set_opts fuel now ws o, set_options now ws o' with
  | Some a, Some b => opts_rel a b
  | None, None => True
  | _, _ => False
  end.
Proof.
  induction fuel as [|fuel IH]; intros ws o o' Hlen Hrel; [lia|].
  destruct ws as [|w rest]; [simpl; done|].
  destruct Hrel as (He & Hg & Hx).
  cbn [parse_set_opts set_options]. cbv zeta.
  assert (Hl1 : (length rest < fuel)%nat) by (simpl in Hlen; lia).
  assert (Htimed : forall mk,
     match (match rest with
            | [] => None
            | v :: rest' => match so_expire o with
                            | Some _ => None
                            | None => match parse_int v with
                                      | Some n => parse_set_opts fuel now rest' (SetOpts (so_exists o) (so_get o) (Some (mk n)))
                                      | None => None end end end),
           (match rest, o_dl o' with
            | v :: rest', None => match parse_int v with
                                  | Some n => set_options now rest' (SOpts (o_cond o') (o_get o') (Some (mk n)))
                                  | None => None end
            | _, _ => None end) with
     | Some a, Some b => opts_rel a b | None, None => True | _, _ => False end).
  { intros mk. destruct rest as [|v rest']; [done|]. rewrite Hx. destruct (o_dl o'); [done|].
    destruct (parse_int v) as [n|]; [|done]. apply IH; [simpl in Hl1; lia|]. by repeat split. }
  destruct (String.eqb (lower w) "get") eqn:E1.
  { apply IH; [done|]. by repeat split. }
  destruct (String.eqb (lower w) "nx") eqn:E2.
  { rewrite He. destruct (o_cond o'); simpl; [|done|done]. apply IH; [done|]. by repeat split. }
  destruct (String.eqb (lower w) "xx") eqn:E3.
  { rewrite He. destruct (o_cond o'); simpl; [|done|done]. apply IH; [done|]. by repeat split. }
  destruct (String.eqb (lower w) "ex") eqn:E4; [apply (Htimed (fun n => now + n * 1000))|].
  destruct (String.eqb (lower w) "px") eqn:E5; [apply (Htimed (fun n => now + n))|].
  destruct (String.eqb (lower w) "exat") eqn:E6; [apply (Htimed (fun n => n * 1000))|].
  destruct (String.eqb (lower w) "pxat") eqn:E7; [apply (Htimed (fun n => n))|].
  done.
Qed.

(** After the [SetValues] of SET: the optional [SetExpiry]. *)
Lemma set_then_expire s s2 d k v (dlo : option Z) (res : reply) :
  kview s2 d = overwrite_val (kview s d) k v -> kv_keep s s2 ->
  let '(s', r) := run_seq d (match dlo with Some t => SetExpiry k (Some t) false (Ret res) | None => Ret res end) s2 in
  r = res /\
  kview s' d = match dlo with Some t => put (st_now s) (kview s d) k v (Some t) | None => overwrite_val (kview s d) k v end /\
  kv_keep s s'.
Proof.
  intros Hkv Hkeep. destruct dlo as [t|]; cbn -[kview]; [|done].
  assert (Hk : kview s2 d !! k = Some (Entry v (dl_at (kview s d) k))) by (rewrite Hkv; apply overwrite_lookup).
  destruct (set_expiry_kview s2 d k (Some t) _ Hk) as [-> Hk2]. split; [done|]. split.
  - destruct Hkeep as (-> & _). rewrite Hkv. simpl. apply put_overwrite.
  - eapply kv_keep_trans; eauto.
Qed.

Lemma set_refines argv c : argv = c :: tl argv -> lower c = "set" -> refines1 handle_set argv.
Proof.
  intros Hargv Hc s d Hm. unfold spec_kv, handle_set.
  destruct argv as [|c0 [|a1 [|a2 opts]]]; try discriminate Hargv; injection Hargv as <-; rewrite Hc;
    [cbn -[kview]; finish_same|cbn -[kview]; finish_same|].
  cbn -[kview parse_set_opts set_options adapt_value Nat.ltb].
  replace (length opts <? 0)%nat with false by (symmetry; apply Nat.ltb_ge; lia). simpl orb.
  replace (7 <? S (S (S (length opts))))%nat with (4 <? length opts)%nat
    by (destruct (4 <? length opts)%nat eqn:E; symmetry; [apply Nat.ltb_lt; apply Nat.ltb_lt in E; lia|apply Nat.ltb_ge; apply Nat.ltb_ge in E; lia]).
  destruct (4 <? length opts)%nat eqn:Hlen; cbn -[kview parse_set_opts set_options adapt_value]; [finish_same|].
  rewrite keys_exist_kview. unfold arg; cbn -[kview parse_set_opts set_options adapt_value].
  change (drop 0 opts) with opts.
  pose proof (parse_set_opts_spec (st_now s) (S (S (S (S (length opts))))) opts (SetOpts "" false None) (SOpts CAlways false None)) as Hp.
  destruct (parse_set_opts (S (S (S (S (length opts))))) (st_now s) opts (SetOpts "" false None)) as [o|];
    destruct (set_options (st_now s) opts (SOpts CAlways false None)) as [o'|];
    try (exfalso; apply Hp; [lia|by repeat split]); [|cbn -[kview]; finish_same].
  assert (Hrel : opts_rel o o') by (apply Hp; [lia|by repeat split]). clear Hp.
  destruct o as [xs g e], o' as [cd g' e']. destruct Hrel as (Hx & Hg & He). simpl in Hx, Hg, He. subst xs g e.
  (* the write, after whatever was read *)
  assert (Hwrite : forall s1 res, same_view s s1 ->
    let ex := bool_decide (is_Some (kview s d !! a1)) in
    let '(s', r) := run_seq d
       (if String.eqb (cond_word cd) "XX" && negb ex then Ret RErr
        else if String.eqb (cond_word cd) "NX" && ex then Ret RErr
        else SetValues [(a1, VScal (adapt_value a2))] (fun ok =>
             if negb ok then Ret RErr else
             match e' with Some t => SetExpiry a1 (Some t) false (Ret res) | None => Ret res end)) s1 in
    let '(m', r') := match cd, kview s d !! a1 with
                     | CXX, None => (kview s d, RErr)
                     | CNX, Some _ => (kview s d, RErr)
                     | _, _ => (match e' with
                                | Some t => put (st_now s) (kview s d) a1 (typed a2) (Some t)
                                | None => overwrite_val (kview s d) a1 (typed a2)
                                end, res)
                     end in
    r = r' /\ kview s' d = m' /\ kv_keep s s').
  { intros s1 res Hv.
    assert (Hgo : let '(s', r) := run_seq d (SetValues [(a1, VScal (adapt_value a2))] (fun ok =>
             if negb ok then Ret RErr else
             match e' with Some t => SetExpiry a1 (Some t) false (Ret res) | None => Ret res end)) s1 in
        r = res /\ kview s' d = match e' with
                                | Some t => put (st_now s) (kview s d) a1 (typed a2) (Some t)
                                | None => overwrite_val (kview s d) a1 (typed a2)
                                end /\ kv_keep s s').
    { cbn -[kview adapt_value]. do_set s.
      pose proof (set_then_expire s s2 d a1 (typed a2) e' res Hkv Hkeep) as H2.
      destruct (run_seq d _ s2) as [s3 r3]. exact H2. }
    destruct (kview s d !! a1) as [e0|] eqn:Hk0; destruct cd; cbn -[kview adapt_value run_seq];
      first [ (cbn -[kview adapt_value]; finish_same)
            | (destruct (run_seq d _ s1) as [s3 r3]; destruct Hgo as (-> & ? & ?); done) ]. }
  destruct g'; cbn -[kview adapt_value run_seq put overwrite_val].
  - unfold read_bulk. destruct (kview s d !! a1) as [e0|] eqn:Hk0; cbn -[kview adapt_value run_seq].
    + cbn -[kview adapt_value]. use_get_values s d [a1]. read_key a1. rewrite Hk0. cbn -[kview adapt_value run_seq].
      pose proof (Hwrite s1) as Hw. try rewrite Hk0 in Hw. cbn -[kview adapt_value run_seq] in Hw.
      destruct e0 as [[|[x|z|q0]|l|h|m|z] dl]; cbn -[kview adapt_value run_seq];
        try (cbn -[kview]; finish_same); try (apply Hw; exact Hview).
      destruct (fl_text q0); cbn -[kview adapt_value run_seq]; apply Hw; exact Hview.
    + pose proof (Hwrite s RNil (same_view_refl s)) as Hw. try rewrite Hk0 in Hw. exact Hw.
  - pose proof (Hwrite s ROk (same_view_refl s)) as Hw. exact Hw.
Qed.

(** * The other string commands *)
Lemma digits_val_none r : forall acc, all_digits r = false -> digits_val acc r = None.
Proof.
  induction r as [|c r IH]; intros acc; simpl; [done|].
  destruct (is_digit c); simpl; [apply IH|done].
Qed.
Lemma adapt_int_eq s : adapt_int s = parse_int s.
Proof.
  destruct s as [|c r]; [done|].
  destruct c as [[] [] [] [] [] [] [] []]; try reflexivity.
  unfold adapt_int. destruct (all_digits r && negb (String.eqb r "")) eqn:E; [done|].
  unfold parse_int. destruct r as [|c' r']; [done|].
  simpl in E. rewrite andb_true_r in E. unfold parse_nat. by rewrite digits_val_none.
Qed.

Lemma setrange_refines argv c : argv = c :: tl argv -> lower c = "setrange" -> refines1 handle_setrange argv.
Proof.
  intros Hargv Hc s d Hm. unfold spec_kv, handle_setrange.
  argv_cases argv; try discriminate Hargv; injection Hargv as <-; rewrite Hc; cbn -[kview adapt_value];
    try finish_same.
  rewrite keys_exist_kview. unfold arg; cbn -[kview adapt_value]. rewrite adapt_int_eq.
  destruct (parse_int a2) as [off|]; cbn -[kview adapt_value]; [|finish_same].
  destruct (kview s d !! a1) as [e|] eqn:Hk; cbn -[kview adapt_value].
  - use_get_values s d [a1]. cbn -[kview adapt_value]. read_key a1. rewrite Hk. cbn -[kview adapt_value].
    destruct e as [[|[x|z|q0]|l|h|m|z] dl]; cbn -[kview adapt_value]; try finish_same.
    unfold set_range, overwrite. cbv zeta.
    destruct (slen x <=? off); cbn -[kview adapt_value]; [do_set s; finish_set|].
    destruct (off <? 0); cbn -[kview adapt_value]; do_set s; finish_set.
  - do_set s. finish_set.
Qed.

Lemma substr_refines argv c : argv = c :: tl argv -> (lower c = "getrange" \/ lower c = "substr") -> refines1 handle_substr argv.
Proof.
  intros Hargv Hc s d Hm. unfold spec_kv, handle_substr.
  argv_cases argv; try discriminate Hargv; injection Hargv as <-; destruct Hc as [Hc|Hc]; rewrite Hc; cbn -[kview];
    try finish_same.
  all: rewrite keys_exist_kview; unfold arg; cbn -[kview]; rewrite !adapt_int_eq.
  all: destruct (parse_int a2) as [s0|]; cbn -[kview]; [|finish_same].
  all: destruct (parse_int a3) as [e0|]; cbn -[kview]; [|finish_same].
  all: destruct (kview s d !! a1) as [e|] eqn:Hk; cbn -[kview]; [|finish_same].
  all: use_get_values s d [a1]; cbn -[kview]; read_key a1; rewrite Hk; cbn -[kview].
  all: destruct e as [[|[x|z|q0]|l|h|m|z] dl]; cbn -[kview]; try finish_same.
  all: unfold get_range, bytes_rev, bytes_sub, rev_str, sub_bytes; cbv zeta.
  all: match goal with |- context [if ?b then Ret _ else Ret _] => destruct b end; cbn -[kview]; finish_same.
Qed.

Lemma flushdb_refines argv c : argv = c :: tl argv -> lower c = "flushdb" -> refines1 handle_flush argv.
Proof.
  intros Hargv Hc s d Hm. unfold spec_kv, handle_flush.
  argv_cases argv; try discriminate Hargv; injection Hargv as <-; rewrite Hc; cbn -[kview eq_fold];
    try finish_same.
  replace (eq_fold c0 "flushall") with false by (unfold eq_fold; by rewrite Hc). cbn -[kview].
  destruct (flush_kview s d) as [-> Hk]. done.
Qed.

Lemma mget_item (o : option entry) :
  match encode_value (e_val <$> o) with RErr => RNil | r => r end =
  match (match o with
         | None => RdAbsent
         | Some e => match bulk_of (e_val e) with Some r => RdBulk e r | None => RdWrong end
         end) with RdBulk _ r => r | _ => RNil end.
Proof.
  destruct o as [[[|[x|z|q0]|l|h|m|z] dl]|]; simpl; try done. by destruct (fl_text q0).
Qed.

Lemma mget_refines argv c : argv = c :: tl argv -> lower c = "mget" -> refines1 handle_mget argv.
Proof.
  intros Hargv Hc s d Hm. unfold spec_kv, handle_mget.
  destruct argv as [|c0 [|a1 keys]]; try discriminate Hargv; injection Hargv as <-; rewrite Hc;
    [cbn -[kview]; finish_same|].
  cbn -[kview get_values map]. set (ks := a1 :: keys).
  use_get_values s d ks. cbn -[kview map].
  split; [|split; [apply same_view_kview; exact Hview|apply same_view_keep; exact Hview]].
  f_equal. apply map_ext_in. intros k Hin. rewrite Hf by (by apply elem_of_list_In).
  rewrite live_kview. unfold read_bulk. apply mget_item.
Qed.

Lemma incrbyfloat_refines argv c : argv = c :: tl argv -> lower c = "incrbyfloat" -> refines1 handle_incrbyfloat argv.
Proof.
  intros Hargv Hc s d Hm. unfold spec_kv, handle_incrbyfloat.
  argv_cases argv; try discriminate Hargv; injection Hargv as <-; rewrite Hc; cbn -[kview adapt_value fl_text fl_add];
    try finish_same.
  unfold arg; cbn -[kview adapt_value fl_text fl_add].
  destruct (parse_float_arg a2) as [inc|]; cbn -[kview adapt_value fl_text fl_add]; [|finish_same].
  use_get_values s d [a1]. cbn -[kview adapt_value fl_text fl_add]. read_key a1.
  assert (Hstore : forall f0,
    let '(s', r) := run_seq d (match fl_text f0 with
        | Some t => SetValues [(a1, VScal (adapt_value t))] (fun ok => if ok then Ret (RBulk t) else Ret RErr)
        | None => Ret RPanic end) s1 in
    let '(m', r') := match fl_text f0 with
        | Some t => (overwrite_val (kview s d) a1 (typed t), RBulk t)
        | None => (kview s d, RPanic) end in
    r = r' /\ kview s' d = m' /\ kv_keep s s').
  { intros f0. destruct (fl_text f0); cbn -[kview adapt_value]; [|finish_same]. do_set s. finish_set. }
  destruct (kview s d !! a1) as [e|] eqn:Hk; cbn -[kview adapt_value fl_text fl_add]; [|apply Hstore].
  destruct e as [[|[x|z|q0]|l|h|m|z] dl]; cbn -[kview adapt_value fl_text fl_add]; try finish_same; try apply Hstore.
  destruct (parse_float_arg x); cbn -[kview adapt_value fl_text fl_add]; [apply Hstore|finish_same].
Qed.

Transparent put.
Lemma put_none now (m : kvspec) k v : put now m k v None = <[k := Entry v None]> m.
Proof. reflexivity. Qed.
Opaque put.

Lemma getex_expire s s1 d k t e :
  same_view s s1 -> kview s d !! k = Some e -> forall r : reply,
  r = r /\ kview (set_expiry s1 d k t) d = put (st_now s) (kview s d) k (e_val e) t /\ kv_keep s (set_expiry s1 d k t).
Proof.
  intros Hview Hk r. split; [done|].
  assert (Hk1 : kview s1 d !! k = Some e) by (rewrite (same_view_kview _ _ _ Hview); exact Hk).
  destruct (set_expiry_kview s1 d k t e Hk1) as [-> Hkk].
  rewrite (same_view_kview _ _ _ Hview). pose proof (same_view_keep _ _ Hview) as Hkeep.
  destruct Hkeep as (Hn & ? & ?). rewrite Hn. split; [done|].
  eapply kv_keep_trans; [|exact Hkk]. by repeat split.
Qed.

Lemma getex_refines argv c : argv = c :: tl argv -> lower c = "getex" -> refines1 handle_getex argv.
Proof.
  intros Hargv Hc s d Hm. unfold spec_kv, handle_getex.
  argv_cases argv; try discriminate Hargv; injection Hargv as <-; rewrite Hc; cbn -[kview upper];
    try finish_same.
  all: rewrite keys_exist_kview; unfold arg, read_bulk; cbn -[kview upper].
  all: destruct (kview s d !! a1) as [e|] eqn:Hk; cbn -[kview upper]; [|finish_same].
  all: use_get_values s d [a1]; cbn -[kview upper]; read_key a1; rewrite Hk; cbn -[kview upper].
  all: pose proof (fun t => getex_expire s s1 d a1 t e Hview Hk) as Hexp.
  all: assert (Hn : st_now s1 = st_now s) by (destruct Hview as (_ & ? & _); done).
  all: assert (Hpersist : put (st_now s) (kview s d) a1 (e_val e) None = <[a1 := Entry (e_val e) None]> (kview s d))
         by (apply put_none).
  all: destruct e as [[|[x|z|q0]|l|h|m|z] dl]; cbn -[kview upper] in *; try finish_same.
  all: try (destruct (fl_text q0) as [tx|]; cbn -[kview upper]).
  all: try finish_same.
  all: try (match goal with |- context [String.eqb (upper ?w) "PERSIST"] =>
              destruct (String.eqb (upper w) "PERSIST"); cbn -[kview upper]; [rewrite <- Hpersist; apply Hexp|] end).
  all: try finish_same.
  all: match goal with |- context [parse_int ?w] => destruct (parse_int w) as [n|]; cbn -[kview upper]; [|finish_same] end.
  all: rewrite ?Hn.
  all: repeat (match goal with |- context [if String.eqb (upper ?a) ?w then _ else _] =>
                 destruct (String.eqb (upper a) w); cbn -[kview upper]; [apply Hexp|] end).
  all: finish_same.
Qed.

(** * RENAME: the entry (value and deadline) moves *)
Transparent put overwrite_val.
Lemma rename_maps (m : kvspec) old new e :
  old <> new -> m !! old = Some e ->
  delete old (<[new := Entry (e_val e) (e_dl e)]> (overwrite_val m new (e_val e))) = <[new := e]> (delete old m).
Proof.
  intros Hne Ho. unfold overwrite_val. rewrite insert_insert. rewrite delete_insert_ne by done.
  by destruct e.
Qed.
Lemma put_live now (m : kvspec) k v t :
  expired now (Entry v t) = false -> put now m k v t = <[k := Entry v t]> m.
Proof. unfold put, expired; simpl. destruct t as [t|]; [|done]. by intros ->. Qed.
Opaque put overwrite_val.

Lemma rename_refines argv c : argv = c :: tl argv -> lower c = "rename" -> refines1 handle_rename argv.
Proof.
  intros Hargv Hc s d Hm. unfold spec_kv, handle_rename.
  argv_cases argv; try discriminate Hargv; injection Hargv as <-; rewrite Hc; cbn -[kview];
    try finish_same.
  unfold arg; cbn -[kview]. use_get_values s d [a1]. cbn -[kview]. read_key a1.
  destruct (kview s d !! a1) as [e|] eqn:Hk; cbn -[kview]; [|finish_same].
  destruct (String.eqb a1 a2) eqn:Heq; cbn -[kview]; [finish_same|].
  apply String.eqb_neq in Heq.
  rewrite get_expiry_lentry. rewrite <- kview_lookup. rewrite (same_view_kview _ _ _ Hview), Hk. simpl dl_of.
  do_set s.
  assert (Hk2 : kview s2 d !! a2 = Some (Entry (e_val e) (dl_at (kview s d) a2))) by (rewrite Hkv; apply overwrite_lookup).
  destruct (set_expiry_kview s2 d a2 (e_dl e) _ Hk2) as [Hk3 Hkeep3].
  destruct (delete_key_kview (set_expiry s2 d a2 (e_dl e)) d a1) as [Hk4 Hkeep4].
  split; [done|]. split; [|eapply kv_keep_trans; [exact Hkeep|eapply kv_keep_trans; eauto]].
  rewrite Hk4, Hk3. simpl e_val. rewrite put_live.
  - rewrite Hkv. by apply rename_maps.
  - destruct Hkeep as (-> & _). pose proof (kview_live _ _ _ _ Hk) as Hl. by destruct e.
Qed.

(** * MSET *)
Lemma pair_ind (P : list string -> Prop) :
  P [] -> (forall x, P [x]) -> (forall k v r, P r -> P (k :: v :: r)) -> forall l, P l.
Proof.
  intros H0 H1 H2 l. enough (P l /\ forall x, P (x :: l)) by tauto.
  induction l as [|a l [IH1 IH2]]; [by split|]. split; [apply IH2|]. intros x. by apply H2.
Qed.

Transparent overwrite_val.
Lemma mset_all_lookup args : forall (m : kvspec) k',
  mset_all m args !! k' =
  match assoc_last k' (mset_pairs args) with
  | Some v => Some (Entry v (dl_at m k'))
  | None => m !! k'
  end.
Proof.
  induction args as [|x|k v r IH] using pair_ind; intros m k'; [done|done|].
  cbn [mset_all mset_pairs assoc_last]. rewrite IH.
  assert (Hdl : dl_at (overwrite_val m k (typed v)) k' = dl_at m k').
  { unfold dl_at, overwrite_val. destruct (decide (k' = k)) as [->|Hne].
    - rewrite lookup_insert. done.
    - by rewrite lookup_insert_ne. }
  rewrite Hdl. destruct (assoc_last k' (mset_pairs r)); [done|].
  unfold overwrite_val. destruct (String.eqb k' k) eqn:E.
  - apply String.eqb_eq in E. subst. by rewrite lookup_insert.
  - apply String.eqb_neq in E. by rewrite lookup_insert_ne.
Qed.
Opaque overwrite_val.

Lemma mset_refines argv c : argv = c :: tl argv -> lower c = "mset" -> refines1 handle_mset argv.
Proof.
  intros Hargv Hc s d Hm. unfold spec_kv, handle_mset.
  destruct argv as [|c0 args]; try discriminate Hargv; injection Hargv as <-; rewrite Hc.
  cbn -[kview Nat.even mset_pairs mset_all set_values]. change (drop 0 args) with args.
  destruct (Nat.even (length args)); cbn -[kview mset_pairs mset_all set_values]; [|finish_same].
  pose proof (set_values_spec s d (mset_pairs args) Hm) as H.
  destruct (set_values s d (mset_pairs args)) as [s2 ok]. destruct H as (-> & He & Hkeep).
  cbn -[kview mset_all]. split; [done|]. split; [|exact Hkeep].
  apply kview_ext. intros k'. rewrite He, decide_True by done. rewrite mset_all_lookup.
  rewrite dl_at_kview, kview_lookup. done.
Qed.

(** * DEL *)
Lemma dedupe_remove_dups (l : list string) : dedupe l = remove_dups l.
Proof.
  induction l as [|x r IH]; simpl; [done|]. rewrite IH.
  destruct (decide_rel elem_of x r) as [Hin|Hin].
  - by rewrite bool_decide_eq_true_2.
  - by rewrite bool_decide_eq_false_2.
Qed.

Lemma lookup_foldr_delete (m : kvspec) l k :
  foldr delete m l !! k = if bool_decide (k ∈ l) then None else m !! k.
Proof.
  induction l as [|x r IH]; simpl.
  - done.
  - destruct (decide (x = k)) as [->|Hne].
    + rewrite lookup_delete. by rewrite bool_decide_eq_true_2 by set_solver.
    + rewrite lookup_delete_ne by done. rewrite IH.
      destruct (bool_decide (k ∈ r)) eqn:E.
      * apply bool_decide_eq_true in E. by rewrite bool_decide_eq_true_2 by set_solver.
      * apply bool_decide_eq_false in E. by rewrite bool_decide_eq_false_2 by set_solver.
Qed.

Lemma del_loop d ex ks : forall s n,
  base.NoDup ks -> (forall k, k ∈ ks -> ex k = bool_decide (is_Some (kview s d !! k))) ->
  let '(s', r) := run_seq d (del_keys ks ex n) s in
  r = RInt (n + zlen (List.filter (fun k => bool_decide (is_Some (kview s d !! k))) ks)) /\
  kview s' d = foldr delete (kview s d) ks /\ kv_keep s s'.
Proof.
  induction ks as [|k r IH]; intros s n Hnd Hex.
  - cbn -[kview]. split; [f_equal; unfold zlen; simpl; lia|done].
  - pose proof (NoDup_cons_1_1 _ _ Hnd) as Hk. apply NoDup_cons_1_2 in Hnd. cbn [del_keys List.filter foldr].
    rewrite (Hex k) by set_solver.
    destruct (kview s d !! k) as [e|] eqn:Hlk.
    + rewrite bool_decide_eq_true_2 by eauto. cbn [run_seq].
      destruct (delete_key_kview s d k) as [Hdk Hkeep1].
      assert (Hsame : forall k', k' ∈ r -> kview (delete_key s d k) d !! k' = kview s d !! k').
      { intros k' Hin. rewrite Hdk. apply lookup_delete_ne. intros ->. done. }
      specialize (IH (delete_key s d k) (n + 1)). 
      destruct (run_seq d (del_keys r ex (n + 1)) (delete_key s d k)) as [s' r'].
      destruct IH as (-> & Hv & Hkeep2); [done| |].
      { intros k' Hin. rewrite Hsame by done. apply Hex. set_solver. }
      split; [|split; [|eapply kv_keep_trans; eauto]].
      * f_equal. rewrite (filter_ext_in _ (fun k0 => bool_decide (is_Some (kview s d !! k0)))).
        -- unfold zlen. simpl length. lia.
        -- intros k' Hin. rewrite Hsame; [done|]. by apply elem_of_list_In.
      * rewrite Hv, Hdk. apply map_eq. intros k'.
        destruct (decide (k = k')) as [->|Hne].
        -- rewrite lookup_delete. rewrite lookup_foldr_delete.
           rewrite bool_decide_eq_false_2 by done. by rewrite lookup_delete.
        -- rewrite lookup_delete_ne by done. rewrite !lookup_foldr_delete.
           destruct (bool_decide (k' ∈ r)); [done|]. by rewrite lookup_delete_ne.
    + rewrite bool_decide_eq_false_2 by (intros [? ?]; done).
      specialize (IH s n Hnd). destruct (run_seq d (del_keys r ex n) s) as [s' r'].
      destruct IH as (-> & Hv & Hkeep2); [intros k' Hin; apply Hex; set_solver|].
      split; [done|]. split; [|done]. rewrite Hv. symmetry. apply delete_notin.
      rewrite lookup_foldr_delete. by destruct (bool_decide (k ∈ r)).
Qed.

Lemma del_refines argv c : argv = c :: tl argv -> lower c = "del" -> refines1 handle_del argv.
Proof.
  intros Hargv Hc s d Hm. unfold spec_kv, handle_del.
  destruct argv as [|c0 [|a1 keys]]; try discriminate Hargv; injection Hargv as <-; rewrite Hc;
    [cbn -[kview]; finish_same|].
  cbn -[kview del_keys dedupe keys_exist remove_dups List.filter foldr]. set (ks := a1 :: keys).
  rewrite dedupe_remove_dups.
  pose proof (del_loop d (keys_exist s d ks) (remove_dups ks) s 0) as H.
  destruct (run_seq d (del_keys (remove_dups ks) (keys_exist s d ks) 0) s) as [s' r].
  destruct H as (-> & Hv & Hkeep).
  { apply NoDup_remove_dups. }
  { intros k Hin. rewrite elem_of_remove_dups in Hin. rewrite keys_exist_lentry, kview_lookup.
    replace (str_in k ks) with true; [done|]. symmetry. by apply str_in_spec. }
  split; [done|]. split; [|done].
  rewrite Hv. apply map_eq. intros k. rewrite !lookup_foldr_delete.
  destruct (bool_decide (k ∈ ks)) eqn:E.
  - apply bool_decide_eq_true in E. rewrite bool_decide_eq_true_2; [done|]. by apply elem_of_remove_dups.
  - apply bool_decide_eq_false in E. rewrite bool_decide_eq_false_2; [done|]. by rewrite elem_of_remove_dups.
Qed.

(** * Any command word, any argument vector *)
Definition kv_handler (name : string) : option (list string -> prog reply) :=
  if String.eqb name "set" then Some handle_set
  else if String.eqb name "mset" then Some handle_mset
  else if String.eqb name "get" then Some handle_get
  else if String.eqb name "mget" then Some handle_mget
  else if String.eqb name "del" then Some handle_del
  else if String.eqb name "incr" then Some handle_incr
  else if String.eqb name "decr" then Some handle_decr
  else if String.eqb name "incrby" then Some handle_incrby
  else if String.eqb name "decrby" then Some handle_decrby
  else if String.eqb name "incrbyfloat" then Some handle_incrbyfloat
  else if String.eqb name "append" then Some handle_append
  else if String.eqb name "setrange" then Some handle_setrange
  else if String.eqb name "getrange" then Some handle_substr
  else if String.eqb name "substr" then Some handle_substr
  else if String.eqb name "strlen" then Some handle_strlen
  else if String.eqb name "rename" then Some handle_rename
  else if String.eqb name "getdel" then Some handle_getdel
  else if String.eqb name "getex" then Some handle_getex
  else if String.eqb name "type" then Some handle_type
  else if String.eqb name "flushdb" then Some handle_flush
  else None.

Definition exec_kv (d : Z) (argv : list string) (s : state) : state * reply :=
  match argv with
  | [] => (s, RErr)
  | c :: _ => match kv_handler (lower c) with
              | Some h => run_seq d (h argv) s
              | None => (s, RErr)
              end
  end.

Ltac solve_with lem name :=
  match goal with
  | E : lower _ = name, Ha : _ :: _ = _ :: tl _, Hm : st_maxmem _ = 0 |- _ =>
      exact (lem _ _ Ha E _ _ Hm)
  end.

Theorem kv_step_refines argv s d :
  st_maxmem s = 0 ->
  let '(s', r) := exec_kv d argv s in
  let '(m', r') := spec_kv (st_now s) (kview s d) argv in
  r = r' /\ kview s' d = m' /\ kv_keep s s'.
Proof.
  intros Hm. destruct argv as [|c args]; [cbn -[kview]; finish_same|].
  unfold exec_kv, kv_handler.
  assert (Hargv : c :: args = c :: tl (c :: args)) by done.
  repeat match goal with
  | |- context [if String.eqb (lower c) ?name then _ else _] =>
      let E := fresh "E" in destruct (String.eqb (lower c) name) eqn:E;
      [apply String.eqb_eq in E|]
  end.
  all: try solve_with set_refines "set".
  all: try solve_with mset_refines "mset".
  all: try solve_with get_refines "get".
  all: try solve_with mget_refines "mget".
  all: try solve_with del_refines "del".
  all: try solve_with incr_refines "incr".
  all: try solve_with decr_refines "decr".
  all: try solve_with incrby_refines "incrby".
  all: try solve_with decrby_refines "decrby".
  all: try solve_with incrbyfloat_refines "incrbyfloat".
  all: try solve_with append_refines "append".
  all: try solve_with setrange_refines "setrange".
  all: try (match goal with E : lower _ = "getrange", Ha : _ :: _ = _ :: tl _, Hm : st_maxmem _ = 0 |- _ =>
              exact (substr_refines _ _ Ha (or_introl E) _ _ Hm) end).
  all: try (match goal with E : lower _ = "substr", Ha : _ :: _ = _ :: tl _, Hm : st_maxmem _ = 0 |- _ =>
              exact (substr_refines _ _ Ha (or_intror E) _ _ Hm) end).
  all: try solve_with strlen_refines "strlen".
  all: try solve_with rename_refines "rename".
  all: try solve_with getdel_refines "getdel".
  all: try solve_with getex_refines "getex".
  all: try solve_with type_refines "type".
  all: try solve_with flushdb_refines "flushdb".
  (* not a word of the C01 alphabet: the reference refuses it too *)
  unfold spec_kv.
  repeat match goal with H : String.eqb (lower c) _ = false |- _ => rewrite H; clear H end.
  cbn -[kview]. finish_same.
Qed.

(** * Whole scripts *)
Fixpoint run_kv_cmds (d : Z) (cmds : list (list string)) (s : state) : state * list reply :=
  match cmds with
  | [] => (s, [])
  | c :: r => let '(s1, x) := exec_kv d c s in
              let '(s2, xs) := run_kv_cmds d r s1 in (s2, x :: xs)
  end.

Theorem kv_script_refines cmds : forall s d,
  st_maxmem s = 0 ->
  let '(s', rs) := run_kv_cmds d cmds s in
  let '(m', rs') := spec_kv_run (st_now s) (kview s d) cmds in
  rs = rs' /\ kview s' d = m' /\ kv_keep s s'.
Proof.
  induction cmds as [|c r IH]; intros s d Hm; cbn -[kview]; [done|].
  pose proof (kv_step_refines c s d Hm) as H1.
  destruct (exec_kv d c s) as [s1 x]. destruct (spec_kv (st_now s) (kview s d) c) as [m1 x'].
  destruct H1 as (-> & Hlv & Hkeep).
  assert (Hm1 : st_maxmem s1 = 0) by (destruct Hkeep as (_ & -> & _); done).
  specialize (IH s1 d Hm1). rewrite Hlv in IH. destruct Hkeep as (Hn & Hkeep). rewrite Hn in IH.
  destruct (run_kv_cmds d r s1) as [s2 xs]. destruct (spec_kv_run (st_now s) m1 r) as [m2 xs'].
  destruct IH as (-> & ? & ?). split; [done|]. split; [done|].
  eapply kv_keep_trans; [|eauto]. by split.
Qed.
