(** C06, key coverage, sorted-set module: the single-key handlers by the same tactic as the other
    modules; the multi-key handlers (ZINTER / ZUNION / ZDIFF and their STORE forms, ZMPOP) by showing
    that the keys their decoders compute ([Model/ZSetMulti.v]) are the keys the key functions report
    ([Model/KeyFuncs.v]: both stop at the first modifier word). *)
From stdpp Require Import gmap strings.
From EV Require Import Base.Str Model.Value Model.Adapt Model.Keyspace Model.Reply Model.Prog.
From EV Require Import Model.ZSetOps Model.ZSetMulti Model.CmdZSet.
From EV Require Model.CmdZRand.
From EV Require Import Model.TableTypes Model.KeyFuncs.
From EV Require Import Proofs.KeyspaceLemmas Proofs.ProgLemmas Proofs.KeyCover Proofs.KeyCoverCmds.
Local Open Scope Z_scope.

(** * The runners *)
Lemma wi_run_act (R W : string -> Prop) wkey a :
  (match a with ZRet _ => True | ZPut _ _ => W wkey end) -> within R W (run_act wkey a).
Proof.
  destruct a as [r|z r]; simpl; [constructor|]. intros Hw.
  destruct (is_err r); [constructor|]. apply wi_sv; [by repeat constructor|]. intros []; constructor.
Qed.

Definition act_reads (a : zact) : Prop := match a with ZRet _ => True | ZPut _ _ => False end.

Lemma wi_run_single (R W : string -> Prop) d :
  R (zd_rkey d) ->
  (W (zd_wkey d) \/
   forall absent present, zd_body d = Some (absent, present) -> act_reads absent /\ forall z, act_reads (present z)) ->
  within R W (run_single d).
Proof.
  intros Hr Hw. unfold run_single. apply wi_ke; [by repeat constructor|]. intros ex.
  destruct (zd_body d) as [[absent present]|] eqn:Hb; [|constructor].
  assert (Ha : forall a, a = absent \/ (exists z, a = present z) ->
               match a with ZRet _ => True | ZPut _ _ => W (zd_wkey d) end).
  { intros a Ha. destruct Hw as [Hw|Hw]; [by destruct a|].
    destruct (Hw absent present eq_refl) as [H1 H2].
    destruct Ha as [->|[z ->]]; [by destruct absent|]. specialize (H2 z). by destruct (present z). }
  destruct (negb (ex (zd_rkey d))); [apply wi_run_act, Ha; by left|].
  apply wi_gv; [by repeat constructor|]. intros vals.
  destruct (as_zset (vals (zd_rkey d))); [|constructor]. apply wi_run_act, Ha. right. by eexists.
Qed.

Lemma wi_run_multi (R W : string -> Prop) d :
  Forall R (zm_keys d) ->
  (forall f seen k z r, zm_body d = Some f -> f seen = (Some (k, z), r) -> W k) ->
  within R W (run_multi d).
Proof.
  intros Hr Hw. unfold run_multi. apply wi_ke; [done|]. intros ex.
  destruct (zm_body d) as [f|] eqn:Hb; [|constructor].
  apply wi_gv.
  { destruct (zm_eager d); [done|]. apply list.Forall_forall. intros k Hk.
    apply elem_of_list_In, filter_In in Hk as [Hk _]. apply elem_of_list_In in Hk. by eapply Forall_elem. }
  intros vals. cbv zeta.
  destruct (f _) as [[[k z]|] r] eqn:Hf; cbn [act_of fst snd]; apply wi_run_act; [|done].
  by eapply Hw.
Qed.

Lemma wi_run_zset_single (R W : string -> Prop) dec argv :
  (forall d, dec argv = Some d ->
     R (zd_rkey d) /\
     (W (zd_wkey d) \/
      forall absent present, zd_body d = Some (absent, present) -> act_reads absent /\ forall z, act_reads (present z))) ->
  within R W (run_zset (single dec) argv).
Proof.
  intros H. unfold run_zset, single. destruct (dec argv) as [d|]; cbn; [|constructor].
  destruct (H d eq_refl). by apply wi_run_single.
Qed.

Lemma wi_run_zset_multi (R W : string -> Prop) dec argv :
  (forall d, dec argv = Some d ->
     Forall R (zm_keys d) /\
     forall f seen k z r, zm_body d = Some f -> f seen = (Some (k, z), r) -> W k) ->
  within R W (run_zset (multi dec) argv).
Proof.
  intros H. unfold run_zset, multi. destruct (dec argv) as [d|]; cbn; [|constructor].
  destruct (H d eq_refl). by apply wi_run_multi.
Qed.

(** * Single-key commands *)
(** the body of a reading decoder only ever produces [ZRet] *)
Ltac reads_only :=
  right; intros absent present Hb;
  repeat match type of Hb with
  | (match ?x with _ => _ end) = _ => destruct x
  end; try discriminate; injection Hb as <- <-; split; [exact I|intros ?];
  cbv beta;
  repeat match goal with
  | |- act_reads (match ?x with _ => _ end) => destruct x
  end; exact I.

Ltac zsingle n unf :=
  intros argv; kx_name; split_argv n argv; kx_shape; unfold within_l;
  apply wi_run_zset_single; intros d Hd; unf;
  cbn [length Nat.leb Nat.ltb Nat.eqb andb orb negb arg nth skipn firstn] in Hd; cbv zeta in Hd;
  first [ discriminate Hd
        | injection Hd as <-; cbn [zd_rkey zd_wkey zd_body]; split; [set_solver|];
          first [ left; set_solver | reads_only ] ].

Lemma kc_zset_single name h argv :
  zset_handler name = Some h ->
  negb (bool_decide (name ∈ ["zinter"; "zinterstore"; "zunion"; "zunionstore"; "zdiff"; "zdiffstore"; "zmpop"])) = true ->
  kx_within (key_extract name "" argv) (h argv).
Proof.
  unfold zset_handler. intros Hh Hm. revert argv Hh. handler_cases;
    try (exfalso; revert Hm; vm_compute; discriminate).
  - zsingle 4%nat ltac:(unfold decode_zadd in Hd).
  - zsingle 3%nat ltac:(unfold decode_zcard in Hd).
  - zsingle 4%nat ltac:(unfold decode_zscore in Hd).
  - zsingle 3%nat ltac:(unfold decode_zmscore in Hd).
  - zsingle 3%nat ltac:(unfold decode_zrem in Hd).
  - zsingle 5%nat ltac:(unfold decode_zincrby in Hd).
  - zsingle 5%nat ltac:(unfold decode_zcount in Hd).
  - zsingle 5%nat ltac:(unfold decode_zrank in Hd).
  - zsingle 5%nat ltac:(unfold decode_zrank in Hd).
  - zsingle 4%nat ltac:(unfold decode_zpop in Hd).
  - zsingle 4%nat ltac:(unfold decode_zpop in Hd).
  - zsingle 11%nat ltac:(unfold decode_zrange in Hd).
  - zsingle 12%nat ltac:(unfold decode_zrangestore in Hd).
  - zsingle 5%nat ltac:(unfold decode_zlexcount in Hd).
  - zsingle 5%nat ltac:(unfold decode_zremrangebyscore in Hd).
  - zsingle 5%nat ltac:(unfold decode_zremrangebylex in Hd).
  - zsingle 5%nat ltac:(unfold decode_zremrangebyrank in Hd).
Qed.

(** * Multi-key commands: where the keys end *)
Fixpoint before_mod (l : list string) : list string :=
  match l with [] => [] | x :: r => if is_modifier x then [] else x :: before_mod r end.

Lemma zopt_is_modifier s : zopt s = is_modifier s.
Proof. reflexivity. Qed.

Lemma is_modifier_split x :
  is_modifier x = eq_fold x "weights" || eq_fold x "aggregate" || eq_fold x "withscores".
Proof.
  unfold is_modifier, str_in_list, eq_fold. cbn [existsb].
  change (lower "weights") with "weights". change (lower "aggregate") with "aggregate".
  change (lower "withscores") with "withscores".
  by destruct (String.eqb (lower x) "weights"), (String.eqb (lower x) "aggregate"), (String.eqb (lower x) "withscores").
Qed.

Lemma index_opt_ge w l : forall i m, index_opt w l i = Some m -> (i <= m)%nat.
Proof.
  induction l as [|x r IH]; intros i m; cbn [index_opt]; [done|].
  destruct (eq_fold x w); [intros [= <-]; lia|]. intros H. apply IH in H. lia.
Qed.

Lemma first_modifier_min l : forall i,
  opt_min (index_opt "weights" l i) (opt_min (index_opt "aggregate" l i) (index_opt "withscores" l i))
  = first_modifier l i.
Proof.
  induction l as [|x r IH]; intros i; cbn [index_opt first_modifier]; [done|].
  rewrite is_modifier_split.
  destruct (eq_fold x "weights"), (eq_fold x "aggregate"), (eq_fold x "withscores"); cbn [orb]; try apply IH;
    repeat match goal with
    | |- context [index_opt ?w ?l ?j] =>
        let E := fresh "E" in destruct (index_opt w l j) eqn:E; [apply index_opt_ge in E|]
    end; cbn [opt_min]; try done; f_equal; lia.
Qed.

Lemma first_modifier_spec l : forall i,
  match first_modifier l i with
  | Some f => (i <= f)%nat /\ firstn (f - i) l = before_mod l
  | None => before_mod l = l
  end.
Proof.
  induction l as [|x r IH]; intros i; cbn [first_modifier before_mod]; [done|].
  destruct (is_modifier x); [split; [lia|by rewrite Nat.sub_diag]|].
  specialize (IH (S i)). destruct (first_modifier r (S i)) as [f|].
  - destruct IH as [H1 H2]. split; [lia|]. replace (f - i)%nat with (S (f - S i)) by lia.
    cbn [firstn]. by rewrite H2.
  - by rewrite IH.
Qed.

Lemma kbm_spec cmd :
  keys_before_modifiers cmd =
  match cmd with [] => [] | x :: r => if is_modifier x then [] else before_mod r end.
Proof.
  unfold keys_before_modifiers. rewrite first_modifier_min. destruct cmd as [|x r]; [done|].
  cbn [first_modifier skipn]. destruct (is_modifier x); [done|].
  pose proof (first_modifier_spec r 1) as H. destruct (first_modifier r 1) as [f|]; [by destruct H|done].
Qed.

Lemma kbm_incl cmd : keys_before_modifiers cmd ⊆ before_mod cmd.
Proof.
  rewrite kbm_spec. destruct cmd as [|x r]; [done|]. cbn [before_mod]. destruct (is_modifier x); set_solver.
Qed.

Lemma first_modifier_index l : forall i,
  first_modifier l i = option_map (fun e => (e + i)%nat) (index_of zopt l).
Proof.
  induction l as [|x r IH]; intros i; cbn [first_modifier index_of]; [done|].
  change (zopt x) with (is_modifier x). destruct (is_modifier x); [done|]. rewrite IH.
  destruct (index_of zopt r); cbn [option_map]; [f_equal; lia|done].
Qed.

Lemma index_of_before l :
  match index_of zopt l with Some e => firstn e l = before_mod l | None => before_mod l = l end.
Proof.
  pose proof (first_modifier_spec l 0) as H. rewrite first_modifier_index in H.
  destruct (index_of zopt l) as [e|]; cbn [option_map] in H; [|done].
  destruct H as [_ H]. by rewrite Nat.add_0_r, Nat.sub_0_r in H.
Qed.

(** filtering out a word that is not a modifier commutes with cutting at the first modifier *)
Lemma before_mod_filter (q : string -> bool) l :
  (forall x, is_modifier x = true -> q x = true) -> before_mod (filter q l) ⊆ before_mod l.
Proof.
  intros Hq. induction l as [|x r IH]; cbn [filter before_mod]; [done|].
  destruct (is_modifier x) eqn:Hx.
  - rewrite (Hq x Hx). cbn [before_mod]. by rewrite Hx.
  - destruct (q x); [cbn [before_mod]; rewrite Hx|]; set_solver.
Qed.

(** the key functions of ZINTER / ZUNION and of ZINTERSTORE / ZUNIONSTORE, when the arity test passes *)
Lemma zinter_kx a0 rest :
  algebra_arity_ok false (a0 :: rest) = true -> kx_zinter (a0 :: rest) = KxOk [] (before_mod rest) [].
Proof.
  unfold algebra_arity_ok, kx_zinter. cbn [length skipn tl]. change (skipn 0 rest) with rest.
  rewrite first_modifier_index.
  pose proof (index_of_before rest) as Hb.
  intros H. apply andb_prop in H as [H1 H2]. apply negb_true_iff in H1. rewrite H1.
  destruct (index_of zopt rest) as [e|]; cbn [option_map] in *.
  - destruct e as [|e]; [discriminate H2|]. cbn [Nat.leb]. by rewrite Hb.
  - by rewrite Hb.
Qed.

Lemma zstore_kx a0 a1 rest :
  algebra_arity_ok true (a0 :: a1 :: rest) = true ->
  kx_zstore (a0 :: a1 :: rest) = KxOk [] (before_mod rest) [a1] /\ is_modifier a1 = false.
Proof.
  unfold algebra_arity_ok, kx_zstore. cbn [length skipn tl firstn]. change (skipn 0 rest) with rest.
  change (skipn 0 (a1 :: rest)) with (a1 :: rest). cbn [firstn]. rewrite first_modifier_index.
  cbn [index_of]. change (zopt a1) with (is_modifier a1).
  pose proof (index_of_before rest) as Hb.
  intros H. apply andb_prop in H as [H1 H2]. apply negb_true_iff in H1. rewrite H1.
  destruct (is_modifier a1); [discriminate H2|]. split; [|done].
  destruct (index_of zopt rest) as [e|]; cbn [option_map] in *.
  - destruct e as [|e]; [discriminate H2|]. cbn [Nat.leb].
    replace (S (S e) + 1 - 2)%nat with (S e) by lia. by rewrite Hb.
  - by rewrite Hb.
Qed.

Lemma kx_within_ret {A} r (x : A) :
  match r with KxOk _ _ _ | KxErr => True | _ => False end -> kx_within r (Ret x).
Proof. destruct r; cbn; try done; constructor. Qed.

Lemma not_modifier a0 n :
  lower a0 = n -> is_modifier n = false -> lower n = n -> is_modifier a0 = false.
Proof. intros <- H Hl. unfold is_modifier in *. by rewrite Hl in H. Qed.

Ltac no_write Hf :=
  repeat match type of Hf with
  | context [match ?x with _ => _ end] => destruct x
  end; discriminate Hf.

Lemma kc_zinter_gen (strictu isunion : bool) argv :
  is_modifier (arg argv 0) = false ->
  kx_within (kx_zinter argv)
    (run_zset (multi (if isunion then decode_zunion strictu false else decode_zinter false)) argv).
Proof.
  intros Hm. destruct (algebra_arity_ok false argv) eqn:Ha.
  - destruct argv as [|a0 rest]; [discriminate Ha|]. rewrite (zinter_kx _ _ Ha). cbn [kx_within arg nth] in *.
    unfold within_l. apply wi_run_zset_multi. intros d Hd.
    assert (Hk : zm_keys d = before_mod rest /\
                 forall f seen k z r, zm_body d = Some f -> f seen <> (Some (k, z), r)).
    { destruct isunion; [unfold decode_zunion in Hd|unfold decode_zinter in Hd];
        rewrite Ha in Hd; cbn [negb] in Hd; injection Hd as <-; cbn [zm_keys zm_body];
        (split; [by rewrite kbm_spec, Hm|]);
        intros f seen k z r Hb Hf;
        (destruct (extract_kwa _) as [[[[? ws] ag] wsc]|]; [|discriminate Hb]); injection Hb as <-;
        no_write Hf. }
    destruct Hk as [-> Hw]. split; [solve_keys|]. intros f seen k z r Hb Hf. by destruct (Hw f seen k z r Hb).
  - replace (run_zset _ argv) with (@Ret reply RErr).
    + apply kx_within_ret. unfold kx_zinter. destruct (length argv <? 2)%nat; [done|].
      destruct (index_of _ _); [destruct (1 <=? _)%nat|]; done.
    + unfold run_zset, multi. destruct isunion; [unfold decode_zunion|unfold decode_zinter]; by rewrite Ha.
Qed.

Ltac writes_dst Hf :=
  repeat match type of Hf with
  | context [match ?x with _ => _ end] => destruct x
  end; first [discriminate Hf | inversion Hf; subst; set_solver].

Lemma kc_zstore_gen (strictu isunion : bool) argv :
  is_modifier (arg argv 0) = false ->
  kx_within (kx_zstore argv)
    (run_zset (multi (if isunion then decode_zunion strictu true else decode_zinter true)) argv).
Proof.
  intros Hm. destruct (algebra_arity_ok true argv) eqn:Ha.
  - destruct argv as [|a0 [|a1 rest]]; [discriminate Ha|discriminate Ha|].
    destruct (zstore_kx _ _ _ Ha) as [-> Hm1]. cbn [kx_within arg nth] in *.
    unfold within_l. apply wi_run_zset_multi. intros d Hd.
    assert (Hk : zm_keys d ⊆ before_mod rest /\
                 forall f seen k z r, zm_body d = Some f -> f seen = (Some (k, z), r) -> k ∈ [a1]).
    { destruct isunion; [unfold decode_zunion in Hd|unfold decode_zinter in Hd];
        rewrite Ha in Hd; cbn [negb arg nth skipn] in Hd; injection Hd as <-; cbn [zm_keys zm_body]; split.
      - destruct strictu.
        + change (skipn 0 rest) with rest. by rewrite kbm_spec, Hm.
        + cbn [filter]. rewrite String.eqb_refl. cbn [negb].
          assert (Hq : forall x, is_modifier x = true -> negb (String.eqb x a1) = true).
          { intros x Hx. apply negb_true_iff, String.eqb_neq. intros ->. congruence. }
          destruct (negb (String.eqb a0 a1)).
          * rewrite kbm_spec, Hm. by apply before_mod_filter.
          * etrans; [apply kbm_incl|]. by apply before_mod_filter.
      - intros f seen k z r Hb Hf.
        (destruct (extract_kwa _) as [[[[? ws] ag] wsc]|]; [|discriminate Hb]); injection Hb as <-.
        writes_dst Hf.
      - change (skipn 0 rest) with rest. by rewrite kbm_spec, Hm.
      - intros f seen k z r Hb Hf.
        (destruct (extract_kwa _) as [[[[? ws] ag] wsc]|]; [|discriminate Hb]); injection Hb as <-.
        writes_dst Hf. }
    destruct Hk as [Hk Hw]. split; [|done].
    apply list.Forall_forall. intros x Hx. apply Hk in Hx. set_solver.
  - replace (run_zset _ argv) with (@Ret reply RErr).
    + apply kx_within_ret. unfold kx_zstore. destruct (length argv <? 3)%nat; [done|].
      destruct (index_of _ _); [destruct (2 <=? _)%nat|]; done.
    + unfold run_zset, multi. destruct isunion; [unfold decode_zunion|unfold decode_zinter]; by rewrite Ha.
Qed.

(** ZDIFF: handler and key function look for WITHSCORES in the whole vector *)
Lemma eq_fold_sym a b : eq_fold a b = eq_fold b a.
Proof. unfold eq_fold. apply eq_true_iff_eq. rewrite !String.eqb_eq. split; congruence. Qed.

Lemma index_opt_index_of w l : forall i,
  index_opt w l i = option_map (fun e => (e + i)%nat) (index_of (eq_fold w) l).
Proof.
  induction l as [|x r IH]; intros i; cbn [index_opt index_of]; [done|].
  rewrite (eq_fold_sym x w). destruct (eq_fold w x); [done|]. rewrite IH.
  destruct (index_of _ r); cbn [option_map]; [f_equal; lia|done].
Qed.

Lemma kc_zdiff argv : kx_within (kx_upto "withscores" argv) (handle_zdiff argv).
Proof.
  unfold handle_zdiff, kx_upto. destruct (length argv <? 2)%nat eqn:Hl.
  - unfold run_zset, multi, decode_zdiff. rewrite Hl. cbn. constructor.
  - assert (Hd0 : forall d, decode_zdiff false argv = Some d ->
      zm_keys d = match index_of (eq_fold "withscores") argv with
                  | Some i => firstn (i - 1) (skipn 1 argv) | None => skipn 1 argv end /\
      forall f seen k z r, zm_body d = Some f -> f seen <> (Some (k, z), r)).
    { intros d Hd. unfold decode_zdiff in Hd. rewrite Hl in Hd. injection Hd as <-. cbn [zm_keys zm_body].
      rewrite index_opt_index_of.
      destruct (index_of (eq_fold "withscores") argv) as [e|]; cbn [option_map].
      - rewrite Nat.add_0_r. split; [done|].
        intros f seen k z r Hb Hf. destruct e as [|[|e]]; try discriminate Hb; injection Hb as <-; no_write Hf.
      - split; [done|]. intros f seen k z r Hb Hf. injection Hb as <-. no_write Hf. }
    destruct (index_of (eq_fold "withscores") argv) as [e|]; cbn [kx_within]; unfold within_l;
      apply (wi_run_zset_multi _ _ (decode_zdiff false)); intros d Hd; destruct (Hd0 d Hd) as [-> Hw];
      (split; [solve_keys|]); intros f seen k z r Hb Hf; by destruct (Hw f seen k z r Hb).
Qed.

Lemma kc_zdiffstore argv : kx_within (key_extract "zdiffstore" "" argv) (handle_zdiffstore argv).
Proof.
  revert argv. intros argv; kx_name; split_argv 3%nat argv; kx_shape; unfold within_l;
    apply (wi_run_zset_multi _ _ (decode_zdiff true)); intros d Hd; unfold decode_zdiff in Hd;
    cbn [length Nat.leb Nat.ltb skipn arg nth] in Hd; try discriminate Hd.
  injection Hd as <-. cbn [zm_keys zm_body]. split; [solve_keys|].
  intros f seen k z r Hb Hf. injection Hb as <-. writes_dst Hf.
Qed.

(** ZMPOP *)
Definition zmpop_word (s : string) : bool := existsb (String.eqb (upper s)) ["MIN"; "MAX"; "COUNT"].

Lemma first_zmpop_modifier_index l : forall i,
  first_zmpop_modifier l i = option_map (fun e => (e + i)%nat) (index_of zmpop_word l).
Proof.
  induction l as [|x r IH]; intros i; cbn [first_zmpop_modifier index_of]; [done|].
  change (str_in_list (upper x) ["MIN"; "MAX"; "COUNT"]) with (zmpop_word x).
  destruct (zmpop_word x); [done|]. rewrite IH.
  destruct (index_of _ r); cbn [option_map]; [f_equal; lia|done].
Qed.

Lemma zmpop_scan_key strict maxp n kvs k z r :
  zmpop_scan strict maxp n kvs = (Some (k, z), r) -> k ∈ map fst kvs.
Proof.
  induction kvs as [|[k' v] kvs IH]; cbn [zmpop_scan map fst]; [discriminate|].
  destruct v as [[zz|]|].
  - destruct (0 <? zcard zz).
    + destruct (zpop maxp n zz). intros [= <- _ _]. set_solver.
    + intros H. apply IH in H. set_solver.
  - destruct strict; [discriminate|]. intros H. apply IH in H. set_solver.
  - intros H. apply IH in H. set_solver.
Qed.

Lemma fst_combine_subseteq {X} (ks : list string) (vs : list X) : map fst (combine ks vs) ⊆ ks.
Proof.
  revert vs. induction ks as [|k ks IH]; intros [|v vs]; cbn [combine map fst]; try set_solver.
Qed.

Lemma kc_zmpop argv : kx_within (kx_zmpop argv) (handle_zmpop argv).
Proof.
  unfold handle_zmpop, kx_zmpop. destruct (length argv <? 2)%nat eqn:Hl.
  - unfold run_zset, multi, decode_zmpop. rewrite Hl. cbn. constructor.
  - change (fun s : string => existsb (String.eqb (upper s)) ["MIN"; "MAX"; "COUNT"]) with zmpop_word.
    assert (Hd0 : forall keys (count : option Z),
      within_l ([] ++ keys) keys (run_zset (multi (fun _ => Some (ZMDecoded keys false
        match count with
        | None => None
        | Some n => Some (fun vals => zmpop_scan false (first_policy argv) n (combine keys vals))
        end))) argv)).
    { intros keys count. apply wi_run_zset_multi. intros d [= <-]. cbn [zm_keys zm_body]. split; [solve_keys|].
      intros f seen k z r Hb Hf. destruct count; [|discriminate Hb].
      injection Hb as <-. apply zmpop_scan_key in Hf. by apply fst_combine_subseteq in Hf. }
    unfold run_zset, multi, decode_zmpop in *. rewrite Hl. rewrite first_zmpop_modifier_index.
    destruct (index_of zmpop_word argv) as [e|]; cbn [option_map].
    + rewrite Nat.add_0_r. destruct e as [|[|e]]; cbn [Nat.ltb Nat.leb kx_within];
        [cbn [fmap option_fmap option_map]; constructor|cbn [fmap option_fmap option_map]; constructor|]. apply Hd0.
    + cbn [kx_within]. apply Hd0.
Qed.

(** * The sorted-set module *)
Lemma kc_zset name h argv :
  zset_handler name = Some h -> lower (arg argv 0) = name ->
  kx_within (key_extract name "" argv) (h argv).
Proof.
  intros Hh Hn.
  destruct (negb (bool_decide (name ∈ ["zinter"; "zinterstore"; "zunion"; "zunionstore"; "zdiff"; "zdiffstore"; "zmpop"]))) eqn:Hm;
    [by apply kc_zset_single|].
  apply negb_false_iff, bool_decide_eq_true in Hm.
  assert (Hnm : forall n, name = n -> is_modifier n = false -> lower n = n -> is_modifier (arg argv 0) = false).
  { intros n -> H1 H2. by eapply not_modifier. }
  repeat (apply elem_of_cons in Hm as [->|Hm]); [..|by apply elem_of_nil in Hm];
    unfold zset_handler in Hh; cbn [String.eqb Ascii.eqb Bool.eqb orb] in Hh; injection Hh as <-; kx_name.
  - apply (kc_zinter_gen false false); apply (not_modifier _ _ Hn); reflexivity.
  - apply (kc_zstore_gen false false); apply (not_modifier _ _ Hn); reflexivity.
  - apply (kc_zinter_gen false true); apply (not_modifier _ _ Hn); reflexivity.
  - apply (kc_zstore_gen false true); apply (not_modifier _ _ Hn); reflexivity.
  - apply kc_zdiff.
  - pose proof (kc_zdiffstore argv) as H. revert H. kx_name. done.
  - apply kc_zmpop.
Qed.

(** * ZRANDMEMBER (any selection function): reads its one key, writes nothing *)
Lemma kc_zrand pick name h argv :
  CmdZRand.zrand_handler pick name = Some h -> kx_within (key_extract name "" argv) (h argv).
Proof.
  unfold CmdZRand.zrand_handler, CmdZRand.handle_zrandmember. revert argv. handler_cases.
  zsingle 5%nat ltac:(unfold CmdZRand.decode_zrandmember in Hd).
Qed.
