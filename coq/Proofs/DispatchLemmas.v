(** The dispatcher: connection-level words are handled on the connection table, every other word by
    the handler table, in the caller's database. *)
From stdpp Require Import gmap strings.
From RecordUpdate Require Import RecordSet.
Import RecordSetNotations.
From EV Require Import Base.Str Model.Value Model.Keyspace Model.Reply Model.Prog Model.Dispatch.
Local Open Scope Z_scope.

Lemma conn_words_have_no_handler name :
  (String.eqb name "select" || String.eqb name "swapdb" || String.eqb name "ping" || String.eqb name "echo") = true ->
  handler_of name = None.
Proof.
  intros H. repeat (apply orb_prop in H; destruct H as [H|H]); apply String.eqb_eq in H; subst; reflexivity.
Qed.

Lemma exec_conn_cmd_none w c name argv h :
  handler_of name = Some h -> exec_conn_cmd w c name argv = None.
Proof.
  intros Hh. unfold exec_conn_cmd.
  destruct (String.eqb name "select") eqn:E1.
  { rewrite conn_words_have_no_handler in Hh; [done|]. by rewrite E1. }
  destruct (String.eqb name "swapdb") eqn:E2.
  { rewrite conn_words_have_no_handler in Hh; [done|]. by rewrite E1, E2. }
  destruct (String.eqb name "ping") eqn:E3.
  { rewrite conn_words_have_no_handler in Hh; [done|]. by rewrite E1, E2, E3. }
  destruct (String.eqb name "echo") eqn:E4.
  { rewrite conn_words_have_no_handler in Hh; [done|]. rewrite E1, E2, E3, E4. done. }
  done.
Qed.

Theorem exec_cmd_runs_handler w c argv cmd h :
  argv = cmd :: tl argv -> handler_of (lower cmd) = Some h ->
  exec_cmd w c argv =
  (let '(s', r) := run_seq (conn_db w c) (h argv) (w_st w) in (World s' (w_conns w), r)).
Proof.
  intros Hargv Hh. unfold exec_cmd. rewrite Hargv. rewrite <- Hargv.
  rewrite (exec_conn_cmd_none w c _ argv h Hh), Hh. by destruct (run_seq _ _ _).
Qed.

(** The handler tables are chained in this order. *)
Lemma handler_of_unfold name :
  handler_of name =
  match CmdList.list_handler name with Some h => Some h | None =>
  match CmdHash.hash_handler name with Some h => Some h | None =>
  match CmdSet.set_handler CmdSet.default_pick name with Some h => Some h | None =>
  match CmdZSet.zset_handler name with Some h => Some h | None =>
  match CmdGeneric.generic_handler name with Some h => Some h | None =>
  match CmdString.string_handler name with Some h => Some h | None =>
  match CmdZRand.zrand_handler CmdZRand.default_zpick name with Some h => Some h | None =>
  CmdKeyspace.keyspace_handler CmdKeyspace.default_keysource name end end end end end end end.
Proof.
  unfold handler_of, first_some. cbn [fold_right].
  repeat match goal with |- context [match ?x with _ => _ end] => destruct x end; reflexivity.
Qed.
