(** Lifting the per-program theorems to whole command sequences run through the dispatcher. *)
From stdpp Require Import gmap strings.
From RecordUpdate Require Import RecordSet.
Import RecordSetNotations.
From EV Require Import Base.Str Model.Value Model.Keyspace Model.Reply Model.Prog Model.Dispatch.
From EV Require Import Proofs.KeyspaceLemmas Proofs.ProgLemmas Proofs.MemLemmas Proofs.DispatchLemmas.
Local Open Scope Z_scope.

(** A session: commands issued by connections (a connection is registered, in database 0, the first
    time it is seen — [handleConnection]). *)
Definition session_step (w : world) (c : Z) (argv : list string) : world * reply :=
  exec_cmd (register_conn w c) c argv.
Definition run_cmds (w : world) (cmds : list (Z * list string)) : world * list reply :=
  fold_left (fun '(w, rs) '(c, argv) => let '(w', r) := session_step w c argv in (w', rs ++ [r])) cmds (w, []).

Lemma register_conn_st w c : w_st (register_conn w c) = w_st w.
Proof. unfold register_conn. destruct (c =? 0); [done|]. by destruct (w_conns w !! c). Qed.

Lemma exec_cmd_cases w c argv :
  (exists r, exec_cmd w c argv = (w, r)) \/
  (exists w' r, exec_cmd w c argv = (w', r) /\ w_st w' = w_st w) \/
  (exists cmd h, argv = cmd :: tl argv /\ handler_of (lower cmd) = Some h /\
     exec_cmd w c argv = (let '(s', r) := run_seq (conn_db w c) (h argv) (w_st w) in (World s' (w_conns w), r))).
Proof.
  destruct argv as [|cmd rest]; [left; by eexists|].
  unfold exec_cmd. destruct (exec_conn_cmd w c (lower cmd) (cmd :: rest)) as [[w' r]|] eqn:Hc.
  - right; left. exists w', r. split; [done|].
    unfold exec_conn_cmd in Hc.
    repeat match type of Hc with
    | (if ?b then _ else _) = _ => destruct b
    | Some _ = Some _ => injection Hc as Hc
    | (match ?x with _ => _ end) = _ => destruct x
    | None = Some _ => discriminate
    end; try (injection Hc as <- _); try (inversion Hc; subst); done.
  - destruct (handler_of (lower cmd)) as [h|] eqn:Hh; [|left; by eexists].
    right; right. exists cmd, h. split; [done|]. split; [done|]. by destruct (run_seq _ _ _).
Qed.

(** C19 over sessions: from an empty server, after any commands of any connections, the figure is the
    accounted size of the stored dataset. *)
Lemma exec_cmd_mem w c argv : mem_inv (w_st w) -> mem_inv (w_st (fst (exec_cmd w c argv))).
Proof.
  intros H. destruct (exec_cmd_cases w c argv) as [[r ->]|[(w' & r & -> & Hst)|(cmd & h & _ & _ & ->)]]; simpl.
  - done.
  - by rewrite Hst.
  - pose proof (mem_inv_run (h argv) (conn_db w c) (w_st w) H) as G. by destruct (run_seq _ _ _).
Qed.

Theorem session_mem_inv cmds : forall w, mem_inv (w_st w) -> mem_inv (w_st (fst (run_cmds w cmds))).
Proof.
  unfold run_cmds.
  assert (G : forall cmds w rs, mem_inv (w_st w) ->
     mem_inv (w_st (fst (fold_left (fun '(w, rs) '(c, argv) => let '(w', r) := session_step w c argv in (w', rs ++ [r])) cmds (w, rs))))).
  { clear cmds. induction cmds as [|[c argv] r IH]; intros w rs H; simpl; [done|].
    unfold session_step.
    assert (H0 : mem_inv (w_st (register_conn w c))) by (by rewrite register_conn_st).
    pose proof (exec_cmd_mem (register_conn w c) c argv H0) as H1.
    destruct (exec_cmd (register_conn w c) c argv) as [w' x]. by apply IH. }
  intros w H. by apply G.
Qed.
