(** Which replies do the handlers produce?  [leaves P p]: every reply at a leaf of program [p] satisfies [P],
    whatever the primitives return — hence whatever the state.  With [P := reply_ok] this is "the handler
    only builds typed replies whose simple strings contain no CR / LF". *)
From stdpp Require Import gmap strings.
From EV Require Import Base.Str Model.Value Model.Keyspace Model.Reply Model.Prog Model.Dispatch Model.RespWire.
From EV Require Import Model.CmdList Model.CmdGeneric Model.CmdString.
From EV Require Import Proofs.RespWireProofs Proofs.WireProofs.
Local Open Scope Z_scope.

Inductive leaves {R} (P : R -> Prop) : prog R -> Prop :=
| lv_ret r : P r -> leaves P (Ret r)
| lv_ke ks k : (forall x, leaves P (k x)) -> leaves P (KeysExist ks k)
| lv_ge key k : (forall x, leaves P (k x)) -> leaves P (GetExpiry key k)
| lv_gv ks k : (forall x, leaves P (k x)) -> leaves P (GetValues ks k)
| lv_sv kvs k : (forall x, leaves P (k x)) -> leaves P (SetValues kvs k)
| lv_se key t touch k : leaves P k -> leaves P (SetExpiry key t touch k)
| lv_dk key k : leaves P k -> leaves P (DeleteKey key k)
| lv_now k : (forall x, leaves P (k x)) -> leaves P (Now k)
| lv_fd k : leaves P k -> leaves P (FlushDb k)
| lv_fa k : leaves P k -> leaves P (FlushAll k)
| lv_gd k : (forall x, leaves P (k x)) -> leaves P (GetDb k).

Lemma leaves_run {R} (P : R -> Prop) p : leaves P p -> forall d s, P (snd (run_seq d p s)).
Proof.
  induction 1; intros d s; cbn [run_seq]; auto.
  - destruct (get_values s d ks) as [s' f]. auto.
  - destruct (set_values s d kvs) as [s' ok]. auto.
Qed.

Lemma leaves_bind {A B} (Q : A -> Prop) (P : B -> Prop) p f :
  leaves Q p -> (forall a, Q a -> leaves P (f a)) -> leaves P (bind p f).
Proof. induction 1; intros Hf; cbn [bind]; try (constructor; auto). auto. Qed.

Definition rok (r : reply) : Prop := reply_ok r = true.

Lemma rok_bulks l : rok (bulks l).
Proof. unfold rok, bulks. cbn [reply_ok]. induction l; [done|]. cbn [map forallb reply_ok]. done. Qed.

Lemma exec_conn_cmd_rok w c name argv w' r :
  exec_conn_cmd w c name argv = Some (w', r) -> rok r.
Proof.
  intros Ec. unfold exec_conn_cmd in Ec. unfold rok.
  repeat case_match; simplify_eq; simpl; try done.
Qed.

(** The connection-module commands and the dispatcher's own errors. *)
Lemma exec_cmd_rok w c argv :
  (forall name h, handler_of name = Some h -> leaves rok (h argv)) -> rok (snd (exec_cmd w c argv)).
Proof.
  intros H. unfold exec_cmd. destruct argv as [|cmd rest]; [done|].
  destruct (exec_conn_cmd w c (lower cmd) (cmd :: rest)) as [[w' r0]|] eqn:Ec.
  { simpl. eapply exec_conn_cmd_rok; eauto. }
  destruct (handler_of (lower cmd)) as [h|] eqn:E; [|done].
  pose proof (leaves_run rok _ (H _ _ E) (conn_db w c) (w_st w)) as L.
  destruct (run_seq (conn_db w c) (h (cmd :: rest)) (w_st w)) as [s' r]. exact L.
Qed.

Definition reply_of (o : outcome) : reply := match o with OReply r => r | OQuit => ROk end.

Lemma wire_exec_rok w c argv :
  (forall name h, handler_of name = Some h -> leaves rok (h argv)) -> rok (reply_of (snd (wire_exec w c argv))).
Proof.
  intros H. unfold wire_exec. destruct argv as [|cmd rest]; [done|].
  destruct (String.eqb (lower cmd) "quit"); [done|].
  destruct (String.eqb (lower cmd) "ping"). { destruct rest as [|? [|? ?]]; done. }
  destruct (String.eqb (lower cmd) "echo"). { destruct rest as [|? [|? ?]]; done. }
  destruct (String.eqb (lower cmd) "select").
  { destruct rest as [|d [|? ?]]; try done. destruct (parse_int d) as [n|]; [|done]. destruct (n <? 0); done. }
  pose proof (exec_cmd_rok w c (cmd :: rest) H) as L.
  destruct (exec_cmd w c (cmd :: rest)) as [w' r]. exact L.
Qed.

(** * Handlers whose replies are shown well-formed syntactically *)
Ltac lv_step :=
  match goal with
  | |- leaves _ (match ?x with _ => _ end) => destruct x
  | |- leaves _ (if ?b then _ else _) => destruct b
  | H : forall _, leaves _ _ |- leaves _ _ => apply H
  | |- leaves _ (Ret (bulks _)) => apply lv_ret, rok_bulks
  | |- leaves _ (Ret _) => apply lv_ret; reflexivity
  | |- leaves _ (bind _ _) => eapply leaves_bind
  | |- leaves _ _ => constructor
  end.
Ltac lv := repeat (intros; cbv zeta; lv_step).
Ltac fin := try (apply lv_ret; unfold rok; cbn [reply_ok]; done).

Lemma lv_list name h argv : list_handler name = Some h -> leaves rok (h argv).
Proof.
  unfold list_handler.
  repeat match goal with |- context [if ?b then _ else _] => destruct b end; intros [= <-];
    unfold handle_llen, handle_lindex, handle_lrange, handle_lset, handle_ltrim, handle_lrem, handle_lmove,
      handle_push, handle_pop; lv; fin.
Qed.

Lemma lv_string name h argv : string_handler name = Some h -> leaves rok (h argv).
Proof.
  unfold string_handler.
  repeat match goal with |- context [if ?b then _ else _] => destruct b end; intros [= <-];
    unfold handle_setrange, handle_strlen, handle_substr, handle_append; lv; fin.
Qed.

(** [reply_wellformed_partial].  Full statement (C12): for every world, connection and argument vector the
    reply of [wire_exec] is exactly one well-formed value for a strict parser, alone or followed by other
    replies.  Proved here: that, for every reply satisfying [reply_ok] ([reply_frame]: all reply shapes, all bytes,
    all sizes), and [reply_ok] itself for everything [wire_exec] answers on its own (PING, ECHO, SELECT, QUIT,
    the empty command, unknown command words) and for every handler whose leaves are [reply_ok] — shown
    below for the list and string modules (17 handlers, all states).  The hypothesis [leaves rok (h argv)] is
    discharged for the hash / set / sorted-set / generic handlers in [Proofs/WireRepliesAll.v], which proves the
    unconditional [reply_wellformed]. *)
Theorem reply_wellformed_partial w c argv rest :
  (forall name h, handler_of name = Some h -> leaves rok (h argv)) ->
  let r := reply_of (snd (wire_exec w c argv)) in
  decode_strict (reply_bytes r +:+ rest) = DOk (reply_value r) rest.
Proof. intros H r. apply reply_frame. by apply wire_exec_rok. Qed.

(** Instances: list and string handlers, from every state, in every database. *)
Theorem list_string_replies_wellformed name h argv d s rest :
  list_handler name = Some h \/ string_handler name = Some h ->
  let r := snd (run_seq d (h argv) s) in
  decode_strict (reply_bytes r +:+ rest) = DOk (reply_value r) rest.
Proof.
  intros H r. apply reply_frame. apply (leaves_run rok).
  destruct H as [H|H]; [by eapply lv_list|by eapply lv_string].
Qed.

(** Commands no handler is registered for, and the connection module, need no hypothesis. *)
Theorem conn_replies_wellformed w c argv rest :
  handler_of (lower (arg argv 0)) = None ->
  let r := reply_of (snd (wire_exec w c argv)) in
  decode_strict (reply_bytes r +:+ rest) = DOk (reply_value r) rest.
Proof.
  intros Hn r. apply reply_frame. subst r. unfold wire_exec.
  destruct argv as [|cmd tl]; [done|]. cbn [arg nth] in Hn.
  destruct (String.eqb (lower cmd) "quit"); [done|].
  destruct (String.eqb (lower cmd) "ping"). { destruct tl as [|? [|? ?]]; done. }
  destruct (String.eqb (lower cmd) "echo"). { destruct tl as [|? [|? ?]]; done. }
  destruct (String.eqb (lower cmd) "select").
  { destruct tl as [|d [|? ?]]; try done. destruct (parse_int d) as [n|]; [|done]. destruct (n <? 0); done. }
  unfold exec_cmd.
  destruct (exec_conn_cmd w c (lower cmd) (cmd :: tl)) as [[w' r0]|] eqn:Ec.
  - simpl. eapply exec_conn_cmd_rok; eauto.
  - by rewrite Hn.
Qed.
