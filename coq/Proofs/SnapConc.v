(** A snapshot taken while writers are active (C03 x C05).

    What the Go code does ([internal/snapshot/snapshot.go TakeSnapshot], run by the ticker's goroutine or
    by the goroutine of SAVE / BGSAVE): read the clock, read the manifest, then call [getStateFunc] —
    the closure of [sugardb/sugardb.go] that takes [commandLock], copies every database under
    [storeLock.RLock()] with values deep-copied by [internal.CopyValue], and releases the lock — and from
    then on work on the copy only (filter, encode, hash test, file operations).  The copy is the activity
    [ACopy] of [Model/Conc.v], a locking thread of the pool; everything after it is the function
    [Model/Snapshot.take_snapshot] applied to the copy.  [snapshot_by] puts the two together.

    The theorems: for every pool of commands (any programs over the keyspace primitives, hence every
    handler with any arguments) and state copies, every schedule, the copy the snapshot works on is the
    store after a prefix of the serial order that [C05_serializable] exhibits (the order in which the
    command lock was acquired) — so what [TakeSnapshot] publishes, and what a restart serves from it
    ([C03_roundtrip]), is the dataset between two commands of that order: never half a command.  The
    second theorem lets the expiry sampler run as well (it does not take the command lock): the copy
    then shows every client the same keyspace as the serial prefix ([same_view]), and a snapshot drops
    expired entries anyway, so the restart serves the same entries.

    In the pool the clock does not move (no activity advances it): [st_now] of the copy is the clock
    of the initial store ([run_serial_now]); the time [TakeSnapshot] reads before the copy and the one
    [FilterExpiredKeys] reads are therefore the same instant, as in the sequential model. *)
From stdpp Require Import gmap strings.
From RecordUpdate Require Import RecordSet.
Import RecordSetNotations.
From EV Require Import Base.Str Model.Value Model.Keyspace Model.Reply Model.Prog Model.Conc.
From EV Require Import Model.SnapCodec Model.SnapFs Model.Snapshot.
From EV Require Import Proofs.KeyspaceLemmas Proofs.ProgLemmas Proofs.ConcLemmas Proofs.ConcSerial Proofs.ConcTheorems.
From EV Require Import Proofs.SnapCodecProofs Proofs.SnapProofs Proofs.SnapRoundTrip.
Local Open Scope Z_scope.

(** * No activity of the pool moves the clock *)
Lemma get_values_now s d ks : st_now (get_values s d ks).1 = st_now s.
Proof.
  pose proof (get_values_full s d ks) as H. destruct (get_values s d ks) as [s' f].
  destruct H as [(_ & Hn & _) _]. exact Hn.
Qed.

Lemma set_values_now s d kvs : st_now (set_values s d kvs).1 = st_now s.
Proof.
  unfold set_values. destruct (max_memory_exceeded s && st_noevict s); [done|]. cbn [fst].
  by destruct (set_values_fold_fields (dedupe_last kvs) s d) as (Hn & _).
Qed.

Lemma run_seq_now {R} (p : prog R) : forall d s, st_now (run_seq d p s).1 = st_now s.
Proof.
  induction p as [r|ks k IH|key k IH|ks k IH|kvs k IH|key t touch k IH|key k IH|k IH|k IH|k IH|k IH];
    intros d s; cbn [run_seq]; try done.
  - pose proof (get_values_now s d ks) as Hn. destruct (get_values s d ks) as [s' f]. cbn in Hn.
    rewrite IH. exact Hn.
  - pose proof (set_values_now s d kvs) as Hn. destruct (set_values s d kvs) as [s' ok]. cbn in Hn.
    rewrite IH. exact Hn.
  - rewrite IH. by destruct (set_expiry_fields s d key t) as (Hn & _).
  - rewrite IH. apply delete_key_now.
  - rewrite IH. by destruct (flush_fields s d) as (Hn & _).
  - rewrite IH. by destruct (flush_fields s (-1)) as (Hn & _).
Qed.

Lemma sweepc_now ks : forall s d, st_now (sweepc s d ks) = st_now s.
Proof.
  induction ks as [|k r IH]; intros s d; [done|]. unfold sweepc in *. cbn [fold_left]. rewrite IH.
  unfold sweepc_key. destruct (get_db s d !! k) as [e|]; [|done].
  destruct (expired (st_now s) e); [apply delete_key_now|done].
Qed.

Lemma act_seq_now a s : st_now (act_seq a s).1 = st_now s.
Proof.
  destruct a as [d p| |d pick]; cbn [act_seq].
  - pose proof (run_seq_now p d s) as Hn. destruct (run_seq d p s) as [s' r]. exact Hn.
  - done.
  - apply sweepc_now.
Qed.

Lemma run_serial_now acts perm : forall s0, st_now (run_serial acts perm s0).1 = st_now s0.
Proof.
  unfold run_serial. intros s0. generalize (∅ : gmap nat outcome).
  revert s0. induction perm as [|t r IH]; intros s0 m; [done|]. cbn [fold_left].
  unfold serial_step at 2. destruct (acts !! t) as [a|]; [|apply IH]. cbn [fst snd].
  pose proof (act_seq_now a s0) as Hn. destruct (act_seq a s0) as [s' o]. rewrite IH. exact Hn.
Qed.

Section engine.
Variable c : codec.
Hypothesis Hc : codec_ok c.
Context {H : Type} `{EqDecision H}.
Variable hash : snapobj -> H.
Notation sfs := (sfs (H:=H)).

(** [TakeSnapshot] run by a goroutine of its own against the directory [x] with in-memory last-save
    time [ls]: thread [t] of the pool is its call of [getStateFunc]; the rest of the function sees the
    copy only.  [None]: the copy has not been taken (yet). *)
Definition snapshot_by (P : pool) (t : nat) (x : sfs) (ls : Z) : option (sfs * state * Z * snap_result) :=
  match outcome_of P t with
  | Some (OSnap sc) => Some (take_snapshot c hash x sc ls None)
  | _ => None
  end.

(** What a completed [TakeSnapshot] of the state [sc] leaves behind, and what a restart at [t'] makes
    of it — the round trip of [SnapRoundTrip], in the form used below. *)
Lemma take_ok_roundtrip (x x' : sfs) sc ls sx ls' t' :
  st_now sc <> 0 ->
  take_snapshot c hash x sc ls None = (x', sx, ls', SnapOk) ->
  restore_read x' = Some (snapshot_object c sc (st_now sc)) /\
  exists sr, startup c x' t' = (sr, st_now sc) /\ st_now sr = t' /\
    forall d k, lentry sr d k = purge1 t' (lentry sc d k).
Proof.
  intros Hnow Ht. split.
  - assert (match read_manifest x with MBad => False | _ => True end) as Hman.
    { unfold take_snapshot, run_plan, take_snapshot_plan in Ht.
      destruct (read_manifest x) eqn:Hrm; [done| |done]. cbn in Ht. discriminate. }
    pose proof (attempt_outcome c hash x sc ls Hnow Hman) as Ho. rewrite Ht in Ho.
    destruct Ho as [[_ Hr]|[Hr _]]; [exact Hr|discriminate].
  - destruct (snapshot_roundtrip c Hc hash x sc ls x' sx ls' t' 0 "" Hnow Ht) as (sr & Hr & _ & Hn).
    exists sr. unfold startup. rewrite Hr. split; [done|]. split; [done|].
    intros d k. destruct (snapshot_roundtrip c Hc hash x sc ls x' sx ls' t' d k Hnow Ht) as (sr' & Hr' & Hl & _).
    rewrite Hr in Hr'. injection Hr' as <-. by rewrite Hl, lentry_flookup.
Qed.

(** * Commands and state copies *)
Theorem concurrent_snapshot (acts : gmap nat act) s0 sched (t : nat) :
  all_lock acts -> acts !! t = Some ACopy -> st_now s0 <> 0 ->
  let P := run_conc (fixed_pool acts s0) sched in
  all_done P ->
  let perm := acq_order P in
  (* the serial order of C05_serializable ... *)
  (base.NoDup perm /\ forall u, In u perm <-> is_Some (acts !! u)) /\
  p_store P = (run_serial acts perm s0).1 /\
  (forall u, is_Some (acts !! u) -> outcome_of P u = (run_serial acts perm s0).2 !! u) /\
  (* ... and the snapshot sits at one position of it *)
  exists pre post, perm = pre ++ t :: post /\
    let sc := (run_serial acts pre s0).1 in
    outcome_of P t = Some (OSnap sc) /\
    forall (x x' : sfs) ls sx ls' t',
      snapshot_by P t x ls = Some (x', sx, ls', SnapOk) ->
      ls' = st_now s0 /\
      restore_read x' = Some (snapshot_object c sc (st_now s0)) /\
      exists sr, startup c x' t' = (sr, st_now s0) /\ st_now sr = t' /\
        forall d k, lentry sr d k = purge1 t' (lentry sc d k).
Proof.
  intros Hall Ht Hnow P Hd perm.
  destruct (serializable_exact acts s0 sched Hall Hd) as (Hperm & Hst & Ho). fold P in Hperm, Hst, Ho.
  split; [exact Hperm|]. split; [exact Hst|]. split; [intros u Hu; by destruct (Ho u Hu)|].
  destruct (snapshot_consistent acts s0 sched t Hall Ht Hd) as (pre & post & Hsplit & Hout). fold P in Hsplit, Hout.
  exists pre, post. split; [exact Hsplit|]. cbv zeta. split; [exact Hout|].
  intros x x' ls sx ls' t' Hs. unfold snapshot_by in Hs. rewrite Hout in Hs. injection Hs as Hs.
  pose proof (run_serial_now acts pre s0) as Hclock.
  assert (st_now (run_serial acts pre s0).1 <> 0) as Hnow' by (by rewrite Hclock).
  destruct (lastsave_after_take c hash _ _ _ _ _ _ _ _ Hs) as [(_ & Hls & _)|(Hne & _)]; [|done].
  destruct (take_ok_roundtrip _ _ _ _ _ _ t' Hnow' Hs) as (Hr & sr & Hsr).
  rewrite Hclock in Hls, Hr, Hsr. split; [exact Hls|]. split; [exact Hr|]. by exists sr.
Qed.

(** * With the expiry sampler running as well *)
Theorem concurrent_snapshot_with_expiry (acts : gmap nat act) s0 sched (t : nat) :
  acts !! t = Some ACopy -> st_now s0 <> 0 -> st_maxmem s0 = 0 ->
  let P := run_conc (fixed_pool acts s0) sched in
  all_done P ->
  let perm := acq_order P in
  exists pre post sc, perm = pre ++ t :: post /\
    outcome_of P t = Some (OSnap sc) /\
    same_view sc (run_serial acts pre s0).1 /\
    forall (x x' : sfs) ls sx ls' t',
      snapshot_by P t x ls = Some (x', sx, ls', SnapOk) ->
      ls' = st_now s0 /\
      exists sr, startup c x' t' = (sr, st_now s0) /\ st_now sr = t' /\
        forall d k, lentry sr d k = purge1 t' (lentry (run_serial acts pre s0).1 d k).
Proof.
  intros Ht Hnow Hm P Hd perm.
  destruct (serializable_view acts s0 sched Hm Hd) as ((Hn & Hin) & _ & Ho). fold P in Hn, Hin, Ho.
  assert (In t (acq_order P)) as Hi by (apply Hin; eauto).
  apply in_split in Hi. destruct Hi as (pre & post & Hsplit).
  destruct (Ho t ACopy Ht eq_refl) as (o & o' & H1 & H2 & H3).
  rewrite Hsplit in H2. rewrite serial_copy in H2; [|done|].
  2:{ rewrite Hsplit in Hn. apply NoDup_app in Hn. destruct Hn as (_ & _ & Hn). apply list.NoDup_cons in Hn.
      destruct Hn as [Hn _]. intros Hc'. apply Hn. by apply elem_of_list_In. }
  injection H2 as <-. destruct o as [r|sc|]; try done. cbn in H3.
  exists pre, post, sc. split; [exact Hsplit|]. split; [exact H1|].
  split; [exact H3|].
  intros x x' ls sx ls' t' Hs. unfold snapshot_by in Hs. rewrite H1 in Hs. injection Hs as Hs.
  pose proof (run_serial_now acts pre s0) as Hclock.
  destruct H3 as (Hl & Hn3 & _).
  assert (st_now sc = st_now s0) as Hclk by congruence.
  assert (st_now sc <> 0) as Hnow' by (by rewrite Hclk).
  destruct (lastsave_after_take c hash _ _ _ _ _ _ _ _ Hs) as [(_ & Hls & _)|(Hne & _)]; [|done].
  destruct (take_ok_roundtrip _ _ _ _ _ _ t' Hnow' Hs) as (_ & sr & Hsr).
  rewrite Hclk in Hls, Hsr. split; [exact Hls|]. exists sr.
  destruct Hsr as (Hs1 & Hs2 & Hs3). split; [done|]. split; [done|].
  intros d k. by rewrite Hs3, Hl.
Qed.

End engine.
