(** C06, key coverage, per module: for every handler of the list, hash, string, generic and set modules
    and every argument vector, the keys the handler passes to the keyspace primitives are within the
    keys its [KeyExtractionFunc] reports for that vector ([Model/KeyFuncs.v], tied to the Go functions
    by [Gen/KeyExtract.v] + [key_extract_agrees]); when the key function fails, the handler touches no
    key.  The sorted-set module is in [Proofs/KeyCoverZSet.v]. *)
From stdpp Require Import gmap strings.
From EV Require Import Base.Str Model.Value Model.Adapt Model.Keyspace Model.Reply Model.Prog.
From EV Require Import Model.CmdList Model.CmdGeneric Model.CmdString Model.HashVal Model.CmdHash Model.CmdSet.
From EV Require Model.CmdKeyspace.
From EV Require Import Model.TableTypes Model.KeyFuncs.
From EV Require Import Proofs.KeyspaceLemmas Proofs.ProgLemmas Proofs.KeyCover.
Local Open Scope Z_scope.

(** What a key-extraction result promises about a program. *)
Definition nokey : string -> Prop := fun _ => False.
Definition kx_within {A} (r : kx_res) (p : prog A) : Prop :=
  match r with
  | KxOk _ rd wr => within_l (rd ++ wr) wr p
  | KxErr => within nokey nokey p
  | _ => False
  end.

(** * Tactics *)
Ltac split_argv n argv :=
  lazymatch n with
  | O => idtac
  | S ?m => destruct argv as [|? argv]; [|split_argv m argv]
  end.

(** the key function of a concrete command word, down to its shape *)
Ltac kx_name :=
  cbv [key_extract key_extract_cmd in_words existsb String.eqb Ascii.eqb Bool.eqb orb].
Ltac kx_shape :=
  cbn [kx_within apply_shape rd1 wr1 rdall store nokeys ks_lo ks_hi ks_ch ks_rd ks_wr length
       Nat.leb Nat.ltb Nat.eqb andb orb negb take_slice firstn skipn Nat.sub app].
Ltac arity :=
  cbn [length Nat.leb Nat.ltb Nat.eqb Nat.even Nat.odd andb orb negb arg harg nth skipn firstn tl hd].

Ltac solve_keys :=
  cbn [map fst];
  solve [ apply list.Forall_forall; intros ? ?; set_solver
        | repeat constructor ].

Ltac wi_extra := fail.
Ltac wi_step :=
  match goal with
  | |- within_l _ _ _ => unfold within_l
  | |- within _ _ (Ret _) => apply wi_ret
  | |- within _ _ (if ?b then _ else _) => destruct b
  | |- within _ _ (match ?x with _ => _ end) => destruct x
  | |- within _ _ (KeysExist _ _) => apply wi_ke; [solve_keys|]
  | |- within _ _ (GetValues _ _) => apply wi_gv; [solve_keys|]
  | |- within _ _ (GetExpiry _ _) => apply wi_ge; [set_solver|]
  | |- within _ _ (SetValues _ _) => apply wi_sv; [solve_keys|]
  | |- within _ _ (SetExpiry _ _ _ _) => apply wi_sx; [set_solver|]
  | |- within _ _ (DeleteKey _ _) => apply wi_del; [set_solver|]
  | |- within _ _ (Now _) => apply wi_now
  | |- within _ _ (GetDb _) => apply wi_db
  | H : forall _, within _ _ _ |- within _ _ _ => apply H
  | |- within _ _ _ => wi_extra
  end.
Ltac wi := repeat (intros; cbv beta zeta; wi_step).

(** one command word: [unf] unfolds its handler; [n] = how far to split the argument vector
    (one more than the largest accepted length, or the smallest accepted length when unbounded) *)
Ltac word n unf :=
  intros argv; kx_name; split_argv n argv; kx_shape; unf; arity; wi.

(** * List *)
Lemma kc_list name h argv : list_handler name = Some h -> kx_within (key_extract name "" argv) (h argv).
Proof.
  unfold list_handler. revert argv.
  repeat match goal with
  | |- context [if ?b then _ else _] => destruct b eqn:?
  end; intros argv [= <-]; revert argv;
  repeat match goal with
  | H : String.eqb _ _ = true |- _ => apply String.eqb_eq in H; subst
  | H : (_ || _) = true |- _ => apply orb_prop in H; destruct H
  end.
  - word 3%nat ltac:(unfold handle_llen).
  - word 4%nat ltac:(unfold handle_lindex).
  - word 5%nat ltac:(unfold handle_lrange).
  - word 5%nat ltac:(unfold handle_lset).
  - word 5%nat ltac:(unfold handle_ltrim).
  - word 5%nat ltac:(unfold handle_lrem).
  - word 6%nat ltac:(unfold handle_lmove).
  - word 3%nat ltac:(unfold handle_push).
  - word 3%nat ltac:(unfold handle_push).
  - word 3%nat ltac:(unfold handle_push).
  - word 3%nat ltac:(unfold handle_push).
  - word 4%nat ltac:(unfold handle_pop).
  - word 4%nat ltac:(unfold handle_pop).
Qed.

Ltac handler_cases :=
  repeat match goal with
  | |- context [if ?b then _ else _] => destruct b eqn:?
  end; intros argv [= <-]; revert argv;
  repeat match goal with
  | H : String.eqb _ _ = true |- _ => apply String.eqb_eq in H; subst
  | H : (_ || _) = true |- _ => apply orb_prop in H; destruct H
  end.

(** * String *)
Lemma kc_string name h argv : string_handler name = Some h -> kx_within (key_extract name "" argv) (h argv).
Proof.
  unfold string_handler. revert argv. handler_cases.
  - word 5%nat ltac:(unfold handle_setrange).
  - word 3%nat ltac:(unfold handle_strlen).
  - word 5%nat ltac:(unfold handle_substr).
  - word 5%nat ltac:(unfold handle_substr).
  - word 4%nat ltac:(unfold handle_append).
Qed.

(** * Hash *)
Lemma kc_hash name h argv : hash_handler name = Some h -> kx_within (key_extract name "" argv) (h argv).
Proof.
  unfold hash_handler. revert argv. handler_cases.
  - word 4%nat ltac:(unfold handle_hset).
  - word 4%nat ltac:(unfold handle_hset).
  - word 3%nat ltac:(unfold handle_hget).
  - word 3%nat ltac:(unfold handle_hget).
  - word 3%nat ltac:(unfold handle_hstrlen).
  - word 3%nat ltac:(unfold handle_hvals, hash_reader).
  - word 5%nat ltac:(unfold handle_hrandfield).
  - word 3%nat ltac:(unfold handle_hlen, hash_reader).
  - word 3%nat ltac:(unfold handle_hkeys, hash_reader).
  - word 5%nat ltac:(unfold handle_hincrby).
  - word 5%nat ltac:(unfold handle_hincrby).
  - word 3%nat ltac:(unfold handle_hgetall, hash_reader).
  - word 4%nat ltac:(unfold handle_hexists).
  - word 3%nat ltac:(unfold handle_hdel).
Qed.

(** * Generic *)
Lemma wi_counter_step (R W : string -> Prop) key delta :
  R key -> W key -> within R W (counter_step key delta).
Proof.
  intros HR HW. unfold counter_step.
  apply wi_gv; [by repeat constructor|]. intros vals. cbv zeta.
  repeat match goal with
  | |- within _ _ (match ?x with _ => _ end) => destruct x
  | |- within _ _ (Ret _) => constructor
  | |- within _ _ (SetValues _ _) => apply wi_sv; [by repeat constructor|intros]
  end.
Qed.

Lemma wi_del_keys (R W : string -> Prop) ks ex : forall n,
  Forall W ks -> within R W (del_keys ks ex n).
Proof.
  induction ks as [|k r IH]; intros n Hk; simpl; [constructor|].
  inversion Hk; subst. destruct (ex k); [apply wi_del; auto|auto].
Qed.

Lemma dedupe_subseteq (l : list string) : dedupe l ⊆ l.
Proof.
  induction l as [|x r IH]; simpl; [done|].
  destruct (bool_decide (x ∈ r)); set_solver.
Qed.

(** MSET: the keys written are among the even-numbered arguments *)
Lemma mset_pairs_evens (l : list string) : map fst (mset_pairs l) ⊆ evens l.
Proof.
  assert (H : forall n l, (length l <= n)%nat -> map fst (mset_pairs l) ⊆ evens l).
  { clear l. induction n as [|n IH]; intros [|k [|v r]] Hl; simpl in *; try set_solver; try lia.
    specialize (IH r). assert (length r <= n)%nat by lia. set_solver. }
  by apply (H (length l)).
Qed.

Lemma kc_mset argv : kx_within (key_extract "mset" "" argv) (handle_mset argv).
Proof.
  kx_name. unfold kx_mset, handle_mset.
  replace (skipn 1 argv) with (tl argv) by (by destruct argv).
  destruct (Nat.even (length (tl argv))); cbn [negb kx_within]; [|constructor].
  unfold within_l. apply wi_sv; [|intros []; constructor].
  apply list.Forall_forall. intros k Hk. apply mset_pairs_evens in Hk. set_solver.
Qed.

Definition is_flush (name : string) : bool := String.eqb name "flushall" || String.eqb name "flushdb".

Ltac wi_extra ::=
  match goal with
  | |- within _ _ (counter_step _ _) => apply wi_counter_step; set_solver
  | |- within _ _ (del_keys _ _ _) =>
      apply wi_del_keys; apply list.Forall_forall; intros ? ?Hx; apply dedupe_subseteq in Hx; set_solver
  | |- within _ _ (expire_with_option _ _ _ _) => unfold expire_with_option
  end.

Lemma kc_generic name h argv :
  generic_handler name = Some h -> is_flush name = false ->
  kx_within (key_extract name "" argv) (h argv).
Proof.
  unfold generic_handler, is_flush. intros Hh Hf. revert argv Hh. handler_cases;
    try (exfalso; revert Hf; vm_compute; discriminate).
  - word 8%nat ltac:(unfold handle_set).
  - intros argv. apply kc_mset.
  - word 3%nat ltac:(unfold handle_get).
  - word 2%nat ltac:(unfold handle_mget).
  - word 2%nat ltac:(unfold handle_del).
  - word 3%nat ltac:(unfold handle_persist).
  - word 3%nat ltac:(unfold handle_expiretime).
  - word 3%nat ltac:(unfold handle_expiretime).
  - word 3%nat ltac:(unfold handle_ttl).
  - word 3%nat ltac:(unfold handle_ttl).
  - word 5%nat ltac:(unfold handle_expire, handle_expire_gen).
  - word 5%nat ltac:(unfold handle_expire, handle_expire_gen).
  - word 5%nat ltac:(unfold handle_expireat, handle_expire_gen).
  - word 5%nat ltac:(unfold handle_expireat, handle_expire_gen).
  - word 3%nat ltac:(unfold handle_incr).
  - word 3%nat ltac:(unfold handle_decr).
  - word 4%nat ltac:(unfold handle_incrby).
  - word 4%nat ltac:(unfold handle_decrby).
  - word 4%nat ltac:(unfold handle_incrbyfloat).
  - word 4%nat ltac:(unfold handle_rename).
  - word 3%nat ltac:(unfold handle_getdel).
  - word 5%nat ltac:(unfold handle_getex).
  - word 3%nat ltac:(unfold handle_type).
Qed.

(** * Set *)
Lemma wi_read_sets_skip {A} (R W : string -> Prop) ks : forall (k : list (gset string) -> prog A),
  Forall R ks -> (forall l, within R W (k l)) -> within R W (read_sets_skip ks k).
Proof.
  induction ks as [|key r IH]; intros k Hks Hk; simpl; [apply Hk|].
  inversion Hks; subst. apply wi_gv; [by repeat constructor|]. intros vals.
  destruct (as_set (vals key)); apply IH; auto.
Qed.

Lemma wi_existing_sets {A} (R W : string -> Prop) ex ks : forall (k : scan_result -> prog A),
  Forall R ks -> (forall x, within R W (k x)) -> within R W (existing_sets ex ks k).
Proof.
  induction ks as [|key r IH]; intros k Hks Hk; simpl; [apply Hk|].
  inversion Hks; subst. destruct (negb (ex key)); [apply IH; auto|].
  apply wi_gv; [by repeat constructor|]. intros vals.
  destruct (as_set (vals key)); [apply IH; auto|apply Hk].
Qed.

Ltac wi_extra ::=
  match goal with
  | |- within _ _ (read_sets_skip _ _) => apply wi_read_sets_skip; [solve_keys|]
  | |- within _ _ (existing_sets _ _ _) => apply wi_existing_sets; [solve_keys|]
  | |- within _ _ (WriteBack _ _) => unfold WriteBack
  end.

(** SINTERCARD: the handler's keys are those the key function reports (both stop at the first
    LIMIT; the key function searches the whole vector, the command word included). *)
Lemma index_fold_of w l : index_fold w l = index_of (eq_fold w) l.
Proof.
  induction l as [|x r IH]; simpl; [done|].
  replace (eq_fold x w) with (eq_fold w x) by (unfold eq_fold; apply eq_true_iff_eq; rewrite !String.eqb_eq; split; congruence).
  destruct (eq_fold w x); [done|]. rewrite IH. by destruct (index_of _ r).
Qed.

Lemma sintercard_keys a0 args keys limit :
  eq_fold "limit" a0 = false -> args <> [] -> sintercard_args args = Some (keys, limit) ->
  match kx_upto "limit" (a0 :: args) with
  | KxOk _ rd wr => keys = rd /\ wr = []
  | _ => False
  end.
Proof.
  intros Ha Hne. unfold sintercard_args, kx_upto. rewrite index_fold_of. cbn [length index_of]. rewrite Ha.
  destruct (index_of (eq_fold "limit") args) as [i|]; cbn [option_map Nat.ltb Nat.leb].
  - destruct i as [|i]; [discriminate|].
    destruct (length args <=? S i + 1)%nat eqn:Hl; [discriminate|].
    destruct (adapt_int _); [|discriminate]. intros [= <- <-].
    destruct args as [|a1 args]; [discriminate Hl|]. cbn [length Nat.leb skipn Nat.sub]. done.
  - intros [= <- <-]. destruct args; [done|]. cbn. done.
Qed.

Lemma kc_sintercard argv :
  lower (arg argv 0) = "sintercard" ->
  kx_within (key_extract "sintercard" "" argv) (handle_sintercard argv).
Proof.
  intros Hn. kx_name. unfold handle_sintercard.
  destruct argv as [|a0 args]; [cbn; constructor|].
  assert (Ha : eq_fold "limit" a0 = false).
  { unfold eq_fold. cbn [arg nth] in Hn. rewrite Hn. reflexivity. }
  destruct args as [|a1 args]; [cbn; constructor|].
  cbn [length Nat.ltb Nat.leb skipn].
  destruct (sintercard_args (a1 :: args)) as [[keys limit]|] eqn:Hs.
  - pose proof (sintercard_keys a0 (a1 :: args) keys limit Ha ltac:(done) Hs) as Hk.
    destruct (kx_upto "limit" (a0 :: a1 :: args)) as [ch rd wr| | |]; try done.
    destruct Hk as [<- ->]. cbn [kx_within]. wi.
  - destruct (kx_upto "limit" (a0 :: a1 :: args)) eqn:Hk; cbn [kx_within]; try constructor.
    + unfold kx_upto in Hk. cbn [length Nat.ltb Nat.leb] in Hk. by destruct (index_of _ _).
    + unfold kx_upto in Hk. cbn [length Nat.ltb Nat.leb] in Hk. by destruct (index_of _ _).
Qed.

Lemma kc_set pick name h argv :
  set_handler pick name = Some h -> lower (arg argv 0) = name ->
  kx_within (key_extract name "" argv) (h argv).
Proof.
  unfold set_handler. intros Hh Hn. revert argv Hh Hn. handler_cases.
  - word 3%nat ltac:(unfold handle_sadd).
  - word 3%nat ltac:(unfold handle_scard).
  - word 2%nat ltac:(unfold handle_sdiff).
  - word 3%nat ltac:(unfold handle_sdiffstore).
  - word 2%nat ltac:(unfold handle_sinter).
  - intros argv Hn. by apply kc_sintercard.
  - word 3%nat ltac:(unfold handle_sinterstore).
  - word 4%nat ltac:(unfold handle_sismember).
  - word 3%nat ltac:(unfold handle_smembers).
  - word 3%nat ltac:(unfold handle_smismember).
  - word 5%nat ltac:(unfold handle_smove).
  - word 4%nat ltac:(unfold handle_spop).
  - word 4%nat ltac:(unfold handle_srandmember).
  - word 3%nat ltac:(unfold handle_srem).
  - word 2%nat ltac:(unfold handle_sunion).
  - word 3%nat ltac:(unfold handle_sunionstore).
Qed.

(** * TOUCH, OBJECTFREQ, OBJECTIDLETIME: no primitive at all.  RANDOMKEY is not in the class: its key
    function reports no key and its reply depends on every key of the database (see the finding in
    [Proofs/KeyCoverTheorems.v]). *)
Definition keyless_scan (name : string) : bool := is_flush name || String.eqb name "randomkey".

Lemma keyless_scan_flush name : keyless_scan name = false -> is_flush name = false.
Proof. unfold keyless_scan. by intros [H _]%orb_false_iff. Qed.

Lemma kc_keyspace cands name h argv :
  CmdKeyspace.keyspace_handler cands name = Some h -> keyless_scan name = false ->
  kx_within (key_extract name "" argv) (h argv).
Proof.
  unfold CmdKeyspace.keyspace_handler, keyless_scan. intros Hh Hf. revert argv Hh. handler_cases;
    try (exfalso; revert Hf; vm_compute; discriminate).
  - word 2%nat ltac:(unfold CmdKeyspace.handle_touch).
  - word 3%nat ltac:(unfold CmdKeyspace.handle_objfreq).
  - word 3%nat ltac:(unfold CmdKeyspace.handle_objidletime).
Qed.
