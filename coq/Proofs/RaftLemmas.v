(** Clock independence of the keyspace primitives below a horizon.

    [dl_ge T s]: every deadline stored in [s] is at or after [T].  A node whose clock has not passed
    [T] then sees no entry as expired, and every primitive computes the same thing whatever that
    node's clock shows: the primitive commutes with resetting the clock ([at_time]). *)
From stdpp Require Import gmap strings.
From Coq Require Import FunctionalExtensionality.
From RecordUpdate Require Import RecordSet.
Import RecordSetNotations.
From EV Require Import Base.Str Model.Value Model.Keyspace Model.Reply Model.Prog Model.Raft Proofs.KeyspaceLemmas.
Local Open Scope Z_scope.

Definition dl_ge (T : Z) (s : state) : Prop :=
  forall d db k e t, st_dbs s !! d = Some db -> db !! k = Some e -> e_dl e = Some t -> T <= t.

Lemma get_db_at s n d : get_db (at_time s n) d = get_db s d.
Proof. reflexivity. Qed.
Lemma get_vol_at s n d : get_vol (at_time s n) d = get_vol s d.
Proof. reflexivity. Qed.
Lemma at_time_at s n m : at_time (at_time s n) m = at_time s m.
Proof. destruct s; reflexivity. Qed.
Lemma at_time_now s : at_time s (st_now s) = s.
Proof. destruct s; reflexivity. Qed.
Lemma st_now_at s n : st_now (at_time s n) = n.
Proof. reflexivity. Qed.
Lemma dl_ge_at T s n : dl_ge T (at_time s n) <-> dl_ge T s.
Proof. reflexivity. Qed.

Lemma get_db_lookup s d k e : get_db s d !! k = Some e -> exists db, st_dbs s !! d = Some db /\ db !! k = Some e.
Proof.
  unfold get_db. destruct (st_dbs s !! d) as [db|] eqn:E; simpl; [eauto|]. rewrite lookup_empty. done.
Qed.

Lemma not_expired T s n d k e :
  dl_ge T s -> n <= T -> get_db s d !! k = Some e -> expired n e = false.
Proof.
  intros H Hn Hk. destruct (get_db_lookup _ _ _ _ Hk) as (db & Hd & He).
  unfold expired. destruct (e_dl e) as [t|] eqn:Et; [|done].
  specialize (H d db k e t Hd He Et). apply Z.ltb_ge. lia.
Qed.

Section horizon.
Context (T : Z).

(** ** Observers *)
Lemma keys_exist_at s n d ks :
  dl_ge T s -> st_now s <= T -> n <= T -> keys_exist (at_time s n) d ks = keys_exist s d ks.
Proof.
  intros H Hs Hn. apply functional_extensionality. intros k. unfold keys_exist.
  rewrite get_db_at, st_now_at. destruct (get_db s d !! k) as [e|] eqn:E; [|done].
  by rewrite (not_expired T s n d k e), (not_expired T s (st_now s) d k e).
Qed.

Lemma get_expiry_at s n d k :
  dl_ge T s -> st_now s <= T -> n <= T -> get_expiry (at_time s n) d k = get_expiry s d k.
Proof.
  intros H Hs Hn. unfold get_expiry. rewrite get_db_at, st_now_at.
  destruct (get_db s d !! k) as [e|] eqn:E; [|done].
  by rewrite (not_expired T s n d k e), (not_expired T s (st_now s) d k e).
Qed.

Definition gv_acc (s : state) (d : Z) (ks : list string) (acc : list (string * option value)) :=
  fold_left (fun acc k => (k, e_val <$> (get_db s d !! k)) :: acc) ks acc.

Lemma get_values_go_noexp s d ks : forall acc,
  dl_ge T s -> st_now s <= T -> get_values_go s d ks acc = (s, gv_acc s d ks acc).
Proof.
  induction ks as [|k r IH]; intros acc H Hs; simpl; [done|].
  destruct (get_db s d !! k) as [e|] eqn:E; simpl.
  - rewrite (not_expired T s (st_now s) d k e) by done. by apply IH.
  - by apply IH.
Qed.

Lemma get_values_noexp s d ks :
  dl_ge T s -> st_now s <= T -> fst (get_values s d ks) = s.
Proof. intros H Hs. unfold get_values. by rewrite get_values_go_noexp. Qed.

Lemma get_values_at s n d ks :
  dl_ge T s -> st_now s <= T -> n <= T ->
  snd (get_values (at_time s n) d ks) = snd (get_values s d ks).
Proof.
  intros H Hs Hn. unfold get_values.
  rewrite (get_values_go_noexp (at_time s n)), (get_values_go_noexp s) by done.
  reflexivity.
Qed.

(** ** State transformers commute with the clock *)
Lemma delete_key_at s n d k : delete_key (at_time s n) d k = at_time (delete_key s d k) n.
Proof. unfold delete_key. rewrite get_db_at. destruct (get_db s d !! k); destruct s; reflexivity. Qed.

Lemma set_value1_at s n d k v :
  dl_ge T s -> st_now s <= T -> n <= T ->
  set_value1 (at_time s n) d k v = at_time (set_value1 s d k v) n.
Proof.
  intros H Hs Hn. unfold set_value1. rewrite get_db_at, st_now_at.
  destruct (get_db s d !! k) as [e|] eqn:E.
  - rewrite (not_expired T s n d k e), (not_expired T s (st_now s) d k e) by done.
    rewrite get_db_at, E. destruct s; reflexivity.
  - rewrite get_db_at, E. destruct s; reflexivity.
Qed.

Lemma set_value1_now s d k v : st_now (set_value1 s d k v) = st_now s.
Proof.
  unfold set_value1.
  set (s1 := match get_db s d !! k with Some e => if expired (st_now s) e then delete_key s d k else s | None => s end).
  assert (H : st_now s1 = st_now s).
  { subst s1. destruct (get_db s d !! k) as [e|]; [destruct (expired _ _)|]; rewrite ?delete_key_now; reflexivity. }
  rewrite <- H. reflexivity.
Qed.

Lemma delete_key_dl_ge s d k : dl_ge T s -> dl_ge T (delete_key s d k).
Proof.
  intros H. unfold delete_key. destruct (get_db s d !! k) as [e|] eqn:E; [|done].
  intros d' db k' e' t Hd Hk Ht. simpl in Hd.
  destruct (decide (d' = d)) as [->|Hne].
  - rewrite lookup_insert in Hd. injection Hd as <-.
    apply lookup_delete_Some in Hk as [_ Hk].
    destruct (get_db_lookup _ _ _ _ Hk) as (db0 & Hd0 & He0). eapply H; eauto.
  - rewrite lookup_insert_ne in Hd by done. eapply H; eauto.
Qed.

Lemma set_value1_dl_ge s d k v :
  dl_ge T s -> st_now s <= T -> dl_ge T (set_value1 s d k v).
Proof.
  intros H Hs. unfold set_value1.
  destruct (get_db s d !! k) as [e|] eqn:E.
  - rewrite (not_expired T s (st_now s) d k e) by done. rewrite E.
    intros d' db k' e' t Hd Hk Ht. simpl in Hd.
    destruct (decide (d' = d)) as [->|Hne].
    + rewrite lookup_insert in Hd. injection Hd as <-.
      destruct (decide (k' = k)) as [->|Hk'].
      * rewrite lookup_insert in Hk. injection Hk as <-. simpl in Ht.
        destruct (get_db_lookup _ _ _ _ E) as (db0 & Hd0 & He0). eapply H; eauto.
      * rewrite lookup_insert_ne in Hk by done.
        destruct (get_db_lookup _ _ _ _ Hk) as (db0 & Hd0 & He0). eapply H; eauto.
    + rewrite lookup_insert_ne in Hd by done. eapply H; eauto.
  - rewrite E.
    intros d' db k' e' t Hd Hk Ht. simpl in Hd.
    destruct (decide (d' = d)) as [->|Hne].
    + rewrite lookup_insert in Hd. injection Hd as <-.
      destruct (decide (k' = k)) as [->|Hk'].
      * rewrite lookup_insert in Hk. injection Hk as <-. simpl in Ht. done.
      * rewrite lookup_insert_ne in Hk by done.
        destruct (get_db_lookup _ _ _ _ Hk) as (db0 & Hd0 & He0). eapply H; eauto.
    + rewrite lookup_insert_ne in Hd by done. eapply H; eauto.
Qed.

Lemma set_values_fold_at kvs : forall s n d,
  dl_ge T s -> st_now s <= T -> n <= T ->
  fold_left (fun s '(k, v) => set_value1 s d k v) kvs (at_time s n)
  = at_time (fold_left (fun s '(k, v) => set_value1 s d k v) kvs s) n
  /\ dl_ge T (fold_left (fun s '(k, v) => set_value1 s d k v) kvs s)
  /\ st_now (fold_left (fun s '(k, v) => set_value1 s d k v) kvs s) = st_now s.
Proof.
  induction kvs as [|[k v] r IH]; intros s n d H Hs Hn; simpl; [done|].
  rewrite set_value1_at by done.
  destruct (IH (set_value1 s d k v) n d) as (E & D & N);
    [by apply set_value1_dl_ge|by rewrite set_value1_now|done|].
  rewrite E. split; [done|]. split; [done|]. by rewrite N, set_value1_now.
Qed.

Lemma set_values_at s n d kvs :
  dl_ge T s -> st_now s <= T -> n <= T ->
  set_values (at_time s n) d kvs = (at_time (fst (set_values s d kvs)) n, snd (set_values s d kvs))
  /\ dl_ge T (fst (set_values s d kvs)) /\ st_now (fst (set_values s d kvs)) = st_now s.
Proof.
  intros H Hs Hn. unfold set_values.
  change (max_memory_exceeded (at_time s n)) with (max_memory_exceeded s).
  change (st_noevict (at_time s n)) with (st_noevict s).
  destruct (max_memory_exceeded s && st_noevict s); simpl; [done|].
  destruct (set_values_fold_at (dedupe_last kvs) s n d H Hs Hn) as (E & D & N).
  by rewrite E.
Qed.

Lemma set_expiry_at s n d k t :
  dl_ge T s -> st_now s <= T -> n <= T ->
  set_expiry (at_time s n) d k t = at_time (set_expiry s d k t) n.
Proof.
  intros H Hs Hn. unfold set_expiry. rewrite get_db_at, st_now_at, get_vol_at.
  destruct (get_db s d !! k) as [e|] eqn:E; [|done].
  rewrite (not_expired T s n d k e), (not_expired T s (st_now s) d k e) by done.
  destruct s; reflexivity.
Qed.

Lemma set_expiry_now s d k t : st_now (set_expiry s d k t) = st_now s.
Proof. unfold set_expiry. destruct (get_db s d !! k); [destruct (expired _ _)|]; reflexivity. Qed.

Definition dl_ok (t : option Z) : Prop := match t with Some x => T <= x | None => True end.

Lemma get_expiry_dl_ok s d k : dl_ge T s -> dl_ok (get_expiry s d k).
Proof.
  intros H. unfold get_expiry, dl_ok, get_db.
  destruct (st_dbs s !! d) as [db|] eqn:Ed; simpl; [|by rewrite lookup_empty].
  destruct (db !! k) as [e|] eqn:Ek; [|done].
  destruct (expired (st_now s) e); [done|].
  destruct (e_dl e) as [t|] eqn:Et; [|done]. by eapply H.
Qed.

Lemma set_expiry_dl_ge s d k t : dl_ge T s -> dl_ok t -> dl_ge T (set_expiry s d k t).
Proof.
  intros H Ht. unfold set_expiry. destruct (get_db s d !! k) as [e|] eqn:E; [|done].
  destruct (expired _ _); [done|].
  intros d' db k' e' t' Hd Hk He. simpl in Hd.
  destruct (decide (d' = d)) as [->|Hne].
  - rewrite lookup_insert in Hd. injection Hd as <-.
    destruct (decide (k' = k)) as [->|Hk'].
    + rewrite lookup_insert in Hk. injection Hk as <-. simpl in He. subst t. exact Ht.
    + rewrite lookup_insert_ne in Hk by done.
      destruct (get_db_lookup _ _ _ _ Hk) as (db0 & Hd0 & He0). eapply H; eauto.
  - rewrite lookup_insert_ne in Hd by done. eapply H; eauto.
Qed.

Lemma flush_db_at s n d : flush_db (at_time s n) d = at_time (flush_db s d) n.
Proof.
  unfold flush_db. change (st_dbs (at_time s n)) with (st_dbs s).
  destruct (st_dbs s !! d); destruct s; reflexivity.
Qed.
Lemma flush_db_now s d : st_now (flush_db s d) = st_now s.
Proof. unfold flush_db. destruct (st_dbs s !! d); reflexivity. Qed.
Lemma flush_db_dl_ge s d : dl_ge T s -> dl_ge T (flush_db s d).
Proof.
  intros H. unfold flush_db. destruct (st_dbs s !! d) as [db0|] eqn:E; [|done].
  intros d' db k e t Hd Hk Ht. simpl in Hd.
  destruct (decide (d' = d)) as [->|Hne].
  - rewrite lookup_insert in Hd. injection Hd as <-. by rewrite lookup_empty in Hk.
  - rewrite lookup_insert_ne in Hd by done. eapply H; eauto.
Qed.

Lemma flush_fold_at ds : forall s n,
  fold_left flush_db ds (at_time s n) = at_time (fold_left flush_db ds s) n
  /\ (dl_ge T s -> dl_ge T (fold_left flush_db ds s))
  /\ st_now (fold_left flush_db ds s) = st_now s.
Proof.
  induction ds as [|d r IH]; intros s n; simpl; [done|].
  rewrite flush_db_at. destruct (IH (flush_db s d) n) as (E & D & N).
  rewrite E, N, flush_db_now. split; [done|]. split; [|done].
  intros H. apply D. by apply flush_db_dl_ge.
Qed.

Lemma flush_at s n d : flush (at_time s n) d = at_time (flush s d) n.
Proof.
  unfold flush. destruct (d =? -1); [|apply flush_db_at].
  change (st_dbs (at_time s n)) with (st_dbs s). apply flush_fold_at.
Qed.
Lemma flush_now s d : st_now (flush s d) = st_now s.
Proof. unfold flush. destruct (d =? -1); [apply (flush_fold_at _ s 0)|apply flush_db_now]. Qed.
Lemma flush_dl_ge s d : dl_ge T s -> dl_ge T (flush s d).
Proof.
  unfold flush. destruct (d =? -1); [|apply flush_db_dl_ge]. apply (flush_fold_at _ s 0).
Qed.

End horizon.
