(** Go's [time.Duration] arithmetic is exact on the range the model is tied to, and not beyond. *)
From Coq Require Import ZArith Lia.
From EV Require Import Model.GoDuration.
Local Open Scope Z_scope.

Lemma wrap64_id z : - two63 <= z < two63 -> wrap64 z = z.
Proof.
  intros Hz. unfold wrap64.
  rewrite Z.mod_small; [lia|]. unfold two63, two64 in *. lia.
Qed.

Lemma wrap64_range z : - two63 <= wrap64 z < two63.
Proof.
  unfold wrap64. pose proof (Z.mod_pos_bound (z + two63) two64 ltac:(reflexivity)) as H.
  unfold two63, two64 in *. lia.
Qed.

Lemma go_duration_s_exact n : - max_rel_s <= n <= max_rel_s -> go_duration ns_per_s n = n * ns_per_s.
Proof.
  intros Hn. unfold go_duration. apply wrap64_id. unfold two63, ns_per_s, max_rel_s in *. lia.
Qed.

Lemma go_duration_ms_exact n : - max_rel_ms <= n <= max_rel_ms -> go_duration ns_per_ms n = n * ns_per_ms.
Proof.
  intros Hn. unfold go_duration. apply wrap64_id. unfold two63, ns_per_ms, max_rel_ms in *. lia.
Qed.

(** For every clock (sub-millisecond part included) and every relative time in range, the deadline Go computes,
    read in milliseconds, is the model's. *)
Lemma go_deadline_s_exact now_ns n :
  - max_rel_s <= n <= max_rel_s ->
  go_deadline_ms now_ns (go_duration ns_per_s n) = model_deadline_s (ms_of_ns now_ns) n.
Proof.
  intros Hn. rewrite go_duration_s_exact by exact Hn.
  unfold go_deadline_ms, model_deadline_s, ms_of_ns, ns_per_s, ns_per_ms.
  replace (now_ns + n * 1000000000) with (now_ns + (n * 1000) * 1000000) by lia.
  rewrite Z.div_add by lia. reflexivity.
Qed.

Lemma go_deadline_ms_exact now_ns n :
  - max_rel_ms <= n <= max_rel_ms ->
  go_deadline_ms now_ns (go_duration ns_per_ms n) = model_deadline_ms (ms_of_ns now_ns) n.
Proof.
  intros Hn. rewrite go_duration_ms_exact by exact Hn.
  unfold go_deadline_ms, model_deadline_ms, ms_of_ns, ns_per_ms.
  rewrite Z.div_add by lia. reflexivity.
Qed.

(** Beyond the range the product wraps: whatever the clock, a positive relative time one past the limit gives a
    deadline in the past (the key is gone at once), a negative one a deadline in the future. *)
Lemma go_deadline_s_overflow now_ns :
  go_deadline_ms now_ns (go_duration ns_per_s (max_rel_s + 1)) < ms_of_ns now_ns /\
  ms_of_ns now_ns < go_deadline_ms now_ns (go_duration ns_per_s (- (max_rel_s + 1))).
Proof.
  assert (H1 : go_duration ns_per_s (max_rel_s + 1) = -9223372036709551616) by (vm_compute; reflexivity).
  assert (H2 : go_duration ns_per_s (- (max_rel_s + 1)) = 9223372036709551616) by (vm_compute; reflexivity).
  rewrite H1, H2. unfold go_deadline_ms, ms_of_ns, ns_per_ms.
  split; Z.div_mod_to_equations; lia.
Qed.

Lemma go_deadline_ms_overflow now_ns :
  go_deadline_ms now_ns (go_duration ns_per_ms (max_rel_ms + 1)) < ms_of_ns now_ns /\
  ms_of_ns now_ns < go_deadline_ms now_ns (go_duration ns_per_ms (- (max_rel_ms + 1))).
Proof.
  assert (H1 : go_duration ns_per_ms (max_rel_ms + 1) = -9223372036854551616) by (vm_compute; reflexivity).
  assert (H2 : go_duration ns_per_ms (- (max_rel_ms + 1)) = 9223372036854551616) by (vm_compute; reflexivity).
  rewrite H1, H2. unfold go_deadline_ms, ms_of_ns, ns_per_ms.
  split; Z.div_mod_to_equations; lia.
Qed.

(** The limits are the limits of [int64] nanoseconds: they are where [n * unit] stops fitting. *)
Lemma max_rel_is_int64_limit :
  max_rel_s * ns_per_s < two63 <= (max_rel_s + 1) * ns_per_s /\
  max_rel_ms * ns_per_ms < two63 <= (max_rel_ms + 1) * ns_per_ms.
Proof. vm_compute. repeat split; congruence. Qed.
