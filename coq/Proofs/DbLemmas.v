(** C20: logical databases are isolated namespaces — lifted to the dispatcher. *)
From stdpp Require Import gmap strings.
From RecordUpdate Require Import RecordSet.
Import RecordSetNotations.
From EV Require Import Base.Str Model.Value Model.Keyspace Model.Reply Model.Prog Model.Dispatch.
From EV Require Import Proofs.KeyspaceLemmas Proofs.ProgLemmas Proofs.DispatchLemmas Proofs.ScriptLemmas Proofs.HandlerClasses.
Local Open Scope Z_scope.

Lemma exec_conn_cmd_keeps_state w c name argv w' r :
  exec_conn_cmd w c name argv = Some (w', r) -> w_st w' = w_st w.
Proof.
  unfold exec_conn_cmd. intros Hc.
  repeat match type of Hc with
  | (if ?b then _ else _) = _ => destruct b
  | Some _ = Some _ => injection Hc as Hc
  | (match ?x with _ => _ end) = _ => destruct x
  | None = Some _ => discriminate
  end; try (inversion Hc; subst); done.
Qed.

Theorem other_databases_untouched w c argv cmd :
  argv = cmd :: tl argv -> lower cmd <> "flushall" -> 0 <= conn_db w c ->
  forall d', d' <> conn_db w c -> other_db_same (w_st w) (w_st (fst (exec_cmd w c argv))) d'.
Proof.
  intros Hargv Hcmd Hd d' Hne.
  destruct argv as [|c0 rest]; [discriminate|]. injection Hargv as ->.
  unfold exec_cmd.
  destruct (exec_conn_cmd w c (lower cmd) (cmd :: rest)) as [[w' r]|] eqn:Hc; simpl.
  - rewrite (exec_conn_cmd_keeps_state _ _ _ _ _ _ Hc). apply other_db_same_refl.
  - destruct (handler_of (lower cmd)) as [h|] eqn:Hh; simpl; [|apply other_db_same_refl].
    assert (Hnf : noflushall (h (cmd :: rest))).
    { eapply nf_every_handler; eauto. unfold eq_fold, arg. simpl.
      apply String.eqb_neq. exact Hcmd. }
    pose proof (noflushall_frame _ Hnf (conn_db w c) (w_st w) d' Hne ltac:(lia)) as H.
    destruct (run_seq _ _ _). exact H.
Qed.

Lemma exec_conn_cmd_rel w1 w2 c name argv :
  w_conns w1 = w_conns w2 ->
  match exec_conn_cmd w1 c name argv, exec_conn_cmd w2 c name argv with
  | Some (w1', r1), Some (w2', r2) =>
      r1 = r2 /\ w_conns w1' = w_conns w2' /\ w_st w1' = w_st w1 /\ w_st w2' = w_st w2
  | None, None => True
  | _, _ => False
  end.
Proof.
  intros Hc. unfold exec_conn_cmd. rewrite Hc.
  repeat match goal with
  | |- context [if ?b then _ else _] => destruct b
  | |- context [match parse_int ?x with _ => _ end] => destruct (parse_int x)
  | |- context [match ?l with [] => _ | _ :: _ => _ end] => destruct l
  end; simpl; repeat split; done.
Qed.

(** The reply of a command, and what it leaves in its own database, do not depend on what the other
    databases hold. *)
Theorem reply_independent_of_other_databases w1 w2 c argv :
  w_conns w1 = w_conns w2 ->
  view_agree (fun d => d = conn_db w1 c) (w_st w1) (w_st w2) -> st_maxmem (w_st w1) = 0 ->
  snd (exec_cmd w1 c argv) = snd (exec_cmd w2 c argv) /\
  w_conns (fst (exec_cmd w1 c argv)) = w_conns (fst (exec_cmd w2 c argv)) /\
  view_agree (fun d => d = conn_db w1 c) (w_st (fst (exec_cmd w1 c argv))) (w_st (fst (exec_cmd w2 c argv))).
Proof.
  intros Hc Hv Hm. assert (Hdb : conn_db w2 c = conn_db w1 c) by (unfold conn_db; by rewrite Hc).
  destruct argv as [|cmd rest]; [simpl; split; [done|split; [done|exact Hv]]|].
  unfold exec_cmd.
  pose proof (exec_conn_cmd_rel w1 w2 c (lower cmd) (cmd :: rest) Hc) as Hrel.
  destruct (exec_conn_cmd w1 c (lower cmd) (cmd :: rest)) as [[w1' r1]|];
    destruct (exec_conn_cmd w2 c (lower cmd) (cmd :: rest)) as [[w2' r2]|]; try done.
  - destruct Hrel as (-> & A & B & C). simpl. rewrite B, C. split; [done|split; [done|exact Hv]].
  - destruct (handler_of (lower cmd)) as [h|]; [|simpl; split; [done|split; [done|exact Hv]]].
    rewrite Hdb.
    pose proof (run_seq_local (h (cmd :: rest)) (fun d => d = conn_db w1 c) (conn_db w1 c) (w_st w1) (w_st w2)
                  eq_refl Hv Hm) as (R1 & R2 & _).
    destruct (run_seq (conn_db w1 c) (h (cmd :: rest)) (w_st w1)).
    destruct (run_seq (conn_db w1 c) (h (cmd :: rest)) (w_st w2)). simpl in *. split; [done|split; [done|exact R2]].
Qed.

(** SELECT touches only the record of the issuing connection; SWAPDB exchanges the two indices in the
    record of every TCP connection and leaves the embedded caller and the data alone. *)
Theorem select_local w c d :
  0 <= d ->
  let w' := fst (exec_cmd w c ["SELECT"; show_Z d]%string) in
  w_st w' = w_st w /\ (forall c', c' <> conn_key c -> w_conns w' !! c' = w_conns w !! c') /\
  (parse_int (show_Z d) = Some d -> w_conns w' !! conn_key c = Some d).
Proof.
  intros Hd. unfold exec_cmd. change (lower "SELECT") with "select"%string.
  unfold exec_conn_cmd. simpl (String.eqb _ _). cbn [length Nat.eqb negb]. unfold arg. cbn [nth].
  destruct (parse_int (show_Z d)) as [d0|] eqn:Hp; [|by repeat split].
  destruct (d0 <? 0) eqn:Hneg; [by repeat split; intros [= ->]; lia|].
  cbn. repeat split.
  - intros c' Hc'. by rewrite lookup_insert_ne.
  - intros [= ->]. by rewrite lookup_insert.
Qed.

Definition swap_idx (d1 d2 d : Z) : Z := if d =? d1 then d2 else if d =? d2 then d1 else d.

Theorem swapdb_exchanges w c d1 d2 s1 s2 :
  parse_int s1 = Some d1 -> parse_int s2 = Some d2 -> 0 <= d1 -> 0 <= d2 ->
  let w' := fst (exec_cmd w c ["SWAPDB"; s1; s2]%string) in
  w_st w' = w_st w /\
  (forall c', w_conns w' !! c' = (fun d => if c' =? 0 then d else swap_idx d1 d2 d) <$> (w_conns w !! c')).
Proof.
  intros H1 H2 Hd1 Hd2. unfold exec_cmd. change (lower "SWAPDB") with "swapdb"%string.
  unfold exec_conn_cmd. simpl (String.eqb _ _). cbn [length Nat.eqb negb]. unfold arg. cbn [nth]. rewrite H1, H2.
  replace ((d1 <? 0) || (d2 <? 0)) with false by lia. cbn. split; [done|].
  intros c'. rewrite map_lookup_imap. destruct (w_conns w !! c') as [d|]; simpl; [|done].
  unfold swap_idx. done.
Qed.
