(** C08: what every eviction pass does, for every state, policy, limit, stamp and hint. *)
From stdpp Require Import gmap strings.
From Coq Require Import ZifyBool.
From RecordUpdate Require Import RecordSet.
Import RecordSetNotations.
From EV Require Import Base.Str Model.Value Model.Keyspace Model.Reply Model.Prog Model.Evict.
From EV Require Import Proofs.KeyspaceLemmas Proofs.ProgLemmas.
Local Open Scope Z_scope.

(** * The loop, for any way of choosing *)
(** Consecutive steps: each one starts where the previous one ended, and the previous one did not
    bring the usage under the limit. *)
Fixpoint chain_ok (tr : list evstep) : Prop :=
  match tr with
  | [] => True
  | st :: r => match r with
               | [] => True
               | st' :: _ => under_limit (ev_post st) = false /\ ev_pre st' = ev_post st
               end /\ chain_ok r
  end.

Definition step_of (choose : estate -> option (string * estate)) (d : Z) (st : evstep) : Prop :=
  ev_db st = d /\ under_limit (ev_pre st) = false /\
  exists es0, choose (ev_pre st) = Some (ev_key st, es0) /\ ev_post st = e_delete_key es0 d (ev_key st).

Definition final_of (es : estate) (tr : list evstep) : estate := fold_left (fun _ st => ev_post st) tr es.

Lemma evict_loop_spec choose d : forall fuel es es' ok tr,
  under_limit es = false ->
  evict_loop choose fuel d es = (es', ok, tr) ->
  Forall (step_of choose d) tr /\ chain_ok tr /\ es' = final_of es tr /\
  (match tr with st :: _ => ev_pre st = es | [] => True end) /\
  (ok = true -> tr <> [] /\ under_limit es' = true).
Proof.
  induction fuel as [|n IH]; intros es es' ok tr Hover; simpl.
  - destruct (choose es) as [[k es0]|] eqn:Hc.
    + destruct (under_limit (e_delete_key es0 d k)) eqn:Hu; intros [= <- <- <-]; simpl.
      * repeat split; try done. constructor; [|constructor]. repeat split; try done. by exists es0.
      * repeat split; try done. constructor; [|constructor]. repeat split; try done. by exists es0.
    + intros [= <- <- <-]. repeat split; try done.
  - destruct (choose es) as [[k es0]|] eqn:Hc.
    + destruct (under_limit (e_delete_key es0 d k)) eqn:Hu.
      * intros [= <- <- <-]; simpl.
        repeat split; try done. constructor; [|constructor]. repeat split; try done. by exists es0.
      * destruct (evict_loop choose n d (e_delete_key es0 d k)) as [[es2 ok2] tr2] eqn:Hl.
        intros [= <- <- <-].
        destruct (IH _ _ _ _ Hu Hl) as (HF & Hch & Hfin & Hhd & Hok).
        split; [|split; [|split; [|split]]].
        -- constructor; [|done]. repeat split; try done. by exists es0.
        -- simpl. split; [|done]. destruct tr2 as [|st' r]; [done|]. simpl. split; [done|]. by rewrite Hhd.
        -- rewrite Hfin. done.
        -- done.
        -- intros Ht. destruct (Hok Ht) as [_ Hu']. split; [done|]. done.
    + intros [= <- <- <-]. repeat split; try done.
Qed.

(** An invariant that every choice-and-delete preserves holds before every step and at the end. *)
Lemma evict_loop_inv (I : estate -> Prop) choose d :
  (forall es k es0, I es -> choose es = Some (k, es0) -> I (e_delete_key es0 d k)) ->
  forall fuel es es' ok tr, I es -> evict_loop choose fuel d es = (es', ok, tr) ->
  Forall (fun st => I (ev_pre st)) tr /\ I es'.
Proof.
  intros Hstep. induction fuel as [|n IH]; intros es es' ok tr HI; simpl.
  - destruct (choose es) as [[k es0]|] eqn:Hc.
    + destruct (under_limit _); intros [= <- <- <-]; (split; [by repeat constructor|by eapply Hstep]).
    + intros [= <- <- <-]. by split.
  - destruct (choose es) as [[k es0]|] eqn:Hc.
    + destruct (under_limit _).
      * intros [= <- <- <-]; (split; [by repeat constructor|by eapply Hstep]).
      * destruct (evict_loop choose n d _) as [[es2 ok2] tr2] eqn:Hl. intros [= <- <- <-].
        destruct (IH _ _ _ _ (Hstep _ _ _ HI Hc) Hl) as [HF HI']. split; [by constructor|done].
    + intros [= <- <- <-]. by split.
Qed.

(** * The choosers *)
Definition chooser_of (h : hints) (d : Z) (es : estate) : option (estate -> option (string * estate)) :=
  match es_policy es with
  | AllKeysLFU | VolatileLFU => Some (choose_lfu h d)
  | AllKeysLRU | VolatileLRU => Some (choose_lru h d)
  | AllKeysRandom => Some (choose_random false h d)
  | VolatileRandom => Some (choose_random true h d)
  | NoEviction => None
  end.

Lemma adjust_cases h d es es' ok tr :
  adjust_memory_usage h d es = (es', ok, tr) ->
  (es' = es /\ tr = [] /\ ok = true) \/
  (st_maxmem (es_st es) <> 0 /\ under_limit es = false /\
   exists choose fuel, chooser_of h d es = Some choose /\ evict_loop choose fuel d es = (es', ok, tr)).
Proof.
  unfold adjust_memory_usage, chooser_of.
  destruct (st_maxmem (es_st es) =? 0) eqn:Hm; [intros [= <- <- <-]; by left|].
  destruct (under_limit es) eqn:Hu; [intros [= <- <- <-]; by left|].
  destruct (es_policy es); intros H; [injection H as <- <- <-; by left|..]; (right; split; [lia|split; [done|eauto]]).
Qed.

(** * C08_only_over_limit and C08_stops *)
(** [under_limit es = false] is [st_maxmem <= st_mem]. *)
Theorem only_over_limit h d es es' ok tr :
  adjust_memory_usage h d es = (es', ok, tr) ->
  Forall (fun st => st_maxmem (es_st (ev_pre st)) <= st_mem (es_st (ev_pre st))) tr /\ (st_maxmem (es_st es) = 0 -> tr = []).
Proof.
  intros H. destruct (adjust_cases _ _ _ _ _ _ H) as [(_ & -> & _)|(Hm & Hu & choose & fuel & _ & Hl)]; [by split|].
  split; [|done].
  destruct (evict_loop_spec _ _ _ _ _ _ _ Hu Hl) as (HF & _).
  eapply List.Forall_impl; [|exact HF]. intros st (_ & Hu' & _). unfold under_limit in Hu'. lia.
Qed.

(** Eviction stops at the first state under the limit: no step follows one that ended under the
    limit; a pass that reports success after evicting ended under the limit; the result is the state
    after the last step. *)
Theorem stops h d es es' ok tr :
  adjust_memory_usage h d es = (es', ok, tr) ->
  chain_ok tr /\ es' = final_of es tr /\ (ok = true -> tr <> [] -> under_limit es' = true).
Proof.
  intros H. destruct (adjust_cases _ _ _ _ _ _ H) as [(-> & -> & _)|(Hm & Hu & choose & fuel & _ & Hl)]; [done|].
  destruct (evict_loop_spec _ _ _ _ _ _ _ Hu Hl) as (_ & Hch & Hfin & _ & Hok).
  repeat split; try done. intros Ht _. by destruct (Hok Ht).
Qed.

(** * C08_order *)
Section Argmin.
  Context {E : Type} `{EqDecision E} (ekey : E -> string) (less : E -> E -> bool).
  Hypothesis irrefl : forall a, less a a = false.
  Hypothesis trans : forall a b c, less a b = true -> less b c = true -> less a c = true.
  Hypothesis negtrans : forall a b c, less a c = true -> less a b = true \/ less b c = true.

  Lemma argmin_spec l : forall best,
    argmin less best l ∈ best :: l /\ forall e, e ∈ best :: l -> less e (argmin less best l) = false.
  Proof.
    induction l as [|x r IH]; intros best; simpl.
    - split; [set_solver|]. intros e He. apply elem_of_list_singleton in He as ->. apply irrefl.
    - destruct (IH (if less x best then x else best)) as [Hin Hmin]. split.
      + destruct (less x best); set_solver.
      + intros e He. destruct (less x best) eqn:Hxb.
        * apply elem_of_cons in He as [->|He]; [|apply Hmin; set_solver].
          destruct (less best (argmin less x r)) eqn:Hbm; [|done].
          rewrite <- (Hmin x) by set_solver. symmetry. by eapply trans.
        * apply elem_of_cons in He as [->|He]; [apply Hmin; set_solver|].
          apply elem_of_cons in He as [->|He]; [|apply Hmin; set_solver].
          destruct (less x (argmin less best r)) eqn:Hxm; [|done].
          destruct (negtrans _ best _ Hxm) as [H1|H1]; [congruence|].
          rewrite Hmin in H1 by set_solver. done.
  Qed.

  Lemma c_pop_min prefer c v c' :
    c_pop ekey less prefer c = Some (v, c') ->
    v ∈ c_ents c /\ (forall e, e ∈ c_ents c -> less e v = false) /\
    c_ents c' = remove_first_ent v (c_ents c) /\ c_keys c' = c_keys c ∖ {[ekey v]}.
  Proof.
    unfold c_pop. destruct (c_ents c) as [|e0 r] eqn:Hents; [done|].
    destruct (find _ (e0 :: r)) as [e|] eqn:Hf; intros [= <- <-]; simpl.
    - apply find_some in Hf as [Hin Hb]. apply andb_true_iff in Hb as [Hmin _].
      split; [by apply elem_of_list_In|]. split; [|done].
      intros e' He'. unfold is_min in Hmin. rewrite forallb_forall in Hmin.
      apply elem_of_list_In in He'. specialize (Hmin _ He'). by destruct (less e' e).
    - destruct (argmin_spec r e0) as [Hin Hmin]. split; [done|]. split; [done|]. done.
  Qed.
End Argmin.

Lemma lfu_less_irrefl a : lfu_less a a = false.
Proof. unfold lfu_less. rewrite Z.eqb_refl. lia. Qed.
Lemma lfu_less_trans a b c : lfu_less a b = true -> lfu_less b c = true -> lfu_less a c = true.
Proof. unfold lfu_less. destruct (_ =? _) eqn:?, (lfu_count b =? _) eqn:?, (lfu_count a =? lfu_count c) eqn:?; lia. Qed.
Lemma lfu_less_negtrans a b c : lfu_less a c = true -> lfu_less a b = true \/ lfu_less b c = true.
Proof. unfold lfu_less. destruct (lfu_count a =? lfu_count c) eqn:?, (lfu_count a =? lfu_count b) eqn:?, (lfu_count b =? lfu_count c) eqn:?; lia. Qed.
Lemma lru_less_irrefl nf a : lru_less nf a a = false.
Proof. unfold lru_less. destruct nf; lia. Qed.
Lemma lru_less_trans nf a b c : lru_less nf a b = true -> lru_less nf b c = true -> lru_less nf a c = true.
Proof. unfold lru_less. destruct nf; lia. Qed.
Lemma lru_less_negtrans nf a b c : lru_less nf a c = true -> lru_less nf a b = true \/ lru_less nf b c = true.
Proof. unfold lru_less. destruct nf; lia. Qed.

(** What "in the policy's order" says of one step: the victim is an entry of the cache, and no entry
    has been used less often (LFU) / less recently (LRU). *)
Definition lfu_first (st : evstep) : Prop :=
  exists v, v ∈ c_ents (get_lfu (ev_pre st) (ev_db st)) /\ lfu_key v = ev_key st /\
            forall e, e ∈ c_ents (get_lfu (ev_pre st) (ev_db st)) -> lfu_count v <= lfu_count e.
Definition lru_first (st : evstep) : Prop :=
  exists v, v ∈ c_ents (get_lru (ev_pre st) (ev_db st)) /\ lru_key v = ev_key st /\
            forall e, e ∈ c_ents (get_lru (ev_pre st) (ev_db st)) -> lru_time v <= lru_time e.

Lemma step_lfu_first h d st : step_of (choose_lfu h d) d st -> lfu_first st.
Proof.
  intros (Hd & _ & es0 & Hc & _). unfold choose_lfu in Hc. rewrite <- Hd in *.
  destruct (c_pop _ _ _ _) as [[v c']|] eqn:Hp; [|done]. injection Hc as Hk _.
  destruct (c_pop_min _ _ lfu_less_irrefl lfu_less_trans lfu_less_negtrans _ _ _ _ Hp) as (Hin & Hmin & _).
  exists v. repeat split; try done. intros e He. specialize (Hmin _ He). unfold lfu_less in Hmin.
  destruct (lfu_count e =? lfu_count v) eqn:?; lia.
Qed.

Lemma step_lru_first h d st :
  es_newest_first (ev_pre st) = false -> step_of (choose_lru h d) d st -> lru_first st.
Proof.
  intros Hnf (Hd & _ & es0 & Hc & _). unfold choose_lru in Hc. rewrite <- Hd in *. rewrite Hnf in Hc.
  destruct (c_pop _ _ _ _) as [[v c']|] eqn:Hp; [|done]. injection Hc as Hk _.
  destruct (c_pop_min _ _ (lru_less_irrefl false) (lru_less_trans false) (lru_less_negtrans false) _ _ _ _ Hp) as (Hin & Hmin & _).
  exists v. repeat split; try done. intros e He. specialize (Hmin _ He). unfold lru_less in Hmin. lia.
Qed.

Lemma e_delete_key_nf es d k : es_newest_first (e_delete_key es d k) = es_newest_first es.
Proof.
  unfold e_delete_key. destruct (in_store _ _ _); [|done]. unfold cache_forget.
  destruct (is_lfu _); [done|]. by destruct (is_lru _).
Qed.

Theorem order_lfu h d es es' ok tr :
  is_lfu (es_policy es) = true -> adjust_memory_usage h d es = (es', ok, tr) -> Forall lfu_first tr.
Proof.
  intros Hp H. destruct (adjust_cases _ _ _ _ _ _ H) as [(_ & -> & _)|(Hm & Hu & choose & fuel & Hch & Hl)]; [constructor|].
  destruct (evict_loop_spec _ _ _ _ _ _ _ Hu Hl) as (HF & _).
  unfold chooser_of in Hch. destruct (es_policy es); try done; injection Hch as <-;
    (eapply List.Forall_impl; [|exact HF]; intros st; apply step_lfu_first).
Qed.

Theorem order_lru h d es es' ok tr :
  is_lru (es_policy es) = true -> es_newest_first es = false ->
  adjust_memory_usage h d es = (es', ok, tr) -> Forall lru_first tr.
Proof.
  intros Hp Hnf H. destruct (adjust_cases _ _ _ _ _ _ H) as [(_ & -> & _)|(Hm & Hu & choose & fuel & Hch & Hl)]; [constructor|].
  destruct (evict_loop_spec _ _ _ _ _ _ _ Hu Hl) as (HF & _).
  assert (Hnfs : Forall (fun st => es_newest_first (ev_pre st) = false) tr).
  { eapply (evict_loop_inv (fun es => es_newest_first es = false)); [|exact Hnf|exact Hl].
    intros es1 k es0 H1 Hc. rewrite e_delete_key_nf.
    unfold chooser_of in Hch. destruct (es_policy es); try done; injection Hch as <-;
      unfold choose_lru in Hc; destruct (c_pop _ _ _ _) as [[v c']|]; try done; by injection Hc as _ <-. }
  unfold chooser_of in Hch. destruct (es_policy es); try done; injection Hch as <-.
  all: apply Forall_forall; intros st Hst; rewrite Forall_forall in HF, Hnfs;
    apply (step_lru_first h d); [by apply Hnfs|by apply HF].
Qed.

(** * C08_noeviction *)
Lemma adjust_noevict h d es : es_policy es = NoEviction -> adjust_memory_usage h d es = (es, true, []).
Proof. intros Hp. unfold adjust_memory_usage. rewrite Hp. destruct (_ =? 0); [done|]. by destruct (under_limit es). Qed.

Lemma adjust_all_noevict h es : es_policy es = NoEviction -> adjust_all h es = (es, true, []).
Proof.
  intros Hp. unfold adjust_all. generalize (db_order h (es_st es)). intros l.
  assert (forall ok tr, fold_left (fun '(es, ok, tr) d => let '(es', ok', tr') := adjust_memory_usage h d es in
                                    (es', ok && ok', tr ++ tr')) l (es, ok, tr) = (es, ok, tr)) as H; [|apply H].
  induction l as [|d l IH]; intros ok tr; simpl; [done|].
  rewrite adjust_noevict by done. rewrite andb_true_r, app_nil_r. apply IH.
Qed.

Lemma touch_noevict now d ks es : es_policy es = NoEviction -> fold_left (touch1 now d) ks es = es.
Proof. intros Hp. induction ks as [|k ks IH]; simpl; [done|]. unfold touch1 at 2. rewrite Hp. apply IH. Qed.

(** Under noeviction the bookkeeping pass removes nothing, whatever the usage. *)
Theorem noeviction_never_evicts now h d ks es :
  es_policy es = NoEviction ->
  exists n, update_keys_in_cache now h d ks es = (es, n, true, []).
Proof.
  intros Hp. unfold update_keys_in_cache. destruct (_ =? 0); [by eexists|].
  rewrite touch_noevict by done. rewrite adjust_all_noevict by done. by eexists.
Qed.

(** ... and [setValues] is refused exactly while the usage is at or above the limit. *)
Theorem noeviction_refuses es d kvs :
  st_noevict (es_st es) = true ->
  (st_maxmem (es_st es) <> 0 /\ st_maxmem (es_st es) <= st_mem (es_st es) -> e_set_values es d kvs = (es, false)) /\
  (~ (st_maxmem (es_st es) <> 0 /\ st_maxmem (es_st es) <= st_mem (es_st es)) -> snd (e_set_values es d kvs) = true).
Proof.
  intros Hn. unfold e_set_values, set_values, max_memory_exceeded. rewrite Hn, andb_true_r.
  destruct (negb (st_maxmem (es_st es) =? 0) && (st_maxmem (es_st es) <=? st_mem (es_st es))) eqn:Hx; split; intros H; try done; lia.
Qed.

(** * C08_clean_removal *)
Lemma e_delete_key_st es d k : es_st (e_delete_key es d k) = delete_key (es_st es) d k.
Proof.
  unfold e_delete_key, in_store. case_bool_decide as Hin.
  - unfold cache_forget. destruct (is_lfu _); [done|]. by destruct (is_lru _).
  - unfold delete_key. destruct (get_db (es_st es) d !! k) eqn:He; [|done]. exfalso. apply Hin. by eexists.
Qed.

Definition choose_keeps_store (choose : estate -> option (string * estate)) : Prop :=
  forall es k es0, choose es = Some (k, es0) -> es_st es0 = es_st es.
Lemma chooser_keeps_store h d es choose : chooser_of h d es = Some choose -> choose_keeps_store choose.
Proof.
  unfold chooser_of. destruct (es_policy es); intros [= <-]; intros es1 k es0;
    unfold choose_lfu, choose_lru, choose_random.
  all: try (destruct (c_pop _ _ _ _) as [[v c']|]; [|done]; by intros [= _ <-]).
  all: destruct (pick _ _); [|done]; by intros [= _ <-].
Qed.

(** The evicted key is gone from the store and the volatile index, every other key of every
    database keeps its entry (value and deadline), the volatile indexes lose nothing else, and the
    memory figure goes down by exactly the size of the evicted entry. *)
Definition removed_cleanly (st : evstep) : Prop :=
  let s := es_st (ev_pre st) in let s' := es_st (ev_post st) in
  let d := ev_db st in let k := ev_key st in
  get_db s' d !! k = None /\
  (forall d' k', (d', k') <> (d, k) -> get_db s' d' !! k' = get_db s d' !! k') /\
  (forall d', d' <> d -> get_vol s' d' = get_vol s d') /\
  (forall e, get_db s d !! k = Some e ->
     st_mem s' = st_mem s - entry_mem k e /\
     get_vol s' d = filter (fun x => negb (String.eqb x k)) (get_vol s d) /\ k ∉ get_vol s' d) /\
  (get_db s d !! k = None -> s' = s).

Lemma step_removed_cleanly choose d st : choose_keeps_store choose -> step_of choose d st -> removed_cleanly st.
Proof.
  intros Hk (Hd & _ & es0 & Hc & Hpost). unfold removed_cleanly. rewrite Hpost, e_delete_key_st, (Hk _ _ _ Hc), Hd.
  set (s := es_st (ev_pre st)). set (k := ev_key st).
  split; [rewrite delete_key_db, decide_True by done; apply lookup_delete|].
  split; [intros d' k' Hne; rewrite delete_key_db; destruct (decide (d = d')) as [<-|]; [|done];
          apply lookup_delete_ne; congruence|].
  split; [intros d' Hne; by destruct (delete_key_other s d k d' Hne)|].
  split.
  - intros e He.
    assert (Hv : get_vol (delete_key s d k) d = List.filter (fun x => negb (String.eqb x k)) (get_vol s d)).
    { unfold delete_key. rewrite He. unfold get_vol at 1. simpl. by rewrite lookup_insert. }
    split; [unfold delete_key; by rewrite He|]. split; [exact Hv|].
    rewrite Hv. intros Hin. apply elem_of_list_In, filter_In in Hin as [_ Hx].
    rewrite String.eqb_refl in Hx. done.
  - intros He. unfold delete_key. by rewrite He.
Qed.

Theorem clean_removal h d es es' ok tr :
  adjust_memory_usage h d es = (es', ok, tr) -> Forall removed_cleanly tr.
Proof.
  intros H. destruct (adjust_cases _ _ _ _ _ _ H) as [(_ & -> & _)|(Hm & Hu & choose & fuel & Hch & Hl)]; [constructor|].
  destruct (evict_loop_spec _ _ _ _ _ _ _ Hu Hl) as (HF & _).
  eapply List.Forall_impl; [|exact HF]. intros st. apply step_removed_cleanly. by eapply chooser_keeps_store.
Qed.

(** * C08_candidates *)
(** What the bookkeeping has to guarantee for the volatile policies: whatever the cache of the policy
    (LFU / LRU) or the volatile index (random) offers and is still stored has a deadline. *)
Definition cands_inv (es : estate) : Prop :=
  (es_policy es = VolatileLFU -> forall d e, e ∈ c_ents (get_lfu es d) ->
     in_store (es_st es) d (lfu_key e) = true -> has_deadline (es_st es) d (lfu_key e) = true) /\
  (es_policy es = VolatileLRU -> forall d e, e ∈ c_ents (get_lru es d) ->
     in_store (es_st es) d (lru_key e) = true -> has_deadline (es_st es) d (lru_key e) = true) /\
  (forall d k, k ∈ get_vol (es_st es) d -> in_store (es_st es) d k = true -> has_deadline (es_st es) d k = true).

Lemma cands_inv_init now p m nf : cands_inv (init_estate now p m nf).
Proof.
  split; [|split]; intros; unfold init_estate, get_lfu, get_lru, get_vol in *; simpl in *;
    rewrite ?lookup_empty in *; simpl in *; set_solver.
Qed.

Lemma remove_first_ent_sub {E} `{EqDecision E} (x e : E) l : e ∈ remove_first_ent x l -> e ∈ l.
Proof. induction l as [|y l IH]; simpl; [done|]. case_bool_decide; set_solver. Qed.
Lemma remove_first_key_sub {E} (ekey : E -> string) k (e : E) l : e ∈ remove_first_key ekey k l -> e ∈ l.
Proof. induction l as [|y l IH]; simpl; [done|]. destruct (has_key ekey k y); set_solver. Qed.
Lemma c_delete_sub {E} (ekey : E -> string) k (e : E) c : e ∈ c_ents (c_delete ekey k c) -> e ∈ c_ents c.
Proof. unfold c_delete. destruct (c_find _ _ _); [simpl; apply remove_first_key_sub|done]. Qed.

Lemma in_store_delete s d k d' k' :
  in_store (delete_key s d k) d' k' = true -> in_store s d' k' = true /\ (d', k') <> (d, k).
Proof.
  unfold in_store. rewrite !bool_decide_eq_true, delete_key_db.
  destruct (decide (d = d')) as [<-|Hne].
  - destruct (decide (k = k')) as [<-|Hk]; [rewrite lookup_delete; by intros [? ?]|].
    rewrite lookup_delete_ne by done. intros H. split; [done|congruence].
  - intros H. split; [done|congruence].
Qed.
Lemma has_deadline_delete s d k d' k' :
  (d', k') <> (d, k) -> has_deadline (delete_key s d k) d' k' = has_deadline s d' k'.
Proof.
  intros Hne. unfold has_deadline. rewrite delete_key_db. destruct (decide (d = d')) as [<-|]; [|done].
  rewrite lookup_delete_ne; [done|congruence].
Qed.

Lemma get_lfu_set_lfu es d c d' : get_lfu (set_lfu es d c) d' = if decide (d = d') then c else get_lfu es d'.
Proof. unfold get_lfu, set_lfu; simpl. destruct (decide (d = d')) as [<-|]; [by rewrite lookup_insert|by rewrite lookup_insert_ne]. Qed.
Lemma get_lru_set_lru es d c d' : get_lru (set_lru es d c) d' = if decide (d = d') then c else get_lru es d'.
Proof. unfold get_lru, set_lru; simpl. destruct (decide (d = d')) as [<-|]; [by rewrite lookup_insert|by rewrite lookup_insert_ne]. Qed.

(** Shrinking the caches and deleting a key keep [cands_inv]. *)
Definition caches_shrink (es es0 : estate) : Prop :=
  es_st es0 = es_st es /\ es_policy es0 = es_policy es /\
  (forall d e, e ∈ c_ents (get_lfu es0 d) -> e ∈ c_ents (get_lfu es d)) /\
  (forall d e, e ∈ c_ents (get_lru es0 d) -> e ∈ c_ents (get_lru es d)).

Lemma cache_forget_shrink es d k : caches_shrink es (cache_forget es d k).
Proof.
  unfold cache_forget. destruct (is_lfu _); [|destruct (is_lru _)]; repeat split; try done.
  - intros d' e. rewrite get_lfu_set_lfu. destruct (decide _) as [<-|]; [apply c_delete_sub|done].
  - intros d' e. rewrite get_lru_set_lru. destruct (decide _) as [<-|]; [apply c_delete_sub|done].
Qed.

Lemma cands_inv_delete es es0 d k : cands_inv es -> caches_shrink es es0 -> cands_inv (e_delete_key es0 d k).
Proof.
  intros (HA & HB & HC) (Hst & Hpol & Hlfu & Hlru).
  assert (Hpol' : es_policy (e_delete_key es0 d k) = es_policy es).
  { rewrite <- Hpol. unfold e_delete_key. destruct (in_store _ _ _); [|done]. unfold cache_forget; simpl.
    destruct (is_lfu _); [done|]. by destruct (is_lru _). }
  assert (Hl1 : forall d' e, e ∈ c_ents (get_lfu (e_delete_key es0 d k) d') -> e ∈ c_ents (get_lfu es d')).
  { intros d' e. unfold e_delete_key. destruct (in_store _ _ _); [|apply Hlfu].
    intros He. apply Hlfu. by apply (cache_forget_shrink (es0 <| es_st := _ |>) d k) in He. }
  assert (Hl2 : forall d' e, e ∈ c_ents (get_lru (e_delete_key es0 d k) d') -> e ∈ c_ents (get_lru es d')).
  { intros d' e. unfold e_delete_key. destruct (in_store _ _ _); [|apply Hlru].
    intros He. apply Hlru. by apply (cache_forget_shrink (es0 <| es_st := _ |>) d k) in He. }
  unfold cands_inv. rewrite Hpol'. rewrite e_delete_key_st, Hst. split; [|split].
  - intros Hp d' e He Hin. apply in_store_delete in Hin as [Hin Hne]. rewrite has_deadline_delete by done. eapply HA; eauto.
  - intros Hp d' e He Hin. apply in_store_delete in Hin as [Hin Hne]. rewrite has_deadline_delete by done. eapply HB; eauto.
  - intros d' k' Hv Hin. apply in_store_delete in Hin as [Hin Hne]. rewrite has_deadline_delete by done. apply HC; [|done].
    destruct (decide (d' = d)) as [->|Hd]; [|by destruct (delete_key_other (es_st es) d k d' Hd) as [_ <-]].
    unfold delete_key in Hv. destruct (get_db (es_st es) d !! k); [|done].
    unfold get_vol in Hv at 1. simpl in Hv. rewrite lookup_insert in Hv. simpl in Hv.
    apply elem_of_list_In, filter_In in Hv as [Hv _]. by apply elem_of_list_In.
Qed.

Definition victim_is_candidate (st : evstep) : Prop :=
  is_volatile (es_policy (ev_pre st)) = true ->
  in_store (es_st (ev_pre st)) (ev_db st) (ev_key st) = true ->
  has_deadline (es_st (ev_pre st)) (ev_db st) (ev_key st) = true.

Lemma chooser_shrinks h d es choose : chooser_of h d es = Some choose ->
  forall es1 k es0, choose es1 = Some (k, es0) -> caches_shrink es1 es0.
Proof.
  unfold chooser_of. destruct (es_policy es); intros [= <-]; intros es1 k es0;
    unfold choose_lfu, choose_lru, choose_random.
  all: try (destruct (pick _ _); [|done]; intros [= _ <-]; by repeat split).
  - destruct (c_pop _ _ _ _) as [[v c']|] eqn:Hp; [|done]. intros [= _ <-].
    destruct (c_pop_min _ _ lfu_less_irrefl lfu_less_trans lfu_less_negtrans _ _ _ _ Hp) as (_ & _ & He & _).
    repeat split; try done. intros d' e. rewrite get_lfu_set_lfu. destruct (decide _) as [<-|]; [|done].
    rewrite He. apply remove_first_ent_sub.
  - destruct (c_pop _ _ _ _) as [[v c']|] eqn:Hp; [|done]. intros [= _ <-].
    destruct (c_pop_min _ _ (lru_less_irrefl _) (lru_less_trans _) (lru_less_negtrans _) _ _ _ _ Hp) as (_ & _ & He & _).
    repeat split; try done. intros d' e. rewrite get_lru_set_lru. destruct (decide _) as [<-|]; [|done].
    rewrite He. apply remove_first_ent_sub.
  - destruct (c_pop _ _ _ _) as [[v c']|] eqn:Hp; [|done]. intros [= _ <-].
    destruct (c_pop_min _ _ lfu_less_irrefl lfu_less_trans lfu_less_negtrans _ _ _ _ Hp) as (_ & _ & He & _).
    repeat split; try done. intros d' e. rewrite get_lfu_set_lfu. destruct (decide _) as [<-|]; [|done].
    rewrite He. apply remove_first_ent_sub.
  - destruct (c_pop _ _ _ _) as [[v c']|] eqn:Hp; [|done]. intros [= _ <-].
    destruct (c_pop_min _ _ (lru_less_irrefl _) (lru_less_trans _) (lru_less_negtrans _) _ _ _ _ Hp) as (_ & _ & He & _).
    repeat split; try done. intros d' e. rewrite get_lru_set_lru. destruct (decide _) as [<-|]; [|done].
    rewrite He. apply remove_first_ent_sub.
Qed.

Lemma pick_in prefer cands k : pick prefer cands = Some k -> k ∈ cands.
Proof.
  unfold pick. destruct (List.filter _ prefer) as [|x r] eqn:Hf.
  - destruct cands; [done|]. intros [= <-]. set_solver.
  - intros [= <-]. assert (Hx : In x (List.filter (fun k => bool_decide (k ∈ cands)) prefer)) by (rewrite Hf; by left).
    apply filter_In in Hx as [_ Hx]. by apply bool_decide_eq_true in Hx.
Qed.

Lemma step_candidate h d es choose st :
  chooser_of h d es = Some choose -> es_policy (ev_pre st) = es_policy es ->
  cands_inv (ev_pre st) -> step_of choose d st -> victim_is_candidate st.
Proof.
  intros Hch Hpol (HA & HB & HC) (Hd & _ & es0 & Hc & _) Hvol Hin. rewrite Hd in *. rewrite Hpol in *.
  unfold chooser_of in Hch. destruct (es_policy es) eqn:Hp; try done; injection Hch as <-.
  - unfold choose_lfu in Hc. destruct (c_pop _ _ _ _) as [[v c']|] eqn:Hpop; [|done]. injection Hc as Hk _; rewrite <- Hk in *.
    destruct (c_pop_min _ _ lfu_less_irrefl lfu_less_trans lfu_less_negtrans _ _ _ _ Hpop) as (Hv & _).
    by eapply HA.
  - unfold choose_lru in Hc. destruct (c_pop _ _ _ _) as [[v c']|] eqn:Hpop; [|done]. injection Hc as Hk _; rewrite <- Hk in *.
    destruct (c_pop_min _ _ (lru_less_irrefl _) (lru_less_trans _) (lru_less_negtrans _) _ _ _ _ Hpop) as (Hv & _).
    by eapply HB.
  - unfold choose_random in Hc. destruct (pick _ _) as [k|] eqn:Hpk; [|done]. injection Hc as Hk _; rewrite <- Hk in *.
    apply pick_in in Hpk. simpl in Hpk. by apply HC.
Qed.

Lemma e_delete_key_policy es d k : es_policy (e_delete_key es d k) = es_policy es.
Proof.
  unfold e_delete_key. destruct (in_store _ _ _); [|done]. unfold cache_forget; simpl.
  destruct (is_lfu _); [done|]. by destruct (is_lru _).
Qed.

(** Under a volatile policy no key without a deadline is evicted, from any state in which the
    bookkeeping is sound ([cands_inv]); the pass keeps it sound. *)
Theorem candidates h d es es' ok tr :
  cands_inv es -> adjust_memory_usage h d es = (es', ok, tr) ->
  Forall victim_is_candidate tr /\ cands_inv es'.
Proof.
  intros HI H. destruct (adjust_cases _ _ _ _ _ _ H) as [(-> & -> & _)|(Hm & Hu & choose & fuel & Hch & Hl)]; [by split|].
  destruct (evict_loop_spec _ _ _ _ _ _ _ Hu Hl) as (HF & _).
  destruct (evict_loop_inv (fun e => cands_inv e /\ es_policy e = es_policy es) choose d) with (fuel := fuel) (es := es) (es' := es') (ok := ok) (tr := tr)
    as [HFI [HI' _]]; [|by split|done|].
  - intros es1 k es0 [H1 H2] Hc. pose proof (chooser_shrinks _ _ _ _ Hch _ _ _ Hc) as Hsh. split.
    + by eapply cands_inv_delete.
    + rewrite e_delete_key_policy. destruct Hsh as (_ & -> & _). done.
  - split; [|done]. apply Forall_forall. intros st Hst. rewrite Forall_forall in HF, HFI.
    destruct (HFI _ Hst) as [H1 H2]. eapply step_candidate; eauto.
Qed.
