(** C02: the log protocol.  For every history of acknowledged writes (any commands, any databases,
    any caller), every sync policy:
    - the bytes of the log are the encoding of the records the writes append ([log_bytes_run]);
    - restoring the whole log gives exactly the dataset the writes built ([restore_full]);
    - restoring *any byte prefix* of the log gives the dataset of a prefix of the writes, which contains
      every write whose record is inside the prefix ([restore_prefix]);
    - every file state that exists at some instant of a logged write, and every image a process death
      or a power loss can leave of it, is such a prefix ([instant_image]);
    - after a restore the torn record is gone, and the records of later writes are replayed after the
      recovered prefix ([redurable]). *)
From stdpp Require Import gmap strings.
From Coq Require Import Lia.
From EV Require Import Base.Str Model.Value Model.Keyspace Model.Reply Model.Prog Model.Dispatch.
From EV Require Import Model.Resp Model.Disk Model.Aof Spec.SpecDurable Proofs.RespProofs.
Local Open Scope Z_scope.

(** * Records *)
Inductive rcd := RSel (d : Z) | RCmd (c : list string).
Definition rcd_argv (r : rcd) : list string := match r with RSel d => select_cmd d | RCmd c => c end.

Definition db_ok (d : Z) : Prop := 0 <= d < max_bulk.
(** A loggable command: within the reader's limits, not empty, not SELECT (which is no write command). *)
Definition wcmd_ok (c : list string) : Prop :=
  cmd_ok c /\ match c with [] => False | c0 :: _ => eq_fold c0 "select" = false end.
Definition rcd_ok (r : rcd) : Prop := match r with RSel d => db_ok d | RCmd c => wcmd_ok c end.
Definition wr_ok (w : wr) : Prop := db_ok (fst w) /\ wcmd_ok (snd w).

(** The records a history appends when the store's current database is [cur]. *)
Fixpoint log_recs (cur : Z) (h : list wr) : list rcd :=
  match h with
  | [] => []
  | (d, c) :: r => (if d =? cur then [] else [RSel d]) ++ RCmd c :: log_recs d r
  end.
Definition last_db (cur : Z) (h : list wr) : Z := List.last (map fst h) cur.
Definition recs_bytes (rs : list rcd) : bytes := encode_all (map rcd_argv rs).

Lemma last_default {A} (l : list A) : forall x a b, List.last (x :: l) a = List.last (x :: l) b.
Proof. induction l as [|y l IH]; intros x a b; [done|]. change (List.last (y :: l) a = List.last (y :: l) b). apply IH. Qed.
Lemma last_db_cons cur d c h : last_db cur ((d, c) :: h) = last_db d h.
Proof.
  unfold last_db. cbn [map fst]. destruct (map fst h) as [|x l]; [done|].
  change (List.last (x :: l) cur = List.last (x :: l) d). apply last_default.
Qed.

(** What replaying records does: a marker switches the database, a command runs in it. *)
Fixpoint rp (s : state) (db : Z) (rs : list rcd) : state * Z :=
  match rs with
  | [] => (s, db)
  | RSel d :: r => rp s d r
  | RCmd c :: r => rp (fst (exec_db s db c)) db r
  end.

Lemma digits_of_length fuel : forall n, (length (digits_of fuel n) <= fuel)%nat.
Proof.
  induction fuel as [|f IH]; intros n; simpl; [lia|].
  destruct (n <? 10); simpl; [lia|]. rewrite app_length. simpl. specialize (IH (n / 10)). lia.
Qed.

Lemma of_chars_length l : String.length (of_chars l) = length l.
Proof. induction l; simpl; congruence. Qed.

Lemma select_cmd_ok d : db_ok d -> cmd_ok (select_cmd d).
Proof.
  intros [H0 H1]. split.
  - repeat constructor.
    + unfold arg_ok, slen, max_bulk. simpl. lia.
    + unfold arg_ok, slen, db_text. rewrite of_chars_length. unfold show_len.
      pose proof (digits_of_length (S (Z.to_nat d)) (Z.of_nat (Z.to_nat d))). unfold max_bulk in *. lia.
  - unfold zlen, max_array. simpl. lia.
Qed.

Lemma parse_db_text d : db_ok d -> parse_int (db_text d) = Some d.
Proof.
  intros [H0 H1]. unfold db_text. rewrite parse_show_len.
  - f_equal. lia.
  - unfold max_bulk, int64_max in *. lia.
Qed.

Lemma rcd_argv_ok r : rcd_ok r -> cmd_ok (rcd_argv r).
Proof. destruct r; simpl; [apply select_cmd_ok|intros [H _]; exact H]. Qed.

Lemma recs_cmd_ok rs : Forall rcd_ok rs -> Forall cmd_ok (map rcd_argv rs).
Proof. induction 1; simpl; constructor; auto using rcd_argv_ok. Qed.

(** The restore loop on the values of well-formed records is [rp]. *)
Lemma replay_recs rs : forall s db vs, Forall rcd_ok rs ->
  replay_values s db (map value_of_cmd (map rcd_argv rs) ++ vs) =
  replay_values (fst (rp s db rs)) (snd (rp s db rs)) vs.
Proof.
  induction rs as [|r rs IH]; intros s db vs Hok; [done|].
  inversion Hok as [|? ? Hr Hrs]; subst. cbn [map app replay_values].
  destruct (decode_encode_cmd (rcd_argv r) [] (rcd_argv_ok _ Hr)) as [_ ->].
  destruct r as [d|c]; cbn [rcd_argv rp].
  - unfold select_cmd at 1. change (eq_fold "SELECT" "select") with true. cbv iota.
    rewrite (parse_db_text d Hr). by apply IH.
  - destruct Hr as [_ Hc]. destruct c as [|c0 args]; [done|]. rewrite Hc. by apply IH.
Qed.

Lemma replay_stops_recs rs : forall vs, Forall rcd_ok rs ->
  replay_stops (map value_of_cmd (map rcd_argv rs) ++ vs) = replay_stops vs.
Proof.
  induction rs as [|r rs IH]; intros vs Hok; [done|].
  inversion Hok as [|? ? Hr Hrs]; subst. cbn [map app replay_stops].
  destruct (decode_encode_cmd (rcd_argv r) [] (rcd_argv_ok _ Hr)) as [_ ->].
  destruct r as [d|c]; cbn [rcd_argv].
  - unfold select_cmd at 1. change (eq_fold "SELECT" "select") with true. cbv iota.
    rewrite (parse_db_text d Hr). by apply IH.
  - destruct Hr as [_ Hc]. destruct c as [|c0 args]; [done|]. rewrite Hc. by apply IH.
Qed.

Lemma rp_app a : forall s db b, rp s db (a ++ b) = rp (fst (rp s db a)) (snd (rp s db a)) b.
Proof. induction a as [|[d|c] a IH]; intros; simpl; auto. Qed.

Lemma log_recs_ok h : forall cur, Forall wr_ok h -> Forall rcd_ok (log_recs cur h).
Proof.
  induction h as [|[d c] h IH]; intros cur Hok; [constructor|].
  inversion Hok as [|? ? [Hd Hc] Hh]; subst. cbn [fst snd] in *. cbn [log_recs].
  destruct (d =? cur); cbn [app].
  - constructor; [exact Hc|by apply IH].
  - constructor; [exact Hd|]. constructor; [exact Hc|by apply IH].
Qed.

(** Replaying the records of a history runs its writes, each in its database, provided the replay
    starts in the store's current database or the store has none yet ([cur < 0]: the first record is
    then a marker). *)
Lemma rp_log_recs h : forall s db cur, Forall wr_ok h -> (cur = db \/ cur < 0) ->
  rp s db (log_recs cur h) = (run_writes s h, match h with [] => db | _ => last_db cur h end).
Proof.
  induction h as [|[d c] h IH]; intros s db cur Hok Hcur; [done|].
  inversion Hok as [|? ? [Hd Hc] Hh]; subst. simpl in Hd. cbn [log_recs].
  assert (Hnext : rp (fst (exec_db s d c)) d (log_recs d h) =
                  (run_writes s ((d, c) :: h), last_db cur ((d, c) :: h))).
  { rewrite IH by auto. f_equal. rewrite last_db_cons. destruct h as [|[d' c'] h']; done. }
  destruct (d =? cur) eqn:E.
  - apply Z.eqb_eq in E. subst cur. destruct Hcur as [<-|Hneg]; [|destruct Hd; lia]. exact Hnext.
  - exact Hnext.
Qed.

(** * The bytes of the log *)
Lemma f_all_write f b : f_all (f_write f b) = f_all f ++ b.
Proof. unfold f_all, f_write. simpl. by rewrite app_assoc. Qed.
Lemma f_all_sync f : f_all (f_sync f) = f_all f.
Proof. unfold f_all, f_sync. simpl. by rewrite app_nil_r. Qed.

Definition aof_run (pol : policy) (a : aof) (h : list wr) : aof :=
  fold_left (fun a w => aof_write pol a (fst w) (snd w)) h a.

Lemma encode_all_app a b : encode_all (a ++ b) = encode_all a ++ encode_all b.
Proof. unfold encode_all. by rewrite map_app, concat_app. Qed.

Lemma aof_write_bytes pol a d c :
  f_all (a_log (aof_write pol a d c)) = f_all (a_log a) ++ recs_bytes (log_recs (a_cur a) [(d, c)]) /\
  a_cur (aof_write pol a d c) = d.
Proof.
  split; [|done]. unfold aof_write, write_ops, recs_bytes, apply_ops. cbn [a_log log_recs].
  destruct (d =? a_cur a); destruct pol; cbn [app fold_left apply_op map rcd_argv];
    rewrite ?f_all_sync, ?f_all_write; unfold encode_all, select_marker; cbn [map concat];
    rewrite ?app_nil_r, <- ?app_assoc; reflexivity.
Qed.

Lemma log_recs_app h1 : forall cur h2,
  log_recs cur (h1 ++ h2) = log_recs cur h1 ++ log_recs (last_db cur h1) h2.
Proof.
  induction h1 as [|[d c] h1 IH]; intros cur h2; [done|].
  cbn [app log_recs]. rewrite IH. rewrite <- !app_assoc. cbn [app].
  by rewrite last_db_cons.
Qed.

Theorem log_bytes_run pol h : forall a,
  f_all (a_log (aof_run pol a h)) = f_all (a_log a) ++ recs_bytes (log_recs (a_cur a) h) /\
  a_cur (aof_run pol a h) = last_db (a_cur a) h.
Proof.
  induction h as [|[d c] h IH]; intros a.
  - unfold recs_bytes, encode_all. simpl. by rewrite app_nil_r.
  - cbn [aof_run fold_left fst snd]. fold (aof_run pol (aof_write pol a d c) h).
    destruct (IH (aof_write pol a d c)) as [-> ->].
    destruct (aof_write_bytes pol a d c) as [-> ->]. split.
    + change ((d, c) :: h) with ([(d, c)] ++ h). rewrite log_recs_app. unfold recs_bytes.
      rewrite map_app, encode_all_app, <- app_assoc. done.
    + by rewrite last_db_cons.
Qed.

(** * Restoring the whole log, and any byte prefix of it *)
Lemma restore_recs now rs : Forall rcd_ok rs ->
  restore now PreEmpty (recs_bytes rs) = fst (rp (init_state now) 0 rs).
Proof.
  intros Hok. unfold restore, replay_log, recs_bytes.
  rewrite decode_stream_concat by (by apply recs_cmd_ok).
  cbn [fst]. rewrite <- (app_nil_r (map value_of_cmd _)). by rewrite replay_recs.
Qed.

(** A byte prefix of a stream of records is some complete records followed by a strict prefix of the
    next one. *)
Lemma prefix_records rs : forall img suf, img ++ suf = recs_bytes rs ->
  exists m p, img = recs_bytes (firstn m rs) ++ p /\ (m <= length rs)%nat /\
    (p = [] \/ exists r s, nth_error rs m = Some r /\ s <> [] /\ p <> [] /\ p ++ s = encode_cmd (rcd_argv r)).
Proof.
  induction rs as [|r rs IH]; intros img suf H.
  - unfold recs_bytes, encode_all in H. simpl in H. apply app_eq_nil in H as [-> ->].
    exists 0%nat, []. repeat split; auto.
  - unfold recs_bytes, encode_all in H. cbn [map concat] in H.
    destruct suf as [|x suf].
    { rewrite app_nil_r in H. subst img. exists (S (length rs)), []. split; [|split; [simpl; lia|by left]].
      rewrite firstn_all2 by (simpl; lia). by rewrite app_nil_r. }
    destruct (prefix_split _ _ _ _ H ltac:(discriminate)) as [(s' & Hs' & E)|(q & E1 & E2)].
    + exists 0%nat, img. split; [done|]. split; [simpl; lia|].
      destruct img as [|y img]; [by left|]. right. exists r, s'. split; [done|]. split; [done|]. split; [discriminate|done].
    + destruct (IH q (x :: suf) E2) as (m & p & Hq & Hm & Hp). exists (S m), p. split; [|split; [simpl; lia|]].
      * subst img q. unfold recs_bytes, encode_all. cbn [firstn map concat]. by rewrite <- app_assoc.
      * exact Hp.
Qed.

Theorem restore_prefix_recs now rs img suf : Forall rcd_ok rs -> img ++ suf = recs_bytes rs ->
  exists m, (m <= length rs)%nat /\
    restore now PreEmpty img = fst (rp (init_state now) 0 (firstn m rs)) /\
    recovered_log img = recs_bytes (firstn m rs) /\
    (forall k, (k <= length rs)%nat -> (exists t, img = recs_bytes (firstn k rs) ++ t) -> (k <= m)%nat).
Proof.
  intros Hok H. destruct (prefix_records rs img suf H) as (m & p & Himg & Hm & Hp).
  assert (Hokm : Forall rcd_ok (firstn m rs)) by (by apply Forall_take).
  assert (Hcm : Forall cmd_ok (map rcd_argv (firstn m rs))).
  { by apply recs_cmd_ok. }
  exists m. split; [done|].
  assert (Hdec : fst (decode_all img) = map value_of_cmd (map rcd_argv (firstn m rs)) /\
                 recovered_log img = recs_bytes (firstn m rs)).
  { destruct Hp as [->|(r & s & Hnth & Hs & Hpne & Hps)].
    - rewrite app_nil_r in Himg. subst img. unfold recovered_log, recs_bytes.
      rewrite decode_stream_concat by done. split; [done|].
      rewrite <- (app_nil_r (map value_of_cmd _)). rewrite replay_stops_recs by done. done.
    - assert (Hr : rcd_ok r). { pose proof (nth_error_In _ _ Hnth) as Hin. pose proof (proj1 (List.Forall_forall _ _) Hok) as Hall. by apply Hall. }
      subst img. unfold recovered_log, recs_bytes.
      rewrite (decode_stream_torn _ (rcd_argv r) p s) by (auto using rcd_argv_ok). split; [done|].
      rewrite <- (app_nil_r (map value_of_cmd _)). rewrite replay_stops_recs by done. simpl.
      rewrite app_length. replace (_ + length p - length p)%nat with (length (encode_all (map rcd_argv (firstn m rs)))) by lia.
      by rewrite firstn_app, firstn_all, Nat.sub_diag, app_nil_r. }
  destruct Hdec as [Hd1 Hd2]. split; [|split; [exact Hd2|]].
  - unfold restore, replay_log. rewrite Hd1. rewrite <- (app_nil_r (map value_of_cmd _)). by rewrite replay_recs.
  - (* a prefix that contains the first k records decodes at least k records *)
    intros k Hk [t Ht]. destruct (le_lt_dec k m) as [|Hlt]; [done|exfalso].
    (* the bytes of records m..k-1 are inside p, but p is a strict prefix of record m *)
    rewrite Himg in Ht.
    assert (Hsplit : firstn k rs = firstn m rs ++ firstn (k - m) (skipn m rs)).
    { rewrite <- (firstn_skipn m (firstn k rs)) at 1. rewrite firstn_firstn, Nat.min_l by lia.
      f_equal. rewrite skipn_firstn_comm. done. }
    rewrite Hsplit in Ht. unfold recs_bytes in Ht. rewrite map_app, encode_all_app, <- app_assoc in Ht.
    apply app_inv_head in Ht.
    destruct (skipn m rs) as [|r' rest] eqn:Hsk.
    { apply (f_equal (@length _)) in Hsk. rewrite skipn_length in Hsk. simpl in Hsk. lia. }
    assert (Hnth' : nth_error rs m = Some r').
    { rewrite <- (firstn_skipn m rs), Hsk. rewrite nth_error_app2 by (rewrite firstn_length; lia).
      rewrite firstn_length, Nat.min_l by lia. by rewrite Nat.sub_diag. }
    destruct (k - m)%nat as [|km] eqn:Hkm; [lia|]. cbn [firstn map] in Ht. unfold encode_all in Ht.
    cbn [map concat] in Ht.
    destruct Hp as [->|(r & s & Hnth & Hs & Hpne & Hps)].
    + destruct (encode_cmd_cons (rcd_argv r')) as [x Hx]. rewrite Hx in Ht. discriminate.
    + rewrite Hnth in Hnth'. injection Hnth' as ->. rewrite <- Hps in Ht.
      rewrite <- !app_assoc in Ht. rewrite <- (app_nil_r p) in Ht at 1. apply app_inv_head in Ht. destruct s; [done|discriminate].
Qed.

(** * From records back to writes *)
(** Number of writes whose command record is among the first [m] records. *)
Fixpoint cut_writes (m : nat) (cur : Z) (h : list wr) : nat :=
  match h with
  | [] => 0
  | (d, c) :: r => let k := if d =? cur then 1%nat else 2%nat in
                   if (k <=? m)%nat then S (cut_writes (m - k) d r) else 0
  end.

Lemma cut_writes_le m : forall cur h, (cut_writes m cur h <= length h)%nat.
Proof.
  intros cur h. revert m cur. induction h as [|[d c] h IH]; intros m cur; simpl; [lia|].
  destruct (_ <=? m)%nat; [|lia].
  match goal with |- (S (cut_writes ?a ?b h) <= _)%nat => specialize (IH a b) end. lia.
Qed.

Lemma rp_firstn_log_recs h : forall m s db cur, Forall wr_ok h -> (cur = db \/ cur < 0) ->
  fst (rp s db (firstn m (log_recs cur h))) = run_writes s (firstn (cut_writes m cur h) h).
Proof.
  induction h as [|[d c] h IH]; intros m s db cur Hok Hcur.
  - simpl. by rewrite firstn_nil.
  - inversion Hok as [|? ? [Hd Hc] Hh]; subst. simpl in Hd. cbn [log_recs cut_writes].
    destruct (d =? cur) eqn:E.
    + apply Z.eqb_eq in E. subst cur. destruct Hcur as [<-|Hneg]; [|destruct Hd; lia].
      cbn [app]. destruct m as [|m]; [done|].
      replace (1 <=? S m)%nat with true by (symmetry; apply Nat.leb_le; lia).
      replace (S m - 1)%nat with m by lia. cbn [firstn rp]. rewrite IH by auto. done.
    + cbn [app]. destruct m as [|[|m]]; [done|done|].
      replace (2 <=? S (S m))%nat with true by (symmetry; apply Nat.leb_le; lia).
      replace (S (S m) - 2)%nat with m by lia. cbn [firstn rp]. rewrite IH by auto. done.
Qed.

Lemma cut_writes_ge h : forall i m cur, (i <= length h)%nat ->
  (length (log_recs cur (firstn i h)) <= m)%nat -> (i <= cut_writes m cur h)%nat.
Proof.
  induction h as [|[d c] h IH]; intros i m cur Hi Hm; [simpl in *; lia|].
  destruct i as [|i]; [lia|]. cbn [firstn log_recs cut_writes] in *.
  rewrite app_length in Hm. cbn [length] in Hm.
  destruct (d =? cur); cbn [length] in Hm.
  - replace (1 <=? m)%nat with true by (symmetry; apply Nat.leb_le; lia).
    apply le_n_S. apply IH; [simpl in Hi; lia|lia].
  - replace (2 <=? m)%nat with true by (symmetry; apply Nat.leb_le; lia).
    apply le_n_S. apply IH; [simpl in Hi; lia|lia].
Qed.

(** [restore_full]: the whole log of a history restores to the dataset the history built. *)
Theorem restore_full now pol h : Forall wr_ok h ->
  restore now PreEmpty (f_all (a_log (aof_run pol aof_fresh h))) = run_writes (init_state now) h.
Proof.
  intros Hok. destruct (log_bytes_run pol h aof_fresh) as [-> _]. cbn [aof_fresh a_log a_cur f_all empty_file f_synced f_pending app].
  rewrite restore_recs by (by apply log_recs_ok). rewrite rp_log_recs by (auto; right; lia). done.
Qed.

(** [restore_prefix]: any byte prefix of the log of [h] restores to the dataset of a prefix of [h]
    that contains every write whose records lie inside the bytes. *)
Theorem restore_prefix now pol h img suf : Forall wr_ok h ->
  img ++ suf = f_all (a_log (aof_run pol aof_fresh h)) ->
  exists j, (j <= length h)%nat /\
    restore now PreEmpty img = dataset_after (init_state now) h j /\
    (forall i t, (i <= length h)%nat -> img = f_all (a_log (aof_run pol aof_fresh (firstn i h))) ++ t -> (i <= j)%nat) /\
    exists m, recovered_log img = recs_bytes (firstn m (log_recs (-1) h)) /\ j = cut_writes m (-1) h.
Proof.
  intros Hok H. destruct (log_bytes_run pol h aof_fresh) as [Hb _]. rewrite Hb in H.
  cbn [aof_fresh a_log a_cur f_all empty_file f_synced f_pending app] in H.
  destruct (restore_prefix_recs now _ img suf (log_recs_ok h (-1) Hok) H) as (m & Hm & Hr & Hrec & Hge).
  exists (cut_writes m (-1) h). split; [apply cut_writes_le|]. split; [|split].
  - rewrite Hr. unfold dataset_after. apply rp_firstn_log_recs; [done|right; lia].
  - intros i t Hi Himg. apply cut_writes_ge; [done|].
    destruct (log_bytes_run pol (firstn i h) aof_fresh) as [Hbi _]. rewrite Hbi in Himg.
    cbn [aof_fresh a_log a_cur f_all empty_file f_synced f_pending app] in Himg.
    set (ki := length (log_recs (-1) (firstn i h))).
    assert (Hpre : log_recs (-1) (firstn i h) = firstn ki (log_recs (-1) h)).
    { rewrite <- (firstn_skipn i h) at 2. rewrite log_recs_app. unfold ki. by rewrite firstn_app, firstn_all, Nat.sub_diag, firstn_O, app_nil_r. }
    apply Hge.
    + rewrite <- (firstn_skipn i h) at 1. rewrite log_recs_app, app_length. unfold ki. lia.
    + exists t. by rewrite <- Hpre.
  - exists m. done.
Qed.

(** * Instants of a logged write and the images a crash leaves *)
Definition ops_bytes (ops : list fop) : bytes :=
  concat (map (fun o => match o with OpWrite b => b | OpSync => [] end) ops).

Lemma in_prefixes_lt b p : In p (prefixes_lt b) -> exists n, p = firstn n b.
Proof. unfold prefixes_lt. intros H. apply in_map_iff in H as (n & <- & _). eauto. Qed.
Lemma in_prefixes_le b p : In p (prefixes_le b) -> exists n, p = firstn n b.
Proof. unfold prefixes_le. intros H. apply in_map_iff in H as (n & <- & _). eauto. Qed.

Lemma firstn_app_prefix {A} n (a b : list A) : exists m, firstn n a = firstn m (a ++ b).
Proof.
  exists (Nat.min n (length a)). rewrite firstn_app.
  replace (Nat.min n (length a) - length a)%nat with 0%nat by lia. rewrite firstn_O, app_nil_r.
  destruct (le_lt_dec n (length a)).
  - by rewrite Nat.min_l.
  - rewrite Nat.min_r by lia. by rewrite !firstn_all2 by lia.
Qed.

(** Every instant: the file holds what it held plus the first [n] bytes the operations write, and
    what was synced before is still synced. *)
Lemma op_instants_char ops : forall f0 f, In f (op_instants f0 ops) ->
  (exists n, f_all f = f_all f0 ++ firstn n (ops_bytes ops)) /\ (exists x, f_synced f = f_synced f0 ++ x).
Proof.
  induction ops as [|[b|] ops IH]; intros f0 f Hin; cbn [op_instants] in Hin.
  - destruct Hin as [<-|[]]. split; [exists 0%nat|exists []]; by rewrite ?firstn_O, app_nil_r.
  - apply in_app_or in Hin as [Hin|Hin].
    + apply in_map_iff in Hin as (p & <- & Hp). apply in_prefixes_lt in Hp as [n ->]. split.
      * rewrite f_all_write. unfold ops_bytes. cbn [map concat].
        destruct (firstn_app_prefix n b (concat (map (fun o => match o with OpWrite b0 => b0 | OpSync => [] end) ops))) as [m ->].
        eauto.
      * exists []. by rewrite app_nil_r.
    + destruct (IH _ _ Hin) as [[n Hn] [x Hx]]. split.
      * rewrite Hn, f_all_write. unfold ops_bytes. cbn [map concat]. fold (ops_bytes ops).
        exists (length b + n)%nat. rewrite firstn_app. rewrite (firstn_all2 b) by lia.
        replace (length b + n - length b)%nat with n by lia. by rewrite app_assoc.
      * exists x. exact Hx.
  - destruct Hin as [<-|Hin].
    + split; [exists 0%nat|exists []]; by rewrite ?firstn_O, app_nil_r.
    + destruct (IH _ _ Hin) as [[n Hn] [x Hx]]. split.
      * exists n. rewrite Hn, f_all_sync. done.
      * unfold f_sync in Hx. cbn [f_synced] in Hx. exists (f_pending f0 ++ x). rewrite Hx. unfold f_all. by rewrite app_assoc.
Qed.

Lemma write_ops_bytes pol cur d c : ops_bytes (write_ops pol cur d c) = recs_bytes (log_recs cur [(d, c)]).
Proof.
  unfold write_ops, ops_bytes, recs_bytes, encode_all. cbn [log_recs].
  destruct (d =? cur); destruct pol; simpl; rewrite ?app_nil_r; done.
Qed.

(** Under "always" nothing is pending between writes. *)
Lemma always_no_pending h : forall a, f_pending (a_log a) = [] -> f_pending (a_log (aof_run Always a h)) = [].
Proof.
  induction h as [|[d c] h IH]; intros a Ha; [done|]. cbn [aof_run fold_left fst snd].
  apply IH. unfold aof_write, write_ops, apply_ops. cbn [a_log]. destruct (d =? a_cur a); done.
Qed.

Lemma aof_run_snoc pol a h w : aof_run pol a (h ++ [w]) = aof_write pol (aof_run pol a h) (fst w) (snd w).
Proof. unfold aof_run. by rewrite fold_left_app. Qed.

(** [instant_image]: at any instant of the write that follows [h1], whatever a process death or a
    power loss leaves of the log is a byte prefix of the log of [h1 ++ [w]]; it contains the whole log
    of [h1] when the process died (any policy) or the policy is "always". *)
Theorem instant_image pol h1 d c f img :
  In f (op_instants (a_log (aof_run pol aof_fresh h1)) (write_ops pol (a_cur (aof_run pol aof_fresh h1)) d c)) ->
  In img (power_images f) ->
  (exists suf, img ++ suf = f_all (a_log (aof_run pol aof_fresh (h1 ++ [(d, c)])))) /\
  ((img = death_image f \/ pol = Always) -> exists t, img = f_all (a_log (aof_run pol aof_fresh h1)) ++ t).
Proof.
  intros Hf Himg. remember (aof_run pol aof_fresh h1) as a1 eqn:Ha1.
  destruct (op_instants_char _ _ _ Hf) as [[n Hn] [x Hx]].
  unfold power_images in Himg. apply in_map_iff in Himg as (p & <- & Hp). apply in_prefixes_le in Hp as [k ->].
  assert (Hfull : f_all (a_log (aof_run pol aof_fresh (h1 ++ [(d, c)]))) =
                  f_all (a_log a1) ++ ops_bytes (write_ops pol (a_cur a1) d c)).
  { rewrite aof_run_snoc. cbn [fst snd]. rewrite <- Ha1.
    destruct (aof_write_bytes pol a1 d c) as [-> _]. by rewrite write_ops_bytes. }
  split.
  - exists (skipn k (f_pending f) ++ skipn n (ops_bytes (write_ops pol (a_cur a1) d c))).
    rewrite Hfull. rewrite <- (firstn_skipn n (ops_bytes _)) at 2. rewrite (app_assoc (f_all (a_log a1))), <- Hn.
    unfold f_all at 1. rewrite <- !app_assoc. f_equal. rewrite app_assoc. by rewrite firstn_skipn.
  - intros [Hd|Hpol].
    + rewrite Hd. unfold death_image. rewrite Hn. eauto.
    + subst pol. assert (Hnp : f_pending (a_log a1) = []) by (subst a1; by apply always_no_pending).
      exists (x ++ firstn k (f_pending f)). rewrite Hx. unfold f_all. rewrite Hnp, app_nil_r. by rewrite app_assoc.
Qed.

(** * After the recovery *)
(** [redurable]: the recovered log is the complete records of the image; writes [h'] of the recovered
    process (which starts with no current database) are appended to it; a later restore of the whole
    file gives the recovered dataset with [h'] applied. *)
Theorem redurable now pol h img suf h' : Forall wr_ok h -> Forall wr_ok h' ->
  img ++ suf = f_all (a_log (aof_run pol aof_fresh h)) ->
  exists j, (j <= length h)%nat /\ restore now PreEmpty img = dataset_after (init_state now) h j /\
    restore now PreEmpty (f_all (a_log (aof_run pol (Aof (f_of_bytes (recovered_log img)) (-1)) h'))) =
    run_writes (dataset_after (init_state now) h j) h'.
Proof.
  intros Hok Hok' H.
  destruct (restore_prefix now pol h img suf Hok H) as (j & Hj & Hr & _ & m & Hrec & Hjm).
  exists j. split; [done|]. split; [done|].
  destruct (log_bytes_run pol h' (Aof (f_of_bytes (recovered_log img)) (-1))) as [-> _].
  cbn [a_log a_cur]. unfold f_of_bytes, f_all at 1. cbn [f_synced f_pending]. rewrite app_nil_r, Hrec.
  unfold recs_bytes. rewrite <- encode_all_app, <- map_app. fold (recs_bytes (firstn m (log_recs (-1) h) ++ log_recs (-1) h')).
  assert (Hokr : Forall rcd_ok (firstn m (log_recs (-1) h) ++ log_recs (-1) h')).
  { apply Forall_app. split; [apply Forall_take|]; by apply log_recs_ok. }
  rewrite restore_recs by done. rewrite rp_app. rewrite rp_log_recs by (auto; right; lia). cbn [fst].
  rewrite rp_firstn_log_recs by (auto; right; lia). subst j. done.
Qed.
