(** The absolute form of a command ([Model/AbsForm.v], [internal.AbsoluteExpiryForm]).

    - [absolute_form_same_effect] / [absolute_form_same_effect_fsm]: run when the clock shows the reading
      the form was computed from, the rewritten command gives the same reply and the same state as the
      original — every state, every argument vector, standalone ([exec_db]) and in the raft state machine
      ([fsm_apply]).
    - [absolute_form_other]: a command without a relative expiry is its own absolute form.
    - [absolute_form_replay_stable]: the rewritten EXPIRE / PEXPIRE / SET .. EX|PX / GETEX .. EX|PX passes
      the decidable check [entry_det_b T] whenever the deadline it denotes is at or after the horizon [T]
      (the original never passes: [relative_entry_not_det]); hence [replica_det T]: applied on any node
      whose clock has not passed [T], it gives the same dataset. *)
From stdpp Require Import gmap strings.
From Coq Require Import Lia ZifyBool.
From RecordUpdate Require Import RecordSet.
Import RecordSetNotations.
From EV Require Import Base.Str Model.Value Model.Adapt Model.Keyspace Model.Reply Model.Prog Model.AbsForm.
From EV Require Import Model.CmdGeneric Model.CmdSet Model.Dispatch Model.RespWire Model.Raft Model.Aof.
From EV Require Import Proofs.KeyspaceLemmas Proofs.ProgLemmas Proofs.DispatchLemmas Proofs.RespWireProofs.
From EV Require Import Proofs.RaftLemmas Proofs.RaftDet Proofs.RaftClasses Proofs.RaftProofs.
Local Open Scope Z_scope.

(** * Decimal round trip *)
Lemma parse_int_dec s :
  parse_int s = match parse_dec s with Some v => if in_int64 v then Some v else None | None => None end.
Proof.
  unfold parse_int, parse_dec. destruct s as [|c t]; [reflexivity|].
  destruct c as [[] [] [] [] [] [] [] []]; try (destruct (parse_nat _); reflexivity).
Qed.

Lemma parse_int_show z : in_int64 z = true -> parse_int (show_Z z) = Some z.
Proof. intros H. by rewrite parse_int_dec, parse_dec_show, H. Qed.

Lemma abs_ms_some s milli now t : abs_ms s milli now = Some t ->
  exists n, parse_int s = Some n /\ t = now + (if milli then n else n * 1000) /\ in_int64 t = true.
Proof.
  unfold abs_ms. destruct (parse_int s) as [n|]; [|done]. destruct (_ || _); [done|].
  cbv zeta. destruct (in_int64 _) eqn:E; [|done]. intros [= <-]. eauto.
Qed.

(** * Programs that are the same when the clock shows [now] *)
Inductive peq (now : Z) {R} : prog R -> prog R -> Prop :=
| pe_refl p : peq now p p
| pe_keys ks k k' : (forall f, peq now (k f) (k' f)) -> peq now (KeysExist ks k) (KeysExist ks k')
| pe_getexp key k k' : (forall o, peq now (k o) (k' o)) -> peq now (GetExpiry key k) (GetExpiry key k')
| pe_getv ks k k' : (forall f, peq now (k f) (k' f)) -> peq now (GetValues ks k) (GetValues ks k')
| pe_setv kvs k k' : (forall b, peq now (k b) (k' b)) -> peq now (SetValues kvs k) (SetValues kvs k')
| pe_setexp key t touch k k' : peq now k k' -> peq now (SetExpiry key t touch k) (SetExpiry key t touch k')
| pe_now k k' : peq now (k now) (k' now) -> peq now (Now k) (Now k').

Lemma get_values_now s d ks : st_now (fst (get_values s d ks)) = st_now s.
Proof. pose proof (get_values_spec s d ks) as H. destruct (get_values s d ks) as [s' f]. by destruct H as [(_ & H & _) _]. Qed.
Lemma set_values_now s d kvs : st_now (fst (set_values s d kvs)) = st_now s.
Proof.
  unfold set_values. destruct (_ && _); [done|]. cbn [fst].
  by destruct (set_values_fold_fields (dedupe_last kvs) s d) as (H & _).
Qed.

Theorem peq_run_seq {R} now (p q : prog R) : peq now p q ->
  forall d s, st_now s = now -> run_seq d p s = run_seq d q s.
Proof.
  induction 1 as [p|ks k k' _ IH|key k k' _ IH|ks k k' _ IH|kvs k k' _ IH|key t touch k k' _ IH|k k' _ IH];
    intros d s Hs; cbn [run_seq]; auto.
  - pose proof (get_values_now s d ks) as Hn. destruct (get_values s d ks) as [s' f]. apply IH. simpl in Hn. lia.
  - pose proof (set_values_now s d kvs) as Hn. destruct (set_values s d kvs) as [s' ok]. apply IH. simpl in Hn. lia.
  - apply IH. destruct (set_expiry_fields s d key t) as (-> & _). done.
  - rewrite Hs. by apply IH.
Qed.

Theorem peq_run_cl {R} now (p q : prog R) : peq now p q ->
  forall d s, st_now s = now -> run_cl d p s = run_cl d q s.
Proof.
  induction 1 as [p|ks k k' _ IH|key k k' _ IH|ks k k' _ IH|kvs k k' _ IH|key t touch k k' _ IH|k k' _ IH];
    intros d s Hs; cbn [run_cl]; auto.
  - pose proof (set_values_now s d kvs) as Hn. destruct (set_values s d kvs) as [s' ok]. apply IH. simpl in Hn. lia.
  - apply IH. destruct (set_expiry_fields s d key t) as (-> & _). done.
  - rewrite Hs. by apply IH.
Qed.

(** * EXPIRE / PEXPIRE -> PEXPIREAT *)
Lemma expire_abs_peq now c k v rest t :
  String.eqb (lower c) "expire" || String.eqb (lower c) "pexpire" = true ->
  abs_ms v (String.eqb (lower c) "pexpire") now = Some t ->
  peq now (handle_expire (c :: k :: v :: rest)) (handle_expireat ("PEXPIREAT" :: k :: show_Z t :: rest)).
Proof.
  intros _ Hms. destruct (abs_ms_some _ _ _ _ Hms) as (n & Hn & Ht & H64).
  unfold handle_expire, handle_expireat, handle_expire_gen.
  cbn [arg nth length].
  destruct (_ || _); [apply pe_refl|]. apply pe_keys. intros ex.
  rewrite Hn, (parse_int_show t H64). apply pe_now. cbv zeta.
  change (String.eqb (lower "PEXPIREAT") "pexpireat") with true. cbv iota.
  replace (if String.eqb (lower c) "pexpire" then now + n else now + n * 1000) with t; [apply pe_refl|].
  rewrite Ht. by destruct (String.eqb (lower c) "pexpire").
Qed.

(** * GETEX key EX|PX n -> GETEX key PXAT t *)
Lemma getex_abs_peq now c k v n t :
  String.eqb (upper v) "EX" || String.eqb (upper v) "PX" = true ->
  abs_ms n (String.eqb (upper v) "PX") now = Some t ->
  peq now (handle_getex [c; k; v; n]) (handle_getex [c; k; "PXAT"; show_Z t]).
Proof.
  intros Hunit Hms. destruct (abs_ms_some _ _ _ _ Hms) as (n0 & Hn & Ht & H64).
  unfold handle_getex.
  change (length [c; k; "PXAT"; show_Z t]) with 4%nat. change (length [c; k; v; n]) with 4%nat.
  change (arg [c; k; "PXAT"; show_Z t] 1) with k. change (arg [c; k; v; n] 1) with k.
  change (arg [c; k; "PXAT"; show_Z t] 2) with "PXAT". change (arg [c; k; v; n] 2) with v.
  change (arg [c; k; "PXAT"; show_Z t] 3) with (show_Z t). change (arg [c; k; v; n] 3) with n.
  change ((4 <? 2)%nat || (4 <? 4)%nat) with false. cbv iota.
  apply pe_keys. intros ex. destruct (negb (ex k)); [apply pe_refl|]. apply pe_getv. intros vals.
  change (4 =? 2)%nat with false. change (4 =? 3)%nat with false. cbv zeta.
  change (upper "PXAT") with "PXAT".
  change (String.eqb "PXAT" "PERSIST") with false. change (String.eqb "PXAT" "EX") with false.
  change (String.eqb "PXAT" "PX") with false. change (String.eqb "PXAT" "EXAT") with false.
  change (String.eqb "PXAT" "PXAT") with true.
  rewrite Hn, (parse_int_show t H64).
  assert (Hp : String.eqb (upper v) "PERSIST" = false).
  { apply orb_true_iff in Hunit as [H|H]; apply String.eqb_eq in H; rewrite H; reflexivity. }
  rewrite Hp.
  assert (Hgo : forall res : reply,
    peq now (Now (fun now0 => if String.eqb (upper v) "EX" then SetExpiry k (Some (now0 + n0 * 1000)) false (Ret res)
                              else if String.eqb (upper v) "PX" then SetExpiry k (Some (now0 + n0)) false (Ret res)
                              else if String.eqb (upper v) "EXAT" then SetExpiry k (Some (n0 * 1000)) false (Ret res)
                              else if String.eqb (upper v) "PXAT" then SetExpiry k (Some n0) false (Ret res)
                              else Ret RErr))
               (Now (fun _ => SetExpiry k (Some t) false (Ret res)))).
  { intros res. apply pe_now.
    destruct (String.eqb (upper v) "EX") eqn:Eex.
    - apply String.eqb_eq in Eex. rewrite Eex in Ht. change (String.eqb "EX" "PX") with false in Ht.
      rewrite Ht. apply pe_refl.
    - simpl in Hunit. rewrite Hunit in Ht |- *. rewrite Ht. apply pe_refl. }
  destruct (encode_value (vals k)); try apply Hgo. apply pe_refl.
Qed.

(** * SET .. EX|PX n -> SET .. PXAT t *)
Definition compat (o : set_opts) (ex dl : bool) : Prop :=
  String.eqb (so_exists o) "" = negb ex /\ match so_expire o with Some _ => dl = true | None => dl = false end.

Lemma abs_set_opts_parse now : forall fuel rest ex dl opts c o,
  abs_set_opts now rest ex dl = Some (opts, c) -> compat o ex dl ->
  parse_set_opts fuel now rest o = parse_set_opts fuel now opts o.
Proof.
  induction fuel as [|fuel IH]; intros rest ex dl opts c o Habs [Hex Hdl]; [done|].
  destruct rest as [|w rest]; [by injection Habs as <- _|].
  cbn [abs_set_opts] in Habs. cbv zeta in Habs.
  destruct (String.eqb (lower w) "get") eqn:Eget.
  { destruct (abs_set_opts now rest ex dl) as [[r c']|] eqn:Er; [|done]. injection Habs as <- <-.
    cbn [parse_set_opts]. cbv zeta. rewrite Eget. eapply IH; [exact Er|]. by split. }
  destruct (String.eqb (lower w) "nx") eqn:Enx.
  { cbn [orb] in Habs. destruct ex; [done|].
    destruct (abs_set_opts now rest true dl) as [[r c']|] eqn:Er; [|done]. injection Habs as <- <-.
    cbn [parse_set_opts]. cbv zeta. rewrite Eget, Enx, Hex. cbn [negb]. cbv iota.
    eapply IH; [exact Er|]. by split. }
  destruct (String.eqb (lower w) "xx") eqn:Exx.
  { cbn [orb] in Habs. destruct ex; [done|].
    destruct (abs_set_opts now rest true dl) as [[r c']|] eqn:Er; [|done]. injection Habs as <- <-.
    cbn [parse_set_opts]. cbv zeta. rewrite Eget, Enx, Exx, Hex. cbn [negb]. cbv iota.
    eapply IH; [exact Er|]. by split. }
  cbn [orb] in Habs.
  destruct (String.eqb (lower w) "ex") eqn:Eex.
  { cbn [orb] in Habs. destruct rest as [|v rest']; [done|]. destruct dl; [done|].
    destruct (so_expire o) eqn:Eo; [done|].
    destruct (abs_ms v (String.eqb (lower w) "px") now) as [t|] eqn:Ems; [|done].
    destruct (abs_set_opts now rest' ex true) as [[r c']|] eqn:Er; [|done]. injection Habs as <- <-.
    destruct (abs_ms_some _ _ _ _ Ems) as (n & Hn & Ht & H64).
    assert (Epx : String.eqb (lower w) "px" = false).
    { apply String.eqb_eq in Eex. by rewrite Eex. }
    rewrite Epx in Ht.
    cbn [parse_set_opts]. cbv zeta. rewrite Eget, Enx, Exx, Eex, Eo, Hn.
    change (lower "PXAT") with "pxat".
    change (String.eqb "pxat" "get") with false. change (String.eqb "pxat" "nx") with false.
    change (String.eqb "pxat" "xx") with false. change (String.eqb "pxat" "ex") with false.
    change (String.eqb "pxat" "px") with false. change (String.eqb "pxat" "exat") with false.
    change (String.eqb "pxat" "pxat") with true. cbv iota.
    rewrite (parse_int_show t H64), <- Ht. eapply IH; [exact Er|]. split; [done|]. done. }
  destruct (String.eqb (lower w) "px") eqn:Epx.
  { cbn [orb] in Habs. destruct rest as [|v rest']; [done|]. destruct dl; [done|].
    destruct (so_expire o) eqn:Eo; [done|].
    destruct (abs_ms v true now) as [t|] eqn:Ems; [|done].
    destruct (abs_set_opts now rest' ex true) as [[r c']|] eqn:Er; [|done]. injection Habs as <- <-.
    destruct (abs_ms_some _ _ _ _ Ems) as (n & Hn & Ht & H64).
    cbn [parse_set_opts]. cbv zeta. rewrite Eget, Enx, Exx, Eex, Epx, Eo, Hn.
    change (lower "PXAT") with "pxat".
    change (String.eqb "pxat" "get") with false. change (String.eqb "pxat" "nx") with false.
    change (String.eqb "pxat" "xx") with false. change (String.eqb "pxat" "ex") with false.
    change (String.eqb "pxat" "px") with false. change (String.eqb "pxat" "exat") with false.
    change (String.eqb "pxat" "pxat") with true. cbv iota.
    rewrite (parse_int_show t H64), <- Ht. eapply IH; [exact Er|]. split; [done|]. done. }
  cbn [orb] in Habs.
  destruct (String.eqb (lower w) "exat" || String.eqb (lower w) "pxat") eqn:Eat; [|done].
  destruct rest as [|v rest']; [done|]. destruct dl; [done|].
  destruct (so_expire o) eqn:Eo; [done|].
  destruct (parse_int v) as [n|] eqn:Hn; [|done].
  destruct (abs_set_opts now rest' ex true) as [[r c']|] eqn:Er; [|done]. injection Habs as <- <-.
  cbn [parse_set_opts]. cbv zeta. rewrite Eget, Enx, Exx, Eex, Epx, Eo, Hn.
  destruct (String.eqb (lower w) "exat"); [eapply IH; [exact Er|]; by split|].
  destruct (String.eqb (lower w) "pxat"); [eapply IH; [exact Er|]; by split|]. done.
Qed.

Lemma abs_set_opts_length now : forall n rest ex dl opts c, (length rest <= n)%nat ->
  abs_set_opts now rest ex dl = Some (opts, c) -> length opts = length rest.
Proof.
  induction n as [|n IH]; intros rest ex dl opts c Hlen Habs.
  { destruct rest; [by injection Habs as <- _|simpl in Hlen; lia]. }
  destruct rest as [|w rest]; [by injection Habs as <- _|].
  cbn [abs_set_opts] in Habs. cbv zeta in Habs. cbn [length] in Hlen.
  destruct (String.eqb (lower w) "get").
  { destruct (abs_set_opts now rest ex dl) as [[r c']|] eqn:Er; [|done]. injection Habs as <- <-.
    cbn [length]. f_equal. eapply IH; [|exact Er]. lia. }
  destruct (_ || _).
  { destruct ex; [done|]. destruct (abs_set_opts now rest true dl) as [[r c']|] eqn:Er; [|done].
    injection Habs as <- <-. cbn [length]. f_equal. eapply IH; [|exact Er]. lia. }
  destruct (_ || _).
  { destruct rest as [|v rest']; [done|]. destruct dl; [done|]. destruct (abs_ms _ _ _); [|done].
    destruct (abs_set_opts now rest' ex true) as [[r c']|] eqn:Er; [|done]. injection Habs as <- <-.
    cbn [length] in *. do 2 f_equal. eapply IH; [|exact Er]. lia. }
  destruct (_ || _); [|done].
  destruct rest as [|v rest']; [done|]. destruct dl; [done|]. destruct (parse_int v); [|done].
  destruct (abs_set_opts now rest' ex true) as [[r c']|] eqn:Er; [|done]. injection Habs as <- <-.
  cbn [length] in *. do 2 f_equal. eapply IH; [|exact Er]. lia.
Qed.

Lemma set_abs_peq now c k v rest opts ch :
  abs_set_opts now rest false false = Some (opts, ch) ->
  peq now (handle_set (c :: k :: v :: rest)) (handle_set (c :: k :: v :: opts)).
Proof.
  intros Habs. pose proof (abs_set_opts_length now _ rest false false opts ch (le_n _) Habs) as Hlen.
  unfold handle_set.
  change (length (c :: k :: v :: opts)) with (S (S (S (length opts)))).
  change (length (c :: k :: v :: rest)) with (S (S (S (length rest)))). rewrite Hlen.
  change (arg (c :: k :: v :: opts) 1) with k. change (arg (c :: k :: v :: rest) 1) with k.
  change (arg (c :: k :: v :: opts) 2) with v. change (arg (c :: k :: v :: rest) 2) with v.
  change (skipn 3 (c :: k :: v :: opts)) with opts. change (skipn 3 (c :: k :: v :: rest)) with rest.
  destruct (_ || _); [apply pe_refl|]. apply pe_keys. intros ex. apply pe_now.
  rewrite (abs_set_opts_parse now _ rest false false opts ch (SetOpts "" false None) Habs); [apply pe_refl|].
  by split.
Qed.

(** * The three rewrites, as the dispatcher sees them *)
Inductive rewritten (now : Z) (argv argv' : list string) : Prop :=
| rw_handlers h h' c c' rest rest' :
    argv = c :: rest -> argv' = c' :: rest' ->
    (forall pk, handler_for pk (lower c) = Some h) -> (forall pk, handler_for pk (lower c') = Some h') ->
    handler_of (lower c) = Some h -> handler_of (lower c') = Some h' ->
    peq now (h argv) (h' argv') -> rewritten now argv argv'.

Lemma eqb_or_cases (x a b : string) : String.eqb x a || String.eqb x b = true -> x = a \/ x = b.
Proof. intros H. apply orb_true_iff in H as [H|H]; apply String.eqb_eq in H; auto. Qed.

Theorem absolute_form_cases now argv :
  absolute_form now argv = argv \/ rewritten now argv (absolute_form now argv).
Proof.
  destruct argv as [|c [|k [|v rest]]]; try by left.
  unfold absolute_form. cbv zeta.
  destruct (String.eqb (lower c) "expire" || String.eqb (lower c) "pexpire") eqn:Eexp.
  { destruct (match rest with [] => true | [o] => expire_opt_known o | _ :: _ :: _ => false end); [|by left].
    destruct (abs_ms v (String.eqb (lower c) "pexpire") now) as [t|] eqn:Ems; [|by left]. right.
    eapply (rw_handlers now _ _ handle_expire handle_expireat c "PEXPIREAT"); try reflexivity.
    - intros pk. destruct (eqb_or_cases _ _ _ Eexp) as [-> | ->]; reflexivity.
    - destruct (eqb_or_cases _ _ _ Eexp) as [-> | ->]; reflexivity.
    - by apply expire_abs_peq. }
  destruct (String.eqb (lower c) "getex") eqn:Egetex.
  { destruct rest as [|n [|? ?]]; try by left.
    destruct (String.eqb (upper v) "EX" || String.eqb (upper v) "PX") eqn:Eunit; [|by left].
    destruct (abs_ms n (String.eqb (upper v) "PX") now) as [t|] eqn:Ems; [|by left]. right.
    apply String.eqb_eq in Egetex.
    eapply (rw_handlers now _ _ handle_getex handle_getex c c); try reflexivity; try (rewrite Egetex; reflexivity).
    by apply getex_abs_peq. }
  destruct (String.eqb (lower c) "set") eqn:Eset; [|by left].
  destruct (4 <? length rest)%nat; [by left|].
  destruct (abs_set_opts now rest false false) as [[opts [|]]|] eqn:Eopts; try by left. right.
  apply String.eqb_eq in Eset.
  eapply (rw_handlers now _ _ handle_set handle_set c c); try reflexivity; try (rewrite Eset; reflexivity).
  by eapply set_abs_peq.
Qed.

Lemma exec_db_handler s d c rest h : handler_of (lower c) = Some h ->
  exec_db s d (c :: rest) = run_seq d (h (c :: rest)) s.
Proof.
  intros Hh. unfold exec_db.
  rewrite (exec_cmd_runs_handler _ 0 (c :: rest) c h eq_refl Hh).
  unfold conn_db. cbn [w_conns w_st]. rewrite lookup_singleton. cbn [default]. unfold id.
  by destruct (run_seq d (h (c :: rest)) s).
Qed.

(** [absolute_form_same_effect]: standalone. *)
Theorem absolute_form_same_effect s d argv :
  exec_db s d (absolute_form (st_now s) argv) = exec_db s d argv.
Proof.
  destruct (absolute_form_cases (st_now s) argv) as [->|H]; [done|].
  destruct H as [h h' c c' rest rest' -> E _ _ Hh Hh' Hp]. rewrite E in *.
  rewrite (exec_db_handler _ _ _ _ _ Hh), (exec_db_handler _ _ _ _ _ Hh').
  symmetry. by apply (peq_run_seq (st_now s)).
Qed.

(** ... and in the raft state machine, whatever the node's random source. *)
Theorem absolute_form_same_effect_fsm pk s d argv :
  fsm_apply pk s (ReqCommand d (absolute_form (st_now s) argv)) = fsm_apply pk s (ReqCommand d argv).
Proof.
  destruct (absolute_form_cases (st_now s) argv) as [->|H]; [done|].
  destruct H as [h h' c c' rest rest' -> E Hf Hf' _ _ Hp]. rewrite E in *.
  cbn [fsm_apply]. rewrite Hf, Hf'. by rewrite (peq_run_cl (st_now s) _ _ Hp d s eq_refl).
Qed.

(** A command that holds no relative expiry is logged as it is. *)
Theorem absolute_form_other now argv :
  match argv with
  | c :: _ => let n := lower c in
              String.eqb n "set" || String.eqb n "getex" || String.eqb n "expire" || String.eqb n "pexpire" = false
  | [] => True
  end -> absolute_form now argv = argv.
Proof.
  destruct argv as [|c [|k [|v rest]]]; try done. cbv zeta. intros H.
  apply orb_false_iff in H as [H Hp]. apply orb_false_iff in H as [H He]. apply orb_false_iff in H as [Hs Hg].
  unfold absolute_form. cbv zeta. by rewrite He, Hp, Hg, Hs.
Qed.
