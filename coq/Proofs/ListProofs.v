(** C15: the list handlers refine the reference sequences of [Spec/SpecList.v]. *)
From stdpp Require Import gmap strings.
From EV Require Import Base.Str Model.Value Model.Keyspace Model.Reply Model.Prog Model.CmdList.
From EV Require Import Spec.SpecList Proofs.KeyspaceLemmas Proofs.ListPure.
Local Open Scope Z_scope.

(** * Abstraction: what list commands can see of database [d] *)
Definition classify (v : value) : lval := match v with VList l => LList l | _ => LOther end.
Definition lview (s : state) (d : Z) : lspec :=
  omap (fun e => if expired (st_now s) e then None else Some (classify (e_val e))) (get_db s d).

Lemma lview_lookup s d k : lview s d !! k = classify <$> live s d k.
Proof.
  unfold lview, live, lentry. rewrite lookup_omap.
  destruct (get_db s d !! k) as [e|]; simpl; [|done]. by destruct (expired _ e).
Qed.

Lemma lview_ext s' d m :
  (forall k, classify <$> live s' d k = m !! k) -> lview s' d = m.
Proof. intros H. apply map_eq. intros k. rewrite lview_lookup. apply H. Qed.

Lemma same_view_lview s s' d : same_view s s' -> lview s' d = lview s d.
Proof.
  intros (H & _). apply lview_ext. intros k. rewrite lview_lookup. unfold live. by rewrite H.
Qed.

(** What a step may do to the entries: nothing outside [d]; inside [d] an entry is untouched,
    or is (now) a list that kept the deadline it had, or is gone. *)
Definition list_frame (s s' : state) (d : Z) : Prop :=
  (forall d' k, d' <> d -> lentry s' d' k = lentry s d' k) /\
  (forall k, lentry s' d k = lentry s d k \/
             (exists l, lentry s' d k = Some (Entry (VList l) (dl_of (lentry s d k)))) \/
             lentry s' d k = None) /\
  st_now s' = st_now s /\ st_maxmem s' = st_maxmem s /\ st_noevict s' = st_noevict s.

Lemma same_view_frame s s' d : same_view s s' -> list_frame s s' d.
Proof. intros (H1 & H2 & H3 & H4). repeat split; auto. Qed.

Lemma list_frame_trans_view s s1 s' d :
  same_view s s1 -> list_frame s1 s' d -> list_frame s s' d.
Proof.
  intros (V1 & V2 & V3 & V4) (F1 & F2 & F3 & F4 & F5). repeat split; try congruence.
  - intros d' k Hd. rewrite F1 by done. apply V1.
  - intros k. destruct (F2 k) as [H|[[l H]|H]].
    + left. rewrite H. apply V1.
    + right; left. exists l. rewrite H. by rewrite V1.
    + right; right. done.
Qed.

(** Effect of a successful [setValues] of list values, in view terms. *)
Lemma set_values_lists s d kvs s' ok :
  st_maxmem s = 0 -> set_values s d kvs = (s', ok) ->
  (forall k v, assoc_last k kvs = Some v -> exists l, v = VList l) ->
  ok = true /\ list_frame s s' d /\
  (forall k, lview s' d !! k =
             match assoc_last k kvs with Some v => Some (classify v) | None => lview s d !! k end).
Proof.
  intros Hm Hs Hl. pose proof (set_values_spec s d kvs Hm) as H. rewrite Hs in H.
  destruct H as (-> & He & Hn & Hmm & Hne). split; [done|]. split.
  - repeat split; auto.
    + intros d' k Hd. rewrite He. rewrite decide_False by done. done.
    + intros k. rewrite He, decide_True by done.
      destruct (assoc_last k kvs) as [v|] eqn:Hk; [|by left].
      destruct (Hl k v Hk) as [l ->]. right; left. by exists l.
  - intros k. rewrite !lview_lookup. unfold live. rewrite He, decide_True by done.
    destruct (assoc_last k kvs); done.
Qed.

Lemma delete_key_view s d k :
  list_frame s (delete_key s d k) d /\ lview (delete_key s d k) d = delete k (lview s d).
Proof.
  split.
  - repeat split; auto using delete_key_now, delete_key_maxmem, delete_key_noevict.
    + intros d' k' Hd. rewrite delete_key_lentry. rewrite decide_False; [done|]. intros [? _]; done.
    + intros k'. rewrite delete_key_lentry. destruct (decide _); [by right; right|by left].
  - apply lview_ext. intros k'. unfold live. rewrite delete_key_lentry.
    destruct (decide (d = d /\ k = k')) as [[_ <-]|Hn].
    + by rewrite lookup_delete.
    + rewrite lookup_delete_ne by (intros ->; apply Hn; done). by rewrite lview_lookup.
Qed.

(** The statement proved of every handler. *)
Definition refines1 (h : list string -> prog reply) (argv : list string) : Prop :=
  forall s d, st_maxmem s = 0 ->
  let '(s', r) := run_seq d (h argv) s in
  let '(m', r') := spec_list (lview s d) argv in
  r = r' /\ lview s' d = m' /\ list_frame s s' d /\ (r = RErr -> same_view s s').

Lemma live_classify_list s d k l :
  lview s d !! k = Some (LList l) -> live s d k = Some (VList l).
Proof.
  rewrite lview_lookup. destruct (live s d k) as [v|]; [|done]. destruct v; simpl; try done.
  by intros [= ->].
Qed.
Lemma live_classify_other s d k :
  lview s d !! k = Some LOther -> exists v, live s d k = Some v /\ as_list (Some v) = None.
Proof.
  rewrite lview_lookup. destruct (live s d k) as [v|]; [|done]. destruct v; simpl; try done; eauto.
Qed.
Lemma live_classify_none s d k : lview s d !! k = None -> live s d k = None.
Proof. rewrite lview_lookup. by destruct (live s d k). Qed.

Lemma exists_iff_view s d k :
  bool_decide (is_Some (lentry s d k)) = bool_decide (is_Some (lview s d !! k)).
Proof.
  rewrite lview_lookup. unfold live. destruct (lentry s d k); simpl; done.
Qed.

(** * Per-handler proofs *)

(** Destructs [argv] far enough for the arity tests of handler and reference to compute. *)
Ltac argv_cases argv :=
  destruct argv as [|?c [|?a1 [|?a2 [|?a3 [|?a4 [|?a5 ?rest]]]]]].

Ltac use_get_values s d ks :=
  let s1 := fresh "s1" in let f := fresh "f" in let Hv := fresh "Hview" in let Hf := fresh "Hf" in
  pose proof (get_values_spec s d ks) as Hv;
  destruct (get_values s d ks) as [s1 f]; destruct Hv as [Hv Hf].

Ltac finish_same :=
  match goal with
  | H : same_view ?s ?s' |- _ /\ lview ?s' _ = _ /\ list_frame ?s ?s' _ /\ _ =>
      split; [reflexivity|split; [apply same_view_lview; exact H|split; [apply same_view_frame; exact H|intros _; exact H]]]
  | |- _ /\ lview ?s _ = _ /\ list_frame ?s ?s _ /\ _ =>
      split; [reflexivity|split; [reflexivity|split; [apply same_view_frame; apply same_view_refl|intros _; apply same_view_refl]]]
  end.

Lemma llen_refines argv c : argv = c :: tl argv -> lower c = "llen" -> refines1 handle_llen argv.
Proof.
  intros Hargv Hc s d Hm. unfold spec_list, handle_llen.
  argv_cases argv; try discriminate Hargv; injection Hargv as <-; rewrite Hc; cbn -[lview];
    try finish_same.
  rewrite keys_exist_single, exists_iff_view.
  destruct (lview s d !! a1) as [[l|]|] eqn:Hk; cbn -[lview].
  - use_get_values s d [a1]. cbn -[lview]. rewrite Hf by set_solver.
    rewrite (live_classify_list _ _ _ _ Hk). cbn -[lview]. finish_same.
  - use_get_values s d [a1]. cbn -[lview]. rewrite Hf by set_solver.
    destruct (live_classify_other _ _ _ Hk) as (v & -> & Hv). rewrite Hv. cbn -[lview]. finish_same.
  - finish_same.
Qed.

Ltac view_cases s d k H :=
  rewrite ?keys_exist_single, ?exists_iff_view;
  destruct (lview s d !! k) as [[?l|]|] eqn:H; cbn -[lview].

(** After a [GetValues [k]]: substitutes the value read. *)
Ltac read_list Hk :=
  match goal with
  | Hf : forall k, k ∈ ?ks -> ?f k = live ?s ?d k |- context [?f ?k] =>
      rewrite (Hf k) by set_solver;
      first [ rewrite (live_classify_list _ _ _ _ Hk)
            | let v := fresh "v" in let Hv := fresh "Hv" in
              destruct (live_classify_other _ _ _ Hk) as (v & -> & Hv); rewrite ?Hv ];
      cbn -[lview]
  end.

Lemma lindex_refines argv c : argv = c :: tl argv -> lower c = "lindex" -> refines1 handle_lindex argv.
Proof.
  intros Hargv Hc s d Hm. unfold spec_list, handle_lindex.
  argv_cases argv; try discriminate Hargv; injection Hargv as <-; rewrite Hc; cbn -[lview];
    try finish_same.
  view_cases s d a1 Hk.
  - use_get_values s d [a1]. cbn -[lview]. read_list Hk.
    unfold arg; cbn -[lview]. destruct (parse_int a2) as [i0|]; cbn -[lview]; [|finish_same].
    pose proof (lindex_eq l i0) as He. cbv zeta in He.
    destruct ((zlen l <=? (if i0 <? 0 then zlen l + i0 else i0)) || ((if i0 <? 0 then zlen l + i0 else i0) <? 0)) eqn:E.
    + cbn -[lview]. rewrite <- He. finish_same.
    + destruct (znth l (if i0 <? 0 then zlen l + i0 else i0)) eqn:En; cbn -[lview]; rewrite <- He; finish_same.
  - use_get_values s d [a1]. cbn -[lview]. read_list Hk. finish_same.
  - finish_same.
Qed.

Lemma lrange_refines argv c : argv = c :: tl argv -> lower c = "lrange" -> refines1 handle_lrange argv.
Proof.
  intros Hargv Hc s d Hm. unfold spec_list, handle_lrange.
  argv_cases argv; try discriminate Hargv; injection Hargv as <-; rewrite Hc; cbn -[lview];
    try finish_same.
  view_cases s d a1 Hk.
  - use_get_values s d [a1]. cbn -[lview]. read_list Hk.
    unfold arg; cbn -[lview]. destruct (parse_int a2) as [s0|]; cbn -[lview]; [|finish_same].
    destruct (parse_int a3) as [e0|]; cbn -[lview]; [|finish_same].
    pose proof (lrange_eq l s0 e0) as He. cbv zeta in He. rewrite <- He.
    match goal with |- context [if ?b then Ret _ else Ret _] => destruct b end; cbn -[lview]; finish_same.
  - use_get_values s d [a1]. cbn -[lview]. read_list Hk. finish_same.
  - finish_same.
Qed.

(** Writing list values after some reads. *)
Lemma put_one s s1 d k l' s2 ok :
  st_maxmem s = 0 -> same_view s s1 -> set_values s1 d [(k, VList l')] = (s2, ok) ->
  ok = true /\ lview s2 d = <[k := LList l']> (lview s d) /\ list_frame s s2 d.
Proof.
  intros Hm Hv Hs. assert (Hm1 : st_maxmem s1 = 0) by (destruct Hv as (_ & _ & -> & _); done).
  destruct (set_values_lists s1 d _ s2 ok Hm1 Hs) as (-> & Hf & Hl).
  { intros k0 v. simpl. destruct (String.eqb k0 k); [|done]. intros [= <-]. eauto. }
  split; [done|]. split; [|eapply list_frame_trans_view; eauto].
  apply map_eq. intros k0. rewrite Hl. simpl. rewrite (same_view_lview _ _ _ Hv).
  destruct (String.eqb k0 k) eqn:E.
  - apply String.eqb_eq in E. subst. by rewrite lookup_insert.
  - apply String.eqb_neq in E. by rewrite lookup_insert_ne.
Qed.

Lemma put_two s s1 d k1 l1 k2 l2 s2 ok :
  st_maxmem s = 0 -> same_view s s1 ->
  set_values s1 d [(k1, VList l1); (k2, VList l2)] = (s2, ok) ->
  ok = true /\ lview s2 d = <[k2 := LList l2]> (<[k1 := LList l1]> (lview s d)) /\ list_frame s s2 d.
Proof.
  intros Hm Hv Hs. assert (Hm1 : st_maxmem s1 = 0) by (destruct Hv as (_ & _ & -> & _); done).
  destruct (set_values_lists s1 d _ s2 ok Hm1 Hs) as (-> & Hf & Hl).
  { intros k0 v. simpl. destruct (String.eqb k0 k2); [intros [= <-]; eauto|].
    destruct (String.eqb k0 k1); [intros [= <-]; eauto|done]. }
  split; [done|]. split; [|eapply list_frame_trans_view; eauto].
  apply map_eq. intros k0. rewrite Hl. simpl. rewrite (same_view_lview _ _ _ Hv).
  destruct (String.eqb k0 k2) eqn:E2.
  - apply String.eqb_eq in E2. subst. by rewrite lookup_insert.
  - apply String.eqb_neq in E2. rewrite lookup_insert_ne by done.
    destruct (String.eqb k0 k1) eqn:E1.
    + apply String.eqb_eq in E1. subst. by rewrite lookup_insert.
    + apply String.eqb_neq in E1. by rewrite lookup_insert_ne.
Qed.

Ltac finish_put H :=
  destruct H as (-> & ? & ?); cbn -[lview];
  split; [reflexivity|split; [assumption|split; [assumption|intros ?; discriminate]]].

Ltac do_put1 s :=
  match goal with
  | Hm : st_maxmem s = 0, Hv : same_view s ?s1 |- context [set_values ?s1 ?d [(?k, VList ?l')]] =>
      let s2 := fresh "s2" in let ok := fresh "ok" in let Hs := fresh "Hset" in
      destruct (set_values s1 d [(k, VList l')]) as [s2 ok] eqn:Hs;
      let H := fresh "Hput" in
      pose proof (put_one s s1 d k l' s2 ok Hm Hv Hs) as H; finish_put H
  end.

Lemma lset_refines argv c : argv = c :: tl argv -> lower c = "lset" -> refines1 handle_lset argv.
Proof.
  intros Hargv Hc s d Hm. unfold spec_list, handle_lset.
  argv_cases argv; try discriminate Hargv; injection Hargv as <-; rewrite Hc; cbn -[lview];
    try finish_same.
  unfold arg; cbn -[lview].
  view_cases s d a1 Hk.
  - destruct (parse_int a2) as [i0|]; cbn -[lview]; [|finish_same].
    use_get_values s d [a1]. cbn -[lview]. read_list Hk.
    pose proof (lset_eq l i0 a3) as He. cbv zeta in He.
    destruct (negb _) eqn:E in He |- *; cbn -[lview]; rewrite <- He; [finish_same|].
    do_put1 s.
  - destruct (parse_int a2) as [i0|]; cbn -[lview]; [|finish_same].
    use_get_values s d [a1]. cbn -[lview]. read_list Hk. finish_same.
  - finish_same.
Qed.

Lemma ltrim_refines argv c : argv = c :: tl argv -> lower c = "ltrim" -> refines1 handle_ltrim argv.
Proof.
  intros Hargv Hc s d Hm. unfold spec_list, handle_ltrim.
  argv_cases argv; try discriminate Hargv; injection Hargv as <-; rewrite Hc; cbn -[lview];
    try finish_same.
  unfold arg; cbn -[lview].
  view_cases s d a1 Hk.
  - destruct (parse_int a2) as [s0|]; cbn -[lview]; [|finish_same].
    destruct (parse_int a3) as [e0|]; cbn -[lview]; [|finish_same].
    use_get_values s d [a1]. cbn -[lview]. read_list Hk.
    pose proof (ltrim_eq l s0 e0) as He. cbv zeta in He.
    destruct (_ || _) eqn:E in He |- *; cbn -[lview].
    + rewrite He. destruct (delete_key_view s1 d a1) as [Hfr Hlv].
      split; [done|]. split; [|split; [|intros ?; discriminate]].
      * rewrite Hlv. by rewrite (same_view_lview _ _ _ Hview).
      * eapply list_frame_trans_view; eauto.
    + destruct He as [He Hne]. rewrite He.
      destruct (ref_range l s0 e0) as [|x r] eqn:Hr; [done|]. do_put1 s.
  - destruct (parse_int a2) as [s0|]; cbn -[lview]; [|finish_same].
    destruct (parse_int a3) as [e0|]; cbn -[lview]; [|finish_same].
    use_get_values s d [a1]. cbn -[lview]. read_list Hk. finish_same.
  - finish_same.
Qed.

Lemma lrem_refines argv c : argv = c :: tl argv -> lower c = "lrem" -> refines1 handle_lrem argv.
Proof.
  intros Hargv Hc s d Hm. unfold spec_list, handle_lrem.
  argv_cases argv; try discriminate Hargv; injection Hargv as <-; rewrite Hc; cbn -[lview];
    try finish_same.
  unfold arg; cbn -[lview].
  destruct (parse_int a2) as [n|]; cbn -[lview]; [|finish_same].
  view_cases s d a1 Hk.
  - use_get_values s d [a1]. cbn -[lview]. read_list Hk.
    pose proof (lrem_eq n a3 l) as He. rewrite He. do_put1 s.
  - use_get_values s d [a1]. cbn -[lview]. read_list Hk. finish_same.
  - finish_same.
Qed.

Lemma keys_exist_in s d ks k : k ∈ ks ->
  keys_exist s d ks k = bool_decide (is_Some (lview s d !! k)).
Proof.
  intros Hin. rewrite keys_exist_lentry, exists_iff_view.
  replace (str_in k ks) with true; [done|]. symmetry. by apply str_in_spec.
Qed.

Lemma lmove_refines argv c : argv = c :: tl argv -> lower c = "lmove" -> refines1 handle_lmove argv.
Proof.
  intros Hargv Hc s d Hm. unfold spec_list, handle_lmove.
  argv_cases argv; try discriminate Hargv; injection Hargv as <-; rewrite Hc; cbn -[lview];
    try finish_same.
  unfold arg; cbn -[lview].
  rewrite !keys_exist_in by set_solver.
  unfold side_of, is_side.
  destruct (String.eqb (lower a3) "left") eqn:F1; [|destruct (String.eqb (lower a3) "right") eqn:F2];
    cbn -[lview]; try finish_same;
  (destruct (String.eqb (lower a4) "left") eqn:T1; [|destruct (String.eqb (lower a4) "right") eqn:T2];
    cbn -[lview]; try finish_same).
  all: destruct (lview s d !! a1) as [[sl|]|] eqn:Hs; cbn -[lview]; try finish_same.
  all: destruct (lview s d !! a2) as [[dl|]|] eqn:Hd; cbn -[lview]; try finish_same.
  all: use_get_values s d [a1; a2]; cbn -[lview];
       rewrite !Hf by set_solver;
       rewrite ?(live_classify_list _ _ _ _ Hs), ?(live_classify_list _ _ _ _ Hd); cbn -[lview].
  all: try (destruct (live_classify_other _ _ _ Hs) as (v & -> & Hv); rewrite ?Hv; cbn -[lview]; finish_same).
  all: try (destruct (live_classify_other _ _ _ Hd) as (v & -> & Hv); rewrite ?Hv; cbn -[lview]; finish_same).
  all: destruct sl as [|x0 sl]; cbn -[lview last removelast]; [finish_same|].
  all: match goal with
       | Hm0 : st_maxmem ?s0 = 0, Hv : same_view ?s0 ?s1
         |- context [set_values ?s1 ?d [(?k1, VList ?l1); (?k2, VList ?l2)]] =>
           let s2 := fresh "s2" in let ok := fresh "ok" in let Hset := fresh "Hset" in
           destruct (set_values s1 d [(k1, VList l1); (k2, VList l2)]) as [s2 ok] eqn:Hset;
           pose proof (put_two s0 s1 d k1 l1 k2 l2 s2 ok Hm0 Hv Hset) as Hput;
           destruct Hput as (-> & Hlv & Hfr); cbn -[lview last removelast];
           split; [reflexivity|split; [|split; [assumption|intros ?; discriminate]]]
       end.
  all: rewrite Hlv; destruct (String.eqb a1 a2); reflexivity.
Qed.

Lemma set_values_no_delete s d kvs s' ok k :
  st_maxmem s = 0 -> set_values s d kvs = (s', ok) -> lentry s' d k = None -> lentry s d k = None.
Proof.
  intros Hm Hs. pose proof (set_values_spec s d kvs Hm) as H. rewrite Hs in H.
  destruct H as (_ & He & _). rewrite He, decide_True by done.
  by destruct (assoc_last k kvs).
Qed.

Lemma list_frame_trans s s1 s3 d :
  list_frame s s1 d -> (forall k, lentry s1 d k = None -> lentry s d k = None) ->
  list_frame s1 s3 d -> list_frame s s3 d.
Proof.
  intros (A1 & A2 & A3 & A4 & A5) Hnd (B1 & B2 & B3 & B4 & B5). repeat split; try congruence.
  - intros d' k Hd. rewrite B1, A1; done.
  - intros k. destruct (B2 k) as [H|[[l H]|H]].
    + rewrite H. apply A2.
    + right; left. exists l. rewrite H. do 2 f_equal.
      destruct (A2 k) as [G|[[l' G]|G]].
      * by rewrite G.
      * by rewrite G.
      * rewrite G. by rewrite (Hnd k G).
    + by right; right.
Qed.

Lemma push_refines (left : bool) argv c :
  argv = c :: tl argv ->
  (if left then lower c = "lpush" \/ lower c = "lpushx" else lower c = "rpush" \/ lower c = "rpushx") ->
  refines1 (handle_push left) argv.
Proof.
  intros Hargv Hc s d Hm. unfold spec_list, handle_push.
  destruct argv as [|c0 [|k [|x xs]]]; try discriminate Hargv; injection Hargv as ->.
  1,2: destruct left; destruct Hc as [-> | ->]; cbn -[lview]; finish_same.
  assert (Harity : (length (c :: k :: x :: xs) <? 3)%nat = false) by done.
  rewrite Harity. clear Harity. unfold arg. cbn [nth skipn].
  set (new := x :: xs).
  assert (Hspec : forall (onlyx : bool),
    lower c = (if left then (if onlyx then "lpushx" else "lpush") else (if onlyx then "rpushx" else "rpush")) ->
    let '(s', r) := run_seq d
       (KeysExist [k] (fun ex =>
          let continue := GetValues [k] (fun vals =>
            match as_list (vals k) with
            | None => Ret RErr
            | Some l => SetValues [(k, VList (if left then new ++ l else l ++ new))] (fun ok =>
                        if ok then Ret (RInt (zlen l + zlen new)) else Ret RErr)
            end) in
          if negb (ex k) then
            if onlyx then Ret RErr
            else SetValues [(k, VList [])] (fun ok => if ok then continue else Ret RErr)
          else continue)) s in
    let '(m', r') :=
      match lview s d !! k with
      | Some LOther => (lview s d, RErr)
      | None => if onlyx then (lview s d, RErr) else (<[k := LList new]> (lview s d), RInt (zlen new))
      | Some (LList l) => (<[k := LList (if left then new ++ l else l ++ new)]> (lview s d), RInt (zlen l + zlen new))
      end in
    r = r' /\ lview s' d = m' /\ list_frame s s' d /\ (r = RErr -> same_view s s')).
  { intros onlyx _. cbn -[lview].
    view_cases s d k Hk.
    - use_get_values s d [k]. cbn -[lview]. read_list Hk. do_put1 s.
    - use_get_values s d [k]. cbn -[lview]. read_list Hk. finish_same.
    - destruct onlyx; cbn -[lview]; [finish_same|].
      destruct (set_values s d [(k, VList [])]) as [s1 ok1] eqn:Hs1.
      pose proof (put_one s s d k [] s1 ok1 Hm (same_view_refl s) Hs1) as (-> & Hlv1 & Hfr1).
      cbn -[lview].
      assert (Hm1 : st_maxmem s1 = 0) by (destruct Hfr1 as (_ & _ & _ & -> & _); done).
      use_get_values s1 d [k]. cbn -[lview].
      rewrite Hf by set_solver.
      assert (Hk1 : lview s1 d !! k = Some (LList [])) by (by rewrite Hlv1, lookup_insert).
      rewrite (live_classify_list _ _ _ _ Hk1). cbn -[lview].
      destruct (set_values s0 d _) as [s3 ok3] eqn:Hs3.
      pose proof (put_one s1 s0 d k _ s3 ok3 Hm1 Hview Hs3) as (-> & Hlv3 & Hfr3).
      cbn -[lview]. split; [|split; [|split; [|intros ?; discriminate]]].
      + f_equal; destruct left; rewrite ?app_nil_r; done.
      + rewrite Hlv3, Hlv1, insert_insert. destruct left; rewrite ?app_nil_r; done.
      + eapply list_frame_trans; eauto. intros k0. eapply set_values_no_delete; eauto. }
  destruct left; destruct Hc as [Hc|Hc]; rewrite Hc; cbn -[lview new].
  - apply (Hspec false). done.
  - apply (Hspec true). done.
  - apply (Hspec false). done.
  - apply (Hspec true). done.
Qed.

Lemma pop_refines argv c :
  argv = c :: tl argv -> (lower c = "lpop" \/ lower c = "rpop") -> refines1 handle_pop argv.
Proof.
  intros Hargv Hc s d Hm. unfold spec_list, handle_pop.
  assert (Hleft : eq_fold c "lpop" = String.eqb (lower c) "lpop") by done.
  argv_cases argv; try discriminate Hargv; injection Hargv as ->;
    unfold arg; cbn [nth length skipn Nat.ltb Nat.leb Nat.eqb orb negb];
    rewrite ?Hleft; (destruct Hc as [Hc|Hc]; rewrite Hc; cbn -[lview]); try finish_same.
  (* no count *)
  1,2: rewrite keys_exist_in by set_solver;
       destruct (lview s d !! a1) as [[l|]|] eqn:Hk; cbn -[lview];
       [ use_get_values s d [a1]; cbn -[lview]; read_list Hk
       | use_get_values s d [a1]; cbn -[lview]; read_list Hk; finish_same
       | finish_same ];
       (destruct l as [|x0 l0]; [cbn -[lview]; finish_same|]).
  - cbn -[lview]. do_put1 s.
  - change (take_side false (x0 :: l0)) with (Some (last (x0 :: l0) "", removelast (x0 :: l0))).
    cbn -[lview last removelast zfirstn zskipn zlen rev].
    assert (H1 : zfirstn (zlen (x0 :: l0) - 1) (x0 :: l0) = removelast (x0 :: l0)).
    { rewrite removelast_firstn_len. unfold zfirstn, zlen. f_equal. simpl length. lia. }
    assert (H2 : rev (zskipn (zlen (x0 :: l0) - 1) (x0 :: l0)) = [last (x0 :: l0) ""]).
    { unfold zskipn, zlen. replace (Z.to_nat (Z.of_nat (length (x0 :: l0)) - 1)) with (length (x0 :: l0) - 1)%nat by (simpl length; lia).
      rewrite (last_skipn _ "") by done. done. }
    rewrite H1, H2. cbn -[lview last removelast]. do_put1 s.
  (* with count *)
  - rewrite keys_exist_in by set_solver.
    destruct (lview s d !! a1) as [[l|]|] eqn:Hk; cbn -[lview];
       [ use_get_values s d [a1]; cbn -[lview]; read_list Hk
       | use_get_values s d [a1]; cbn -[lview]; read_list Hk; finish_same
       | finish_same ].
    destruct (parse_int a2) as [c0|]; cbn -[lview]; [|finish_same].
    destruct l as [|x0 l0]; [cbn -[lview]; finish_same|].
    set (l := x0 :: l0) in *.
    set (count := if zlen l <? Z.abs c0 then zlen l else Z.abs c0).
    assert (Hn : Z.to_nat count = Z.to_nat (Z.min (Z.abs c0) (zlen l))).
    { subst count. destruct (zlen l <? Z.abs c0) eqn:E; f_equal; lia. }
    cbn -[lview l zfirstn zskipn zlen rev count Z.min Z.abs].
    unfold zfirstn, zskipn. rewrite Hn. do_put1 s.
  - rewrite keys_exist_in by set_solver.
    destruct (lview s d !! a1) as [[l|]|] eqn:Hk; cbn -[lview];
       [ use_get_values s d [a1]; cbn -[lview]; read_list Hk
       | use_get_values s d [a1]; cbn -[lview]; read_list Hk; finish_same
       | finish_same ].
    destruct (parse_int a2) as [c0|]; cbn -[lview]; [|finish_same].
    destruct l as [|x0 l0]; [cbn -[lview]; finish_same|].
    set (l := x0 :: l0) in *.
    set (count := if zlen l <? Z.abs c0 then zlen l else Z.abs c0).
    assert (Hn : Z.to_nat (zlen l - count) = (length l - Z.to_nat (Z.min (Z.abs c0) (zlen l)))%nat).
    { subst count. unfold zlen. destruct (Z.of_nat (length l) <? Z.abs c0) eqn:E; lia. }
    cbn -[lview l zfirstn zskipn zlen rev count Z.min Z.abs].
    unfold zfirstn, zskipn. rewrite Hn. do_put1 s.
Qed.

(** * Any command word, any argument vector *)
Definition exec_list (d : Z) (argv : list string) (s : state) : state * reply :=
  match argv with
  | [] => (s, RErr)
  | c :: _ => match list_handler (lower c) with
              | Some h => run_seq d (h argv) s
              | None => (s, RErr)
              end
  end.

Ltac solve_with lem name :=
  match goal with
  | E : lower _ = name, Ha : _ :: _ = _ :: tl _, Hm : st_maxmem _ = 0 |- _ =>
      exact (lem _ _ Ha E _ _ Hm)
  end.
Ltac solve_with_or lem n1 n2 :=
  match goal with
  | E : lower _ = n1, Ha : _ :: _ = _ :: tl _, Hm : st_maxmem _ = 0 |- _ =>
      exact (lem _ _ Ha (or_introl E) _ _ Hm)
  | E : lower _ = n2, Ha : _ :: _ = _ :: tl _, Hm : st_maxmem _ = 0 |- _ =>
      exact (lem _ _ Ha (or_intror E) _ _ Hm)
  end.

Theorem list_step_refines argv s d :
  st_maxmem s = 0 ->
  let '(s', r) := exec_list d argv s in
  let '(m', r') := spec_list (lview s d) argv in
  r = r' /\ lview s' d = m' /\ list_frame s s' d /\ (r = RErr -> same_view s s').
Proof.
  intros Hm. destruct argv as [|c args]; [cbn -[lview]; finish_same|].
  unfold exec_list, list_handler.
  assert (Hargv : c :: args = c :: tl (c :: args)) by done.
  repeat match goal with
  | |- context [if String.eqb (lower c) ?name then _ else _] =>
      let E := fresh "E" in destruct (String.eqb (lower c) name) eqn:E;
      [apply String.eqb_eq in E|]
  | |- context [if String.eqb (lower c) ?n1 || String.eqb (lower c) ?n2 then _ else _] =>
      let E1 := fresh "E" in let E2 := fresh "E" in
      destruct (String.eqb (lower c) n1) eqn:E1; [apply String.eqb_eq in E1|];
      (destruct (String.eqb (lower c) n2) eqn:E2; [apply String.eqb_eq in E2|]); cbn [orb]
  end.
  all: try solve_with llen_refines "llen".
  all: try solve_with lindex_refines "lindex".
  all: try solve_with lrange_refines "lrange".
  all: try solve_with lset_refines "lset".
  all: try solve_with ltrim_refines "ltrim".
  all: try solve_with lrem_refines "lrem".
  all: try solve_with lmove_refines "lmove".
  all: try solve_with_or (push_refines true) "lpush" "lpushx".
  all: try solve_with_or (push_refines false) "rpush" "rpushx".
  all: try solve_with_or pop_refines "lpop" "rpop".
  (* not a list command: the reference refuses it too *)
  unfold spec_list.
  repeat match goal with H : String.eqb (lower c) _ = false |- _ => rewrite H; clear H end.
  cbn -[lview]. finish_same.
Qed.

(** * Whole scripts *)
Fixpoint run_list_cmds (d : Z) (cmds : list (list string)) (s : state) : state * list reply :=
  match cmds with
  | [] => (s, [])
  | c :: r => let '(s1, x) := exec_list d c s in
              let '(s2, xs) := run_list_cmds d r s1 in (s2, x :: xs)
  end.

Theorem list_script_refines cmds : forall s d,
  st_maxmem s = 0 ->
  let '(s', rs) := run_list_cmds d cmds s in
  let '(m', rs') := spec_list_run (lview s d) cmds in
  rs = rs' /\ lview s' d = m' /\ st_maxmem s' = 0.
Proof.
  induction cmds as [|c r IH]; intros s d Hm; cbn -[lview]; [done|].
  pose proof (list_step_refines c s d Hm) as H1.
  destruct (exec_list d c s) as [s1 x]. destruct (spec_list (lview s d) c) as [m1 x'].
  destruct H1 as (-> & Hlv & Hfr & _).
  assert (Hm1 : st_maxmem s1 = 0) by (destruct Hfr as (_ & _ & _ & -> & _); done).
  specialize (IH s1 d Hm1). rewrite Hlv in IH.
  destruct (run_list_cmds d r s1) as [s2 xs]. destruct (spec_list_run m1 r) as [m2 xs'].
  destruct IH as (-> & ? & ?). done.
Qed.

(** A list command that fails changes nothing a client can observe, in any database. *)
Corollary list_error_changes_nothing argv s d :
  st_maxmem s = 0 -> snd (exec_list d argv s) = RErr -> same_view s (fst (exec_list d argv s)).
Proof.
  intros Hm. pose proof (list_step_refines argv s d Hm) as H.
  destruct (exec_list d argv s) as [s' r]. destruct (spec_list (lview s d) argv) as [m' r'].
  simpl. intros Hr. destruct H as (_ & _ & _ & H). by apply H.
Qed.

(** A list command never touches another database, and inside its own an entry is untouched, is
    a list that kept its deadline, or has been removed. *)
Corollary list_step_frame argv s d :
  st_maxmem s = 0 -> list_frame s (fst (exec_list d argv s)) d.
Proof.
  intros Hm. pose proof (list_step_refines argv s d Hm) as H.
  destruct (exec_list d argv s) as [s' r]. destruct (spec_list (lview s d) argv) as [m' r'].
  simpl. by destruct H as (_ & _ & H & _).
Qed.
