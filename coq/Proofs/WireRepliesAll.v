(** C12, reply well-formedness for ALL handlers.

    [typed_leaves p]: every reply at a [Ret] leaf of program [p] — whatever the primitives return to the
    continuations, hence from every state — is built from the typed constructors and its simple strings
    contain no CR / LF ([reply_ok]).  It is the predicate [leaves rok] of [Proofs/WireReplies.v] (inductive over
    [prog], like [readonly] / [nosx] / [tfree]).  It was proved there for the list and string modules; here it is
    proved for every handler of [hash_handler], [set_handler pick] (any selection function), [zset_handler] and
    [generic_handler], for all argument vectors — so for every command word of [handler_of] — and the
    hypothesis of [reply_wellformed_partial] is discharged: [reply_wellformed].

    Replies that carry stored data are bulk strings everywhere (the only [RSimple] payloads are the literals
    OK, PONG and the seven type names of TYPE; the Go handlers agree: the only [+%v] / [+%s] replies in the
    four modules carry a type name, an integer, or a float printed by strconv).

    Floats.  [RFloat f] is rendered by [reply_value] as a bulk string of the model's canonical text; the Go
    handlers print [strconv.FormatFloat(f, 'f', -1, 64)] and send it either as [$len text] or as [+text].
    Section [FloatText] restates the frame theorem and the final theorem for ANY text function and ANY choice
    simple / bulk per float, under the one hypothesis that the text contains neither CR nor LF (the alphabet of
    FormatFloat is [0-9 + - . e E I n f N a]). *)
From stdpp Require Import gmap strings.
From EV Require Import Base.Str Model.Value Model.Adapt Model.Keyspace Model.Reply Model.Prog Model.Dispatch Model.RespWire.
From EV Require Import Model.CmdList Model.CmdGeneric Model.CmdString.
From EV Require Import Model.HashVal Model.CmdHash Model.CmdSet Model.ZSetOps Model.ZSetMulti Model.CmdZSet.
From EV Require Import Model.CmdZRand Model.CmdKeyspace.
From EV Require Import Proofs.RespWireProofs Proofs.WireProofs Proofs.WireReplies.
Local Open Scope Z_scope.

Definition typed_leaves (p : prog reply) : Prop := leaves rok p.

(** * Replies *)
Lemma rok_arr l : Forall rok l -> rok (RArr l).
Proof.
  unfold rok. cbn [reply_ok]. induction 1 as [|x l Hx _ IH]; [done|]. cbn [forallb]. by rewrite Hx, IH.
Qed.
Lemma rok_arr_map {A} (f : A -> reply) l : (forall x, rok (f x)) -> rok (RArr (map f l)).
Proof. intros H. apply rok_arr. induction l; constructor; auto. Qed.

Lemma rok_val_reply x : rok (val_reply x).
Proof. by destruct x. Qed.
Lemma rok_field_reply o : rok (field_reply o).
Proof. destruct o as [x|]; [apply rok_val_reply|done]. Qed.
Lemma rok_strlen_reply o : rok (strlen_reply o).
Proof. by destruct o. Qed.
Lemma rok_hvals h : rok (hvals_reply h).
Proof. apply rok_arr_map. intros; apply rok_field_reply. Qed.
Lemma rok_with_vals h wv fs : rok (RArr (with_vals h wv fs)).
Proof.
  apply rok_arr. unfold with_vals. induction fs as [|f fs IH]; [constructor|]. cbn [flat_map].
  constructor; [done|]. destruct wv; cbn [app]; [constructor; [apply rok_field_reply|]|]; exact IH.
Qed.
Lemma rok_hgetall h : rok (hgetall_reply h).
Proof. apply rok_with_vals. Qed.
Lemma rok_hkeys h : rok (hkeys_reply h).
Proof. apply rok_bulks. Qed.
Lemma rok_members s : rok (members_reply s).
Proof. apply rok_bulks. Qed.
Lemma rok_item ws p : rok (item_reply ws p).
Proof. by destruct ws. Qed.
Lemma rok_items ws l : rok (items_reply ws l).
Proof. apply rok_arr_map. intros; apply rok_item. Qed.
Lemma rok_encode_value o : rok (encode_value o).
Proof. destruct o as [[|[s|z|f]| | | | ]|]; try done. simpl. by destruct (fl_text f). Qed.
Lemma rok_type_name v : rok (type_name v).
Proof. by destruct v as [|[| |]| | | |]. Qed.

Global Hint Resolve rok_bulks rok_val_reply rok_field_reply rok_strlen_reply rok_hvals rok_with_vals rok_hgetall
  rok_hkeys rok_members rok_item rok_items rok_encode_value rok_type_name : rok.

(** What is left of a handler after [lv]: replies whose head constructor is not syntactically known. *)
Ltac rk :=
  try assumption;
  try (apply lv_ret);
  first [ assumption
        | solve [auto with rok]
        | apply rok_arr_map; intros; solve [auto with rok | repeat case_match; done]
        | solve [unfold rok; cbn [reply_ok]; repeat case_match; done] ].
Ltac chain :=
  repeat match goal with |- context [if ?b then _ else _] => destruct b end; intros [= <-].

(** * Hash module *)
Lemma lv_hash name h argv : hash_handler name = Some h -> typed_leaves (h argv).
Proof.
  unfold hash_handler, typed_leaves. chain;
    unfold handle_hset, handle_hget, handle_hstrlen, handle_hvals, handle_hrandfield, handle_hlen,
      handle_hkeys, handle_hincrby, handle_hgetall, handle_hexists, handle_hdel, hash_reader; lv; fin; rk.
Qed.

(** * Set module, for every selection function *)
Lemma lv_read_sets_skip ks : forall (k : list (gset string) -> prog reply),
  (forall l, leaves rok (k l)) -> leaves rok (read_sets_skip ks k).
Proof.
  induction ks as [|key r IH]; intros k Hk; simpl; [apply Hk|].
  constructor; intros vals. destruct (as_set (vals key)); apply IH; intros; apply Hk.
Qed.
Lemma lv_existing_sets ex ks : forall (k : scan_result -> prog reply),
  (forall x, leaves rok (k x)) -> leaves rok (existing_sets ex ks k).
Proof.
  induction ks as [|key r IH]; intros k Hk; simpl; [apply Hk|].
  destruct (negb (ex key)); [apply IH; intros; apply Hk|].
  constructor; intros vals. destruct (as_set (vals key)); [apply IH; intros; apply Hk|apply Hk].
Qed.

Lemma lv_set pick name h argv : set_handler pick name = Some h -> typed_leaves (h argv).
Proof.
  unfold set_handler, typed_leaves. chain;
    unfold handle_sadd, handle_scard, handle_sdiff, handle_sdiffstore, handle_sinter, handle_sintercard,
      handle_sinterstore, handle_sismember, handle_smembers, handle_smismember, handle_smove, handle_spop,
      handle_srandmember, handle_srem, handle_sunion, handle_sunionstore, WriteBack.
  all: repeat first [ progress lv | progress intros | apply lv_read_sets_skip | apply lv_existing_sets ]; fin; rk.
Qed.

(** * Sorted-set module *)
Definition act_ok (a : zact) : Prop := match a with ZRet r => rok r | ZPut _ r => rok r end.
Definition body_ok (d : zdecoded) : Prop :=
  match zd_body d with None => True | Some (a, p) => act_ok a /\ forall z, act_ok (p z) end.
Definition mbody_ok (d : zmdecoded) : Prop :=
  match zm_body d with None => True | Some f => forall seen, rok (snd (f seen)) end.

Lemma lv_run_act k a : act_ok a -> leaves rok (run_act k a).
Proof.
  destruct a as [r|z r]; simpl; intros H; [by apply lv_ret|].
  destruct (is_err r); [by apply lv_ret|]. constructor; intros [|]; by apply lv_ret.
Qed.
Lemma lv_run_single d : body_ok d -> leaves rok (run_single d).
Proof.
  unfold body_ok, run_single. intros H. constructor; intros ex.
  destruct (zd_body d) as [[a p]|]; [|by apply lv_ret]. destruct H as [Ha Hp].
  destruct (negb (ex (zd_rkey d))); [by apply lv_run_act|].
  constructor; intros vals. destruct (as_zset _); [apply lv_run_act, Hp|by apply lv_ret].
Qed.
Lemma lv_run_multi d : mbody_ok d -> leaves rok (run_multi d).
Proof.
  unfold mbody_ok, run_multi. intros H. constructor; intros ex.
  destruct (zm_body d) as [f|]; [|by apply lv_ret]. constructor; intros vals. cbv zeta.
  set (seen := map _ (zm_keys d)). specialize (H seen). apply lv_run_act.
  destruct (f seen) as [[[k z]|] r]; exact H.
Qed.
Lemma lv_run_single_dec dec argv :
  (forall d, dec argv = Some d -> body_ok d) -> leaves rok (run_zset (single dec) argv).
Proof.
  intros H. unfold run_zset, single. destruct (dec argv) as [d|]; simpl; [|by apply lv_ret].
  apply lv_run_single. by apply H.
Qed.
Lemma lv_run_multi_dec dec argv :
  (forall d, dec argv = Some d -> mbody_ok d) -> leaves rok (run_zset (multi dec) argv).
Proof.
  intros H. unfold run_zset, multi. destruct (dec argv) as [d|]; simpl; [|by apply lv_ret].
  apply lv_run_multi. by apply H.
Qed.

Lemma ok_zadd_act strict o pairs ex z : act_ok (zadd_act strict o pairs ex z).
Proof.
  unfold zadd_act. destruct (zadd_all _ _ _) as [[[z' a] u]|]; [|done].
  destruct (o_incr o); [destruct (z' !! _)|]; by destruct (ex || _).
Qed.
Lemma ok_remove_selected sel z : act_ok (remove_selected sel z).
Proof. done. Qed.

(** Opening a single-key decoder: the arity test, then the body. *)
Ltac open_single :=
  intros d;
  match goal with |- ?f = Some d -> _ => try unfold decode_zadd, decode_zcard, decode_zscore, decode_zmscore,
    decode_zrem, decode_zincrby, decode_zcount, decode_zrank, decode_zpop, decode_zrange, decode_zrangestore,
    decode_zlexcount, decode_zremrangebyscore, decode_zremrangebylex, decode_zremrangebyrank end;
  cbv zeta;
  match goal with |- (if ?b then None else _) = Some d -> _ => destruct b; intros [= <-] end;
  unfold body_ok; cbn [zd_body].
Ltac inner_destruct :=
  match goal with
  | |- context [match ?x with _ => _ end] =>
      lazymatch x with context [match _ with _ => _ end] => fail | _ => destruct x end
  end.
Ltac aok :=
  intros; cbv zeta; repeat inner_destruct; unfold act_ok;
  first [done | apply rok_items | apply rok_arr_map; intros; repeat inner_destruct; done].

Lemma ok_zadd strict argv d : decode_zadd strict argv = Some d -> body_ok d.
Proof.
  revert d. open_single. destruct (parse_zadd argv) as [[o pairs]|]; [|done].
  split; [|intros z]; apply ok_zadd_act.
Qed.
Lemma ok_zcard argv d : decode_zcard argv = Some d -> body_ok d.
Proof. revert d. open_single. split; aok. Qed.
Lemma ok_zscore argv d : decode_zscore argv = Some d -> body_ok d.
Proof. revert d. open_single. split; aok. Qed.
Lemma ok_zmscore argv d : decode_zmscore argv = Some d -> body_ok d.
Proof. revert d. open_single. split; aok. Qed.
Lemma ok_zrem argv d : decode_zrem argv = Some d -> body_ok d.
Proof. revert d. open_single. split; aok. Qed.
Lemma ok_zincrby argv d : decode_zincrby argv = Some d -> body_ok d.
Proof. revert d. open_single. destruct (zadd_score _); [|done]. split; aok. Qed.
Lemma ok_zcount argv d : decode_zcount argv = Some d -> body_ok d.
Proof. revert d. open_single. destruct (zcount_min _); [|done]. destruct (zcount_max _); [|done]. split; aok. Qed.
Lemma ok_zrank argv d : decode_zrank argv = Some d -> body_ok d.
Proof. revert d. open_single. split; aok. Qed.
Lemma ok_zpop argv d : decode_zpop argv = Some d -> body_ok d.
Proof.
  revert d. open_single.
  match goal with |- match (match ?c with _ => _ end) with _ => _ end => destruct c end; [|done]. split; aok.
Qed.
Lemma ok_zrange strict argv d : decode_zrange strict argv = Some d -> body_ok d.
Proof. revert d. open_single. destruct (parse_zrange _ _ _); [|done]. split; aok. Qed.
Lemma ok_zrangestore strict argv d : decode_zrangestore strict argv = Some d -> body_ok d.
Proof. revert d. open_single. destruct (parse_zrange _ _ _); [|done]. split; aok. Qed.
Lemma ok_zlexcount argv d : decode_zlexcount argv = Some d -> body_ok d.
Proof. revert d. open_single. split; aok. Qed.
Lemma ok_zremrangebyscore argv d : decode_zremrangebyscore argv = Some d -> body_ok d.
Proof.
  revert d. open_single. destruct (float64_score _); [|done]. destruct (float64_score _); [|done]. split; aok.
Qed.
Lemma ok_zremrangebylex argv d : decode_zremrangebylex argv = Some d -> body_ok d.
Proof. revert d. open_single. split; aok. Qed.
Lemma ok_zremrangebyrank argv d : decode_zremrangebyrank argv = Some d -> body_ok d.
Proof.
  revert d. open_single. destruct (parse_int _); [|done]. destruct (parse_int _); [|done]. split; aok.
Qed.

Ltac open_multi :=
  intros d; cbv zeta;
  match goal with |- (if ?b then None else _) = Some d -> _ => destruct b; intros [= <-] end;
  unfold mbody_ok; cbn [zm_body].

Lemma ok_zinter store argv d : decode_zinter store argv = Some d -> mbody_ok d.
Proof.
  revert d. unfold decode_zinter. open_multi.
  destruct (extract_kwa _) as [[[[ks ws] ag] wsc]|]; [|done]. intros vals.
  destruct (operands true vals ws) as [[l|]|]; destruct store; cbn [snd]; try done. apply rok_items.
Qed.
Lemma ok_zunion strict store argv d : decode_zunion strict store argv = Some d -> mbody_ok d.
Proof.
  revert d. unfold decode_zunion. open_multi.
  destruct (extract_kwa _) as [[[[ks ws] ag] wsc]|]; [|done]. intros vals.
  destruct (operands false vals ws) as [[l|]|]; destruct store; cbn [snd]; try done. apply rok_items.
Qed.
Lemma ok_zdiff store argv d : decode_zdiff store argv = Some d -> mbody_ok d.
Proof.
  revert d. unfold decode_zdiff. open_multi.
  match goal with |- match (match ?c with _ => _ end) with _ => _ end => destruct c as [[|[|n]]|] end; try done.
  all: intros vals; destruct vals as [|[[z|]|] others]; try (destruct store; done).
  all: destruct (operands false others _) as [[l|]|]; destruct store; cbn [snd]; try done; apply rok_items.
Qed.
Lemma rok_zmpop_scan strict maxp n kvs : rok (snd (zmpop_scan strict maxp n kvs)).
Proof.
  induction kvs as [|[k v] r IH]; [done|]. cbn [zmpop_scan].
  destruct v as [[z|]|]; [|destruct strict; [done|exact IH]|exact IH].
  destruct (0 <? zcard z); [|exact IH]. destruct (zpop maxp n z) as [popped z']. apply rok_items.
Qed.
Lemma ok_zmpop strict argv d : decode_zmpop strict argv = Some d -> mbody_ok d.
Proof.
  revert d. intros d. unfold decode_zmpop. destruct (length argv <? 2)%nat; [done|].
  match goal with |- match ?c with _ => _ end = _ -> _ => destruct c as [keys|] end; [|done].
  intros [= <-]. unfold mbody_ok; cbn [zm_body].
  match goal with |- match (match ?c with _ => _ end) with _ => _ end => destruct c as [n|] end; [|done].
  intros vals. apply rok_zmpop_scan.
Qed.

Lemma lv_zset name h argv : zset_handler name = Some h -> typed_leaves (h argv).
Proof.
  unfold zset_handler, typed_leaves. chain;
    unfold handle_zadd, handle_zcard, handle_zscore, handle_zmscore, handle_zrem, handle_zincrby, handle_zcount,
      handle_zrank, handle_zpop, handle_zrange, handle_zrangestore, handle_zlexcount, handle_zremrangebyscore,
      handle_zremrangebylex, handle_zremrangebyrank, handle_zinter, handle_zinterstore, handle_zunion,
      handle_zunionstore, handle_zdiff, handle_zdiffstore, handle_zmpop.
  all: first [ apply lv_run_single_dec | apply lv_run_multi_dec ]; intros d.
  all: first [ apply ok_zadd | apply ok_zcard | apply ok_zscore | apply ok_zmscore | apply ok_zrem | apply ok_zincrby
             | apply ok_zcount | apply ok_zrank | apply ok_zpop | apply ok_zrange | apply ok_zrangestore
             | apply ok_zlexcount | apply ok_zremrangebyscore | apply ok_zremrangebylex | apply ok_zremrangebyrank
             | apply ok_zinter | apply ok_zunion | apply ok_zdiff | apply ok_zmpop ].
Qed.

(** ZRANDMEMBER, any selection function. *)
Lemma ok_zrandmember pick argv d : decode_zrandmember pick argv = Some d -> body_ok d.
Proof.
  revert d. intros d. unfold decode_zrandmember. cbv zeta.
  destruct (_ || _); intros [= <-]. unfold body_ok; cbn [zd_body].
  destruct (zrand_count argv); [|done]. destruct (_ && _); [done|]. split; [done|]. intros zz. apply rok_items.
Qed.
Lemma lv_zrand pick name h argv : zrand_handler pick name = Some h -> typed_leaves (h argv).
Proof.
  unfold zrand_handler, typed_leaves. destruct (String.eqb _ _); [|done]. intros [= <-].
  unfold handle_zrandmember. apply lv_run_single_dec. intros d. apply ok_zrandmember.
Qed.

(** RANDOMKEY (any random source), TOUCH, OBJECTFREQ, OBJECTIDLETIME. *)
Lemma lv_keyspace cands name h argv : keyspace_handler cands name = Some h -> typed_leaves (h argv).
Proof.
  unfold keyspace_handler, typed_leaves. chain;
    unfold handle_randomkey, handle_touch, handle_objfreq, handle_objidletime; lv; fin.
Qed.

(** * Generic module *)
Lemma lv_del_keys ks ex : forall n, leaves rok (del_keys ks ex n).
Proof.
  induction ks as [|k r IH]; intros n; simpl; [by apply lv_ret|].
  destruct (ex k); [constructor|]; apply IH.
Qed.
Lemma lv_expire_with_option key t opt cur : leaves rok (expire_with_option key t opt cur).
Proof. unfold expire_with_option. lv; fin. Qed.
Lemma lv_counter_step key delta : leaves rok (counter_step key delta).
Proof. unfold counter_step. lv; fin. Qed.

Lemma lv_set_cmd argv : leaves rok (handle_set argv).
Proof.
  unfold handle_set. destruct (_ || _); [by apply lv_ret|]. constructor; intros ex. constructor; intros now.
  destruct (parse_set_opts _ _ _ _) as [o|]; [|by apply lv_ret]. cbv zeta.
  assert (Hag : forall res, rok res -> leaves rok (
    if String.eqb (so_exists o) "XX" && negb (ex (Prog.arg argv 1)) then Ret RErr
    else if String.eqb (so_exists o) "NX" && ex (Prog.arg argv 1) then Ret RErr
    else SetValues [(Prog.arg argv 1, VScal (adapt_value (Prog.arg argv 2)))] (fun ok =>
         if negb ok then Ret RErr else
         match so_expire o with
         | Some t => SetExpiry (Prog.arg argv 1) (Some t) false (Ret res)
         | None => Ret res
         end))).
  { intros res Hres. lv; fin; exact Hres. }
  destruct (so_get o); [|by apply Hag].
  destruct (negb (ex (Prog.arg argv 1))) eqn:Eex; [by apply Hag|]. constructor; intros vals.
  pose proof (rok_encode_value (vals (Prog.arg argv 1))) as Hr.
  destruct (encode_value (vals (Prog.arg argv 1))); try (by apply Hag). by apply lv_ret.
Qed.
Lemma lv_getdel argv : leaves rok (handle_getdel argv).
Proof.
  unfold handle_getdel. destruct (negb _); [by apply lv_ret|]. constructor; intros ex.
  destruct (negb _); [by apply lv_ret|]. constructor; intros vals.
  pose proof (rok_encode_value (vals (Prog.arg argv 1))) as Hr.
  destruct (encode_value (vals (Prog.arg argv 1))); lv; fin; rk.
Qed.
Lemma lv_getex argv : leaves rok (handle_getex argv).
Proof.
  unfold handle_getex. destruct (_ || _); [by apply lv_ret|]. constructor; intros ex.
  destruct (negb _); [by apply lv_ret|]. constructor; intros vals.
  pose proof (rok_encode_value (vals (Prog.arg argv 1))) as Hr.
  destruct (encode_value (vals (Prog.arg argv 1))); lv; fin; rk.
Qed.
Lemma lv_mget argv : leaves rok (handle_mget argv).
Proof.
  unfold handle_mget. lv; fin. apply rok_arr_map. intros k.
  pose proof (rok_encode_value (x k)) as Hr. by destruct (encode_value (x k)).
Qed.
Lemma lv_incrbyfloat argv : leaves rok (handle_incrbyfloat argv).
Proof. unfold handle_incrbyfloat. lv; fin. Qed.

Lemma lv_generic name h argv : generic_handler name = Some h -> typed_leaves (h argv).
Proof.
  unfold generic_handler, typed_leaves. chain.
  - apply lv_set_cmd.
  - unfold handle_mset; lv; fin.
  - unfold handle_get; lv; fin; rk.
  - apply lv_mget.
  - unfold handle_del; lv; fin; intros; apply lv_del_keys.
  - unfold handle_persist; lv; fin.
  - unfold handle_expiretime; lv; fin.
  - unfold handle_ttl; lv; fin.
  - unfold handle_expire, handle_expire_gen; lv; fin; intros; apply lv_expire_with_option.
  - unfold handle_expireat, handle_expire_gen; lv; fin; intros; apply lv_expire_with_option.
  - unfold handle_incr; lv; fin; intros; apply lv_counter_step.
  - unfold handle_decr; lv; fin; intros; apply lv_counter_step.
  - unfold handle_incrby; lv; fin; intros; apply lv_counter_step.
  - unfold handle_decrby; lv; fin; intros; apply lv_counter_step.
  - apply lv_incrbyfloat.
  - unfold handle_rename; lv; fin.
  - unfold handle_flush; lv; fin.
  - apply lv_getdel.
  - apply lv_getex.
  - unfold handle_type; lv; fin; rk.
Qed.

(** * Every command word of [handler_of] *)
Theorem handler_typed_leaves name h argv : handler_of name = Some h -> typed_leaves (h argv).
Proof.
  unfold handler_of, first_some. cbn [fold_right].
  destruct (list_handler name) as [h1|] eqn:E1; [intros [= <-]; by eapply lv_list|].
  destruct (hash_handler name) as [h2|] eqn:E2; [intros [= <-]; by eapply lv_hash|].
  destruct (set_handler default_pick name) as [h3|] eqn:E3; [intros [= <-]; by eapply lv_set|].
  destruct (zset_handler name) as [h4|] eqn:E4; [intros [= <-]; by eapply lv_zset|].
  destruct (generic_handler name) as [h5|] eqn:E5; [intros [= <-]; by eapply lv_generic|].
  destruct (string_handler name) as [h6|] eqn:E6; [intros [= <-]; by eapply lv_string|].
  destruct (zrand_handler default_zpick name) as [h7|] eqn:E7; [intros [= <-]; by eapply lv_zrand|].
  destruct (keyspace_handler default_keysource name) as [h8|] eqn:E8; [intros [= <-]; by eapply lv_keyspace|]. done.
Qed.

(** Every reply a handler can return, from any state, in any database, for any argument vector. *)
Theorem handler_reply_ok name h argv d s : handler_of name = Some h -> rok (snd (run_seq d (h argv) s)).
Proof. intros H. apply (leaves_run rok). by eapply handler_typed_leaves. Qed.

(** [reply_wellformed]: for every world, connection, argument vector (any command word, known or not, any
    arity, any bytes) and whatever follows on the wire, the reply of [wire_exec] is exactly one strict-RESP
    value — the one [reply_value] names, so a bulk string carries its bytes intact — and the rest is untouched. *)
Theorem reply_wellformed w c argv rest :
  let r := reply_of (snd (wire_exec w c argv)) in
  decode_strict (reply_bytes r +:+ rest) = DOk (reply_value r) rest.
Proof. apply reply_wellformed_partial. intros name h. apply handler_typed_leaves. Qed.

(** The same for a handler run directly (the embedded API, the AOF / raft replay), any selection function
    for the random set commands and ZRANDMEMBER, any random source for RANDOMKEY. *)
Theorem handler_reply_wellformed pick zpick cands name h argv d s rest :
  first_some [list_handler name; hash_handler name; set_handler pick name; zset_handler name;
              generic_handler name; string_handler name;
              zrand_handler zpick name; keyspace_handler cands name] = Some h ->
  let r := snd (run_seq d (h argv) s) in
  decode_strict (reply_bytes r +:+ rest) = DOk (reply_value r) rest.
Proof.
  intros H r. apply reply_frame. apply (leaves_run rok). revert H. unfold first_some. cbn [fold_right].
  destruct (list_handler name) as [h1|] eqn:E1; [intros [= <-]; by eapply lv_list|].
  destruct (hash_handler name) as [h2|] eqn:E2; [intros [= <-]; by eapply lv_hash|].
  destruct (set_handler pick name) as [h3|] eqn:E3; [intros [= <-]; by eapply lv_set|].
  destruct (zset_handler name) as [h4|] eqn:E4; [intros [= <-]; by eapply lv_zset|].
  destruct (generic_handler name) as [h5|] eqn:E5; [intros [= <-]; by eapply lv_generic|].
  destruct (string_handler name) as [h6|] eqn:E6; [intros [= <-]; by eapply lv_string|].
  destruct (zrand_handler zpick name) as [h7|] eqn:E7; [intros [= <-]; by eapply lv_zrand|].
  destruct (keyspace_handler cands name) as [h8|] eqn:E8; [intros [= <-]; by eapply lv_keyspace|]. done.
Qed.

(** * Floats as Go prints them *)
Section FloatText.
  (** [ftext]: the text the server prints for a float; [fsimple f]: whether the handler sends it as [+text]
      (ZSCORE, ZINCRBY, HINCRBYFLOAT ...) or as a bulk string.  The one assumption: the text is a line. *)
  Variable ftext : fl -> string.
  Variable fsimple : fl -> bool.
  Hypothesis ftext_line : forall f, no_crlf (ftext f) = true.

  Fixpoint reply_value_ft (r : reply) : rv :=
    match r with
    | RSimple s => WSimple s
    | RErr => WError err_line
    | RInt z => WInt z
    | RBulk s => WBulk s
    | RNil => WNullBulk
    | RNilArr => WNullArr
    | RArr l => WArr (map reply_value_ft l)
    | RFloat f => if fsimple f then WSimple (ftext f) else WBulk (ftext f)
    | RRaw s => WSimple s
    | REmpty => WSimple ""
    | RPanic => WError err_line
    end.
  Definition reply_bytes_ft (r : reply) : string := encode (reply_value_ft r).

  Lemma reply_value_ft_wf r : reply_ok r = true -> wf false (reply_value_ft r) = true.
  Proof.
    induction r as [s| |z|s| | |l IH|f|s| |] using reply_ind'; cbn [reply_ok reply_value_ft wf negb orb]; try done.
    - intros H. cbn [andb]. induction l as [|x l IHl]; [done|]. cbn [map forallb] in *.
      apply andb_prop in H as [Hx Hl]. inversion_clear IH as [|?? IHx IHl']. rewrite (IHx Hx). by apply IHl.
    - intros _. destruct (fsimple f); cbn [wf negb orb]; [apply ftext_line|done].
  Qed.

  Theorem reply_frame_ft r rest :
    reply_ok r = true -> decode_strict (reply_bytes_ft r +:+ rest) = DOk (reply_value_ft r) rest.
  Proof. intros H. apply encode_decode. by apply reply_value_ft_wf. Qed.

  Theorem reply_wellformed_ft w c argv rest :
    let r := reply_of (snd (wire_exec w c argv)) in
    decode_strict (reply_bytes_ft r +:+ rest) = DOk (reply_value_ft r) rest.
  Proof. intros r. apply reply_frame_ft. apply wire_exec_rok. intros name h. apply handler_typed_leaves. Qed.
End FloatText.
