(** C01 over time-lines: command sequences with clock advances in between.

    [KVProofs.kv_script_refines] is stated at one clock reading.  Here the clock moves between the commands (any
    non-negative amounts, at any positions): the reference map forgets the keys whose deadline has passed
    ([purge_kv]) when the clock moves, and the handlers — which never sweep, they only ignore and lazily delete
    what has expired — still give the reference's replies and the reference's live dataset. *)
From stdpp Require Import gmap strings.
From RecordUpdate Require Import RecordSet.
Import RecordSetNotations.
From EV Require Import Base.Str Model.Value Model.Keyspace Model.Reply Model.Prog.
From EV Require Import Model.CmdGeneric Model.CmdString Model.Dispatch.
From EV Require Import Spec.SpecKV Proofs.KeyspaceLemmas Proofs.ProgLemmas Proofs.KVProofs.
Local Open Scope Z_scope.

Inductive tev :=
| TCmd (argv : list string)
| TAdvance (dt : Z).

Definition advance (s : state) (dt : Z) : state := s <| st_now := st_now s + dt |>.

(** The reference forgets what has expired. *)
Definition purge_kv (now : Z) (m : kvspec) : kvspec :=
  omap (fun e => if expired now e then None else Some e) m.

Fixpoint run_kv_timeline (d : Z) (evs : list tev) (s : state) : state * list reply :=
  match evs with
  | [] => (s, [])
  | TCmd c :: r => let '(s1, x) := exec_kv d c s in
                   let '(s2, xs) := run_kv_timeline d r s1 in (s2, x :: xs)
  | TAdvance dt :: r => run_kv_timeline d r (advance s dt)
  end.

Fixpoint spec_kv_timeline (now : Z) (m : kvspec) (evs : list tev) : kvspec * list reply :=
  match evs with
  | [] => (m, [])
  | TCmd c :: r => let '(m1, x) := spec_kv now m c in
                   let '(m2, xs) := spec_kv_timeline now m1 r in (m2, x :: xs)
  | TAdvance dt :: r => spec_kv_timeline (now + dt) (purge_kv (now + dt) m) r
  end.

Definition nonneg_advances (evs : list tev) : Prop :=
  Forall (fun e => match e with TAdvance dt => 0 <= dt | _ => True end) evs.

Lemma expired_mono now now' e : now <= now' -> expired now e = true -> expired now' e = true.
Proof. unfold expired. destruct (e_dl e); [|done]. intros ? ?%Z.ltb_lt. apply Z.ltb_lt. lia. Qed.

(** The live view after the clock has moved on is the purged live view of before. *)
Lemma kview_advance s d dt : 0 <= dt -> kview (advance s dt) d = purge_kv (st_now s + dt) (kview s d).
Proof.
  intros Hdt. apply map_eq. intros k. unfold kview, purge_kv, advance. rewrite !lookup_omap. simpl.
  change (get_db (s <| st_now := st_now s + dt |>) d) with (get_db s d).
  destruct (get_db s d !! k) as [e|]; simpl; [|done].
  destruct (expired (st_now s) e) eqn:He; simpl.
  - by rewrite (expired_mono (st_now s) (st_now s + dt) e) by (done || lia).
  - done.
Qed.

Theorem kv_timeline_refines evs : forall s d,
  st_maxmem s = 0 -> nonneg_advances evs ->
  let '(s', rs) := run_kv_timeline d evs s in
  let '(m', rs') := spec_kv_timeline (st_now s) (kview s d) evs in
  rs = rs' /\ kview s' d = m' /\ st_maxmem s' = 0.
Proof.
  induction evs as [|[c|dt] r IH]; intros s d Hm Hnn; cbn -[kview]; [done| |].
  - apply Forall_cons_1 in Hnn as [_ Hnn].
    pose proof (kv_step_refines c s d Hm) as H1.
    destruct (exec_kv d c s) as [s1 x]. destruct (spec_kv (st_now s) (kview s d) c) as [m1 x'].
    destruct H1 as (-> & Hlv & Hn & Hmm & _).
    assert (Hm1 : st_maxmem s1 = 0) by congruence.
    specialize (IH s1 d Hm1 Hnn). rewrite Hlv, Hn in IH.
    destruct (run_kv_timeline d r s1) as [s2 xs]. destruct (spec_kv_timeline (st_now s) m1 r) as [m2 xs'].
    destruct IH as (-> & ? & ?). done.
  - apply Forall_cons_1 in Hnn as [Hdt Hnn].
    specialize (IH (advance s dt) d Hm Hnn). rewrite kview_advance in IH by done. exact IH.
Qed.

(** Served until the deadline, absent from the moment the clock passes it — stated on the reference, hence (by the
    theorem above) on the handlers: a key read with GET after any advance. *)
Lemma purge_kv_lookup now m k :
  purge_kv now m !! k = match m !! k with Some e => if expired now e then None else Some e | None => None end.
Proof. unfold purge_kv. rewrite lookup_omap. by destruct (m !! k). Qed.
