(** Facts about the interleaving semantics of [Model/Conc.v] that hold for every pool, whatever the
    threads lock: one step against run-to-completion, what a step leaves alone, mutual exclusion
    ([atomic_discipline]) and absence of deadlock. *)
From stdpp Require Import gmap strings.
From RecordUpdate Require Import RecordSet.
Import RecordSetNotations.
From EV Require Import Base.Str Model.Value Model.Keyspace Model.Reply Model.Prog Model.Conc.
From EV Require Import Proofs.KeyspaceLemmas Proofs.ProgLemmas.
Local Open Scope Z_scope.

(** * One primitive, then the rest = the whole *)
Lemma run_seq_step1 (d : Z) (p : prog reply) s :
  run_seq d p s = run_seq d (snd (step1 d p s)) (fst (step1 d p s)).
Proof.
  destruct p; cbn [step1 run_seq fst snd]; try done.
  - destruct (get_values s d ks); done.
  - destruct (set_values s d kvs); done.
Qed.

Lemma run_seq_skip_silent (d : Z) (p : prog reply) s : run_seq d (skip_silent d p s) s = run_seq d p s.
Proof. induction p; cbn [skip_silent run_seq]; auto. Qed.

Lemma rstep_inl a s s' a' : rstep a s = (s', inl a') -> rrun a' s' = rrun a s.
Proof.
  destruct a as [d p| |d ks]; cbn [rstep rrun]; [|discriminate..].
  pose proof (run_seq_step1 d p s) as H. destruct (step1 d p s) as [s1 p1]. cbn [fst snd] in H.
  pose proof (run_seq_skip_silent d p1 s1) as Hs.
  intros Heq. destruct (skip_silent d p1 s1); inversion Heq; subst; cbn [rrun]; by rewrite H, <- Hs.
Qed.

Lemma rstep_inr a s s' o : rstep a s = (s', inr o) -> rrun a s = (s', o).
Proof.
  destruct a as [d p| |d ks]; cbn [rstep rrun]; [|by intros [= <- <-]..].
  pose proof (run_seq_step1 d p s) as H. destruct (step1 d p s) as [s1 p1]. cbn [fst snd] in H.
  pose proof (run_seq_skip_silent d p1 s1) as Hs.
  intros Heq. destruct (skip_silent d p1 s1); inversion Heq; subst. rewrite H, <- Hs. done.
Qed.

Lemma act_start_inl a s ra : act_start a s = inl ra -> rrun ra s = act_seq a s.
Proof.
  destruct a as [d p| |d pick]; cbn [act_start act_seq].
  - pose proof (run_seq_skip_silent d p s) as Hs.
    destruct (skip_silent d p s); intros [= <-]; cbn [rrun]; by rewrite Hs.
  - intros [= <-]. done.
  - destruct (pick (get_vol s d)) as [|k ks] eqn:E; [discriminate|]. intros [= <-]. done.
Qed.

Lemma act_start_inr a s o : act_start a s = inr o -> locks a = true -> act_seq a s = (s, o).
Proof.
  destruct a as [d p| |d pick]; cbn [act_start act_seq locks]; [|discriminate..].
  pose proof (run_seq_skip_silent d p s) as Hs.
  destruct (skip_silent d p s); try discriminate. intros [= <-] _. rewrite <- Hs. done.
Qed.

Lemma sweepc_is_sweep s d ks : sweepc s d ks = sweep s d ks.
Proof. done. Qed.

(** * What a step leaves alone *)
Definition pool_acts (P : pool) : gmap nat act := th_act <$> p_threads P.

Lemma set_thread_lookup P t th st t' :
  p_threads (set_thread P t th st) !! t' =
  if decide (t' = t) then Some (th <| th_st := st |>) else p_threads P !! t'.
Proof.
  unfold set_thread. cbn. destruct (decide (t' = t)) as [->|Hne].
  - by rewrite lookup_insert.
  - by rewrite lookup_insert_ne.
Qed.

(** Every successful step has this shape. *)
Lemma step_conc_shape P t P' :
  step_conc P t = Some P' ->
  exists th st', p_threads P !! t = Some th /\
    p_threads P' = <[t := th <| th_st := st' |>]> (p_threads P).
Proof.
  unfold step_conc. destruct (p_threads P !! t) as [th|] eqn:Ht; [|discriminate].
  destruct (th_st th) as [|a|o] eqn:Hst; [| |discriminate].
  - destruct (th_locked th && _); [discriminate|].
    destruct (act_start _ _); intros [= <-]; eexists _, _; split; done.
  - destruct (rstep a (p_store P)) as [s' [a'|o]]; intros [= <-]; eexists _, _; split; done.
Qed.

Lemma step_conc_static P t P' t' :
  step_conc P t = Some P' ->
  (th_locked <$> p_threads P' !! t') = (th_locked <$> p_threads P !! t') /\
  (th_act <$> p_threads P' !! t') = (th_act <$> p_threads P !! t').
Proof.
  intros H. destruct (step_conc_shape _ _ _ H) as (th & st' & Ht & ->).
  destruct (decide (t' = t)) as [->|Hne].
  - rewrite lookup_insert, Ht. done.
  - rewrite lookup_insert_ne by done. done.
Qed.

Lemma step_conc_acts P t P' : step_conc P t = Some P' -> pool_acts P' = pool_acts P.
Proof.
  intros H. apply map_eq. intros t'. unfold pool_acts. rewrite !lookup_fmap.
  apply (step_conc_static _ _ _ t' H).
Qed.

Lemma step_conc_lockedb P t P' t' : step_conc P t = Some P' -> lockedb P' t' = lockedb P t'.
Proof.
  intros H. destruct (step_conc_static _ _ _ t' H) as [H1 _]. unfold lockedb.
  destruct (p_threads P' !! t'), (p_threads P !! t'); cbn in H1; congruence.
Qed.

Lemma sched_step_acts P t : pool_acts (sched_step P t) = pool_acts P.
Proof.
  unfold sched_step. destruct (step_conc P t) eqn:E; [|done]. by eapply step_conc_acts.
Qed.

Lemma run_conc_acts sched : forall P, pool_acts (run_conc P sched) = pool_acts P.
Proof.
  induction sched as [|t r IH]; intros P; [done|]. cbn [run_conc fold_left]. fold (run_conc (sched_step P t) r). rewrite IH. apply sched_step_acts.
Qed.

(** * Mutual exclusion *)
(** The command lock is held by exactly the locked thread that is between two primitives: every
    primitive of a locked thread runs inside one critical section, from its first to its last. *)
Definition atomic_discipline (P : pool) : Prop :=
  (forall t, p_lock P = Some t ->
     exists th ra, p_threads P !! t = Some th /\ th_locked th = true /\ th_st th = Run ra) /\
  (forall t th ra, p_threads P !! t = Some th -> th_locked th = true -> th_st th = Run ra ->
     p_lock P = Some t).

Lemma init_pool_discipline acts s0 : atomic_discipline (init_pool acts s0).
Proof.
  split; [discriminate|]. intros t th ra Ht _ Hst. cbn in Ht. rewrite lookup_fmap in Ht.
  destruct (acts !! t) as [[l a]|]; [|discriminate]. cbn in Ht. injection Ht as <-. discriminate.
Qed.

Lemma step_conc_discipline P t P' :
  atomic_discipline P -> step_conc P t = Some P' -> atomic_discipline P'.
Proof.
  intros [H1 H2]. unfold step_conc. destruct (p_threads P !! t) as [th|] eqn:Ht; [|discriminate].
  destruct (th_st th) as [|a|o] eqn:Hst; [| |discriminate].
  - destruct (th_locked th) eqn:Hl; cbn [andb].
    + destruct (bool_decide (is_Some (p_lock P))) eqn:Hk; [discriminate|].
      apply bool_decide_eq_false in Hk. assert (p_lock P = None) as Hnone.
      { destruct (p_lock P); [exfalso; apply Hk; eauto|done]. }
      destruct (act_start _ _) as [ra|o]; intros [= <-]; split; cbn.
      * intros t' [= <-]. rewrite lookup_insert. eexists _, _. split; [done|]. cbn. done.
      * intros t' th' ra' Ht' Hl' Hst'. destruct (decide (t' = t)) as [->|Hne]; [done|].
        rewrite lookup_insert_ne in Ht' by done. rewrite (H2 _ _ _ Ht' Hl' Hst') in Hnone. done.
      * rewrite Hnone. discriminate.
      * intros t' th' ra' Ht' Hl' Hst'. destruct (decide (t' = t)) as [->|Hne].
        -- rewrite lookup_insert in Ht'. injection Ht' as <-. cbn in Hst'. discriminate.
        -- rewrite lookup_insert_ne in Ht' by done. eauto.
    + destruct (act_start _ _) as [ra|o]; intros [= <-]; split; cbn.
      * intros t' Hk. destruct (H1 _ Hk) as (th' & ra' & Ht' & Hl' & Hst').
        assert (t' <> t) by (intros ->; congruence). rewrite lookup_insert_ne by done. eauto.
      * intros t' th' ra' Ht' Hl' Hst'. destruct (decide (t' = t)) as [->|Hne].
        -- rewrite lookup_insert in Ht'. injection Ht' as <-. cbn in Hl'. congruence.
        -- rewrite lookup_insert_ne in Ht' by done. eauto.
      * intros t' Hk. destruct (H1 _ Hk) as (th' & ra' & Ht' & Hl' & Hst').
        assert (t' <> t) by (intros ->; congruence). rewrite lookup_insert_ne by done. eauto.
      * intros t' th' ra' Ht' Hl' Hst'. destruct (decide (t' = t)) as [->|Hne].
        -- rewrite lookup_insert in Ht'. injection Ht' as <-. cbn in Hst'. discriminate.
        -- rewrite lookup_insert_ne in Ht' by done. eauto.
  - destruct (rstep a (p_store P)) as [s' [a'|o]]; intros [= <-]; split; cbn.
    + intros t' Hk. destruct (H1 _ Hk) as (th' & ra' & Ht' & Hl' & Hst').
      destruct (decide (t' = t)) as [->|Hne].
      * rewrite lookup_insert. eexists _, _. split; [done|]. cbn. split; [congruence|done].
      * rewrite lookup_insert_ne by done. eauto.
    + intros t' th' ra' Ht' Hl' Hst'. destruct (decide (t' = t)) as [->|Hne].
      * rewrite lookup_insert in Ht'. injection Ht' as <-. cbn in Hl'. eauto.
      * rewrite lookup_insert_ne in Ht' by done. eauto.
    + destruct (th_locked th) eqn:Hl; [discriminate|].
      intros t' Hk. destruct (H1 _ Hk) as (th' & ra' & Ht' & Hl' & Hst').
      assert (t' <> t) by (intros ->; congruence). rewrite lookup_insert_ne by done. eauto.
    + intros t' th' ra' Ht' Hl' Hst'. destruct (decide (t' = t)) as [->|Hne].
      * rewrite lookup_insert in Ht'. injection Ht' as <-. cbn in Hst'. discriminate.
      * rewrite lookup_insert_ne in Ht' by done.
        pose proof (H2 _ _ _ Ht' Hl' Hst') as Hk. destruct (th_locked th) eqn:Hl; [|done].
        rewrite (H2 _ _ _ Ht Hl Hst) in Hk. congruence.
Qed.

Lemma run_conc_discipline sched : forall P, atomic_discipline P -> atomic_discipline (run_conc P sched).
Proof.
  induction sched as [|t r IH]; intros P H; [done|]. cbn [run_conc fold_left]. apply IH. unfold sched_step.
  destruct (step_conc P t) eqn:E; [|done]. by eapply step_conc_discipline.
Qed.

(** * No deadlock *)
Lemma all_doneb_spec P : all_doneb P = true <-> all_done P.
Proof.
  unfold all_doneb, all_done. rewrite forallb_forall. split.
  - intros H t th Ht. apply (H (t, th)). apply elem_of_list_In. by apply elem_of_map_to_list.
  - intros H [t th] Hin. apply elem_of_list_In, elem_of_map_to_list in Hin. cbn. eauto.
Qed.

Theorem no_deadlock P : atomic_discipline P -> all_done P \/ exists t, is_Some (step_conc P t).
Proof.
  intros [H1 H2].
  destruct (decide (map_Forall (fun (_ : nat) th => is_done th = true) (p_threads P))) as [Hall|Hnot];
    [left; exact Hall|right].
  destruct (p_lock P) as [t|] eqn:Hk.
  - destruct (H1 _ eq_refl) as (th & ra & Ht & Hl & Hst). exists t. unfold step_conc.
    rewrite Ht, Hst. destruct (rstep ra (p_store P)) as [s' [a'|o]]; eauto.
  - apply map_not_Forall in Hnot; [|apply _]. destruct Hnot as (t & th & Ht & Hd).
    exists t. unfold step_conc. rewrite Ht, Hk. unfold is_done in Hd.
    destruct (th_st th) as [|a|o]; [| |done].
    + rewrite bool_decide_eq_false_2 by (intros [? ?]; discriminate). rewrite andb_false_r.
      destruct (act_start _ _); eauto.
    + destruct (rstep a (p_store P)) as [s' [a'|o]]; eauto.
Qed.

(** * Threads keep their identity along a schedule *)
Lemma run_conc_static sched : forall P t',
  (th_locked <$> p_threads (run_conc P sched) !! t') = (th_locked <$> p_threads P !! t') /\
  (th_act <$> p_threads (run_conc P sched) !! t') = (th_act <$> p_threads P !! t').
Proof.
  induction sched as [|t r IH]; intros P t'; [done|]. cbn [run_conc fold_left].
  fold (run_conc (sched_step P t) r). destruct (IH (sched_step P t) t') as [-> ->].
  unfold sched_step. destruct (step_conc P t) eqn:E; [|done]. by eapply step_conc_static.
Qed.

Lemma init_pool_lookup acts s0 t :
  p_threads (init_pool acts s0) !! t =
  (fun '(l, a) => {| th_locked := l; th_act := a; th_st := Wait |}) <$> acts !! t.
Proof. cbn. by rewrite lookup_fmap. Qed.

Lemma pool_acts_init acts s0 : pool_acts (init_pool acts s0) = snd <$> acts.
Proof.
  apply map_eq. intros t. unfold pool_acts. rewrite !lookup_fmap, init_pool_lookup.
  destruct (acts !! t) as [[l a]|]; done.
Qed.

(** * The serial reference *)
Lemma serial_outs_notin acts l : forall st (t : nat),
  ~ In t l -> snd (fold_left (serial_step acts) l st) !! t = snd st !! t.
Proof.
  induction l as [|u r IH]; intros st t Hn; [done|]. cbn [fold_left]. rewrite IH by (intros ?; apply Hn; by right).
  unfold serial_step. destruct (acts !! u); [|done]. destruct (act_seq _ _). cbn [snd].
  rewrite lookup_insert_ne; [done|]. intros ->. apply Hn. by left.
Qed.

(** The outcome of a state copy in a serial run is the state at its position. *)
Lemma serial_copy acts pre post (t : nat) s0 :
  acts !! t = Some ACopy -> ~ In t post ->
  snd (run_serial acts (pre ++ t :: post) s0) !! t = Some (OSnap (fst (run_serial acts pre s0))).
Proof.
  intros Ha Hn. unfold run_serial. rewrite fold_left_app. cbn [fold_left].
  rewrite serial_outs_notin by done. unfold serial_step at 1. rewrite Ha. cbn. by rewrite lookup_insert.
Qed.
