(** C07: the decidable determinism check and its soundness, the cluster branch of handleCommand,
    database placement, and the table obligations over the regenerated command table. *)
From stdpp Require Import gmap strings.
From RecordUpdate Require Import RecordSet.
Import RecordSetNotations.
From EV Require Import Base.Str Model.Value Model.Adapt Model.Keyspace Model.Reply Model.Prog.
From EV Require Import Model.CmdList Model.CmdGeneric Model.CmdString Model.Dispatch Model.TableTypes.
From EV Require Import Model.HashVal Model.CmdHash Model.CmdSet Model.ZSetOps Model.ZSetMulti Model.CmdZSet.
From EV Require Import Model.AbsForm Model.Raft Proofs.KeyspaceLemmas Proofs.ProgLemmas Proofs.RaftLemmas Proofs.RaftDet Proofs.RaftClasses.
From EV Require Import Proofs.HandlerClasses Proofs.DispatchLemmas Proofs.TableObligations Gen.CmdTable.
Local Open Scope Z_scope.

(** * Every handler that is not one of the clock words is [tfree], whatever the random source *)
Lemma handler_for_unfold pk name :
  handler_for pk name =
  match list_handler name with Some h => Some h | None =>
  match hash_handler name with Some h => Some h | None =>
  match set_handler pk name with Some h => Some h | None =>
  match zset_handler name with Some h => Some h | None =>
  match generic_handler name with Some h => Some h | None =>
  match string_handler name with Some h => Some h | None =>
  match CmdZRand.zrand_handler CmdZRand.default_zpick name with Some h => Some h | None =>
  CmdKeyspace.keyspace_handler CmdKeyspace.default_keysource name end end end end end end end.
Proof.
  unfold handler_for, first_some. simpl.
  destruct (list_handler name), (hash_handler name), (set_handler pk name), (zset_handler name),
    (generic_handler name), (string_handler name), (CmdZRand.zrand_handler CmdZRand.default_zpick name),
    (CmdKeyspace.keyspace_handler CmdKeyspace.default_keysource name); reflexivity.
Qed.

Lemma tf_every_handler T pk name h argv :
  handler_for pk name = Some h -> smem name clock_words = false -> tfree T (h argv).
Proof.
  rewrite handler_for_unfold. intros Hh Hw.
  destruct (list_handler name) eqn:E1; [injection Hh as <-; by eapply tf_list|].
  destruct (hash_handler name) eqn:E2; [injection Hh as <-; by eapply tf_hash|].
  destruct (set_handler pk name) eqn:E3; [injection Hh as <-; by eapply tf_set|].
  destruct (zset_handler name) eqn:E4; [injection Hh as <-; by eapply tf_zset|].
  destruct (generic_handler name) eqn:E5; [injection Hh as <-; by eapply tf_generic|].
  destruct (string_handler name) eqn:E6; [injection Hh as <-; by eapply tf_string|].
  destruct (CmdZRand.zrand_handler CmdZRand.default_zpick name) eqn:E7; [injection Hh as <-; by eapply tf_zrand|].
  by eapply tf_keyspace.
Qed.

(** The random source only matters for SPOP and SRANDMEMBER. *)
Lemma set_handler_pick pk pk' name :
  name <> "spop" -> name <> "srandmember" -> set_handler pk name = set_handler pk' name.
Proof.
  intros H1 H2. unfold set_handler.
  repeat match goal with
  | |- context [if String.eqb name ?w then _ else _] =>
      let E := fresh "E" in destruct (String.eqb name w) eqn:E;
      [first [reflexivity | apply String.eqb_eq in E; congruence]|]
  end.
  reflexivity.
Qed.

Lemma handler_for_pick pk name :
  name <> "spop" -> name <> "srandmember" -> handler_for pk name = handler_for ref_pick name.
Proof. intros H1 H2. rewrite !handler_for_unfold. by rewrite (set_handler_pick pk ref_pick). Qed.

(** * The decidable check *)
(** ZRANDMEMBER and RANDOMKEY draw from the random source of the process like SPOP and SRANDMEMBER: they
    are refused too (they are read-category commands and are never replicated: [no_reader_syncs]). *)
Definition nondet_words : list string :=
  ["expire"; "pexpire"; "ttl"; "pttl"; "spop"; "srandmember"; "zrandmember"; "randomkey"].

Definition entry_det_b (T : Z) (e : request) : bool :=
  match e with
  | ReqCommand d (cmd :: rest) =>
      let name := lower cmd in
      let argv := cmd :: rest in
      if String.eqb name "set" then set_args_abs T (skipn 3 argv)
      else if String.eqb name "getex" then getex_abs T argv
      else if String.eqb name "expireat" || String.eqb name "pexpireat" then expireat_abs T argv
      else negb (smem name nondet_words)
  | _ => true
  end.

Lemma smem_false_neq name w l : smem name l = false -> In w l -> name <> w.
Proof.
  unfold smem. intros H Hin ->. apply not_true_iff_false in H. apply H.
  apply existsb_exists. exists w. split; [done|apply String.eqb_refl].
Qed.

Lemma entry_det_b_entry_det T e : entry_det_b T e = true -> entry_det T e.
Proof.
  intros Hb. destruct e as [d argv|d k|]; [|done..].
  destruct argv as [|cmd rest]; [done|]. simpl in Hb. cbv zeta in Hb. unfold entry_det.
  destruct (String.eqb (lower cmd) "set") eqn:Eset.
  { apply String.eqb_eq in Eset. rewrite Eset. split; [done|].
    intros h [= <-]. by apply tf_set_abs. }
  destruct (String.eqb (lower cmd) "getex") eqn:Egetex.
  { apply String.eqb_eq in Egetex. rewrite Egetex. split; [done|].
    intros h [= <-]. by apply tf_getex_abs. }
  destruct (String.eqb (lower cmd) "expireat") eqn:Eat.
  { apply String.eqb_eq in Eat. rewrite Eat. split; [done|].
    intros h [= <-]. by apply tf_expireat_abs. }
  destruct (String.eqb (lower cmd) "pexpireat") eqn:Epat.
  { apply String.eqb_eq in Epat. rewrite Epat. split; [done|].
    intros h [= <-]. by apply tf_expireat_abs. }
  simpl in Hb. apply negb_true_iff in Hb.
  assert (Hcw : smem (lower cmd) clock_words = false).
  { unfold smem, clock_words. simpl. rewrite Eset, Egetex, Eat, Epat. simpl.
    unfold smem, nondet_words in Hb. simpl in Hb.
    repeat (apply orb_false_iff in Hb as [? Hb]).
    repeat match goal with H : String.eqb _ _ = false |- _ => rewrite H; clear H end. done. }
  split.
  - intros pk. apply handler_for_pick; (eapply (smem_false_neq _ _ nondet_words); [exact Hb|unfold nondet_words; simpl; auto 10]).
  - intros h Hh. by eapply tf_every_handler.
Qed.

Theorem entry_det_b_sound T e : entry_det_b T e = true -> replica_det T e.
Proof. intros Hb. apply entry_det_sound. by apply entry_det_b_entry_det. Qed.

(** * The cluster branch of handleCommand *)
Theorem follower_never_applies sync pk n d cmd rest :
  n_leader n = false -> sync (lower cmd) = true ->
  let r := handle_command sync pk n d (cmd :: rest) in
  own_state_after n r = n_st n /\
  (r = HcUnknown \/ (n_forward n = true /\ r = HcForward d (cmd :: rest)) \/ (n_forward n = false /\ r = HcReject)).
Proof.
  intros Hl Hs. unfold handle_command. rewrite Hs, Hl. simpl.
  destruct (handler_for pk (lower cmd)); [|by split; [|left]].
  destruct (n_forward n); simpl; split; auto.
Qed.

(** A command that is not replicated never reaches the log, and runs on the node that received it. *)
Theorem non_sync_runs_locally sync pk n d cmd rest :
  sync (lower cmd) = false ->
  match handle_command sync pk n d (cmd :: rest) with
  | HcLocal _ _ | HcUnknown => True
  | _ => False
  end.
Proof.
  intros Hs. unfold handle_command. rewrite Hs. simpl.
  destruct (handler_for pk (lower cmd)); [|done]. by destruct (run_cl _ _ _).
Qed.

(** The leader: the entry proposed carries the client's database and the absolute form of the argument
    vector at the leader's clock ([Model/AbsForm.v]; the argument vector itself unless it holds a relative
    expiry: [absolute_form_other] in Proofs/AbsFormProofs.v); the state the
    leader answers reads from after the acknowledgement is the state after applying that entry. *)
Theorem leader_proposes sync pk n d cmd rest h :
  n_leader n = true -> sync (lower cmd) = true -> handler_for pk (lower cmd) = Some h ->
  handle_command sync pk n d (cmd :: rest) = HcPropose (ReqCommand d (absolute_form (st_now (n_st n)) (cmd :: rest))).
Proof. intros Hl Hs Hh. unfold handle_command. by rewrite Hh, Hs, Hl. Qed.

Theorem read_after_ack pk n e :
  n_st (fst (leader_write pk n e)) = fst (fsm_apply pk (n_st n) e)
  /\ snd (leader_write pk n e) = snd (fsm_apply pk (n_st n) e).
Proof. unfold leader_write. by destruct (fsm_apply pk (n_st n) e). Qed.

(** A forwarded mutation reaches the log with the database it was issued in. *)
Theorem forwarded_keeps_database sync pk f l d cmd rest :
  n_leader f = false -> n_forward f = true -> n_leader l = true ->
  handle_command sync pk f d (cmd :: rest) = HcForward d (cmd :: rest) ->
  notify_mutate l d (cmd :: rest) = Some (ReqCommand d (absolute_form (st_now (n_st l)) (cmd :: rest))).
Proof. intros _ _ Hl _. unfold notify_mutate. by rewrite Hl. Qed.

(** * Database placement: an entry changes the database named in the request and no other *)
Lemma run_cl_frame {R} (p : prog R) : noflushall p -> forall d s d',
  d' <> d -> d <> -1 -> other_db_same s (fst (run_cl d p s)) d'.
Proof.
  induction 1 as [r|ks k _ IH|key k _ IH|ks k _ IH|k _ IH|k _ IH|kvs k _ IH|key t touch k _ IH|key k _ IH|k _ IH];
    intros d s d' Hd Hd1; cbn [run_cl].
  - apply other_db_same_refl.
  - by apply IH.
  - by apply IH.
  - by apply IH.
  - by apply IH.
  - by apply IH.
  - pose proof (set_values_other s d kvs d' Hd) as Hg. destruct (set_values s d kvs) as [s' ok].
    eapply other_db_same_trans; [exact Hg|by apply IH].
  - eapply other_db_same_trans; [by apply set_expiry_other|by apply IH].
  - eapply other_db_same_trans; [by apply delete_key_other|by apply IH].
  - eapply other_db_same_trans; [|by apply IH]. unfold flush.
    replace (d =? -1) with false by lia. by apply flush_db_other.
Qed.

Lemma nf_every_handler_for pk name h argv :
  handler_for pk name = Some h -> name <> "flushall" -> eq_fold (Prog.arg argv 0) "flushall" = false ->
  noflushall (h argv).
Proof.
  rewrite handler_for_unfold. intros Hh Hn Hw.
  destruct (list_handler name) eqn:E1; [injection Hh as <-; by eapply nf_list|].
  destruct (hash_handler name) eqn:E2; [injection Hh as <-; by eapply nf_hash|].
  destruct (set_handler pk name) eqn:E3; [injection Hh as <-; by eapply nf_set|].
  destruct (zset_handler name) eqn:E4; [injection Hh as <-; by eapply nf_zset|].
  destruct (generic_handler name) eqn:E5; [injection Hh as <-; by eapply nf_generic|].
  destruct (string_handler name) eqn:E6; [injection Hh as <-; by eapply nf_string|].
  destruct (CmdZRand.zrand_handler CmdZRand.default_zpick name) eqn:E7; [injection Hh as <-; by eapply nf_zrand|].
  by eapply nf_keyspace.
Qed.

Theorem database_placement pk s d cmd rest d' :
  d' <> d -> 0 <= d -> lower cmd <> "flushall" -> eq_fold cmd "flushall" = false ->
  other_db_same s (fst (fsm_apply pk s (ReqCommand d (cmd :: rest)))) d'.
Proof.
  intros Hd Hd0 Hn Hw. simpl.
  destruct (handler_for pk (lower cmd)) as [h|] eqn:Hh; [|apply other_db_same_refl].
  pose proof (run_cl_frame (h (cmd :: rest)) (nf_every_handler_for pk _ h (cmd :: rest) Hh Hn Hw) d s d' Hd ltac:(lia)) as Hf.
  by destruct (run_cl d (h (cmd :: rest)) s).
Qed.

Theorem delete_key_placement s d k d' :
  d' <> d -> other_db_same s (fst (fsm_apply ref_pick s (ReqDeleteKey d k))) d'.
Proof. intros Hd. simpl. by apply delete_key_other. Qed.

(** * A read-only handler leaves a cluster node's state exactly as it was *)
Lemma readonly_run_cl {R} (p : prog R) : readonly p -> forall d s, fst (run_cl d p s) = s.
Proof. induction 1; intros d s; cbn [run_cl]; auto. Qed.

(** * Table obligations (regenerated table, [Gen/CmdTable.v]) *)
Definition table_sync (name : string) : bool :=
  existsb (fun r => String.eqb (cr_name r) name && String.eqb (cr_sub r) "" && cr_sync r) cmd_table.

(** every command whose model can change the dataset is replicated *)
Lemma every_mutator_syncs :
  forallb (fun r => negb (may_mutate (cr_name r)) || cr_sync r) top_rows = true
  /\ length (filter (fun r => may_mutate (cr_name r)) top_rows) = 55%nat.
Proof. vm_compute. split; reflexivity. Qed.

(** no command whose handler is proved read-only is replicated, except TOUCH: read category, Sync = true
    (its business is the eviction cache), and in a cluster [updateKeysInCache] returns at once, so the
    state machine of every node applies a command that runs no primitive ([Model/CmdKeyspace.v
    handle_touch], [tf_keyspace]) *)
Definition replicated_readers : list string := ["touch"].
Lemma no_reader_syncs :
  forallb (fun r => negb (smem (cr_name r) all_readonly_words) || negb (cr_sync r)
                    || smem (cr_name r) replicated_readers) top_rows = true.
Proof. vm_compute. reflexivity. Qed.

(** the replicated commands the model does not cover (ACL, admin, pub/sub), by name *)
Lemma sync_not_modelled :
  map comm_of (filter (fun r => cr_sync r && negb (modelled (cr_name r))) cmd_table)
  = ["acl|setuser"; "acl|deluser"; "acl|list"; "acl|load"; "acl|save"; "save"; "module|load"; "module|unload";
     "publish"].
Proof. vm_compute. reflexivity. Qed.

(** classification of every replicated, modelled command: deterministic for every argument vector,
    deterministic under the decidable condition on the arguments, or a finding *)
Definition det_cond_words : list string := ["set"; "getex"; "expireat"; "pexpireat"].
Definition finding_words : list string := ["expire"; "pexpire"; "spop"].
Definition det_always (name : string) : bool := negb (smem name clock_words) && negb (smem name nondet_words).

Lemma sync_rows_classified :
  forallb (fun r => negb (cr_sync r && modelled (cr_name r))
                    || det_always (cr_name r) || smem (cr_name r) det_cond_words || smem (cr_name r) finding_words)
          top_rows = true
  /\ length (filter (fun r => cr_sync r && modelled (cr_name r) && det_always (cr_name r)) top_rows) = 49%nat
  /\ map cr_name (filter (fun r => cr_sync r && modelled (cr_name r) && negb (det_always (cr_name r))) top_rows)
     = ["set"; "expire"; "pexpire"; "expireat"; "pexpireat"; "getex"; "spop"].
Proof. vm_compute. repeat split; reflexivity. Qed.

Theorem det_always_sound T d cmd rest :
  det_always (lower cmd) = true -> replica_det T (ReqCommand d (cmd :: rest)).
Proof.
  intros H. apply entry_det_b_sound. unfold det_always in H. apply andb_true_iff in H as [H1 H2].
  apply negb_true_iff in H1. simpl. cbv zeta.
  unfold smem, clock_words in H1. simpl in H1.
  repeat (apply orb_false_iff in H1 as [? H1]).
  unfold smem, nondet_words in H2. simpl in H2.
  repeat match goal with Hx : String.eqb _ _ = false |- _ => rewrite ?Hx; rewrite ?Hx in H2; clear Hx end.
  simpl in *. exact H2.
Qed.
