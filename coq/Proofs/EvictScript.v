(** C08: every state the script machine of [Model/ScriptEvict.v] can be in — after ANY sequence of lines
    (presets, commands of every handler with any arguments, TOUCH, clock advances, hints, [Q] running the
    parked cache updates) from the empty server of any policy and limit — is [reachable]
    (Proofs/EvictSound.v), hence sound. *)
From Coq Require Import ZifyBool.
From stdpp Require Import gmap strings.
From RecordUpdate Require Import RecordSet.
Import RecordSetNotations.
From EV Require Import Base.Str Model.Value Model.Keyspace Model.Reply Model.Prog Model.Dispatch Model.Script.
From EV Require Import Model.Evict Model.ScriptEvict Proofs.EvictProofs Proofs.EvictSound.
Local Open Scope Z_scope.

Lemma exec_touch_reachable w d argv : reachable (ew_es w) -> reachable (ew_es (fst (exec_touch w d argv))).
Proof.
  intros Hr. unfold exec_touch. destruct argv as [|a [|k ks]]; try done.
  destruct (update_keys_in_cache _ _ _ _ _) as [[[es' n] ok] tr] eqn:Hu. simpl.
  by destruct (update_candidates_reachable _ _ _ _ _ _ _ _ _ Hr Hu).
Qed.

Lemma e_exec_cmd_reachable w argv : reachable (ew_es w) -> reachable (ew_es (fst (e_exec_cmd w argv))).
Proof.
  intros Hr. unfold e_exec_cmd. destruct argv as [|cmd rest]; [done|].
  destruct (String.eqb (lower cmd) "touch"); [by apply exec_touch_reachable|].
  destruct (handler_of (lower cmd)) as [h|]; [|done].
  pose proof (e_run_reachable 0 (h (cmd :: rest)) (ew_es w) (ew_pending w) Hr) as H.
  destruct (e_run 0 (h (cmd :: rest)) (ew_es w) (ew_pending w)) as [[es' r] sp]. exact H.
Qed.

Lemma calls_reachable now h d calls : forall es, reachable es ->
  reachable (fold_left (fun es ks => let '(es', _, _, _) := update_keys_in_cache now h d ks es in es') calls es).
Proof.
  induction calls as [|ks calls IH]; intros es Hr; simpl; [done|]. apply IH.
  destruct (update_keys_in_cache now h d ks es) as [[[es' n] ok] tr] eqn:Hu.
  by destruct (update_candidates_reachable _ _ _ _ _ _ _ _ _ Hr Hu).
Qed.

Lemma run_pending_reachable w : reachable (ew_es w) -> reachable (ew_es (run_pending w)).
Proof.
  intros Hr. unfold run_pending.
  assert (Hgen : forall l w0, reachable (ew_es w0) ->
    reachable (ew_es (fold_left (fun w '(d, calls) =>
               let es' := fold_left (fun es ks => let '(es', _, _, _) := update_keys_in_cache (ew_tick w) (ew_hints w) d ks es in es')
                                    calls (ew_es w) in
               w <| ew_es := es' |> <| ew_tick := ew_tick w + 1 |>) l w0))).
  { induction l as [|[d calls] l IH]; intros w0 H0; simpl; [done|]. apply IH. simpl. by apply calls_reachable. }
  by apply Hgen.
Qed.

Lemma e_step_line_reachable w line : reachable (ew_es w) -> reachable (ew_es (fst (e_step_line w line))).
Proof.
  intros Hr. unfold e_step_line.
  repeat (case_match; try done; try (by apply run_pending_reachable)).
  all: cbn [fst]; simpl.
  all: try match goal with
       | H : e_set_values (ew_es ?w0) ?db ?kvs = (?es1, true) |- _ =>
           assert (reachable es1) by (replace es1 with (fst (e_set_values (ew_es w0) db kvs)) by (by rewrite H);
                                     eapply reach_via; [eassumption|constructor])
       end.
  all: try match goal with
       | H : e_exec_cmd ?w0 ?argv = (?w', _) |- reachable (ew_es ?w') =>
           replace w' with (fst (e_exec_cmd w0 argv)) by (by rewrite H); by apply e_exec_cmd_reachable
       end.
  all: try done.
  all: try (eapply reach_via; [eassumption|constructor]).
Qed.

Fixpoint world_after (w : eworld) (lines : list string) : eworld :=
  match lines with [] => w | l :: r => world_after (fst (e_step_line w l)) r end.

Theorem script_reachable lines : forall w, reachable (ew_es w) -> reachable (ew_es (world_after w lines)).
Proof. induction lines as [|l r IH]; intros w Hr; simpl; [done|]. apply IH. by apply e_step_line_reachable. Qed.

(** From the empty server of any policy, limit, clock and LRU direction. *)
Theorem script_states_sound now p maxmem nf tick lines :
  let w := world_after (EWorld (init_estate now p maxmem nf) tick [] []) lines in
  reachable (ew_es w) /\ sound (ew_es w) /\ cands_inv (ew_es w).
Proof.
  intros w. assert (Hr : reachable (ew_es w)) by (apply script_reachable; simpl; constructor).
  split; [done|]. split; [by apply sound_reachable|by apply cands_inv_reachable].
Qed.
