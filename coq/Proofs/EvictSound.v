(** C08, the bookkeeping invariant in full.

    [sound es]: both heap caches of every database hold each key at most once and record it in [keys]
    ([cwf]); under volatile-lfu / volatile-lru every entry of the policy's cache names a key that IS stored
    and HAS a deadline; every key of the volatile index is stored and has a deadline.  It implies [cands_inv]
    (Proofs/EvictProofs.v) and is preserved by EVERY primitive of the extended model (Model/Evict.v):
    [e_set_values] (incl. the overwrite of an expired entry), [e_set_expiry] (with a deadline, without —
    PERSIST —, on a missing / expired key), [e_get_values] (lazy deletion), [e_delete_key], [e_flush] (one
    database, all), the clock, [update_keys_in_cache] with ANY stamp, hints, database and key list (so the
    parked cache-update goroutines may run at any time, in any order, any number of times), every
    [adjust_memory_usage] pass.  Hence it holds in every state reachable from the empty server. *)
From Coq Require Import ZifyBool.
From stdpp Require Import gmap strings.
From RecordUpdate Require Import RecordSet.
Import RecordSetNotations.
From EV Require Import Base.Str Model.Value Model.Keyspace Model.Reply Model.Prog Model.Evict.
From EV Require Import Proofs.KeyspaceLemmas Proofs.ProgLemmas Proofs.EvictProofs.
Local Open Scope Z_scope.

(** * The heap caches: each key once, and recorded *)
Section CacheWf.
  Context {E : Type} `{EqDecision E} (ekey : E -> string).

  Definition cwf (c : cache E) : Prop :=
    base.NoDup (map ekey (c_ents c)) /\ forall e, e ∈ c_ents c -> ekey e ∈ c_keys c.

  Lemma cwf_empty : cwf c_empty.
  Proof. split; [constructor|]. intros e He. simpl in He. by apply elem_of_nil in He. Qed.

  Lemma rfk_spec k l e :
    base.NoDup (map ekey l) -> e ∈ remove_first_key ekey k l -> e ∈ l /\ ekey e <> k.
  Proof.
    induction l as [|y l IH]; simpl; [intros _ H; by apply elem_of_nil in H|].
    intros Hnd. pose proof (NoDup_cons_1_1 _ _ Hnd) as Hy; apply NoDup_cons_1_2 in Hnd. unfold has_key. destruct (String.eqb (ekey y) k) eqn:Ek.
    - apply String.eqb_eq in Ek. intros He. split; [by right|]. intros <-. apply Hy. rewrite Ek.
      apply elem_of_list_fmap. by exists e.
    - apply String.eqb_neq in Ek. intros He. apply elem_of_cons in He as [->|He]; [split; [by left|done]|].
      destruct (IH Hnd He). split; [by right|done].
  Qed.
  Lemma rfk_nodup k l : base.NoDup (map ekey l) -> base.NoDup (map ekey (remove_first_key ekey k l)).
  Proof.
    induction l as [|y l IH]; simpl; [done|]. intros Hnd. pose proof (NoDup_cons_1_1 _ _ Hnd) as Hy; apply NoDup_cons_1_2 in Hnd.
    destruct (has_key ekey k y); [done|]. simpl. apply NoDup_cons_2; [|by apply IH].
    intros Hin. apply Hy. apply elem_of_list_fmap in Hin as (e & -> & He). apply elem_of_list_fmap. exists e.
    split; [done|]. by eapply remove_first_key_sub.
  Qed.
  Lemma rfe_spec v l e :
    base.NoDup (map ekey l) -> v ∈ l -> e ∈ remove_first_ent v l -> e ∈ l /\ ekey e <> ekey v.
  Proof.
    induction l as [|y l IH]; simpl; [intros _ H; by apply elem_of_nil in H|].
    intros Hnd Hv. pose proof (NoDup_cons_1_1 _ _ Hnd) as Hy; apply NoDup_cons_1_2 in Hnd. case_bool_decide as Eq.
    - subst y. intros He. split; [by right|]. intros Hk. apply Hy. rewrite <- Hk. apply elem_of_list_fmap. by exists e.
    - apply elem_of_cons in Hv as [->|Hv]; [done|]. intros He. apply elem_of_cons in He as [->|He].
      + split; [by left|]. intros Hk. apply Hy. rewrite Hk. apply elem_of_list_fmap. by exists v.
      + destruct (IH Hnd Hv He). split; [by right|done].
  Qed.
  Lemma rfe_nodup v l : base.NoDup (map ekey l) -> base.NoDup (map ekey (remove_first_ent v l)).
  Proof.
    induction l as [|y l IH]; simpl; [done|]. intros Hnd. pose proof (NoDup_cons_1_1 _ _ Hnd) as Hy; apply NoDup_cons_1_2 in Hnd.
    case_bool_decide; [done|]. simpl. apply NoDup_cons_2; [|by apply IH].
    intros Hin. apply Hy. apply elem_of_list_fmap in Hin as (e & -> & He). apply elem_of_list_fmap. exists e.
    split; [done|]. by eapply remove_first_ent_sub.
  Qed.

  (** [Delete]: afterwards no entry has the key. *)
  Lemma c_delete_spec k c e :
    cwf c -> e ∈ c_ents (c_delete ekey k c) -> e ∈ c_ents c /\ ekey e <> k.
  Proof.
    intros [Hnd Hk]. unfold c_delete, c_find. destruct (find _ _) eqn:Hf; simpl.
    - by apply rfk_spec.
    - intros He. split; [done|]. intros <-.
      apply elem_of_list_In in He. eapply find_none in Hf; [|exact He]. unfold has_key in Hf.
      by rewrite String.eqb_refl in Hf.
  Qed.
  Lemma c_delete_wf k c : cwf c -> cwf (c_delete ekey k c).
  Proof.
    intros Hc. pose proof Hc as [Hnd Hk]. unfold c_delete, c_find. destruct (find _ _) eqn:Hf; [|done].
    split; simpl; [by apply rfk_nodup|]. intros e' He. destruct (rfk_spec _ _ _ Hnd He) as [He' Hne].
    apply elem_of_difference. split; [by apply Hk|]. intros Hs%elem_of_singleton. done.
  Qed.

  Lemma update_first_key_keys k f l :
    (forall e, ekey (f e) = ekey e) -> map ekey (update_first_key ekey k f l) = map ekey l.
  Proof.
    intros Hf. induction l as [|y l IH]; simpl; [done|]. destruct (has_key ekey k y); simpl; [by rewrite Hf|by rewrite IH].
  Qed.
  Lemma update_first_key_elem k f l e :
    e ∈ update_first_key ekey k f l -> e ∈ l \/ exists e0, e0 ∈ l /\ e = f e0.
  Proof.
    induction l as [|y l IH]; simpl; [by left|]. destruct (has_key ekey k y).
    - intros He. apply elem_of_cons in He as [->|He]; [right; exists y; split; [by left|done]|left; by right].
    - intros He. apply elem_of_cons in He as [->|He]; [left; by left|].
      destruct (IH He) as [H|(e0 & H & ->)]; [left; by right|right; exists e0; split; [by right|done]].
  Qed.
  Lemma update_first_wf k f c :
    (forall e, ekey (f e) = ekey e) -> cwf c -> cwf (Cache (c_keys c) (update_first_key ekey k f (c_ents c))).
  Proof.
    intros Hf [Hnd Hk]. split; simpl; [by rewrite update_first_key_keys|].
    intros e He. destruct (update_first_key_elem _ _ _ _ He) as [H|(e0 & H & ->)]; [by apply Hk|]. rewrite Hf. by apply Hk.
  Qed.
  Lemma push_wf e c : cwf c -> ekey e ∉ c_keys c -> cwf (c_push ekey true e c).
  Proof.
    intros [Hnd Hk] Hn. split; simpl.
    - rewrite map_app. simpl. apply NoDup_app. split; [done|]. split; [|apply NoDup_singleton].
      intros x Hx ->%elem_of_list_singleton. apply Hn. apply elem_of_list_fmap in Hx as (e0 & -> & He0). by apply Hk.
    - intros e' He'. apply elem_of_app in He' as [He'| ->%elem_of_list_singleton]; [apply elem_of_union_r; by apply Hk|].
      apply elem_of_union_l. by apply elem_of_singleton.
  Qed.
End CacheWf.

Lemma lfu_update_wf now k c : cwf lfu_key c -> cwf lfu_key (lfu_update now k c).
Proof.
  intros Hc. unfold lfu_update. case_bool_decide as Hin; [by apply update_first_wf|]. by apply push_wf.
Qed.
Lemma lfu_update_elem now k c e :
  e ∈ c_ents (lfu_update now k c) -> lfu_key e = k \/ exists e0, e0 ∈ c_ents c /\ lfu_key e = lfu_key e0.
Proof.
  unfold lfu_update. case_bool_decide as Hin; simpl.
  - intros He. destruct (update_first_key_elem _ _ _ _ _ He) as [H|(e0 & H & ->)]; right; eauto.
  - intros He. apply elem_of_app in He as [He| ->%elem_of_list_singleton]; [right; eauto|by left].
Qed.
Lemma lru_update_wf now k c : cwf lru_key c -> cwf lru_key (lru_update now k c).
Proof.
  intros Hc. unfold lru_update.
  assert (Hc1 : cwf lru_key (if bool_decide (k ∈ c_keys c) then c else c_push lru_key true (LruEnt k now) c)).
  { case_bool_decide; [done|]. by apply push_wf. }
  by apply (update_first_wf lru_key k (fun e => LruEnt (lru_key e) now)) in Hc1.
Qed.
Lemma lru_update_elem now k c e :
  e ∈ c_ents (lru_update now k c) -> lru_key e = k \/ exists e0, e0 ∈ c_ents c /\ lru_key e = lru_key e0.
Proof.
  unfold lru_update. simpl. intros He.
  destruct (update_first_key_elem _ _ _ _ _ He) as [H|(e0 & H & ->)]; simpl.
  - case_bool_decide; [right; eauto|]. simpl in H. apply elem_of_app in H as [H| ->%elem_of_list_singleton]; [right; eauto|by left].
  - case_bool_decide; [right; eauto|]. simpl in H. apply elem_of_app in H as [H| ->%elem_of_list_singleton]; [right; eauto|by left].
Qed.

Section Pop.
  Context {E : Type} `{EqDecision E} (ekey : E -> string) (less : E -> E -> bool).
  Lemma argmin_in l : forall b, argmin less b l ∈ b :: l.
  Proof.
    induction l as [|x r IH]; intros b; simpl; [by left|].
    specialize (IH (if less x b then x else b)). apply elem_of_cons in IH as [IH|IH].
    - rewrite IH. destruct (less x b); [right; by left|by left].
    - right. by right.
  Qed.
  Lemma c_pop_in prefer c v c' :
    c_pop ekey less prefer c = Some (v, c') ->
    v ∈ c_ents c /\ c_ents c' = remove_first_ent v (c_ents c) /\ c_keys c' = c_keys c ∖ {[ekey v]}.
  Proof.
    unfold c_pop. destruct (c_ents c) as [|e0 r] eqn:Hents; [done|].
    destruct (find _ (e0 :: r)) as [e|] eqn:Hf; intros [= <- <-]; simpl.
    - apply find_some in Hf as [Hin _]. split; [by apply elem_of_list_In|done].
    - split; [|done]. apply argmin_in.
  Qed.
  Lemma c_pop_wf prefer c v c' :
    cwf ekey c -> c_pop ekey less prefer c = Some (v, c') ->
    cwf ekey c' /\ forall e, e ∈ c_ents c' -> e ∈ c_ents c /\ ekey e <> ekey v.
  Proof.
    intros [Hnd Hk] Hp. destruct (c_pop_in _ _ _ _ Hp) as (Hv & He & Hks).
    assert (Hsub : forall e, e ∈ c_ents c' -> e ∈ c_ents c /\ ekey e <> ekey v).
    { intros e. rewrite He. by apply rfe_spec. }
    split; [|done]. split; [rewrite He; by apply rfe_nodup|].
    intros e Hin. destruct (Hsub _ Hin) as [Hin' Hne]. rewrite Hks. apply elem_of_difference.
    split; [by apply Hk|]. by intros ?%elem_of_singleton.
  Qed.
End Pop.

(** * The invariant, with exceptions *)
(** [X d k]: key [k] of database [d] is allowed to sit in the policy's cache although it has no deadline any
    more — the intermediate states inside [e_get_values] / [e_set_values] / [e_delete_key] between the store
    operation and the [Delete] on the cache. *)
Definition noex : Z -> string -> Prop := fun _ _ => False.

Definition sound_ex (X : Z -> string -> Prop) (es : estate) : Prop :=
  (forall d, cwf lfu_key (get_lfu es d)) /\
  (forall d, cwf lru_key (get_lru es d)) /\
  (es_policy es = VolatileLFU -> forall d e, e ∈ c_ents (get_lfu es d) ->
     has_deadline (es_st es) d (lfu_key e) = true \/ X d (lfu_key e)) /\
  (es_policy es = VolatileLRU -> forall d e, e ∈ c_ents (get_lru es d) ->
     has_deadline (es_st es) d (lru_key e) = true \/ X d (lru_key e)) /\
  (forall d k, k ∈ get_vol (es_st es) d -> has_deadline (es_st es) d k = true).
Definition sound : estate -> Prop := sound_ex noex.

Definition with_st (es : estate) (s : state) : estate :=
  EState s (es_lru es) (es_lfu es) (es_policy es) (es_newest_first es).
Lemma with_st_id es : with_st es (es_st es) = es.
Proof. by destruct es. Qed.

Lemma has_deadline_in_store s d k : has_deadline s d k = true -> in_store s d k = true.
Proof.
  unfold has_deadline, in_store. destruct (get_db s d !! k); [|done]. intros _. apply bool_decide_eq_true. by eexists.
Qed.

Lemma sound_cands_inv es : sound es -> cands_inv es.
Proof.
  intros (_ & _ & HA & HB & HC). split; [|split].
  - intros Hp d e He _. by destruct (HA Hp d e He).
  - intros Hp d e He _. by destruct (HB Hp d e He).
  - intros d k Hk _. by apply HC.
Qed.

Lemma sound_ex_mono (X X' : Z -> string -> Prop) es :
  (forall d k, X d k -> X' d k) -> sound_ex X es -> sound_ex X' es.
Proof.
  intros HX (W1 & W2 & HA & HB & HC). repeat split; try done; try apply W1; try apply W2.
  - intros Hp d e He. destruct (HA Hp d e He); [by left|right; by apply HX].
  - intros Hp d e He. destruct (HB Hp d e He); [by left|right; by apply HX].
Qed.

(** A change of the store alone. *)
Lemma sound_ex_st (X X' : Z -> string -> Prop) es s' :
  sound_ex X es ->
  (forall d k, has_deadline (es_st es) d k = true -> has_deadline s' d k = true \/ X' d k) ->
  (forall d k, X d k -> X' d k) ->
  (forall d k, k ∈ get_vol s' d -> has_deadline s' d k = true) ->
  sound_ex X' (with_st es s').
Proof.
  intros (W1 & W2 & HA & HB & HC) Hhd HX Hvol. repeat split; try done; try apply W1; try apply W2.
  - intros Hp d e He. destruct (HA Hp d e He) as [H|H]; [by apply Hhd|right; by apply HX].
  - intros Hp d e He. destruct (HB Hp d e He) as [H|H]; [by apply Hhd|right; by apply HX].
Qed.

(** A change of one cache alone. *)
Lemma sound_ex_set_lfu X es d c :
  sound_ex X es -> cwf lfu_key c ->
  (es_policy es = VolatileLFU -> forall e, e ∈ c_ents c -> has_deadline (es_st es) d (lfu_key e) = true \/ X d (lfu_key e)) ->
  sound_ex X (set_lfu es d c).
Proof.
  intros (W1 & W2 & HA & HB & HC) Hc He. repeat split; try done; try apply W2.
  - rewrite get_lfu_set_lfu. destruct (decide _); [apply Hc|apply W1].
  - rewrite get_lfu_set_lfu. destruct (decide _); [apply Hc|apply W1].
  - intros Hp d' e. rewrite get_lfu_set_lfu. destruct (decide _) as [<-|]; [by apply He|by apply HA].
Qed.
Lemma sound_ex_set_lru X es d c :
  sound_ex X es -> cwf lru_key c ->
  (es_policy es = VolatileLRU -> forall e, e ∈ c_ents c -> has_deadline (es_st es) d (lru_key e) = true \/ X d (lru_key e)) ->
  sound_ex X (set_lru es d c).
Proof.
  intros (W1 & W2 & HA & HB & HC) Hc He. repeat split; try done; try apply W1.
  - rewrite get_lru_set_lru. destruct (decide _); [apply Hc|apply W2].
  - rewrite get_lru_set_lru. destruct (decide _); [apply Hc|apply W2].
  - intros Hp d' e. rewrite get_lru_set_lru. destruct (decide _) as [<-|]; [by apply He|by apply HB].
Qed.

(** [Delete] on the policy's cache takes the exception away. *)
Lemma sound_ex_forget X es d k :
  sound_ex X es -> sound_ex (fun d' k' => X d' k' /\ (d', k') <> (d, k)) (cache_forget es d k).
Proof.
  intros Hs. pose proof Hs as (W1 & W2 & HA & HB & HC).
  assert (Hweak : forall es', es_policy es' <> VolatileLFU -> es_policy es' <> VolatileLRU -> sound_ex X es' ->
            sound_ex (fun d' k' => X d' k' /\ (d', k') <> (d, k)) es').
  { intros es' N1 N2 (V1 & V2 & _ & _ & VC). repeat split; try done; try apply V1; try apply V2. }
  unfold cache_forget. destruct (es_policy es) eqn:Hp; cbn [is_lfu is_lru]; try (apply Hweak; by rewrite ?Hp).
  - apply Hweak; [simpl; by rewrite Hp|simpl; by rewrite Hp|].
    apply sound_ex_set_lfu; [done|by apply c_delete_wf|]. intros Hp'. by rewrite Hp in Hp'.
  - apply Hweak; [simpl; by rewrite Hp|simpl; by rewrite Hp|].
    apply sound_ex_set_lru; [done|by apply c_delete_wf|]. intros Hp'. by rewrite Hp in Hp'.
  - repeat split; try done; try apply W2.
    + rewrite get_lfu_set_lfu. destruct (decide _); [by apply c_delete_wf|apply W1].
    + rewrite get_lfu_set_lfu. destruct (decide _); [by apply c_delete_wf|apply W1].
    + intros _ d' e. rewrite get_lfu_set_lfu. destruct (decide _) as [<-|Hd].
      * intros He. apply c_delete_spec in He as [He Hne]; [|apply W1].
        destruct (HA eq_refl d e He) as [H|H]; [by left|right]. split; [done|]. congruence.
      * intros He. destruct (HA eq_refl d' e He) as [H|H]; [by left|right]. split; [done|]. congruence.
    + simpl. intros Hp'. by rewrite Hp in Hp'.
  - repeat split; try done; try apply W1.
    + rewrite get_lru_set_lru. destruct (decide _); [by apply c_delete_wf|apply W2].
    + rewrite get_lru_set_lru. destruct (decide _); [by apply c_delete_wf|apply W2].
    + simpl. intros Hp'. by rewrite Hp in Hp'.
    + intros _ d' e. rewrite get_lru_set_lru. destruct (decide _) as [<-|Hd].
      * intros He. apply c_delete_spec in He as [He Hne]; [|apply W2].
        destruct (HB eq_refl d e He) as [H|H]; [by left|right]. split; [done|]. congruence.
      * intros He. destruct (HB eq_refl d' e He) as [H|H]; [by left|right]. split; [done|]. congruence.
Qed.

Lemma cache_forget_st es d k : es_st (cache_forget es d k) = es_st es.
Proof. unfold cache_forget. destruct (is_lfu _); [done|]. by destruct (is_lru _). Qed.

Lemma forget_fold L : forall (X : Z -> string -> Prop) es d,
  sound_ex X es -> (forall d' k', X d' k' -> d' = d /\ k' ∈ L) ->
  sound (fold_left (fun es k => cache_forget es d k) L es).
Proof.
  induction L as [|k L IH]; intros X es d Hs HX; simpl.
  - eapply sound_ex_mono; [|exact Hs]. intros d' k' H. destruct (HX _ _ H) as [_ H']. by apply elem_of_nil in H'.
  - eapply IH; [by apply sound_ex_forget|]. intros d' k' [H Hne]. destruct (HX _ _ H) as [-> Hin].
    split; [done|]. apply elem_of_cons in Hin as [->|Hin]; [done|done].
Qed.

Lemma with_st_with_st es s s1 : with_st (with_st es s) s1 = with_st es s1.
Proof. done. Qed.

(** * The store operations *)
Lemma expired_in_delete s d k d' k' : expired_in (delete_key s d k) d' k' = true -> expired_in s d' k' = true.
Proof.
  unfold expired_in. rewrite delete_key_db, delete_key_now. destruct (decide (d = d')) as [<-|]; [|done].
  destruct (decide (k = k')) as [<-|]; [by rewrite lookup_delete|by rewrite lookup_delete_ne].
Qed.

Lemma vol_delete s d k d' k' :
  k' ∈ get_vol (delete_key s d k) d' -> k' ∈ get_vol s d' /\ ((d', k') <> (d, k) \/ get_db s d !! k = None).
Proof.
  unfold delete_key. destruct (get_db s d !! k) eqn:E; [|intros H; split; [done|by right]].
  unfold get_vol at 1. simpl. destruct (decide (d' = d)) as [->|Hd].
  - rewrite lookup_insert. simpl. intros H. apply elem_of_list_In, filter_In in H as [H1 H2].
    split; [by apply elem_of_list_In|]. left. intros [= ->]. by rewrite String.eqb_refl in H2.
  - rewrite lookup_insert_ne by done. intros H. split; [done|]. left. congruence.
Qed.

Lemma sound_ex_delete_st X es d k :
  sound_ex X es -> sound_ex (fun d' k' => X d' k' \/ (d', k') = (d, k)) (with_st es (delete_key (es_st es) d k)).
Proof.
  intros Hs. pose proof Hs as (_ & _ & _ & _ & HC). eapply sound_ex_st; [exact Hs| | |].
  - intros d' k' H. destruct (decide ((d', k') = (d, k))) as [Heq|Hne]; [right; by right|left].
    by rewrite has_deadline_delete.
  - intros; by left.
  - intros d' k' Hin. apply vol_delete in Hin as [Hin Hcase]. pose proof (HC _ _ Hin) as Hd.
    destruct Hcase as [Hne|Hnone]; [by rewrite has_deadline_delete|].
    destruct (decide ((d', k') = (d, k))) as [[= -> ->]|Hne]; [|by rewrite has_deadline_delete].
    unfold has_deadline in Hd. by rewrite Hnone in Hd.
Qed.

(** [deleteKey] *)
Lemma sound_ex_e_delete X es d k : sound_ex X es -> sound_ex X (e_delete_key es d k).
Proof.
  intros Hs. unfold e_delete_key. destruct (in_store _ _ _); [|done].
  change (es <| es_st := delete_key (es_st es) d k |>) with (with_st es (delete_key (es_st es) d k)).
  eapply sound_ex_mono; [|apply sound_ex_forget, sound_ex_delete_st, Hs]. simpl. intros d' k' [[H|H] Hne]; done.
Qed.

(** [getValues] *)
Lemma sound_ex_get_values_go es d ks : forall s acc s' acc' (X : Z -> string -> Prop),
  get_values_go s d ks acc = (s', acc') -> sound_ex X (with_st es s) ->
  sound_ex (fun d' k' => X d' k' \/ (d' = d /\ k' ∈ ks /\ expired_in s d k' = true)) (with_st es s').
Proof.
  induction ks as [|k ks IH]; intros s acc s' acc' X; simpl.
  - intros [= <- <-] Hs. eapply sound_ex_mono; [|exact Hs]. intros; by left.
  - destruct (get_db s d !! k) as [e|] eqn:Ek; [destruct (expired (st_now s) e) eqn:Ex|].
    + intros Hg Hs. pose proof (sound_ex_delete_st _ _ d k Hs) as Hs1. rewrite with_st_with_st in Hs1.
      eapply sound_ex_mono; [|exact (IH _ _ _ _ _ Hg Hs1)].
      intros d' k' [[H|[= -> ->]]|(-> & Hin & Hex)].
      * by left.
      * right. split; [done|]. split; [by left|]. unfold expired_in. by rewrite Ek.
      * right. split; [done|]. split; [by right|]. by eapply expired_in_delete.
    + intros Hg Hs. eapply sound_ex_mono; [|exact (IH _ _ _ _ _ Hg Hs)].
      intros d' k' [H|(-> & Hin & Hex)]; [by left|right; split; [done|split; [by right|done]]].
    + intros Hg Hs. eapply sound_ex_mono; [|exact (IH _ _ _ _ _ Hg Hs)].
      intros d' k' [H|(-> & Hin & Hex)]; [by left|right; split; [done|split; [by right|done]]].
Qed.

Lemma sound_e_get_values es d ks : sound es -> sound (fst (e_get_values es d ks)).
Proof.
  intros Hs. unfold e_get_values, get_values. destruct (get_values_go (es_st es) d ks []) as [s' acc] eqn:Hg. simpl.
  change (es <| es_st := s' |>) with (with_st es s').
  rewrite <- (with_st_id es) in Hs. pose proof (sound_ex_get_values_go es d ks _ _ _ _ _ Hg Hs) as H.
  eapply forget_fold; [exact H|]. intros d' k' [[]|(-> & Hin & Hex)]. split; [done|].
  apply elem_of_list_In, filter_In. split; [by apply elem_of_list_In|done].
Qed.

(** [setValues] *)
Definition sv_pre (s : state) (d : Z) (k : string) : state :=
  match get_db s d !! k with Some e => if expired (st_now s) e then delete_key s d k else s | None => s end.
Lemma sv_pre_cases s d k :
  (expired_in s d k = true /\ sv_pre s d k = delete_key s d k) \/ (expired_in s d k = false /\ sv_pre s d k = s).
Proof. unfold sv_pre, expired_in. destruct (get_db s d !! k) as [e|]; [destruct (expired _ e)|]; auto. Qed.

Lemma set_value1_db s d k v d' :
  get_db (set_value1 s d k v) d' =
  if decide (d = d') then <[k := Entry v (dl_of (get_db (sv_pre s d k) d !! k))]> (get_db (sv_pre s d k) d)
  else get_db (sv_pre s d k) d'.
Proof.
  unfold set_value1. fold (sv_pre s d k). set (s1 := sv_pre s d k). unfold get_db at 1. simpl.
  destruct (decide (d = d')) as [<-|Hd]; [rewrite lookup_insert|rewrite lookup_insert_ne by done]; [|done].
  simpl. unfold dl_of. by destruct (get_db s1 d !! k).
Qed.
Lemma set_value1_vol s d k v d' : get_vol (set_value1 s d k v) d' = get_vol (sv_pre s d k) d'.
Proof. done. Qed.
Lemma set_value1_now s d k v : st_now (set_value1 s d k v) = st_now s.
Proof. by destruct (set_value1_fields s d k v). Qed.

Lemma set_value1_lookup_ne s d k v d' k' :
  (d', k') <> (d, k) -> get_db (set_value1 s d k v) d' !! k' = get_db s d' !! k'.
Proof.
  intros Hne. rewrite set_value1_db. destruct (decide (d = d')) as [<-|Hd].
  - rewrite lookup_insert_ne by congruence.
    destruct (sv_pre_cases s d k) as [[_ ->]|[_ ->]]; [|done].
    rewrite delete_key_db, decide_True by done. rewrite lookup_delete_ne; [done|congruence].
  - destruct (sv_pre_cases s d k) as [[_ ->]|[_ ->]]; [|done]. by rewrite delete_key_db, decide_False.
Qed.
Lemma set_value1_lookup_eq s d k v :
  get_db (set_value1 s d k v) d !! k =
  Some (Entry v (if expired_in s d k then None else dl_of (get_db s d !! k))).
Proof.
  rewrite set_value1_db, decide_True by done. rewrite lookup_insert. f_equal. f_equal.
  destruct (sv_pre_cases s d k) as [[Hx ->]|[Hx ->]]; rewrite Hx; [|done].
  by rewrite delete_key_db, decide_True, lookup_delete.
Qed.

Lemma sound_ex_set_value1 X es d k v :
  sound_ex X es ->
  sound_ex (fun d' k' => X d' k' \/ ((d', k') = (d, k) /\ expired_in (es_st es) d k = true))
           (with_st es (set_value1 (es_st es) d k v)).
Proof.
  intros Hs. pose proof Hs as (_ & _ & _ & _ & HC). set (s := es_st es) in *.
  assert (Hhd : forall d' k', has_deadline s d' k' = true ->
            has_deadline (set_value1 s d k v) d' k' = true \/ ((d', k') = (d, k) /\ expired_in s d k = true)).
  { intros d' k' H. destruct (decide ((d', k') = (d, k))) as [[= -> ->]|Hne].
    - destruct (expired_in s d k) eqn:Hx; [right; done|left].
      unfold has_deadline in *. rewrite set_value1_lookup_eq, Hx. simpl. by destruct (get_db s d !! k).
    - left. unfold has_deadline in *. by rewrite set_value1_lookup_ne. }
  eapply sound_ex_st; [exact Hs| | |].
  - intros d' k' H. destruct (Hhd _ _ H); [by left|right; by right].
  - intros; by left.
  - intros d' k' Hin. rewrite set_value1_vol in Hin.
    destruct (sv_pre_cases s d k) as [[Hx Hpre]|[Hx Hpre]]; rewrite Hpre in Hin.
    + apply vol_delete in Hin as [Hin [Hne|Hnone]].
      * destruct (Hhd _ _ (HC _ _ Hin)) as [H|[H _]]; done.
      * unfold expired_in in Hx. by rewrite Hnone in Hx.
    + destruct (Hhd _ _ (HC _ _ Hin)) as [H|[_ H]]; [done|congruence].
Qed.

Lemma expired_in_set_value1_ne s d k v d' k' :
  (d', k') <> (d, k) -> expired_in (set_value1 s d k v) d' k' = expired_in s d' k'.
Proof. intros Hne. unfold expired_in. by rewrite set_value1_lookup_ne, set_value1_now. Qed.

Lemma sound_ex_set_fold es d : forall kvs s (X : Z -> string -> Prop),
  base.NoDup (map fst kvs) -> sound_ex X (with_st es s) ->
  sound_ex (fun d' k' => X d' k' \/ (d' = d /\ k' ∈ map fst kvs /\ expired_in s d k' = true))
           (with_st es (fold_left (fun s '(k, v) => set_value1 s d k v) kvs s)).
Proof.
  induction kvs as [|[k v] r IH]; intros s X Hnd Hs; simpl.
  - eapply sound_ex_mono; [|exact Hs]. intros; by left.
  - simpl in Hnd. pose proof (NoDup_cons_1_1 _ _ Hnd) as Hk. apply NoDup_cons_1_2 in Hnd.
    pose proof (sound_ex_set_value1 _ _ d k v Hs) as Hs1. rewrite with_st_with_st in Hs1. simpl in Hs1.
    eapply sound_ex_mono; [|exact (IH _ _ Hnd Hs1)].
    intros d' k' [[H|[[= -> ->] Hx]]|(-> & Hin & Hex)].
    + by left.
    + right. split; [done|]. split; [by left|done].
    + right. split; [done|]. split; [by right|]. rewrite expired_in_set_value1_ne in Hex; [done|].
      intros [= ->]. done.
Qed.

Lemma dedupe_last_nodup {A} (kvs : list (string * A)) : base.NoDup (map fst (dedupe_last kvs)).
Proof.
  induction kvs as [|[k v] r IH]; simpl; [constructor|]. case_bool_decide as Hin; [done|].
  simpl. apply NoDup_cons_2; [|done]. intros H. apply Hin.
  clear -H. induction r as [|[k' v'] r IH]; simpl in *; [done|]. case_bool_decide as Hin'.
  - right. by apply IH.
  - simpl in H. apply elem_of_cons in H as [->|H]; [by left|right; by apply IH].
Qed.

Lemma sound_e_set_values es d kvs : sound es -> sound (fst (e_set_values es d kvs)).
Proof.
  intros Hs. unfold e_set_values, set_values. destruct (_ && _); [done|]. simpl.
  change (es <| es_st := ?s |>) with (with_st es s).
  rewrite <- (with_st_id es) in Hs at 1.
  pose proof (sound_ex_set_fold es d (dedupe_last kvs) _ _ (dedupe_last_nodup kvs) Hs) as H.
  eapply forget_fold; [exact H|]. intros d' k' [[]|(-> & Hin & Hex)]. split; [done|].
  apply elem_of_list_In, filter_In. split; [by apply elem_of_list_In|done].
Qed.

(** [setExpiry] *)
Lemma set_expiry_cases s d k t :
  (set_expiry s d k t = s /\ in_store s d k && negb (expired_in s d k) = false) \/
  (exists e, get_db s d !! k = Some e /\ expired (st_now s) e = false /\
     in_store s d k && negb (expired_in s d k) = true /\
     (forall d', get_db (set_expiry s d k t) d' =
                 if decide (d = d') then <[k := Entry (e_val e) t]> (get_db s d) else get_db s d') /\
     (forall d', get_vol (set_expiry s d k t) d' =
                 if decide (d = d') then match t with
                                         | None => filter (fun x => negb (String.eqb x k)) (get_vol s d)
                                         | Some _ => if str_in k (get_vol s d) then get_vol s d else get_vol s d ++ [k]
                                         end
                 else get_vol s d')).
Proof.
  unfold set_expiry, in_store, expired_in. destruct (get_db s d !! k) as [e|] eqn:Ek.
  - destruct (expired (st_now s) e) eqn:Ex.
    + left. split; [done|]. by rewrite andb_false_r.
    + right. exists e. split; [done|]. split; [done|]. split.
      { rewrite bool_decide_eq_true_2 by (by eexists). done. }
      split; intros d'.
      * unfold get_db at 1. simpl. destruct (decide (d = d')) as [<-|Hd]; [by rewrite lookup_insert|by rewrite lookup_insert_ne].
      * unfold get_vol at 1. simpl. destruct (decide (d = d')) as [<-|Hd]; [by rewrite lookup_insert|by rewrite lookup_insert_ne].
  - left. split; [done|]. rewrite bool_decide_eq_false_2; [done|]. by intros [? ?].
Qed.

Lemma sound_nonvolatile X es :
  es_policy es <> VolatileLFU -> es_policy es <> VolatileLRU -> sound_ex X es -> sound es.
Proof. intros N1 N2 (V1 & V2 & _ & _ & VC). repeat split; try done; try apply V1; try apply V2. Qed.

Lemma sound_e_set_expiry es d k t : sound es -> sound (e_set_expiry es d k t).
Proof.
  intros Hs. pose proof Hs as (_ & _ & _ & _ & HC). unfold e_set_expiry.
  change (es <| es_st := ?s |>) with (with_st es s).
  destruct (set_expiry_cases (es_st es) d k t) as [[-> Hlive]|(e & Ek & Ex & Hlive & Hdb & Hvol)]; rewrite Hlive.
  { simpl. by rewrite with_st_id. }
  set (s := es_st es) in *. set (s' := set_expiry s d k t) in *.
  assert (Hhd : forall d' k', (d', k') <> (d, k) -> has_deadline s' d' k' = has_deadline s d' k').
  { intros d' k' Hne. unfold has_deadline. rewrite Hdb. destruct (decide (d = d')) as [<-|]; [|done].
    rewrite lookup_insert_ne; [done|congruence]. }
  assert (Hhk : has_deadline s' d k = bool_decide (is_Some t)).
  { unfold has_deadline. by rewrite Hdb, decide_True, lookup_insert. }
  destruct t as [t|]; simpl.
  - (* a deadline is set: nothing leaves the candidates *)
    eapply (sound_ex_st noex noex); [exact Hs| |done|].
    + intros d' k' H. left. destruct (decide ((d', k') = (d, k))) as [[= -> ->]|Hne]; [by rewrite Hhk|by rewrite Hhd].
    + intros d' k' Hin. destruct (decide ((d', k') = (d, k))) as [[= -> ->]|Hne]; [by rewrite Hhk|]. rewrite Hhd by done.
      apply HC. rewrite Hvol in Hin. destruct (decide (d = d')) as [<-|]; [|done].
      destruct (str_in k (get_vol s d)); [done|]. apply elem_of_app in Hin as [Hin|Hin%elem_of_list_singleton]; [done|congruence].
  - (* PERSIST: the key leaves the volatile index and the cache of a volatile policy *)
    assert (Hs1 : sound_ex (fun d' k' => (d', k') = (d, k)) (with_st es s')).
    { eapply (sound_ex_st noex); [exact Hs| |done|].
      - intros d' k' H. destruct (decide ((d', k') = (d, k))) as [Heq|Hne]; [by right|left; by rewrite Hhd].
      - intros d' k' Hin. rewrite Hvol in Hin. destruct (decide (d = d')) as [<-|Hd].
        + apply elem_of_list_In, filter_In in Hin as [Hin Hne]. rewrite Hhd; [apply HC; by apply elem_of_list_In|].
          intros [= ->]. by rewrite String.eqb_refl in Hne.
        + rewrite Hhd; [by apply HC|congruence]. }
    pose proof (sound_ex_forget _ _ d k Hs1) as Hf. unfold cache_forget in Hf. simpl in Hf.
    destruct (es_policy es) eqn:Hp; simpl in Hf; try (eapply sound_nonvolatile; [| |exact Hs1]; simpl; by rewrite Hp).
    + eapply sound_ex_mono; [|exact Hf]. by intros d' k' [H Hne].
    + eapply sound_ex_mono; [|exact Hf]. by intros d' k' [H Hne].
Qed.

(** [Flush] *)
Lemma sound_e_flush_db es d : sound es -> sound (e_flush_db es d).
Proof.
  intros (W1 & W2 & HA & HB & HC). unfold e_flush_db. destruct (st_dbs (es_st es) !! d) as [db|] eqn:Edb; [|done].
  set (s := es_st es) in *.
  assert (Hdb : forall d', get_db (flush_db s d) d' = if decide (d = d') then ∅ else get_db s d').
  { intros d'. unfold flush_db. rewrite Edb. unfold get_db at 1. simpl.
    destruct (decide (d = d')) as [<-|]; [by rewrite lookup_insert|by rewrite lookup_insert_ne]. }
  assert (Hvol : forall d', get_vol (flush_db s d) d' = if decide (d = d') then [] else get_vol s d').
  { intros d'. unfold flush_db. rewrite Edb. unfold get_vol at 1. simpl.
    destruct (decide (d = d')) as [<-|]; [by rewrite lookup_insert|by rewrite lookup_insert_ne]. }
  assert (Hhd : forall d' k', d' <> d -> has_deadline (flush_db s d) d' k' = has_deadline s d' k').
  { intros d' k' Hne. unfold has_deadline. by rewrite Hdb, decide_False. }
  assert (Hl : forall d', get_lfu (set_lfu (set_lru (es <| es_st := flush_db s d |>) d c_empty) d c_empty) d' =
                         if decide (d = d') then c_empty else get_lfu es d').
  { intros d'. by rewrite get_lfu_set_lfu. }
  assert (Hr : forall d', get_lru (set_lfu (set_lru (es <| es_st := flush_db s d |>) d c_empty) d c_empty) d' =
                         if decide (d = d') then c_empty else get_lru es d').
  { intros d'. change (get_lru (set_lfu ?x d c_empty) d') with (get_lru x d'). by rewrite get_lru_set_lru. }
  split; [|split; [|split; [|split]]].
  - intros d'. rewrite Hl. destruct (decide _); [apply cwf_empty|apply W1].
  - intros d'. rewrite Hr. destruct (decide _); [apply cwf_empty|apply W2].
  - intros Hp d' e. rewrite Hl. destruct (decide _) as [<-|Hd]; [intros He; by apply elem_of_nil in He|].
    intros He. left. simpl. rewrite Hhd by done. by destruct (HA Hp d' e He).
  - intros Hp d' e. rewrite Hr. destruct (decide _) as [<-|Hd]; [intros He; by apply elem_of_nil in He|].
    intros He. left. simpl. rewrite Hhd by done. by destruct (HB Hp d' e He).
  - intros d' k'. simpl. rewrite Hvol. destruct (decide (d = d')) as [<-|Hd]; [intros He; by apply elem_of_nil in He|].
    intros Hin. rewrite Hhd by done. by apply HC.
Qed.
Lemma sound_e_flush es d : sound es -> sound (e_flush es d).
Proof.
  intros Hs. unfold e_flush. destruct (d =? -1); [|by apply sound_e_flush_db].
  generalize (map fst (map_to_list (st_dbs (es_st es)))). intros l. revert es Hs.
  induction l as [|x l IH]; intros es Hs; simpl; [done|]. apply IH. by apply sound_e_flush_db.
Qed.

(** The clock *)
Lemma sound_clock es now : sound es -> sound (es <| es_st := es_st es <| st_now := now |> |>).
Proof. intros (W1 & W2 & HA & HB & HC). repeat split; try done; try apply W1; try apply W2. Qed.

(** * The cache updates *)
Lemma sound_touch1 now d es k : sound es -> sound (touch1 now d es k).
Proof.
  intros Hs. pose proof Hs as (W1 & W2 & HA & HB & HC). unfold touch1. destruct (es_policy es) eqn:Hp; try done.
  - apply sound_ex_set_lfu; [done|by apply lfu_update_wf|]. intros Hp'. by rewrite Hp in Hp'.
  - apply sound_ex_set_lru; [done|by apply lru_update_wf|]. intros Hp'. by rewrite Hp in Hp'.
  - destruct (has_deadline (es_st es) d k) eqn:Hd; [|done].
    apply sound_ex_set_lfu; [done|by apply lfu_update_wf|]. intros _ e He. left.
    destruct (lfu_update_elem _ _ _ _ He) as [->|(e0 & He0 & ->)]; [done|]. by destruct (HA eq_refl d e0 He0).
  - destruct (has_deadline (es_st es) d k) eqn:Hd; [|done].
    apply sound_ex_set_lru; [done|by apply lru_update_wf|]. intros _ e He. left.
    destruct (lru_update_elem _ _ _ _ He) as [->|(e0 & He0 & ->)]; [done|]. by destruct (HB eq_refl d e0 He0).
Qed.
Lemma sound_touch_fold now d ks : forall es, sound es -> sound (fold_left (touch1 now d) ks es).
Proof. induction ks as [|k ks IH]; intros es Hs; simpl; [done|]. apply IH. by apply sound_touch1. Qed.

(** Every way of choosing a victim keeps the invariant. *)
Lemma sound_choose h d es choose : chooser_of h d es = Some choose ->
  forall es1 k es0, sound es1 -> choose es1 = Some (k, es0) -> sound (e_delete_key es0 d k).
Proof.
  intros Hch es1 k es0 Hs Hc. apply sound_ex_e_delete. pose proof Hs as (W1 & W2 & HA & HB & HC).
  assert (Hlfu : choose_lfu h d es1 = Some (k, es0) -> sound es0).
  { unfold choose_lfu. destruct (c_pop _ _ _ _) as [[v c']|] eqn:Hp; [|done]. intros [= _ <-].
    destruct (c_pop_wf _ _ _ _ _ _ (W1 d) Hp) as [Hw Hsub].
    apply sound_ex_set_lfu; [done|done|]. intros Hpol e He. destruct (Hsub _ He) as [He' _]. by apply HA. }
  assert (Hlru : choose_lru h d es1 = Some (k, es0) -> sound es0).
  { unfold choose_lru. destruct (c_pop _ _ _ _) as [[v c']|] eqn:Hp; [|done]. intros [= _ <-].
    destruct (c_pop_wf _ _ _ _ _ _ (W2 d) Hp) as [Hw Hsub].
    apply sound_ex_set_lru; [done|done|]. intros Hpol e He. destruct (Hsub _ He) as [He' _]. by apply HB. }
  assert (Hrnd : forall vol, choose_random vol h d es1 = Some (k, es0) -> sound es0).
  { intros vol. unfold choose_random. destruct (pick _ _); [|done]. by intros [= _ <-]. }
  unfold chooser_of in Hch. destruct (es_policy es); try done; injection Hch as <-;
    first [by apply Hlfu | by apply Hlru | by eapply Hrnd].
Qed.

(** One [adjustMemoryUsage] pass: the invariant holds before every eviction step and at the end. *)
Theorem sound_adjust h d es es' ok tr :
  sound es -> adjust_memory_usage h d es = (es', ok, tr) ->
  Forall (fun st => sound (ev_pre st)) tr /\ sound es'.
Proof.
  intros Hs H. destruct (adjust_cases _ _ _ _ _ _ H) as [(-> & -> & _)|(Hm & Hu & choose & fuel & Hch & Hl)]; [by split|].
  eapply (evict_loop_inv sound choose d); [|exact Hs|exact Hl]. intros es1 k es0. by eapply sound_choose.
Qed.

(** The passes over all databases, as [updateKeysInCache] runs them. *)
Definition pass_fold (h : hints) :=
  fold_left (fun '(es, ok, tr) d => let '(es', ok', tr') := adjust_memory_usage h d es in
                                    (es', ok && ok', tr ++ tr')).
Lemma sound_adjust_fold h dbs : forall es ok tr es' ok' tr',
  sound es -> Forall victim_is_candidate tr ->
  pass_fold h dbs (es, ok, tr) = (es', ok', tr') ->
  sound es' /\ Forall victim_is_candidate tr'.
Proof.
  unfold pass_fold. induction dbs as [|d dbs IH]; intros es ok tr es' ok' tr' Hs Htr; simpl; [by intros [= <- <- <-]|].
  destruct (adjust_memory_usage h d es) as [[es1 ok1] tr1] eqn:Ha. intros Hf.
  destruct (sound_adjust _ _ _ _ _ _ Hs Ha) as [_ Hs1].
  destruct (candidates _ _ _ _ _ _ (sound_cands_inv _ Hs) Ha) as [Hc _].
  eapply IH; [exact Hs1| |exact Hf]. apply Forall_app. by split.
Qed.

Theorem sound_update now h d ks es es' n ok tr :
  sound es -> update_keys_in_cache now h d ks es = (es', n, ok, tr) ->
  sound es' /\ Forall victim_is_candidate tr.
Proof.
  intros Hs. unfold update_keys_in_cache. destruct (_ =? 0); [intros [= <- <- <- <-]; by split|].
  destruct (adjust_all _ _) as [[es2 ok2] tr2] eqn:Ha. intros [= <- <- <- <-].
  unfold adjust_all in Ha. eapply (sound_adjust_fold h); [|constructor|exact Ha]. by apply sound_touch_fold.
Qed.

(** * Every state reachable from the empty server *)
Lemma sound_init now p m nf : sound (init_estate now p m nf).
Proof.
  assert (Hl : forall d, get_lfu (init_estate now p m nf) d = c_empty) by (intros; unfold get_lfu; simpl; by rewrite lookup_empty).
  assert (Hr : forall d, get_lru (init_estate now p m nf) d = c_empty) by (intros; unfold get_lru; simpl; by rewrite lookup_empty).
  split; [|split; [|split; [|split]]].
  - intros d. rewrite Hl. apply cwf_empty.
  - intros d. rewrite Hr. apply cwf_empty.
  - intros _ d e He. rewrite Hl in He. by apply elem_of_nil in He.
  - intros _ d e He. rewrite Hr in He. by apply elem_of_nil in He.
  - intros d k He. unfold get_vol in He. simpl in He. rewrite lookup_empty in He. by apply elem_of_nil in He.
Qed.

(** One step of the extended model: any primitive, with any arguments, at any time.  The parked
    cache-update goroutines are [es_update] steps: any stamp, any hints, any database, any key list, in any
    order and any number of times, interleaved with anything else.  The expiry sampler is a sequence of
    [es_delete] steps (whatever it samples). *)
Inductive estep : estate -> estate -> Prop :=
| es_set es d kvs : estep es (fst (e_set_values es d kvs))
| es_expiry es d k t : estep es (e_set_expiry es d k t)
| es_get es d ks : estep es (fst (e_get_values es d ks))
| es_delete es d k : estep es (e_delete_key es d k)
| es_flush es d : estep es (e_flush es d)
| es_clock es now : estep es (es <| es_st := es_st es <| st_now := now |> |>)
| es_update es now h d ks : estep es (fst (fst (fst (update_keys_in_cache now h d ks es))))
| es_adjust es h d : estep es (fst (fst (adjust_memory_usage h d es))).

Inductive reachable : estate -> Prop :=
| reach_init now p m nf : reachable (init_estate now p m nf)
| reach_step es es' : reachable es -> estep es es' -> reachable es'.

Lemma sound_step es es' : sound es -> estep es es' -> sound es'.
Proof.
  intros Hs H. destruct H.
  - by apply sound_e_set_values.
  - by apply sound_e_set_expiry.
  - by apply sound_e_get_values.
  - by apply sound_ex_e_delete.
  - by apply sound_e_flush.
  - by apply sound_clock.
  - destruct (update_keys_in_cache now h d ks es) as [[[es' n] ok] tr] eqn:Hu. by destruct (sound_update _ _ _ _ _ _ _ _ _ Hs Hu).
  - destruct (adjust_memory_usage h d es) as [[es' ok] tr] eqn:Ha. by destruct (sound_adjust _ _ _ _ _ _ Hs Ha).
Qed.

Theorem sound_reachable es : reachable es -> sound es.
Proof. induction 1; [apply sound_init|by eapply sound_step]. Qed.

Theorem cands_inv_reachable es : reachable es -> cands_inv es.
Proof. intros H. by apply sound_cands_inv, sound_reachable. Qed.

(** [C08_candidates], unconditionally: from every reachable state, no eviction pass and no cache update
    evicts, under a volatile policy, a stored key that has no deadline; the state after it is reachable. *)
Theorem candidates_reachable h d es es' ok tr :
  reachable es -> adjust_memory_usage h d es = (es', ok, tr) ->
  Forall victim_is_candidate tr /\ reachable es'.
Proof.
  intros Hr Ha. split; [by destruct (candidates _ _ _ _ _ _ (cands_inv_reachable _ Hr) Ha)|].
  replace es' with (fst (fst (adjust_memory_usage h d es))) by by rewrite Ha. eapply reach_step; [exact Hr|constructor].
Qed.
Theorem update_candidates_reachable now h d ks es es' n ok tr :
  reachable es -> update_keys_in_cache now h d ks es = (es', n, ok, tr) ->
  Forall victim_is_candidate tr /\ reachable es'.
Proof.
  intros Hr Hu. split; [by destruct (sound_update _ _ _ _ _ _ _ _ _ (sound_reachable _ Hr) Hu)|].
  replace es' with (fst (fst (fst (update_keys_in_cache now h d ks es)))) by by rewrite Hu.
  eapply reach_step; [exact Hr|constructor].
Qed.

(** Stronger than asked: in a reachable state the victim of a volatile policy IS stored and HAS a deadline
    (no "if it is still stored"). *)
Definition victim_volatile (st : evstep) : Prop :=
  is_volatile (es_policy (ev_pre st)) = true ->
  has_deadline (es_st (ev_pre st)) (ev_db st) (ev_key st) = true.

(** Every program over the primitives (every handler, for every argument vector) keeps the state reachable,
    whatever cache updates it starts. *)
Lemma reach_via es es' : reachable es -> estep es es' -> reachable es'.
Proof. intros. by eapply reach_step. Qed.

Lemma e_run_reachable {R} d (p : prog R) : forall es sp, reachable es -> reachable (fst (fst (e_run d p es sp))).
Proof.
  induction p as [r|ks k IH|key k IH|ks k IH|kvs k IH|key t touch k IH|key k IH|k IH|k IH|k IH|k IH];
    intros es sp Hr; cbn [e_run]; try (by apply IH).
  - done.
  - destruct (e_get_values es d ks) as [es' f] eqn:E. apply IH.
    replace es' with (fst (e_get_values es d ks)) by by rewrite E. eapply reach_via; [exact Hr|constructor].
  - destruct (e_set_values es d kvs) as [es' ok] eqn:E. apply IH.
    replace es' with (fst (e_set_values es d kvs)) by by rewrite E. eapply reach_via; [exact Hr|constructor].
  - apply IH. eapply reach_via; [exact Hr|constructor].
  - apply IH. eapply reach_via; [exact Hr|constructor].
  - apply IH. eapply reach_via; [exact Hr|constructor].
  - apply IH. eapply reach_via; [exact Hr|constructor].
Qed.

(** In a reachable state the victim of a volatile policy IS stored and HAS a deadline. *)
Lemma step_victim_volatile h d es choose st :
  chooser_of h d es = Some choose -> es_policy (ev_pre st) = es_policy es ->
  sound (ev_pre st) -> step_of choose d st -> victim_volatile st.
Proof.
  intros Hch Hpol (W1 & W2 & HA & HB & HC) (Hd & _ & es0 & Hc & _) Hvol. rewrite Hd in *. rewrite Hpol in *.
  unfold chooser_of in Hch. destruct (es_policy es) eqn:Hp; try done; injection Hch as <-.
  - unfold choose_lfu in Hc. destruct (c_pop _ _ _ _) as [[v c']|] eqn:Hpop; [|done]. injection Hc as Hk _; rewrite <- Hk in *.
    destruct (c_pop_in _ _ _ _ _ _ Hpop) as (Hv & _). by destruct (HA eq_refl _ _ Hv).
  - unfold choose_lru in Hc. destruct (c_pop _ _ _ _) as [[v c']|] eqn:Hpop; [|done]. injection Hc as Hk _; rewrite <- Hk in *.
    destruct (c_pop_in _ _ _ _ _ _ Hpop) as (Hv & _). by destruct (HB eq_refl _ _ Hv).
  - unfold choose_random in Hc. destruct (pick _ _) as [k|] eqn:Hpk; [|done]. injection Hc as Hk _; rewrite <- Hk in *.
    apply pick_in in Hpk. simpl in Hpk. by apply HC.
Qed.

Theorem victims_volatile h d es es' ok tr :
  sound es -> adjust_memory_usage h d es = (es', ok, tr) -> Forall victim_volatile tr.
Proof.
  intros Hs H. destruct (adjust_cases _ _ _ _ _ _ H) as [(-> & -> & _)|(Hm & Hu & choose & fuel & Hch & Hl)]; [constructor|].
  destruct (evict_loop_spec _ _ _ _ _ _ _ Hu Hl) as (HF & _).
  destruct (evict_loop_inv (fun e => sound e /\ es_policy e = es_policy es) choose d) with (fuel := fuel) (es := es) (es' := es') (ok := ok) (tr := tr)
    as [HFI _]; [|by split|done|].
  - intros es1 k es0 [H1 H2] Hc. split; [by eapply sound_choose|].
    rewrite e_delete_key_policy. destruct (chooser_shrinks _ _ _ _ Hch _ _ _ Hc) as (_ & -> & _). done.
  - apply Forall_forall. intros st Hst. rewrite Forall_forall in HF, HFI.
    destruct (HFI _ Hst) as [H1 H2]. eapply step_victim_volatile; eauto.
Qed.
Theorem victims_volatile_reachable h d es es' ok tr :
  reachable es -> adjust_memory_usage h d es = (es', ok, tr) -> Forall victim_volatile tr.
Proof. intros Hr. apply victims_volatile. by apply sound_reachable. Qed.
