(** The raft snapshot round trip (C07): [Persist] then [Restore], for ALL datasets.

    [fsm_persist w s] ([Model/Raft.v]; [internal/raft/fsm_snapshot.go Persist]) keeps, per database, the
    entries of the donor's store [s] whose deadline has not passed at the wall clock [w];
    [fsm_restore w snap n0] ([internal/raft/fsm.go Restore]) empties the receiving node [n0] — whatever
    it held — and re-inserts every entry of the snapshot that has not expired at [w] with SetValues +
    SetExpiry.  [raft_snapshot_roundtrip]: for every donor store, every receiving node without a memory
    limit and every wall clock, the restored node's store holds, for every database and key, exactly the
    donor's entry (value AND deadline) unless its deadline had passed at [w] — nothing of the receiving
    node's old data is left; the node's clock and limits are untouched.  Stated on the raw store
    ([get_db r d !! k]), which is stronger than on what clients see; the client-level corollaries follow.

    Not covered: the volatile-key index and the memory counter of the restored node (the index is
    rebuilt by SetExpiry in the iteration order of a Go map; C19 is about the counter), and the JSON
    encoding between Persist and Restore — that is C03's codec theorem ([SnapCodecProofs.dec_enc_state]),
    the model of the raft snapshot hands the entries over as they are. *)
From stdpp Require Import gmap strings.
From RecordUpdate Require Import RecordSet.
Import RecordSetNotations.
From EV Require Import Base.Str Model.Value Model.Keyspace Model.Reply Model.Prog Model.Evict Model.Raft.
From EV Require Import Proofs.KeyspaceLemmas Proofs.ProgLemmas Proofs.EvictSound Proofs.SnapRoundTrip.
Local Open Scope Z_scope.

(** * One entry: SetValues then SetExpiry *)
Lemma set_values_single s d k v : st_maxmem s = 0 -> (set_values s d [(k, v)]).1 = set_value1 s d k v.
Proof.
  intros Hm. unfold set_values, max_memory_exceeded. rewrite Hm. cbn [Z.eqb negb andb fst].
  cbn [dedupe_last map]. rewrite bool_decide_eq_false_2 by (cbn; set_solver). done.
Qed.

Lemma restore_entry_raw d s k e :
  st_maxmem s = 0 ->
  let r := restore_entry d s (k, e) in
  (st_maxmem r = 0 /\ st_now r = st_now s) /\
  forall d' k', get_db r d' !! k' = if decide (d = d' /\ k = k') then Some e else get_db s d' !! k'.
Proof.
  intros Hm. cbn [restore_entry]. rewrite (set_values_single s d k (e_val e) Hm).
  set (s1 := set_value1 s d k (e_val e)).
  destruct (set_value1_fields s d k (e_val e)) as (N1 & M1 & _). fold s1 in N1, M1.
  destruct (set_expiry_fields s1 d k (e_dl e)) as (N2 & M2 & _).
  split; [split; congruence|].
  pose proof (set_value1_lookup_eq s d k (e_val e)) as Heq. fold s1 in Heq.
  intros d' k'.
  destruct (set_expiry_cases s1 d k (e_dl e)) as [[_ Hf]|(e1 & He1 & Hx1 & _ & Hdb & _)].
  - (* the entry just written is in the store and has not expired: impossible *)
    exfalso. unfold in_store, expired_in in Hf. rewrite Heq in Hf. rewrite bool_decide_eq_true_2 in Hf by eauto.
    cbn [andb] in Hf. apply negb_false_iff in Hf. unfold expired in Hf. cbn [e_dl] in Hf.
    unfold expired_in in Hf. destruct (get_db s d !! k) as [e0|] eqn:E0; [|done].
    destruct (expired (st_now s) e0) eqn:Ex; [done|]. cbn [dl_of] in Hf. unfold expired in Ex.
    destruct (e_dl e0) as [t|]; [|done]. rewrite N1, Ex in Hf. done.
  - rewrite Hdb. rewrite Heq in He1. injection He1 as <-. cbn [e_val].
    destruct (decide (d = d' /\ k = k')) as [[<- <-]|Hne].
    + rewrite decide_True by done. rewrite lookup_insert. by destruct e.
    + destruct (decide (d = d')) as [<-|Hd].
      * rewrite lookup_insert_ne by (intros ->; by apply Hne). apply set_value1_lookup_ne. intros [= ->]. by apply Hne.
      * apply set_value1_lookup_ne. congruence.
Qed.

(** * The entries of one database *)
Lemma restore_list_raw d (es : list (string * entry)) : forall s,
  st_maxmem s = 0 -> base.NoDup es.*1 ->
  let r := fold_left (restore_entry d) es s in
  (st_maxmem r = 0 /\ st_now r = st_now s) /\
  forall d' k', get_db r d' !! k' =
    match (if decide (d = d') then (list_to_map es : dbmap) !! k' else None) with
    | Some e => Some e
    | None => get_db s d' !! k'
    end.
Proof.
  induction es as [|[k1 e1] es IH]; intros s Hm Hnd.
  - split; [done|]. intros d' k'. cbn. rewrite lookup_empty. by destruct (decide _).
  - cbn [fold_left]. rewrite fmap_cons in Hnd. apply list.NoDup_cons in Hnd. destruct Hnd as [Hni Hnd]. cbn [fst] in Hni.
    destruct (restore_entry_raw d s k1 e1 Hm) as ((M1 & N1) & L1).
    destruct (IH _ M1 Hnd) as ((M2 & N2) & L2). split; [split; congruence|].
    intros d' k'. rewrite L2. rewrite list_to_map_cons. destruct (decide (d = d')) as [<-|Hd].
    + destruct (decide (k1 = k')) as [<-|Hk].
      * rewrite lookup_insert. rewrite (not_elem_of_list_to_map_1 (M := gmap string) _ _ Hni).
        rewrite L1. by rewrite decide_True.
      * rewrite lookup_insert_ne by done. destruct (list_to_map es !! k'); [done|].
        rewrite L1. rewrite decide_False; [done|]. intros [_ ?]. done.
    + rewrite L1. rewrite decide_False; [done|]. intros [? _]. done.
Qed.

(** What [Persist] keeps of a database and [Restore] lets through: the entries alive at [w]. *)
Definition alive (w : Z) : string * entry -> bool := fun '(_, e) => negb (expired w e).

Lemma lfilter_sublist {A} (f : A -> bool) l : sublist (List.filter f l) l.
Proof. induction l as [|a l IH]; [done|]. cbn. destruct (f a); by constructor. Qed.

Lemma sublist_nodup {A} (l k : list A) : sublist l k -> base.NoDup k -> base.NoDup l.
Proof.
  induction 1 as [|x l k Hs IH|x l k Hs IH]; intros Hn; [done| |].
  - apply list.NoDup_cons in Hn. destruct Hn as [Hx Hn]. apply list.NoDup_cons. split; [|by apply IH].
    intros Hin. apply Hx. eapply elem_of_submseteq; [exact Hin|by apply sublist_submseteq].
  - apply list.NoDup_cons in Hn. destruct Hn as [_ Hn]. by apply IH.
Qed.

Lemma persisted_nodup w (db : dbmap) : base.NoDup (List.filter (alive w) (filter_expired w db)).*1.
Proof.
  unfold filter_expired. eapply sublist_nodup; [|apply (NoDup_fst_map_to_list db)].
  apply fmap_sublist. etrans; apply lfilter_sublist.
Qed.

Lemma persisted_lookup w (db : dbmap) k :
  (list_to_map (List.filter (alive w) (filter_expired w db)) : dbmap) !! k = purge1 w (db !! k).
Proof.
  apply option_eq. intros e. rewrite <- elem_of_list_to_map by apply persisted_nodup.
  unfold filter_expired. rewrite elem_of_list_In, !filter_In, <- elem_of_list_In, elem_of_map_to_list.
  unfold alive, purge1. destruct (db !! k) as [e0|].
  - split.
    + intros (([= <-] & Hx) & _). apply negb_true_iff in Hx. by rewrite Hx.
    + destruct (expired w e0) eqn:Ex; [done|]. intros [= <-]. by rewrite Ex.
  - split; [intros ((? & _) & _); done|done].
Qed.

Lemma restore_db_raw w d (db : dbmap) s :
  st_maxmem s = 0 ->
  let r := restore_db w s (d, filter_expired w db) in
  (st_maxmem r = 0 /\ st_now r = st_now s) /\
  forall d' k', get_db r d' !! k' =
    match (if decide (d = d') then purge1 w (db !! k') else None) with
    | Some e => Some e
    | None => get_db s d' !! k'
    end.
Proof.
  intros Hm. cbn [restore_db].
  change (List.filter (fun '(_, e) => negb (expired w e)) (filter_expired w db)) with (List.filter (alive w) (filter_expired w db)).
  destruct (restore_list_raw d _ s Hm (persisted_nodup w db)) as (F & L). split; [exact F|].
  intros d' k'. rewrite L. destruct (decide (d = d')); [|done]. by rewrite persisted_lookup.
Qed.

(** * All databases *)
Definition persist_db (w : Z) : Z * dbmap -> Z * list (string * entry) := fun '(d, db) => (d, filter_expired w db).

Lemma restore_dbs_raw w (dbl : list (Z * dbmap)) : forall s,
  st_maxmem s = 0 -> base.NoDup dbl.*1 ->
  let r := fold_left (restore_db w) (map (persist_db w) dbl) s in
  (st_maxmem r = 0 /\ st_now r = st_now s) /\
  forall d k, get_db r d !! k =
    match (match (list_to_map dbl : gmap Z dbmap) !! d with Some db => purge1 w (db !! k) | None => None end) with
    | Some e => Some e
    | None => get_db s d !! k
    end.
Proof.
  induction dbl as [|[d1 db1] dbl IH]; intros s Hm Hnd.
  - split; [done|]. intros d k. cbn. by rewrite lookup_empty.
  - cbn [map fold_left persist_db]. rewrite fmap_cons in Hnd. apply list.NoDup_cons in Hnd. destruct Hnd as [Hni Hnd]. cbn [fst] in Hni.
    destruct (restore_db_raw w d1 db1 s Hm) as ((M1 & N1) & L1).
    destruct (IH _ M1 Hnd) as ((M2 & N2) & L2). split; [split; congruence|].
    intros d k. rewrite L2. rewrite list_to_map_cons. destruct (decide (d1 = d)) as [<-|Hd].
    + rewrite lookup_insert. rewrite (not_elem_of_list_to_map_1 (M := gmap Z) _ _ Hni).
      rewrite L1. by rewrite decide_True.
    + rewrite lookup_insert_ne by done. rewrite L1. rewrite decide_False by done.
      by destruct (list_to_map dbl !! d) as [db|]; [destruct (purge1 w (db !! k))|].
Qed.

Lemma flush_all_empty s d : get_db (flush s (-1)) d = ∅.
Proof.
  unfold flush. cbn [Z.eqb Pos.eqb]. change (-1 =? -1) with true. cbv iota.
  destruct (flush_all_fold (map fst (map_to_list (st_dbs s))) s) as (_ & _ & G). rewrite G.
  destruct (bool_decide _) eqn:B; [done|]. apply bool_decide_eq_false in B.
  unfold get_db. destruct (st_dbs s !! d) as [db|] eqn:Hd; [|done].
  exfalso. apply B. apply elem_of_list_fmap. exists (d, db). split; [done|]. by apply elem_of_map_to_list.
Qed.

(** * Persist then Restore *)
Theorem raft_snapshot_roundtrip w s n0 :
  st_maxmem n0 = 0 ->
  let r := fsm_restore w (fsm_persist w s) n0 in
  (forall d k, get_db r d !! k = purge1 w (flookup (st_dbs s) d k)) /\
  st_now r = st_now n0 /\ st_maxmem r = 0 /\ st_noevict r = st_noevict n0.
Proof.
  intros Hm. unfold fsm_restore, fsm_persist.
  change (map (fun '(d, db) => (d, filter_expired w db)) (map_to_list (st_dbs s)))
    with (map (persist_db w) (map_to_list (st_dbs s))).
  destruct (flush_fields n0 (-1)) as (N0 & M0 & E0).
  assert (st_maxmem (flush n0 (-1)) = 0) as Hm0 by congruence.
  destruct (restore_dbs_raw w (map_to_list (st_dbs s)) (flush n0 (-1)) Hm0 (NoDup_fst_map_to_list _)) as ((M & N) & L).
  split; [|split; [congruence|split; [done|]]].
  - intros d k. rewrite L. rewrite list_to_map_to_list. rewrite flush_all_empty, lookup_empty. unfold flookup.
    by destruct (st_dbs s !! d) as [db|]; [destruct (purge1 w (db !! k))|].
  - (* the eviction policy is a configuration constant: no primitive writes it *)
    clear L M N. revert E0. generalize (flush n0 (-1)). intros s0 E0. rewrite <- E0. clear.
    generalize (map (persist_db w) (map_to_list (st_dbs s))). intros snap. revert s0.
    induction snap as [|[d es] snap IH]; intros s0; [done|]. cbn [fold_left]. rewrite IH. clear IH.
    cbn [restore_db]. generalize (filter (fun '(_, e) => negb (expired w e)) es). intros l. revert s0.
    induction l as [|[k e] l IH]; intros s0; [done|]. cbn [fold_left]. rewrite IH. cbn [restore_entry].
    destruct (set_expiry_fields (set_values s0 d [(k, e_val e)]).1 d k (e_dl e)) as (_ & _ & ->).
    unfold set_values. destruct (_ && _); [done|]. cbn [fst].
    by destruct (set_values_fold_fields (dedupe_last [(k, e_val e)]) s0 d) as (_ & _ & ->).
Qed.

(** What clients of the restored node see, at that node's clock. *)
Corollary raft_snapshot_roundtrip_view w s n0 :
  st_maxmem n0 = 0 ->
  forall d k, lentry (fsm_restore w (fsm_persist w s) n0) d k = purge1 (st_now n0) (purge1 w (flookup (st_dbs s) d k)).
Proof.
  intros Hm d k. destruct (raft_snapshot_roundtrip w s n0 Hm) as (L & N & _).
  unfold lentry. rewrite L, N. done.
Qed.

(** Donor, wall clock and receiving node at the same instant: every client of the restored node sees,
    in every database, exactly what the donor's clients saw — whatever the node held before. *)
Corollary raft_snapshot_same_view s n0 :
  st_maxmem n0 = 0 -> st_now n0 = st_now s ->
  forall d k, lentry (fsm_restore (st_now s) (fsm_persist (st_now s) s) n0) d k = lentry s d k.
Proof.
  intros Hm Hn d k. rewrite raft_snapshot_roundtrip_view by done. rewrite Hn, lentry_flookup.
  unfold purge1. destruct (flookup (st_dbs s) d k) as [e|]; [|done]. by destruct (expired (st_now s) e) eqn:E; [|rewrite E].
Qed.

(** Two nodes restored from the same snapshot hold the same store, entry for entry, whatever each of
    them held before and whatever their own clocks show. *)
Corollary raft_snapshot_nodes_agree w s n1 n2 :
  st_maxmem n1 = 0 -> st_maxmem n2 = 0 ->
  forall d k, get_db (fsm_restore w (fsm_persist w s) n1) d !! k = get_db (fsm_restore w (fsm_persist w s) n2) d !! k.
Proof.
  intros H1 H2 d k. destruct (raft_snapshot_roundtrip w s n1 H1) as (L1 & _).
  destruct (raft_snapshot_roundtrip w s n2 H2) as (L2 & _). by rewrite L1, L2.
Qed.
