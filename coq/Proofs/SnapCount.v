(** C03, the change counter across a snapshot taken while clients are served.

    [TakeSnapshot] copies the state at one instant and writes the files from the copy; commands served meanwhile
    are not in the snapshot.  The repaired code discounts, at the end of a completed attempt, the changes counted
    when the state was copied; the code before the repair set the counter to zero and so forgot the changes made
    while the snapshot was being written: a threshold reached by such writes never triggered a snapshot. *)
From stdpp Require Import gmap strings.
From RecordUpdate Require Import RecordSet.
Import RecordSetNotations.
From EV Require Import Base.Str Model.Value Model.Keyspace Model.Reply Model.Prog.
From EV Require Import Model.SnapCodec Model.SnapFs Model.Snapshot Model.SnapServer.
From EV Require Import Proofs.SnapProofs Proofs.SnapRoundTrip.
Local Open Scope Z_scope.

Section engine.
Variable c : codec.
Context {H : Type} `{EqDecision H}.
Variable hash : snapobj -> H.
Notation sfs := (sfs (H:=H)).

(** No command between the copy and the end of the attempt: the one-step [take_snapshot] every other theorem of
    C03 / C10 is about. *)
Lemma take_snapshot_during_quiet (x : sfs) s ls fail :
  take_snapshot_during c hash x s s ls fail = take_snapshot c hash x s ls fail.
Proof.
  unfold take_snapshot_during, take_snapshot.
  destruct (run_plan x (take_snapshot_plan c hash x s ls) fail) as [x' r].
  destruct r; try done. by rewrite Z.sub_diag.
Qed.

(** The files, the outcome and the last-save time are those of a snapshot of the state at the instant of the copy:
    what is served meanwhile has no influence on them. *)
Lemma take_snapshot_during_files (x : sfs) s0 s1 ls fail :
  let '(x', _, ls', r) := take_snapshot_during c hash x s0 s1 ls fail in
  let '(x'', _, ls'', r') := take_snapshot c hash x s0 ls fail in
  x' = x'' /\ ls' = ls'' /\ r = r'.
Proof.
  unfold take_snapshot_during, take_snapshot.
  destruct (run_plan x (take_snapshot_plan c hash x s0 ls) fail) as [x' r]. by destruct r.
Qed.

(** Only the counter of the store is touched, and only by a completed attempt. *)
Lemma take_snapshot_during_store (x : sfs) s0 s1 ls fail :
  let '(_, s', _, r) := take_snapshot_during c hash x s0 s1 ls fail in
  s' = s1 <| st_changes := match r with SnapOk => st_changes s1 - st_changes s0 | _ => st_changes s1 end |>.
Proof.
  unfold take_snapshot_during.
  destruct (run_plan x (take_snapshot_plan c hash x s0 ls) fail) as [x' r].
  destruct r; simpl; by destruct s1.
Qed.

(** Every change made between the state copy and the end of a completed attempt is still counted afterwards:
    for any program [p] served meanwhile (any handler, any arguments, any number of commands in sequence) the
    counter after the attempt is exactly the number of changes [p] made. *)
Theorem changes_during_snapshot_counted {R} (x : sfs) s0 ls d (p : prog R) :
  let s1 := (run_seq d p s0).1 in
  let '(_, s', _, r) := take_snapshot_during c hash x s0 s1 ls None in
  r = SnapOk -> st_changes s' = st_changes s1 - st_changes s0 /\ 0 <= st_changes s'.
Proof.
  intros s1. pose proof (take_snapshot_during_store x s0 s1 ls None) as Hs.
  destruct (take_snapshot_during c hash x s0 s1 ls None) as [[[x' s'] ls'] r].
  intros ->. rewrite Hs. simpl. split; [done|].
  pose proof (changes_monotone p d s0). fold s1 in H0. lia.
Qed.

(** The trigger: when the writes served while a snapshot was being written ([p]) and after it ([q]) together
    reach the threshold, the next tick attempts a snapshot. *)
Theorem trigger_after_snapshot {R R'} thr (x : sfs) s0 ls d (p : prog R) d' (q : prog R') :
  let s1 := (run_seq d p s0).1 in
  let '(x', s', ls', r) := take_snapshot_during c hash x s0 s1 ls None in
  r = SnapOk ->
  let s2 := (run_seq d' q s').1 in
  thr <= (st_changes s1 - st_changes s0) + (st_changes s2 - st_changes s') ->
  tick c hash thr x' s2 ls' =
    let '(x'', s'', ls'', r') := take_snapshot c hash x' s2 ls' None in (x'', s'', ls'', Some r').
Proof.
  intros s1. pose proof (changes_during_snapshot_counted x s0 ls d p) as Hc. cbv zeta in Hc. fold s1 in Hc.
  destruct (take_snapshot_during c hash x s0 s1 ls None) as [[[x' s'] ls'] r].
  intros Hr s2 Hthr. destruct (Hc Hr) as [Heq _].
  apply tick_attempts. lia.
Qed.

End engine.

(** The code before the repair (counter set to zero at the end of the attempt): one SET served while the snapshot
    is written, threshold 1 — the write is not in the snapshot, and the next tick does nothing. *)
Definition wit_codec : codec := run_codec.
Definition wit_prog : prog unit := SetValues [("k", VStr "v")] (fun _ => Ret tt).
Lemma counter_reset_forgets_writes :
  let s0 := init_state 100 in
  let s1 := (run_seq 0 wit_prog s0).1 in
  let '(x', s', ls', r) := take_snapshot_during_legacy wit_codec (H:=snapobj) (fun o => o) fs_empty s0 s1 0 None in
  r = SnapOk /\ 1 <= st_changes s1 - st_changes s0 /\
  restore_read x' = Some (snapshot_object wit_codec s0 100) /\
  tick wit_codec (H:=snapobj) (fun o => o) 1 x' s' ls' = (x', s', ls', None).
Proof. vm_compute. repeat split; congruence. Qed.
(** The same history on the repaired code: the tick takes the snapshot. *)
Lemma counter_discount_keeps_writes :
  let s0 := init_state 100 in
  let s1 := (run_seq 0 wit_prog s0).1 in
  let '(x', s', ls', r) := take_snapshot_during wit_codec (H:=snapobj) (fun o => o) fs_empty s0 s1 0 None in
  r = SnapOk /\ (tick wit_codec (H:=snapobj) (fun o => o) 1 x' s' ls').2 = Some SnapOk.
Proof. vm_compute. by split. Qed.
