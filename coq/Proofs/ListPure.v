(** Pure facts: the index arithmetic and loops of the Go handlers compute the reference
    sequence operations, for all integers and all lists. *)
From stdpp Require Import gmap strings.
From Coq Require Import ZifyBool.
From EV Require Import Base.Str Model.Value Model.Reply Model.CmdList Spec.SpecList.
Local Open Scope Z_scope.

Lemma zlen_length {A} (l : list A) : zlen l = Z.of_nat (length l).
Proof. done. Qed.

Lemma znth_spec {A} (l : list A) i : 0 <= i -> znth l i = nth_error l (Z.to_nat i).
Proof. intros H. unfold znth. destruct (i <? 0) eqn:E; [lia|done]. Qed.

(** LINDEX *)
Lemma lindex_eq (l : list string) (i0 : Z) :
  (let i := if i0 <? 0 then zlen l + i0 else i0 in
   if (zlen l <=? i) || (i <? 0) then RNil
   else match znth l i with Some x => RBulk x | None => RPanic end)
  = match ref_index l i0 with Some x => RBulk x | None => RNil end.
Proof.
  unfold ref_index, norm_idx. set (i := if i0 <? 0 then zlen l + i0 else i0).
  destruct (zlen l <=? i) eqn:E1; destruct (i <? 0) eqn:E2; simpl;
    destruct (0 <=? i) eqn:E3; destruct (i <? zlen l) eqn:E4; simpl; try lia; try done.
  rewrite znth_spec by lia.
  destruct (nth_error l (Z.to_nat i)) eqn:En; [done|].
  apply nth_error_None in En. unfold zlen in *. lia.
Qed.

(** LRANGE *)
Lemma lrange_eq (l : list string) (s0 e0 : Z) :
  (let s1 := if s0 <? 0 then zlen l + s0 else s0 in
   let s2 := if s1 <? 0 then 0 else s1 in
   let e1 := if e0 <? 0 then zlen l + e0 else e0 in
   let e2 := if zlen l - 1 <? e1 then zlen l - 1 else e1 in
   if (e2 <? s2) || (zlen l - 1 <? s2) then RArr [] else bulks (slice l s2 (e2 + 1)))
  = bulks (ref_range l s0 e0).
Proof.
  unfold ref_range, norm_idx, slice, zfirstn, zskipn.
  set (len := zlen l).
  set (s1 := if s0 <? 0 then len + s0 else s0).
  set (e1 := if e0 <? 0 then len + e0 else e0).
  cbv zeta.
  replace (if s1 <? 0 then 0 else s1) with (Z.max 0 s1) by (destruct (s1 <? 0) eqn:E; lia).
  replace (if len - 1 <? e1 then len - 1 else e1) with (Z.min (len - 1) e1)
    by (destruct (len - 1 <? e1) eqn:E; lia).
  destruct (Z.min (len - 1) e1 <? Z.max 0 s1) eqn:E1; simpl; [done|].
  destruct (len - 1 <? Z.max 0 s1) eqn:E2; [lia|].
  do 3 f_equal. lia.
Qed.

(** LSET *)
Lemma lset_eq (l : list string) (i0 : Z) (x : string) :
  let i := if i0 <? 0 then zlen l + i0 else i0 in
  (if negb ((0 <=? i) && (i <? zlen l)) then None else Some (list_set l i x)) = ref_set l i0 x.
Proof.
  unfold ref_set, norm_idx, list_set, zfirstn, zskipn. cbv zeta.
  set (i := if i0 <? 0 then zlen l + i0 else i0).
  destruct ((0 <=? i) && (i <? zlen l)) eqn:E; simpl; [|done].
  do 4 f_equal. lia.
Qed.

(** LTRIM: the slice kept is the reference range; the key is deleted exactly when that is empty. *)
Lemma ltrim_eq (l : list string) (s0 e0 : Z) :
  let s1 := if s0 <? 0 then zlen l + s0 else s0 in
  let e1 := if e0 <? 0 then zlen l + e0 else e0 in
  let s2 := if s1 <? 0 then 0 else s1 in
  if (e1 <? s2) || (zlen l - 1 <? s2) then ref_range l s0 e0 = []
  else
    let e2 := if zlen l <? e1 then zlen l else e1 in
    let e3 := if e2 <=? zlen l - 1 then e2 + 1 else e2 in
    slice l s2 e3 = ref_range l s0 e0 /\ ref_range l s0 e0 <> [].
Proof.
  unfold ref_range, norm_idx, slice, zfirstn, zskipn.
  set (len := zlen l).
  set (s1 := if s0 <? 0 then len + s0 else s0).
  set (e1 := if e0 <? 0 then len + e0 else e0).
  cbv zeta.
  replace (if s1 <? 0 then 0 else s1) with (Z.max 0 s1) by (destruct (s1 <? 0) eqn:E; lia).
  destruct ((e1 <? Z.max 0 s1) || (len - 1 <? Z.max 0 s1)) eqn:E.
  - destruct (Z.min (len - 1) e1 <? Z.max 0 s1) eqn:E1; [done|]. lia.
  - destruct (Z.min (len - 1) e1 <? Z.max 0 s1) eqn:E1; [lia|].
    assert (Hcount : (if (if len <? e1 then len else e1) <=? len - 1
                      then (if len <? e1 then len else e1) + 1 else (if len <? e1 then len else e1))
                     - Z.max 0 s1 = Z.min (len - 1) e1 - Z.max 0 s1 + 1).
    { destruct (len <? e1) eqn:A; destruct (_ <=? len - 1) eqn:B; lia. }
    rewrite Hcount. split; [done|].
    intros Hnil. apply (f_equal (@length string)) in Hnil.
    rewrite firstn_length, skipn_length in Hnil. simpl in Hnil.
    subst len. unfold zlen in *. lia.
Qed.

(** LREM: the in-place loops. *)
Lemma cut_at_head (x : string) (l : list string) : cut_at (x :: l) 0 = l.
Proof. done. Qed.

Lemma znth_app_r {A} (p l : list A) : znth (p ++ l) (zlen p) = znth l 0.
Proof.
  rewrite !znth_spec by (unfold zlen; lia). unfold zlen. rewrite Nat2Z.id.
  rewrite nth_error_app2 by lia. by rewrite Nat.sub_diag.
Qed.

Lemma cut_at_app (p l : list string) : cut_at (p ++ l) (zlen p) = p ++ cut_at l 0.
Proof.
  unfold cut_at, zfirstn, zskipn, zlen. rewrite Nat2Z.id.
  replace (Z.to_nat (Z.of_nat (length p) + 1)) with (length p + 1)%nat by lia.
  rewrite firstn_app, Nat.sub_diag, firstn_all. simpl. rewrite app_nil_r.
  rewrite skipn_app. rewrite (skipn_all2 p) by lia. simpl.
  replace (length p + 1 - length p)%nat with 1%nat by lia. done.
Qed.

(** Forward loop from position [|p|]: the prefix [p] is already scanned. *)
Lemma lrem_fwd_spec x : forall (l p : list string) fuel (limited : bool) cnt,
  (length l <= fuel)%nat -> (limited = true -> 0 <= cnt) ->
  lrem_fwd fuel limited x (zlen p) cnt (p ++ l) =
  p ++ (if limited then remove_first (Z.to_nat cnt) x l
        else filter (fun y => negb (String.eqb y x)) l).
Proof.
  induction l as [|y l IH]; intros p fuel limited cnt Hfuel Hcnt.
  - rewrite app_nil_r. destruct fuel; simpl.
    + destruct limited; [destruct (Z.to_nat cnt)|]; by rewrite app_nil_r.
    + rewrite Z.leb_refl. destruct limited; [destruct (Z.to_nat cnt)|]; by rewrite app_nil_r.
  - destruct fuel as [|fuel]; [simpl in Hfuel; lia|]. simpl in Hfuel.
    cbn [lrem_fwd].
    destruct (zlen (p ++ y :: l) <=? zlen p) eqn:E.
    { rewrite zlen_app in E. unfold zlen in E. simpl in E. lia. }
    destruct (limited && (cnt =? 0)) eqn:E0.
    { destruct limited; [|done]. simpl in E0. apply Z.eqb_eq in E0. subst. done. }
    rewrite znth_app_r. cbn [znth]. simpl.
    destruct (String.eqb y x) eqn:Eyx.
    + rewrite cut_at_app, cut_at_head.
      rewrite IH by (try lia; intros ->; simpl in E0; specialize (Hcnt eq_refl); lia).
      destruct limited; simpl.
      * simpl in E0. specialize (Hcnt eq_refl).
        replace (Z.to_nat cnt) with (S (Z.to_nat (cnt - 1))) by lia. done.
      * done.
    + replace (zlen p + 1) with (zlen (p ++ [y])) by (rewrite zlen_app; done).
      replace (p ++ y :: l) with ((p ++ [y]) ++ l) by (by rewrite <- app_assoc).
      rewrite IH by (try lia; done). rewrite <- app_assoc. simpl.
      destruct limited; simpl.
      * destruct (Z.to_nat cnt) eqn:En; simpl; [|done].
        simpl in E0. specialize (Hcnt eq_refl). lia.
      * done.
Qed.

(** Backward loop at position [|l|-1] of [l ++ q]: the suffix [q] is already scanned and the
    elements of it that remain do not matter to what happens in [l]. *)
Lemma lrem_bwd_spec x : forall (l q : list string) fuel cnt,
  (length l <= fuel)%nat -> 0 <= cnt ->
  lrem_bwd fuel x (zlen l - 1) cnt (l ++ q) =
  rev (remove_first (Z.to_nat cnt) x (rev l)) ++ q.
Proof.
  intros l. induction l as [|y l IH] using rev_ind; intros q fuel cnt Hfuel Hcnt.
  - simpl. destruct fuel; simpl; [by destruct (Z.to_nat cnt)|]. by destruct (Z.to_nat cnt).
  - rewrite app_length in Hfuel. simpl in Hfuel.
    destruct fuel as [|fuel]; [lia|]. cbn [lrem_bwd].
    rewrite zlen_app. change (zlen [y]) with 1. replace (zlen l + 1 - 1) with (zlen l) by lia.
    destruct (zlen l <? 0) eqn:E; [unfold zlen in E; lia|].
    rewrite rev_app_distr. simpl.
    destruct (cnt =? 0) eqn:E0.
    { apply Z.eqb_eq in E0. subst. simpl. rewrite rev_involutive. done. }
    apply Z.eqb_neq in E0.
    rewrite <- app_assoc. simpl. rewrite znth_app_r. cbn [znth]. simpl.
    replace (Z.to_nat cnt) with (S (Z.to_nat (cnt - 1))) by lia. simpl.
    destruct (String.eqb y x) eqn:Eyx.
    + rewrite cut_at_app, cut_at_head. rewrite IH by lia. done.
    + change (l ++ y :: q) with (l ++ [y] ++ q).
      rewrite IH by lia. simpl.
      replace (S (Z.to_nat (cnt - 1))) with (Z.to_nat cnt) by lia.
      rewrite <- app_assoc. done.
Qed.

Lemma lrem_eq (count : Z) (x : string) (l : list string) :
  (if 0 <? count then lrem_fwd (length l) true x 0 (Z.abs count) l
   else if count <? 0 then lrem_bwd (length l) x (zlen l - 1) (Z.abs count) l
   else lrem_fwd (length l) false x 0 0 l) = ref_rem count x l.
Proof.
  unfold ref_rem.
  destruct (0 <? count) eqn:E1.
  - pose proof (lrem_fwd_spec x l [] (length l) true (Z.abs count)) as H. change (zlen (@nil string)) with 0 in H. simpl in H.
    rewrite H by lia. f_equal. lia.
  - destruct (count <? 0) eqn:E2.
    + pose proof (lrem_bwd_spec x l [] (length l) (Z.abs count)) as H.
      rewrite app_nil_r in H. rewrite H by lia. rewrite app_nil_r. do 3 f_equal. lia.
    + pose proof (lrem_fwd_spec x l [] (length l) false 0) as H. change (zlen (@nil string)) with 0 in H. simpl in H. by rewrite H by (try lia; done).
Qed.

(** LMOVE / pops *)
Lemma take_side_left (l : list string) :
  take_side true l = match l with [] => None | _ => Some (hd "" l, tl l) end.
Proof. by destruct l. Qed.
Lemma take_side_right (l : list string) :
  take_side false l = match l with [] => None | _ => Some (last l "", removelast l) end.
Proof. by destruct l. Qed.

Lemma firstn_1_hd (l : list string) : l <> [] -> firstn 1 l = [hd "" l].
Proof. by destruct l. Qed.

Lemma removelast_firstn_len {A} (l : list A) : removelast l = firstn (length l - 1) l.
Proof.
  induction l as [|x l IH]; [done|]. destruct l as [|y l]; [done|].
  change (removelast (x :: y :: l)) with (x :: removelast (y :: l)). rewrite IH. simpl.
  by rewrite Nat.sub_0_r.
Qed.

Lemma last_skipn {A} (l : list A) d : l <> [] -> skipn (length l - 1) l = [last l d].
Proof.
  induction l as [|x l IH]; [done|]. intros _. destruct l as [|y l]; [done|].
  change (last (x :: y :: l) d) with (last (y :: l) d). rewrite <- IH by done. simpl.
  by rewrite Nat.sub_0_r.
Qed.
