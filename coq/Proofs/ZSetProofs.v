(** C17: the sorted-set handlers refine the reference of [Spec/SpecZSet.v]. *)
From stdpp Require Import gmap strings.
From EV Require Import Base.Str Model.Value Model.Keyspace Model.Reply Model.Prog Model.ZSetOps Model.ZSetMulti Model.CmdZSet.
From EV Require Import Spec.SpecZSet Proofs.KeyspaceLemmas Proofs.ZSetPure.
Local Open Scope Z_scope.

(** * Abstraction: what sorted-set commands can see of database [d] *)
Definition zview (s : state) (d : Z) : zspec :=
  omap (fun e => if expired (st_now s) e then None else Some (classify (e_val e))) (get_db s d).

Lemma zview_lookup s d k : zview s d !! k = classify <$> live s d k.
Proof.
  unfold zview, live, lentry. rewrite lookup_omap.
  destruct (get_db s d !! k) as [e|]; simpl; [|done]. by destruct (expired _ e).
Qed.

Lemma zview_ext s' d m :
  (forall k, classify <$> live s' d k = m !! k) -> zview s' d = m.
Proof. intros H. apply map_eq. intros k. rewrite zview_lookup. apply H. Qed.

Lemma same_view_zview s s' d : same_view s s' -> zview s' d = zview s d.
Proof.
  intros (H & _). apply zview_ext. intros k. rewrite zview_lookup. unfold live. by rewrite H.
Qed.

(** What a step may do to the entries: nothing outside [d]; inside [d] an entry is untouched, or is
    (now) a sorted set that kept the deadline the key had. *)
Definition zset_frame (s s' : state) (d : Z) : Prop :=
  (forall d' k, d' <> d -> lentry s' d' k = lentry s d' k) /\
  (forall k, lentry s' d k = lentry s d k \/
             (exists z, lentry s' d k = Some (Entry (VZSet z) (dl_of (lentry s d k))))) /\
  st_now s' = st_now s /\ st_maxmem s' = st_maxmem s /\ st_noevict s' = st_noevict s.

Lemma same_view_frame s s' d : same_view s s' -> zset_frame s s' d.
Proof. intros (H1 & H2 & H3 & H4). repeat split; auto. Qed.

Lemma zset_frame_trans_view s s1 s' d :
  same_view s s1 -> zset_frame s1 s' d -> zset_frame s s' d.
Proof.
  intros (V1 & V2 & V3 & V4) (F1 & F2 & F3 & F4 & F5). repeat split; try congruence.
  - intros d' k Hd. rewrite F1 by done. apply V1.
  - intros k. destruct (F2 k) as [H|[z H]].
    + left. rewrite H. apply V1.
    + right. exists z. rewrite H. by rewrite V1.
Qed.

(** Writing one sorted set after some reads. *)
Lemma put_one s s1 d k z' s2 ok :
  st_maxmem s = 0 -> same_view s s1 -> set_values s1 d [(k, VZSet z')] = (s2, ok) ->
  ok = true /\ zview s2 d = <[k := ZSet z']> (zview s d) /\ zset_frame s s2 d.
Proof.
  intros Hm Hv Hs. assert (Hm1 : st_maxmem s1 = 0) by (destruct Hv as (_ & _ & -> & _); done).
  pose proof (set_values_spec s1 d [(k, VZSet z')] Hm1) as H. rewrite Hs in H.
  destruct H as (-> & He & Hn & Hmm & Hne). split; [done|]. split.
  - apply map_eq. intros k0. rewrite zview_lookup. unfold live. rewrite He, decide_True by done.
    simpl. destruct (String.eqb k0 k) eqn:E.
    + apply String.eqb_eq in E. subst. by rewrite lookup_insert.
    + apply String.eqb_neq in E. rewrite lookup_insert_ne by done.
      rewrite <- (same_view_zview _ _ _ Hv). by rewrite zview_lookup.
  - eapply zset_frame_trans_view; [exact Hv|]. repeat split; auto.
    + intros d' k0 Hd. rewrite He. by rewrite decide_False.
    + intros k0. rewrite He, decide_True by done. simpl.
      destruct (String.eqb k0 k); [right; by exists z'|by left].
Qed.

Lemma live_classify_zset s d k z :
  zview s d !! k = Some (ZSet z) -> live s d k = Some (VZSet z).
Proof.
  rewrite zview_lookup. destruct (live s d k) as [v|]; [|done]. destruct v; simpl; try done.
  by intros [= ->].
Qed.
Lemma live_classify_other s d k :
  zview s d !! k = Some ZOther -> exists v, live s d k = Some v /\ as_zset (Some v) = None.
Proof.
  rewrite zview_lookup. destruct (live s d k) as [v|]; [|done]. destruct v; simpl; try done; eauto.
Qed.

Lemma exists_iff_view s d k :
  bool_decide (is_Some (lentry s d k)) = bool_decide (is_Some (zview s d !! k)).
Proof.
  rewrite zview_lookup. unfold live. destruct (lentry s d k); simpl; done.
Qed.

(** The statement proved of every step: same reply, same resulting view, frame, errors change nothing. *)
Definition step_ok (s : state) (d : Z) (res : state * reply) (ref : zspec * reply) : Prop :=
  snd res = snd ref /\ zview (fst res) d = fst ref /\ zset_frame s (fst res) d /\
  (snd res = RErr -> same_view s (fst res)).

Lemma step_ok_same s s1 d r : same_view s s1 -> step_ok s d (s1, r) (zview s d, r).
Proof.
  intros H. split; [done|]. split; [by apply same_view_zview|]. split; [by apply same_view_frame|done].
Qed.

(** * The action of a decoded command *)
Lemma run_act_refines s s1 d wkey a :
  st_maxmem s = 0 -> same_view s s1 ->
  step_ok s d (run_seq d (run_act wkey a) s1) (apply_act (zview s d) wkey a).
Proof.
  intros Hm Hv. destruct a as [r|z r]; cbn -[zview].
  - by apply step_ok_same.
  - destruct (is_err r) eqn:Er; cbn -[zview]; [by apply step_ok_same|].
    destruct (set_values s1 d [(wkey, VZSet z)]) as [s2 ok] eqn:Hs.
    destruct (put_one s s1 d wkey z s2 ok Hm Hv Hs) as (-> & Hz & Hf). cbn -[zview].
    split; [done|]. split; [done|]. split; [done|]. cbn. intros ->. done.
Qed.

(** * The two skeletons *)
Lemma single_refines dd s d :
  st_maxmem s = 0 ->
  step_ok s d (run_seq d (run_single dd) s) (spec_single (zview s d) dd).
Proof.
  intros Hm. unfold run_single, spec_single.
  cbn -[zview]. rewrite keys_exist_single, exists_iff_view.
  destruct (zd_body dd) as [[absent present]|]; [|by apply step_ok_same, same_view_refl].
  destruct (zview s d !! zd_rkey dd) as [[z|]|] eqn:Hk; cbn -[zview].
  - pose proof (get_values_spec s d [zd_rkey dd]) as Hg.
    destruct (get_values s d [zd_rkey dd]) as [s1 f]. destruct Hg as [Hv Hf].
    rewrite Hf by set_solver. rewrite (live_classify_zset _ _ _ _ Hk). cbn -[zview].
    by apply run_act_refines.
  - pose proof (get_values_spec s d [zd_rkey dd]) as Hg.
    destruct (get_values s d [zd_rkey dd]) as [s1 f]. destruct Hg as [Hv Hf].
    rewrite Hf by set_solver. destruct (live_classify_other _ _ _ Hk) as (v & -> & Hn). rewrite Hn.
    cbn -[zview]. by apply step_ok_same.
  - apply run_act_refines; [done|apply same_view_refl].
Qed.

Lemma multi_refines dd s d :
  st_maxmem s = 0 ->
  step_ok s d (run_seq d (run_multi dd) s) (spec_multi (zview s d) dd).
Proof.
  intros Hm. unfold run_multi, spec_multi. cbn -[zview].
  destruct (zm_body dd) as [f|]; [|by apply step_ok_same, same_view_refl].
  cbn -[zview].
  set (ex := keys_exist s d (zm_keys dd)).
  set (rd := if zm_eager dd then zm_keys dd else filter ex (zm_keys dd)).
  pose proof (get_values_spec s d rd) as Hg. destruct (get_values s d rd) as [s1 vals].
  destruct Hg as [Hv Hf]. cbn -[zview].
  assert (Hseen : map (fun k => if ex k then classify <$> vals k else None) (zm_keys dd)
                  = map (fun k => zview s d !! k) (zm_keys dd)).
  { apply map_ext_in. intros k Hk.
    assert (Hex : ex k = bool_decide (is_Some (zview s d !! k))).
    { subst ex. rewrite keys_exist_lentry, exists_iff_view.
      replace (str_in k (zm_keys dd)) with true; [done|].
      symmetry. apply str_in_spec. by apply elem_of_list_In. }
    rewrite Hex. destruct (zview s d !! k) as [v|] eqn:Hz; cbn; [|done].
    rewrite Hf.
    - by rewrite <- zview_lookup.
    - subst rd. destruct (zm_eager dd); apply elem_of_list_In; [done|].
      apply filter_In. split; [done|]. rewrite Hex. done. }
  rewrite Hseen. by apply run_act_refines.
Qed.

Definition spec_of (o : option zdec) (m : zspec) : zspec * reply :=
  match o with
  | None => (m, RErr)
  | Some (DSingle d) => spec_single m d
  | Some (DMulti d) => spec_multi m d
  end.

Lemma run_zset_refines dec argv s d :
  st_maxmem s = 0 ->
  step_ok s d (run_seq d (run_zset dec argv) s) (spec_of (dec argv) (zview s d)).
Proof.
  intros Hm. unfold run_zset, spec_of.
  destruct (dec argv) as [[dd|dd]|].
  - by apply single_refines.
  - by apply multi_refines.
  - by apply step_ok_same, same_view_refl.
Qed.

(** * Any command word, any argument vector *)
Definition exec_zset (d : Z) (argv : list string) (s : state) : state * reply :=
  match argv with
  | [] => (s, RErr)
  | c :: _ => match zset_handler (lower c) with
              | Some h => run_seq d (h argv) s
              | None => (s, RErr)
              end
  end.

(** The handler table runs the skeletons on the code's decoding of the command. *)
Lemma exec_zset_decode d c rest s :
  exec_zset d (c :: rest) s = run_seq d (run_zset (decode_any false) (c :: rest)) s.
Proof.
  unfold exec_zset, zset_handler, run_zset, decode_any.
  change (arg (c :: rest) 0) with c.
  repeat match goal with
  | |- context [if String.eqb (lower c) ?name then _ else _] =>
      destruct (String.eqb (lower c) name); [reflexivity|]
  | |- context [if String.eqb (lower c) ?n1 || String.eqb (lower c) ?n2 then _ else _] =>
      destruct (String.eqb (lower c) n1); [reflexivity|]; destruct (String.eqb (lower c) n2); [reflexivity|];
      cbn [orb]
  end.
  reflexivity.
Qed.

Theorem zset_step_refines argv s d :
  st_maxmem s = 0 ->
  step_ok s d (exec_zset d argv s) (spec_zset false (zview s d) argv).
Proof.
  intros Hm. destruct argv as [|c rest]; [by apply step_ok_same, same_view_refl|].
  rewrite exec_zset_decode. apply (run_zset_refines (decode_any false) (c :: rest) s d Hm).
Qed.

(** * Whole scripts *)
Fixpoint run_zset_cmds (d : Z) (cmds : list (list string)) (s : state) : state * list reply :=
  match cmds with
  | [] => (s, [])
  | c :: r => let '(s1, x) := exec_zset d c s in
              let '(s2, xs) := run_zset_cmds d r s1 in (s2, x :: xs)
  end.

Theorem zset_script_refines_pinned cmds : forall s d,
  st_maxmem s = 0 ->
  let '(s', rs) := run_zset_cmds d cmds s in
  let '(m', rs') := spec_zset_run false (zview s d) cmds in
  rs = rs' /\ zview s' d = m' /\ st_maxmem s' = 0.
Proof.
  induction cmds as [|c r IH]; intros s d Hm; cbn -[zview spec_zset]; [done|].
  pose proof (zset_step_refines c s d Hm) as H1.
  destruct (exec_zset d c s) as [s1 x]. destruct (spec_zset false (zview s d) c) as [m1 x'].
  destruct H1 as (Hr & Hlv & Hfr & _). cbn in Hr, Hlv, Hfr. subst x'.
  assert (Hm1 : st_maxmem s1 = 0) by (destruct Hfr as (_ & _ & _ & -> & _); done).
  specialize (IH s1 d Hm1). rewrite Hlv in IH.
  destruct (run_zset_cmds d r s1) as [s2 xs]. destruct (spec_zset_run false m1 r) as [m2 xs'].
  destruct IH as (-> & ? & ?). done.
Qed.

(** On scripts that stay outside the trigger classes of the two known findings the pinned reading is the
    documented one. *)
Lemma kf_free_same cmds : forall m,
  kf_free m cmds = true -> spec_zset_run true m cmds = spec_zset_run false m cmds.
Proof.
  induction cmds as [|c r IH]; intros m H; cbn -[spec_zset]; [done|].
  cbn -[spec_zset] in H. apply andb_true_iff in H as [H1 H2]. apply bool_decide_eq_true in H1.
  rewrite <- H1. destruct (spec_zset true m c) as [m1 x]. cbn in H2. by rewrite (IH m1 H2).
Qed.

Theorem zset_script_refines cmds s d :
  st_maxmem s = 0 -> kf_free (zview s d) cmds = true ->
  let '(s', rs) := run_zset_cmds d cmds s in
  let '(m', rs') := spec_zset_run true (zview s d) cmds in
  rs = rs' /\ zview s' d = m' /\ st_maxmem s' = 0.
Proof.
  intros Hm Hk. rewrite (kf_free_same _ _ Hk). by apply zset_script_refines_pinned.
Qed.

Corollary zset_error_changes_nothing argv s d :
  st_maxmem s = 0 -> snd (exec_zset d argv s) = RErr -> same_view s (fst (exec_zset d argv s)).
Proof. intros Hm. by destruct (zset_step_refines argv s d Hm) as (_ & _ & _ & H). Qed.

Corollary zset_step_frame argv s d :
  st_maxmem s = 0 -> zset_frame s (fst (exec_zset d argv s)) d.
Proof. intros Hm. by destruct (zset_step_refines argv s d Hm) as (_ & _ & H & _). Qed.

(** * A syntactic sufficient condition for [kf_free]: no plain ZADD, no LIMIT, no ZMPOP, no ZUNIONSTORE *)
Definition static_free (argv : list string) : bool :=
  let name := lower (arg argv 0) in
  if String.eqb name "zadd" then
    match parse_zadd argv with
    | Some (o, _) => o_ch o || negb (is_pnone (o_pol o)) || o_incr o
    | None => true
    end
  else if String.eqb name "zrange" then
    match parse_zrange (arg argv 2) (arg argv 3) (skipn 4 argv) with
    | Some a => bool_decide (ra_limit a = None)
    | None => true
    end
  else if String.eqb name "zrangestore" then
    match parse_zrange (arg argv 3) (arg argv 4) (skipn 5 argv) with
    | Some a => bool_decide (ra_limit a = None)
    | None => true
    end
  else if String.eqb name "zunionstore" then false
  else if String.eqb name "zmpop" then false
  else true.

Lemma static_free_same m argv :
  static_free argv = true -> spec_zset true m argv = spec_zset false m argv.
Proof.
  destruct argv as [|c rest]; [done|].
  unfold spec_zset, static_free, decode_any. change (arg (c :: rest) 0) with c.
  destruct (String.eqb (lower c) "zadd") eqn:E1.
  { intros H. unfold decode_zadd. destruct (_ <? _)%nat; [done|]. cbn -[parse_zadd zadd_act].
    unfold spec_single. cbn [zd_body zd_rkey zd_wkey].
    destruct (parse_zadd (c :: rest)) as [[o pairs]|]; [|done].
    destruct (m !! _) as [[z|]|]; [|done|]; by rewrite zadd_act_same. }
  destruct (String.eqb (lower c) "zcard"); [intros _; reflexivity|].
  destruct (String.eqb (lower c) "zscore"); [intros _; reflexivity|].
  destruct (String.eqb (lower c) "zmscore"); [intros _; reflexivity|].
  destruct (String.eqb (lower c) "zrem"); [intros _; reflexivity|].
  destruct (String.eqb (lower c) "zincrby"); [intros _; reflexivity|].
  destruct (String.eqb (lower c) "zcount"); [intros _; reflexivity|].
  destruct (String.eqb (lower c) "zrank"); [intros _; reflexivity|].
  destruct (String.eqb (lower c) "zrevrank"); [intros _; reflexivity|].
  destruct (String.eqb (lower c) "zpopmin"); [intros _; reflexivity|].
  destruct (String.eqb (lower c) "zpopmax"); [intros _; reflexivity|].
  cbn [orb].
  destruct (String.eqb (lower c) "zrange") eqn:E2.
  { intros H. unfold decode_zrange. destruct (_ || _); [done|]. cbn -[parse_zrange zrange_select].
    unfold spec_single. cbn [zd_body zd_rkey zd_wkey].
    destruct (parse_zrange _ _ _) as [a|]; [|done]. apply bool_decide_eq_true in H.
    destruct (m !! _) as [[z|]|]; [|done|done].
    by rewrite (zrange_select_no_limit _ _ _ _ H). }
  destruct (String.eqb (lower c) "zrangestore") eqn:E3.
  { intros H. unfold decode_zrangestore. destruct (_ || _); [done|]. cbn -[parse_zrange zrange_select].
    unfold spec_single. cbn [zd_body zd_rkey zd_wkey].
    destruct (parse_zrange _ _ _) as [a|]; [|done]. apply bool_decide_eq_true in H.
    destruct (m !! _) as [[z|]|]; [|done|done].
    by rewrite (zrange_select_no_limit _ _ _ _ H). }
  destruct (String.eqb (lower c) "zlexcount"); [intros _; reflexivity|].
  destruct (String.eqb (lower c) "zremrangebyscore"); [intros _; reflexivity|].
  destruct (String.eqb (lower c) "zremrangebylex"); [intros _; reflexivity|].
  destruct (String.eqb (lower c) "zremrangebyrank"); [intros _; reflexivity|].
  destruct (String.eqb (lower c) "zinter"); [intros _; reflexivity|].
  destruct (String.eqb (lower c) "zinterstore"); [intros _; reflexivity|].
  destruct (String.eqb (lower c) "zunion"); [intros _; reflexivity|].
  destruct (String.eqb (lower c) "zunionstore"); [done|].
  destruct (String.eqb (lower c) "zdiff"); [intros _; reflexivity|].
  destruct (String.eqb (lower c) "zdiffstore"); [intros _; reflexivity|].
  destruct (String.eqb (lower c) "zmpop"); [done|].
  intros _. reflexivity.
Qed.

Lemma static_free_kf_free cmds : forall m,
  forallb static_free cmds = true -> kf_free m cmds = true.
Proof.
  induction cmds as [|c r IH]; intros m H; [done|].
  cbn -[spec_zset] in *. apply andb_true_iff in H as [H1 H2].
  rewrite (static_free_same m c H1), bool_decide_eq_true_2 by done. cbn -[spec_zset].
  rewrite <- (static_free_same m c H1). by apply IH.
Qed.
