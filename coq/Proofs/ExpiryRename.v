(** C04: RENAME moves the deadline with the value (corollary of the C01 refinement of RENAME). *)
From stdpp Require Import gmap strings.
From EV Require Import Base.Str Model.Value Model.Keyspace Model.Reply Model.Prog Model.CmdGeneric.
From EV Require Import Proofs.KeyspaceLemmas Proofs.KVProofs.
From EV Require Spec.SpecKV.
Local Open Scope Z_scope.

Lemma rename_moves_deadline : forall old new s d e,
  st_maxmem s = 0 -> old <> new -> lentry s d old = Some e ->
  let s' := fst (run_seq d (handle_rename ["RENAME"; old; new]) s) in
  lentry s' d new = Some e /\ lentry s' d old = None /\
  forall k, k <> old -> k <> new -> lentry s' d k = lentry s d k.
Proof.
  intros old new s d e Hm Hne He s'.
  pose proof (KVProofs.kv_step_refines ["RENAME"; old; new] s d Hm) as H.
  unfold KVProofs.exec_kv in H. change (KVProofs.kv_handler (lower "RENAME")) with (Some handle_rename) in H.
  fold s' in H. destruct (run_seq d (handle_rename ["RENAME"; old; new]) s) as [s1 r] eqn:E. simpl in s'. subst s'.
  change (SpecKV.spec_kv (st_now s) (KVProofs.kview s d) ["RENAME"; old; new])
    with (match KVProofs.kview s d !! old with
          | None => (KVProofs.kview s d, RErr)
          | Some e0 => if String.eqb old new then (KVProofs.kview s d, ROk)
                       else (<[new := e0]> (delete old (KVProofs.kview s d)), ROk)
          end) in H.
  rewrite KVProofs.kview_lookup, He in H.
  destruct (String.eqb_spec old new) as [->|_]; [done|].
  destruct H as (_ & Hv & _).
  repeat split.
  - by rewrite <- KVProofs.kview_lookup, Hv, lookup_insert.
  - rewrite <- KVProofs.kview_lookup, Hv, lookup_insert_ne, lookup_delete by done. done.
  - intros k Ho Hn. rewrite <- !KVProofs.kview_lookup, Hv, lookup_insert_ne, lookup_delete_ne by done. done.
Qed.
