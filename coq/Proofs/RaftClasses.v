(** Classification of every replicated command: which handlers are [tfree] for every argument vector
    (module by module, as [Proofs/HandlerClasses.v] does for the other syntactic classes), which are
    under a decidable condition on the arguments (absolute deadlines), and which are not at all. *)
From stdpp Require Import gmap strings.
From EV Require Import Base.Str Model.Value Model.Adapt Model.Keyspace Model.Reply Model.Prog.
From EV Require Import Model.CmdList Model.CmdGeneric Model.CmdString Model.Dispatch.
From EV Require Import Model.HashVal Model.CmdHash Model.CmdSet Model.ZSetOps Model.ZSetMulti Model.CmdZSet.
From EV Require Import Model.Raft Proofs.RaftLemmas Proofs.RaftDet Proofs.HandlerClasses.
Local Open Scope Z_scope.

Ltac tf_step :=
  match goal with
  | |- tfree _ (match ?x with _ => _ end) => destruct x
  | |- tfree _ (if ?b then _ else _) => destruct b
  | H : forall _, tfree _ _ |- tfree _ _ => apply H
  | H : dl_ok _ ?t |- tfree _ (SetExpiry _ ?t _ _) => apply tf_setexp; [exact H|]
  | |- tfree _ (SetExpiry _ None _ _) => apply tf_setexp; [exact I|]
  | |- tfree _ (Now _) => fail 1
  | |- tfree _ (SetExpiry _ (Some _) _ _) => fail 1
  | |- tfree _ _ => constructor
  end.
Ltac tf := repeat (intros; cbv zeta; tf_step).

Section classes.
Context (T : Z).

Lemma tf_list name h argv : list_handler name = Some h -> tfree T (h argv).
Proof.
  unfold list_handler.
  repeat match goal with |- context [if ?b then _ else _] => destruct b end; intros [= <-];
    unfold handle_llen, handle_lindex, handle_lrange, handle_lset, handle_ltrim, handle_lrem, handle_lmove,
      handle_push, handle_pop; tf.
Qed.

Lemma tf_string name h argv : string_handler name = Some h -> tfree T (h argv).
Proof.
  unfold string_handler.
  repeat match goal with |- context [if ?b then _ else _] => destruct b end; intros [= <-];
    unfold handle_setrange, handle_strlen, handle_substr, handle_append; tf.
Qed.

Lemma tf_hash name h argv : hash_handler name = Some h -> tfree T (h argv).
Proof.
  unfold hash_handler.
  chain_cases ltac:(unfold handle_hset, handle_hget, handle_hstrlen, handle_hvals, handle_hrandfield, handle_hlen,
      handle_hkeys, handle_hincrby, handle_hgetall, handle_hexists, handle_hdel, hash_reader; tf).
Qed.

Lemma tf_read_sets_skip {R} ks : forall (k : list (gset string) -> prog R),
  (forall l, tfree T (k l)) -> tfree T (read_sets_skip ks k).
Proof. induction ks as [|key r IH]; intros k Hk; simpl; [apply Hk|]. tf; apply IH; intros; apply Hk. Qed.
Lemma tf_existing_sets {R} ex ks : forall (k : scan_result -> prog R),
  (forall x, tfree T (k x)) -> tfree T (existing_sets ex ks k).
Proof.
  induction ks as [|key r IH]; intros k Hk; simpl; [apply Hk|].
  destruct (negb (ex key)); [apply IH; intros; apply Hk|]. tf; try apply Hk. apply IH; intros; apply Hk.
Qed.
(** every set handler, whatever the random source: what depends on it is the *handler* (SPOP,
    SRANDMEMBER), not the use of the clock *)
Lemma tf_set pick name h argv : set_handler pick name = Some h -> tfree T (h argv).
Proof.
  unfold set_handler.
  chain_cases ltac:(unfold handle_sadd, handle_scard, handle_sdiff, handle_sdiffstore, handle_sinter, handle_sintercard,
      handle_sinterstore, handle_sismember, handle_smembers, handle_smismember, handle_smove, handle_spop,
      handle_srandmember, handle_srem, handle_sunion, handle_sunionstore, WriteBack;
      tf; try (intros; apply tf_read_sets_skip; tf); try (intros; apply tf_existing_sets; tf)).
Qed.

Lemma tf_run_act wkey a : tfree T (run_act wkey a).
Proof. unfold run_act. tf. Qed.
Lemma tf_run_zset dec argv : tfree T (run_zset dec argv).
Proof. unfold run_zset, run_single, run_multi. tf; intros; apply tf_run_act. Qed.
Lemma tf_zset name h argv : zset_handler name = Some h -> tfree T (h argv).
Proof. unfold zset_handler. chain_cases ltac:(apply tf_run_zset). Qed.
(** ZRANDMEMBER (any selection function) and RANDOMKEY / TOUCH / OBJECTFREQ / OBJECTIDLETIME (any random
    source): no use of the clock value; TOUCH, the one of them that is replicated, runs no primitive. *)
Lemma tf_zrand pick name h argv : CmdZRand.zrand_handler pick name = Some h -> tfree T (h argv).
Proof. unfold CmdZRand.zrand_handler. destruct (String.eqb _ _); [|done]. intros [= <-]. apply tf_run_zset. Qed.
Lemma tf_keyspace cands name h argv : CmdKeyspace.keyspace_handler cands name = Some h -> tfree T (h argv).
Proof.
  unfold CmdKeyspace.keyspace_handler. chain_cases ltac:(idtac).
  all: unfold CmdKeyspace.handle_randomkey, CmdKeyspace.handle_touch, CmdKeyspace.handle_objfreq,
         CmdKeyspace.handle_objidletime; tf.
Qed.

(** generic module: everything but SET, GETEX, EXPIRE, PEXPIRE, EXPIREAT, PEXPIREAT, TTL, PTTL *)
Lemma tf_del_keys ks ex n : tfree T (del_keys ks ex n).
Proof. revert n. induction ks as [|k r IH]; intros n; simpl; tf. Qed.
Lemma tf_counter_step key delta : tfree T (counter_step key delta).
Proof. unfold counter_step. tf. Qed.

Definition smem (s : string) (l : list string) : bool := existsb (String.eqb s) l.

Definition clock_words : list string :=
  ["set"; "getex"; "expire"; "pexpire"; "expireat"; "pexpireat"; "ttl"; "pttl"].

Lemma tf_generic name h argv :
  generic_handler name = Some h -> smem name clock_words = false -> tfree T (h argv).
Proof.
  unfold generic_handler. intros Hh Hm. revert Hh.
  repeat match goal with |- context [if ?b then _ else _] => destruct b eqn:? end; intros [= <-];
    unfold handle_mset, handle_get, handle_mget, handle_del, handle_persist, handle_expiretime,
      handle_incr, handle_decr, handle_incrby, handle_flush,
      handle_decrby, handle_incrbyfloat, handle_rename, handle_getdel, handle_type;
    try (tf; auto using tf_del_keys, tf_counter_step; fail).
  all: exfalso; revert Hm; unfold clock_words, smem;
    repeat match goal with
    | H : (_ || _) = true |- _ => apply orb_true_iff in H; destruct H
    | H : String.eqb _ _ = true |- _ => apply String.eqb_eq in H; subst
    end; vm_compute; discriminate.
Qed.

(** * The commands that read the clock: deterministic exactly when no relative time is involved *)

(** SET: no EX / PX option, and an EXAT / PXAT deadline at or after the horizon. *)
Fixpoint set_args_abs (l : list string) : bool :=
  match l with
  | [] => true
  | w :: r =>
      let lw := lower w in
      if String.eqb lw "ex" || String.eqb lw "px" then false
      else if String.eqb lw "exat" then
        match r with v :: r' => match parse_int v with Some n => (T <=? n * 1000) && set_args_abs r' | None => set_args_abs r' end | [] => true end
      else if String.eqb lw "pxat" then
        match r with v :: r' => match parse_int v with Some n => (T <=? n) && set_args_abs r' | None => set_args_abs r' end | [] => true end
      else set_args_abs r
  end.

Lemma parse_set_opts_abs fuel : forall n1 n2 cmd o,
  set_args_abs cmd = true ->
  parse_set_opts fuel n1 cmd o = parse_set_opts fuel n2 cmd o
  /\ forall o', parse_set_opts fuel n1 cmd o = Some o' -> dl_ok T (so_expire o) -> dl_ok T (so_expire o').
Proof.
  induction fuel as [|fuel IH]; intros n1 n2 cmd o Habs; simpl; [split; [done|discriminate]|].
  destruct cmd as [|w rest]; [split; [done|by intros o' [= <-]]|].
  simpl in Habs.
  destruct (String.eqb (lower w) "get") eqn:Eget.
  { apply String.eqb_eq in Eget. rewrite Eget in Habs. simpl in Habs.
    destruct (IH n1 n2 rest (SetOpts (so_exists o) true (so_expire o)) Habs) as [E P].
    split; [exact E|intros o' Ho' Hd; exact (P o' Ho' Hd)]. }
  destruct (String.eqb (lower w) "nx") eqn:Enx.
  { apply String.eqb_eq in Enx. rewrite Enx in Habs. simpl in Habs.
    destruct (String.eqb (so_exists o) ""); [|split; [done|discriminate]].
    destruct (IH n1 n2 rest (SetOpts "NX" (so_get o) (so_expire o)) Habs) as [E P].
    split; [exact E|intros o' Ho' Hd; exact (P o' Ho' Hd)]. }
  destruct (String.eqb (lower w) "xx") eqn:Exx.
  { apply String.eqb_eq in Exx. rewrite Exx in Habs. simpl in Habs.
    destruct (String.eqb (so_exists o) ""); [|split; [done|discriminate]].
    destruct (IH n1 n2 rest (SetOpts "XX" (so_get o) (so_expire o)) Habs) as [E P].
    split; [exact E|intros o' Ho' Hd; exact (P o' Ho' Hd)]. }
  destruct (String.eqb (lower w) "ex") eqn:Eex; [simpl in Habs; discriminate|].
  destruct (String.eqb (lower w) "px") eqn:Epx; [simpl in Habs; discriminate|].
  simpl in Habs.
  destruct (String.eqb (lower w) "exat") eqn:Eexat.
  { destruct rest as [|v rest']; [split; [done|discriminate]|].
    destruct (so_expire o); [split; [done|discriminate]|].
    destruct (parse_int v) as [n|]; [|split; [done|discriminate]].
    apply andb_true_iff in Habs as [Hle Habs]. apply Z.leb_le in Hle.
    destruct (IH n1 n2 rest' (SetOpts (so_exists o) (so_get o) (Some (n * 1000))) Habs) as [E P].
    split; [done|]. intros o' Ho' _. by apply P. }
  destruct (String.eqb (lower w) "pxat") eqn:Epxat.
  { destruct rest as [|v rest']; [split; [done|discriminate]|].
    destruct (so_expire o); [split; [done|discriminate]|].
    destruct (parse_int v) as [n|]; [|split; [done|discriminate]].
    apply andb_true_iff in Habs as [Hle Habs]. apply Z.leb_le in Hle.
    destruct (IH n1 n2 rest' (SetOpts (so_exists o) (so_get o) (Some n)) Habs) as [E P].
    split; [done|]. intros o' Ho' _. by apply P. }
  split; [done|discriminate].
Qed.

Lemma tf_set_abs argv : set_args_abs (skipn 3 argv) = true -> tfree T (handle_set argv).
Proof.
  intros Habs. unfold handle_set. destruct (_ || _); [constructor|].
  constructor. intros ex. apply tf_now.
  - intros n1 n2 _ _.
    by rewrite (proj1 (parse_set_opts_abs (S (length argv)) n1 n2 (skipn 3 argv) (SetOpts "" false None) Habs)).
  - intros n _.
    destruct (parse_set_opts _ n _ _) as [o|] eqn:Eo; [|constructor].
    pose proof (proj2 (parse_set_opts_abs (S (length argv)) n n (skipn 3 argv) (SetOpts "" false None) Habs) o Eo I) as Hdl.
    assert (Hag : forall res, tfree T
      (if String.eqb (so_exists o) "XX" && negb (ex (Prog.arg argv 1)) then Ret RErr
       else if String.eqb (so_exists o) "NX" && ex (Prog.arg argv 1) then Ret RErr
       else SetValues [(Prog.arg argv 1, VScal (adapt_value (Prog.arg argv 2)))] (fun ok =>
            if negb ok then Ret RErr else
            match so_expire o with
            | Some t => SetExpiry (Prog.arg argv 1) (Some t) false (Ret res)
            | None => Ret res
            end))).
    { intros res. destruct (_ && _); [constructor|]. destruct (_ && _); [constructor|].
      constructor. intros ok. destruct (negb ok); [constructor|].
      destruct (so_expire o) as [t|]; [|constructor]. apply tf_setexp; [exact Hdl|constructor]. }
    cbv zeta. destruct (so_get o); [|apply Hag].
    destruct (negb _); [apply Hag|]. constructor. intros vals.
    destruct (encode_value _); try apply Hag. constructor.
Qed.

(** EXPIREAT / PEXPIREAT: the deadline given is at or after the horizon. *)
Definition expireat_abs (argv : list string) : bool :=
  match parse_int (Prog.arg argv 2) with
  | Some n => T <=? (if String.eqb (lower (Prog.arg argv 0)) "pexpireat" then n else n * 1000)
  | None => true
  end.

Lemma tf_expire_with_option key t opt cur : T <= t -> tfree T (expire_with_option key t opt cur).
Proof.
  intros Ht. unfold expire_with_option. cbv zeta.
  repeat match goal with
  | |- tfree _ (match ?x with _ => _ end) => destruct x
  | |- tfree _ (if ?b then _ else _) => destruct b
  | |- tfree _ (SetExpiry _ (Some _) _ _) => apply tf_setexp; [exact Ht|]
  | |- tfree _ (Ret _) => constructor
  end.
Qed.

Lemma tf_expireat_abs argv : expireat_abs argv = true -> tfree T (handle_expireat argv).
Proof.
  unfold expireat_abs, handle_expireat, handle_expire_gen. intros Habs.
  destruct (_ || _); [constructor|]. constructor. intros ex.
  destruct (parse_int (Prog.arg argv 2)) as [n|]; [|constructor]. apply Z.leb_le in Habs.
  apply tf_now; [done|]. intros now _. cbv zeta.
  destruct (negb _); [constructor|].
  destruct (_ =? _)%nat; [apply tf_setexp; [exact Habs|constructor]|].
  constructor. intros cur _. by apply tf_expire_with_option.
Qed.

(** GETEX: no option, PERSIST, or EXAT / PXAT with a deadline at or after the horizon. *)
Definition getex_abs (argv : list string) : bool :=
  let exc := upper (Prog.arg argv 2) in
  if String.eqb exc "EX" || String.eqb exc "PX" then (length argv <=? 3)%nat
  else if String.eqb exc "EXAT" then
    match parse_int (Prog.arg argv 3) with Some n => T <=? n * 1000 | None => true end
  else if String.eqb exc "PXAT" then
    match parse_int (Prog.arg argv 3) with Some n => T <=? n | None => true end
  else true.

Lemma tf_getex_abs argv : getex_abs argv = true -> tfree T (handle_getex argv).
Proof.
  unfold getex_abs, handle_getex. intros Habs. cbv zeta in Habs.
  destruct ((length argv <? 2)%nat || (4 <? length argv)%nat) eqn:Elen; [constructor|]. constructor. intros ex.
  destruct (negb _); [constructor|]. constructor. intros vals.
  assert (Hres : forall res,
    tfree T (if (length argv =? 2)%nat then Ret res else
      if String.eqb (upper (Prog.arg argv 2)) "PERSIST" then SetExpiry (Prog.arg argv 1) None false (Ret res) else
      if (length argv =? 3)%nat then Ret res else
      match parse_int (Prog.arg argv 3) with
      | None => Ret RErr
      | Some n =>
          Now (fun now =>
          let go t := SetExpiry (Prog.arg argv 1) (Some t) false (Ret res) in
          if String.eqb (upper (Prog.arg argv 2)) "EX" then go (now + n * 1000)
          else if String.eqb (upper (Prog.arg argv 2)) "PX" then go (now + n)
          else if String.eqb (upper (Prog.arg argv 2)) "EXAT" then go (n * 1000)
          else if String.eqb (upper (Prog.arg argv 2)) "PXAT" then go n
          else Ret RErr)
      end)).
  { intros res. destruct (length argv =? 2)%nat eqn:E2; [constructor|].
    destruct (String.eqb (upper (Prog.arg argv 2)) "PERSIST"); [apply tf_setexp; [exact I|constructor]|].
    destruct (length argv =? 3)%nat eqn:E3; [constructor|].
    destruct (parse_int (Prog.arg argv 3)) as [n|]; [|constructor].
    destruct (String.eqb (upper (Prog.arg argv 2)) "EX") eqn:Eex.
    { simpl in Habs. apply Nat.leb_le in Habs. apply Nat.eqb_neq in E2, E3.
      apply orb_false_iff in Elen as [E1 E4]. apply Nat.ltb_ge in E1, E4. lia. }
    destruct (String.eqb (upper (Prog.arg argv 2)) "PX") eqn:Epx.
    { simpl in Habs. apply Nat.leb_le in Habs. apply Nat.eqb_neq in E2, E3.
      apply orb_false_iff in Elen as [E1 E4]. apply Nat.ltb_ge in E1, E4. lia. }
    simpl in Habs.
    destruct (String.eqb (upper (Prog.arg argv 2)) "EXAT") eqn:Eexat.
    { apply Z.leb_le in Habs. apply tf_now; [done|]. intros now _. cbv zeta.
      apply tf_setexp; [exact Habs|constructor]. }
    destruct (String.eqb (upper (Prog.arg argv 2)) "PXAT") eqn:Epxat.
    { apply Z.leb_le in Habs. apply tf_now; [done|]. intros now _. cbv zeta.
      apply tf_setexp; [exact Habs|constructor]. }
    apply tf_now; [done|]. intros now _. constructor. }
  destruct (encode_value _); try apply Hres. constructor.
Qed.

End classes.
