(** HRANDFIELD: the canonical selection used by model and reference ([hrand_pick]) is one of the
    outcomes the reference allows ([hrand_allowed]), for every hash, count and WITHVALUES flag. *)
From stdpp Require Import gmap strings.
From Coq Require Import QArith.
From EV Require Import Base.Str Model.Value Model.Adapt Model.Reply Model.HashVal Spec.SpecHash.
Local Open Scope Z_scope.

Lemma insert_sorted_perm {A} (leb : A -> A -> bool) x l : insert_sorted leb x l ≡ₚ x :: l.
Proof.
  induction l as [|y l IH]; simpl; [done|]. destruct (leb x y); [done|].
  rewrite IH. apply Permutation_swap.
Qed.
Lemma sort_by_perm {A} (leb : A -> A -> bool) l : sort_by leb l ≡ₚ l.
Proof.
  unfold sort_by. induction l as [|x l IH]; simpl; [done|].
  rewrite insert_sorted_perm. by f_equiv.
Qed.

Lemma map_fmap_eq {A B} (f : A -> B) (l : list A) : map f l = f <$> l.
Proof. induction l as [|x l IH]; [done|]. simpl. by rewrite IH. Qed.

Lemma sorted_keys_perm (h : hmap) : sorted_keys h ≡ₚ (map_to_list h).*1.
Proof. unfold sorted_keys, sort_strings. rewrite sort_by_perm. by rewrite map_fmap_eq. Qed.

Lemma sorted_keys_NoDup (h : hmap) : base.NoDup (sorted_keys h).
Proof. rewrite sorted_keys_perm. apply NoDup_fst_map_to_list. Qed.

Lemma sorted_keys_elem (h : hmap) f : f ∈ sorted_keys h -> is_Some (h !! f).
Proof.
  rewrite sorted_keys_perm. intros ([f' x] & -> & Hin)%elem_of_list_fmap.
  apply elem_of_map_to_list in Hin. simpl. eauto.
Qed.

Lemma sorted_keys_zlen (h : hmap) : zlen (sorted_keys h) = hsize h.
Proof.
  unfold zlen, hsize. f_equal. rewrite (Permutation_length (sorted_keys_perm h)).
  rewrite fmap_length. done.
Qed.

Lemma split_items_with_vals (h : hmap) wv fs :
  split_items wv (with_vals h wv fs) =
  Some (map (fun f => (f, if wv then Some (field_reply (h !! f)) else None)) fs).
Proof.
  unfold with_vals. induction fs as [|f fs IH]; [done|].
  destruct wv; simpl in *; by rewrite IH.
Qed.

Lemma fl_eqb_refl f : fl_eqb f f = true.
Proof.
  unfold fl_eqb. destruct f as [|q|]; simpl; try done.
  by rewrite (proj1 (Qeq_alt q q) (Qeq_refl q)).
Qed.

Lemma reply_matches_refl x : reply_matches x (val_reply x) = true.
Proof.
  destruct x as [s|z|f]; simpl.
  - apply String.eqb_refl.
  - apply Z.eqb_refl.
  - apply fl_eqb_refl.
Qed.

Lemma hrand_pick_sub (h : hmap) count f : f ∈ hrand_pick h count -> f ∈ sorted_keys h.
Proof.
  unfold hrand_pick. destruct (0 <=? count).
  - apply elem_of_list_lookup_2 with (i := 0%nat) || idtac.
    intros Hin. eapply elem_of_take in Hin as (i & Hi & _). by eapply elem_of_list_lookup_2.
  - destruct (sorted_keys h) as [|f0 r] eqn:E; [by intros ?%elem_of_nil|].
    intros Hin. apply elem_of_list_In, repeat_spec in Hin. subst. left.
Qed.

Theorem hrand_pick_allowed (h : hmap) count wv :
  hrand_allowed h count wv (RArr (with_vals h wv (hrand_pick h count))) = true.
Proof.
  unfold hrand_allowed. rewrite split_items_with_vals.
  apply andb_true_intro. split.
  - apply forallb_forall. intros [f ov] Hin. apply in_map_iff in Hin as (f' & [= <- <-] & Hin).
    apply elem_of_list_In, hrand_pick_sub, sorted_keys_elem in Hin as [x Hx].
    unfold item_ok. simpl. rewrite Hx. destruct wv; [|done]. simpl. apply reply_matches_refl.
  - rewrite map_map. simpl. rewrite map_id.
    pose proof (sorted_keys_zlen h) as Hlen. pose proof (sorted_keys_NoDup h) as Hnd.
    unfold hrand_pick. unfold zlen in *. rewrite !map_length.
    destruct (0 <=? count) eqn:Hc.
    + apply andb_true_intro. split.
      * apply Z.eqb_eq. rewrite firstn_length. rewrite <- Hlen. lia.
      * apply bool_decide_eq_true.
        rewrite <- (take_drop (Z.to_nat (count `min` Z.of_nat (length (sorted_keys h)))) (sorted_keys h)) in Hnd.
        by apply NoDup_app in Hnd as (? & _ & _).
    + destruct (sorted_keys h) as [|f0 r] eqn:E.
      * simpl. rewrite <- Hlen. done.
      * rewrite repeat_length. apply Z.eqb_eq.
        assert (hsize h =? 0 = false) as ->. { apply Z.eqb_neq. rewrite <- Hlen. simpl. lia. }
        lia.
Qed.

(** The judgement applied to implementation traces accepts the reference's own answer (and hence,
    by refinement, the model's): the acceptance oracle is not vacuous and not stricter than the model. *)
Theorem hrand_judge_canonical (m : hspec) c args :
  lower c = "hrandfield" -> hrand_judge m (c :: args) (snd (spec_hash m (c :: args))) = true.
Proof.
  intros Hc. unfold hrand_judge.
  destruct (spec_hash m (c :: args)) as [m' r] eqn:Hs. simpl.
  unfold spec_hash, read_hash in Hs. rewrite Hc in Hs. cbn -[parse_int eq_fold] in Hs.
  destruct args as [|k [|n [|w [|x y]]]]; cbn -[parse_int eq_fold] in Hs.
  - by injection Hs as <- <-.
  - destruct (m !! k) as [[h|]|]; injection Hs as <- <-; try done. apply hrand_pick_allowed.
  - destruct (parse_int n) as [n'|]; [|by injection Hs as <- <-].
    destruct (m !! k) as [[h|]|]; injection Hs as <- <-; try done. apply hrand_pick_allowed.
  - destruct (parse_int n) as [n'|]; [|by injection Hs as <- <-].
    destruct (eq_fold w "withvalues"); [|by injection Hs as <- <-].
    destruct (m !! k) as [[h|]|]; injection Hs as <- <-; try done. apply hrand_pick_allowed.
  - by injection Hs as <- <-.
Qed.
