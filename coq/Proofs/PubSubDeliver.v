(** C18, delivery: what every connection has received plus what is still queued for it is, after any
    history (any placement of the writer goroutines' steps), the concatenation in history order of
    the frames the commands queued for it; a publish queues exactly one frame for a connection that
    is a subscriber of the channel object or of a matching pattern object at that moment, and none
    for anybody else.  Lists only; the link with the set-based reference is in PubSubProofs.v. *)
From Coq Require Import String List Bool Arith Lia.
From EV Require Import Base.Str Model.Reply Model.PubSub.
Import ListNotations.
Local Open Scope list_scope.

Section WithGlob.
Variable glob_ok : string -> bool.
Variable glob_match : string -> string -> bool.
Notation m_step := (m_step glob_ok glob_match).
Notation m_run := (m_run glob_ok glob_match).

(** everything the connection has been or will be handed, oldest first *)
Definition total (m : ps) (c : conn) : list frame := received m c ++ outbox m c.

Definition proj (c : conn) (l : list (conn * frame)) : list frame :=
  map snd (filter (fun cf => Nat.eqb (fst cf) c) l).

(** the frames one event queues for connection c *)
Definition m_emit (m : ps) (e : event) (c : conn) : list frame :=
  match e with
  | ESub pat c' names =>
      if is_nil names then []
      else if pat && negb (forallb glob_ok names) then []
      else if Nat.eqb c c' then snd (subscribe_loop pat c' names (table m)) else []
  | EPublish _ chn msg => proj c (publish_pushes glob_match chn msg (table m))
  | _ => []
  end.

Fixpoint emitted (m : ps) (evs : list event) (c : conn) : list frame :=
  match evs with
  | [] => []
  | e :: rest => m_emit m e c ++ emitted (fst (m_step m e)) rest c
  end.

Lemma fupd_same {A} (f : conn -> A) c v : fupd f c v c = v.
Proof. unfold fupd. now rewrite Nat.eqb_refl. Qed.
Lemma fupd_other {A} (f : conn -> A) c c' v : c' <> c -> fupd f c v c' = f c'.
Proof. unfold fupd. intros H. destruct (Nat.eqb_spec c' c); congruence. Qed.

Lemma push_all_proj l : forall ob c, push_all ob l c = ob c ++ proj c l.
Proof.
  induction l as [|[c1 f1] l IH]; intros ob c; cbn.
  - now rewrite app_nil_r.
  - unfold push_all in *. cbn. rewrite IH. unfold push, proj. cbn.
    destruct (Nat.eqb_spec c1 c) as [->|Hne].
    + rewrite fupd_same. cbn. now rewrite <- app_assoc.
    + rewrite fupd_other by congruence. reflexivity.
Qed.

Lemma total_step m e c : total (fst (m_step m e)) c = total m c ++ m_emit m e c.
Proof.
  unfold total. destruct e; cbn; try now rewrite app_nil_r.
  - destruct (is_nil names); cbn; [now rewrite app_nil_r|].
    destruct (pat && negb (forallb glob_ok names)); cbn; [now rewrite app_nil_r|].
    destruct (subscribe_loop pat c0 names (table m)) as [t' fs] eqn:E. cbn.
    unfold push_frames. destruct (Nat.eqb_spec c c0) as [->|Hne].
    + rewrite fupd_same. now rewrite app_assoc.
    + rewrite fupd_other by congruence. now rewrite app_nil_r.
  - rewrite push_all_proj. now rewrite app_assoc.
  - destruct (outbox m c0) as [|f q] eqn:E; cbn; [now rewrite app_nil_r|].
    destruct (Nat.eqb_spec c c0) as [->|Hne].
    + rewrite !fupd_same, E, app_nil_r. now rewrite <- app_assoc.
    + rewrite !fupd_other by congruence. now rewrite app_nil_r.
Qed.

(** The delivery invariant, for every history and every connection. *)
Theorem deliver_invariant : forall evs m c,
  total (fst (m_run m evs)) c = total m c ++ emitted m evs c.
Proof.
  induction evs as [|e evs IH]; intros m c; cbn.
  - now rewrite app_nil_r.
  - destruct (m_step m e) as [m1 r] eqn:E1. destruct (m_run m1 evs) as [m2 rs] eqn:E2. cbn.
    specialize (IH m1 c). rewrite E2 in IH. cbn in IH. rewrite IH.
    assert (H := total_step m e c). rewrite E1 in H. cbn in H. rewrite H.
    now rewrite app_assoc.
Qed.

Definition quiescent (m : ps) : Prop := forall c, outbox m c = [].

(** From the start: what a connection has received is a prefix of what it is owed, in the same
    order, and all of it once the queues are empty. *)
Corollary received_prefix : forall evs c,
  received (fst (m_run ps_init evs)) c ++ outbox (fst (m_run ps_init evs)) c = emitted ps_init evs c.
Proof. intros evs c. apply (deliver_invariant evs ps_init c). Qed.

Corollary received_all_when_quiescent : forall evs c,
  quiescent (fst (m_run ps_init evs)) -> received (fst (m_run ps_init evs)) c = emitted ps_init evs c.
Proof.
  intros evs c Hq. rewrite <- received_prefix. rewrite (Hq c). now rewrite app_nil_r.
Qed.

(** * A publish queues one frame per current subscriber, none for anybody else *)
Lemma mem_cons c x l : mem c (x :: l) = Nat.eqb c x || mem c l.
Proof. reflexivity. Qed.

Lemma mem_nil c : mem c [] = false.
Proof. reflexivity. Qed.
Local Arguments mem : simpl never.

Lemma pushes_of_spec name msg subs : forall seen c,
  proj c (fst (pushes_of name msg subs seen)) =
    (if mem c seen then [] else if mem c subs then [FMsg name msg] else []) /\
  mem c (snd (pushes_of name msg subs seen)) = mem c seen || mem c subs.
Proof.
  induction subs as [|x subs IH]; intros seen c; cbn.
  - rewrite mem_nil, orb_false_r. split; [|reflexivity]. now destruct (mem c seen).
  - rewrite (mem_cons c x subs). destruct (mem x seen) eqn:Hx.
    + destruct (IH seen c) as [H1 H2]. rewrite H1, H2. split.
      * destruct (mem c seen) eqn:Hc; [reflexivity|].
        destruct (Nat.eqb_spec c x) as [->|]; [congruence|reflexivity].
      * destruct (Nat.eqb_spec c x) as [->|]; cbn; [|reflexivity].
        rewrite Hx. reflexivity.
    + destruct (pushes_of name msg subs (x :: seen)) as [ps seen'] eqn:E.
      destruct (IH (x :: seen) c) as [H1 H2]. rewrite E in H1, H2. cbn in H1, H2 |- *.
      rewrite (mem_cons c x seen) in H1, H2.
      unfold proj in *. cbn. rewrite (Nat.eqb_sym x c).
      destruct (Nat.eqb_spec c x) as [->|Hne]; cbn in *.
      * rewrite Hx. rewrite H1, H2. split; reflexivity.
      * rewrite H1, H2. split; [reflexivity|]. reflexivity.
Qed.

Lemma proj_app c l1 l2 : proj c (l1 ++ l2) = proj c l1 ++ proj c l2.
Proof. unfold proj. now rewrite filter_app, map_app. Qed.

Local Arguments proj : simpl never.

Lemma publish_walk_spec msg objs : forall seen c,
  proj c (publish_walk msg objs seen) =
    if mem c seen then []
    else match find (fun ch => mem c (ch_subs ch)) objs with
         | Some ch => [FMsg (ch_name ch) msg]
         | None => []
         end.
Proof.
  induction objs as [|ch objs IH]; intros seen c; cbn.
  - now destruct (mem c seen).
  - destruct (pushes_of (ch_name ch) msg (ch_subs ch) seen) as [ps seen'] eqn:E.
    destruct (pushes_of_spec (ch_name ch) msg (ch_subs ch) seen c) as [H1 H2].
    rewrite E in H1, H2. cbn in H1, H2. rewrite proj_app, H1, IH, H2.
    destruct (mem c seen); cbn; [reflexivity|].
    destruct (mem c (ch_subs ch)); cbn; reflexivity.
Qed.

(** Exactly one frame when the connection is a subscriber of the channel object or of a matching
    pattern object at this moment (the channel first, then the patterns, in table order), none
    otherwise. *)
Theorem publish_exact : forall chn msg t c,
  proj c (publish_pushes glob_match chn msg t) =
    match find (fun ch => mem c (ch_subs ch)) (pub_objs glob_match chn t) with
    | Some ch => [FMsg (ch_name ch) msg]
    | None => []
    end.
Proof. intros. unfold publish_pushes. now rewrite publish_walk_spec. Qed.

(** * FIFO *)
(** [l1] is a prefix of [l2] *)
Definition prefix_of {A} (l1 l2 : list A) : Prop := exists r, l2 = l1 ++ r.

Lemma filter_prefix {A} (P : A -> bool) l1 l2 : prefix_of l1 l2 -> prefix_of (filter P l1) (filter P l2).
Proof. intros [r ->]. exists (filter P r). apply filter_app. Qed.

(** After any history, for any selection of frames (for instance: the messages of one publisher on
    one channel), what a connection has received of them is a prefix of what it was queued, in the
    order of the publishes. *)
Theorem fifo : forall (P : frame -> bool) evs c,
  prefix_of (filter P (received (fst (m_run ps_init evs)) c)) (filter P (emitted ps_init evs c)).
Proof.
  intros P evs c. apply filter_prefix. exists (outbox (fst (m_run ps_init evs)) c).
  symmetry. apply received_prefix.
Qed.

End WithGlob.
