(** RANDOMKEY, TOUCH, OBJECTFREQ, OBJECTIDLETIME ([Model/CmdKeyspace.v]): what the handlers do on the
    keyspace of a server without a memory limit.

    RANDOMKEY, for every resolution of the random choice: the random source is any list of keys (the
    order in which it proposes them); a source is a resolution of the draw [rand.Intn] over the keys of
    the database when it proposes every live key ([covers]).  Then the reply is a live key of the selected
    database, or the empty bulk string exactly when the database has no live key ([randomkey_allowed]; any
    word after the command word is an error, [randomkey_arity]);
    and every live key is the reply under some resolution ([randomkey_complete]).  Whatever the source,
    the state is left as it was, physically ([randomkey_state]).

    TOUCH / OBJECTFREQ / OBJECTIDLETIME run no keyspace primitive at all: state untouched, reply fixed by
    the arity ([touch_exact], [objfreq_exact], [objidletime_exact]). *)
From stdpp Require Import gmap strings.
From EV Require Import Base.Str Model.Value Model.Keyspace Model.Reply Model.Prog Model.CmdKeyspace.
From EV Require Import Proofs.KeyspaceLemmas.
Local Open Scope Z_scope.

Definition is_live (s : state) (d : Z) (k : string) : Prop := is_Some (lentry s d k).
Definition covers (s : state) (d : Z) (cands : keysource) : Prop := forall k, is_live s d k -> k ∈ cands.

(** What RANDOMKEY may answer in database [d] of state [s]. *)
Definition randomkey_outcome (s : state) (d : Z) (r : reply) : Prop :=
  (exists k, r = RBulk k /\ is_live s d k) \/ (r = RBulk "" /\ forall k, ~ is_live s d k).

Lemma randomkey_state cands argv s d : fst (run_seq d (handle_randomkey cands argv) s) = s.
Proof. unfold handle_randomkey. by destruct (negb _). Qed.

Lemma randomkey_arity cands argv s d :
  length argv <> 1%nat -> snd (run_seq d (handle_randomkey cands argv) s) = RErr.
Proof. intros H. unfold handle_randomkey. by rewrite (proj2 (Nat.eqb_neq _ _) H). Qed.

Lemma randomkey_reply cands argv s d :
  length argv = 1%nat ->
  snd (run_seq d (handle_randomkey cands argv) s) = RBulk (first_live (keys_exist s d cands) cands).
Proof. intros H. unfold handle_randomkey. by rewrite H. Qed.

Lemma keys_exist_live s d cands k : keys_exist s d cands k = true <-> k ∈ cands /\ is_live s d k.
Proof.
  rewrite keys_exist_lentry, andb_true_iff, str_in_spec, bool_decide_eq_true. done.
Qed.

(** Whatever the source: a live key it proposed, or empty when no proposed key is live. *)
Theorem randomkey_sound cands argv s d :
  length argv = 1%nat ->
  let r := snd (run_seq d (handle_randomkey cands argv) s) in
  (exists k, r = RBulk k /\ k ∈ cands /\ is_live s d k) \/
  (r = RBulk "" /\ forall k, k ∈ cands -> ~ is_live s d k).
Proof.
  intros Ha. cbv zeta. rewrite randomkey_reply by done. unfold first_live.
  destruct (List.filter _ cands) as [|k l] eqn:E.
  - right. split; [done|]. intros k Hk Hl.
    assert (H : In k (List.filter (fun k => keys_exist s d cands k) cands)).
    { apply filter_In. split; [by apply elem_of_list_In|]. apply keys_exist_live. done. }
    rewrite E in H. done.
  - left. exists k. split; [done|].
    assert (H : In k (List.filter (fun k => keys_exist s d cands k) cands)) by (rewrite E; by left).
    apply filter_In in H as [_ H]. apply keys_exist_live in H. done.
Qed.

Theorem randomkey_allowed cands argv s d :
  length argv = 1%nat -> covers s d cands -> randomkey_outcome s d (snd (run_seq d (handle_randomkey cands argv) s)).
Proof.
  intros Ha Hc. destruct (randomkey_sound cands argv s d Ha) as [(k & Hr & _ & Hl)|[Hr Hn]].
  - left. by exists k.
  - right. split; [done|]. intros k Hl. by apply (Hn k (Hc k Hl)).
Qed.

(** The keys of a database, as a list: a source that proposes every live key exists. *)
Definition all_keys (s : state) (d : Z) : list string := map fst (map_to_list (get_db s d)).

Lemma all_keys_cover s d : covers s d (all_keys s d).
Proof.
  intros k [e He]. unfold lentry in He. destruct (get_db s d !! k) as [e'|] eqn:E; [|done].
  unfold all_keys. apply elem_of_list_fmap. exists (k, e'). split; [done|]. by apply elem_of_map_to_list.
Qed.

Theorem randomkey_complete argv s d k :
  length argv = 1%nat -> is_live s d k ->
  exists cands, covers s d cands /\ snd (run_seq d (handle_randomkey cands argv) s) = RBulk k.
Proof.
  intros Ha Hl. exists (k :: all_keys s d). split.
  - intros k' Hk'. apply elem_of_cons. right. by apply all_keys_cover.
  - rewrite randomkey_reply by done. unfold first_live. cbn [List.filter].
    assert (H : keys_exist s d (k :: all_keys s d) k = true).
    { apply keys_exist_live. split; [apply elem_of_cons; by left|done]. }
    by rewrite H.
Qed.

Theorem randomkey_empty cands argv s d :
  length argv = 1%nat -> (forall k, ~ is_live s d k) -> snd (run_seq d (handle_randomkey cands argv) s) = RBulk "".
Proof.
  intros Ha Hn. destruct (randomkey_sound cands argv s d Ha) as [(k & _ & _ & Hl)|[Hr _]]; [|done]. by destruct (Hn k).
Qed.

(** The reply is a function of the view: a sampler pass or lazy deletions before RANDOMKEY do not show. *)
Theorem randomkey_view cands argv s s' d :
  same_view s s' ->
  snd (run_seq d (handle_randomkey cands argv) s') = snd (run_seq d (handle_randomkey cands argv) s).
Proof.
  intros (Hl & _). unfold handle_randomkey. destruct (negb _); [done|]. cbn [run_seq snd]. f_equal. unfold first_live.
  replace (List.filter (λ k, keys_exist s' d cands k) cands) with (List.filter (λ k, keys_exist s d cands k) cands); [done|].
  apply filter_ext. intros k. by rewrite !keys_exist_lentry, Hl.
Qed.

(** * TOUCH, OBJECTFREQ, OBJECTIDLETIME *)
Theorem touch_exact argv s d :
  run_seq d (handle_touch argv) s = (s, if (length argv <? 2)%nat then RErr else RSimple "0").
Proof. unfold handle_touch. by destruct (_ <? _)%nat. Qed.

Theorem objfreq_exact argv s d : run_seq d (handle_objfreq argv) s = (s, RErr).
Proof. unfold handle_objfreq. by destruct (negb _). Qed.

Theorem objidletime_exact argv s d : run_seq d (handle_objidletime argv) s = (s, RErr).
Proof. unfold handle_objidletime. by destruct (negb _). Qed.
